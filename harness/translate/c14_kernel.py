"""C14 kernel translator: regenerates `coq/Gen/C14_Kernel.v` from the current source on every run (protocol: tools/PHASE2_BRIEF.md
section B; exemplar: c09_kernel.py).  One Gallina `Definition` per *kernel expression* on which the C14 theorems turn.

  pybrops/breed/prot/pt/G_E_Phenotyping.py
    phenotype
      k_value            value = mat + env_effect[None,:] + rep_effect[None,:] + err_effect       the record formula (association kept)
      k_env_label        numpy.repeat(env+1, ntaxa)   (appended to env_ls)                        environment label of a block
      k_rep_label        numpy.repeat(rep+1, ntaxa)   (appended to rep_ls)                        replicate label of a block
      k_env_loop         for env,env_nrep in zip(range(self.nenv),self.nrep)                      which (environment, replicate count) pairs are visited
      k_rep_loop         for rep in range(env_nrep)                                               which replicates are visited
      k_nrep_short       check_ndarray_len_gteq(self.nrep, "nrep", self.nenv)  /  `len(v) < vlen` the refusal test, with the call's argument order
      k_effect_sd        env/rep/err effect <- rng.multivariate_normal(<x>_mean, <x>_cov[, ntaxa]), <x>_cov = numpy.diag(self.var_<y>),
                         <x>_mean = numpy.full(len(self.var_<y>), 0.0, float): which variance parameter scales which effect
      k_label_cols       keys of the label data frame, in order
      k_ge_taxa_* / k_ge_trait_*   prefix, index expression and zero-fill width of the generated TaxonNN / TraitN names
    set_h2 / set_H2
      k_h2_err / k_H2_err   self.var_err = (1.0 - h2) / h2 * var_A      (a quotient by h2, times the variance; assigned to var_err)
      k_h2_broad / k_H2_broad   var_A = self.gpmod.var_A(pgmat) / var_G = self.gpmod.var_G(pgmat): which population variance the setter reads
    nenv setter
      k_nenv_rebroadcast    nrep is not None and len(nrep) != value and numpy.all(nrep == nrep[0])
      k_nenv_full           self._nrep = numpy.full(value, nrep[0], nrep.dtype)
    nrep setter
      k_nrep_full           value = numpy.full(self.nenv, value, int)
    var_env / var_rep / var_err setters
      k_var_<x>_none / k_var_<x>_scalar    numpy.full(self.gpmod.ntrait, 0.0 | value, float)
  pybrops/breed/prot/pt/TruePhenotyping.py phenotype
      k_tp_taxa_* / k_tp_trait_*   as k_ge_*;   k_tp_has_grp_col   `if gvmat.taxa_grp is not None` (the group column exists only then)
      k_tp_taxa_copied   labels_dict["taxa"] = <generated> if gvmat.taxa is None else numpy.array(gvmat.taxa): is the taxa column a fresh
                         array (true) or the population's own array (false)?  Proofs/C14_Kernel.v needs `true` for the isolation theorem
  pybrops/breed/prot/bv/MeanPhenotypicBreedingValue.py estimate
      k_by_grp           if self.taxa_grp_col is not None and gtobj is None: by.append(self.taxa_grp_col)
      k_dropna, k_as_index, k_agg      keywords of groupby / the aggregation function
      k_join_dst, k_join_src, k_join_key    mat[i,:] = agg_df_mat[ix,:] with ix = hashtable[taxon], for i,taxon in enumerate(gtobj.taxa)
      k_est_gt_out       from_numpy(mat = mat, taxa = gtobj.taxa, taxa_grp = gtobj.taxa_grp, trait = numpy.array(self.trait_cols, ...))
      k_est_nogt_out     from_numpy(mat, taxa, taxa_grp, trait) of the branch without a genotype matrix (which column feeds which label)
  pybrops/breed/prot/bv/TrueBreedingValue.py estimate
      k_true_bv_arg      bvmat = self.gpmod.gebv(gtobj): the genotypes handed to the model are the second argument

`Proofs/C14_Kernel.v` links every definition to the hand model (reflexivity where the terms coincide, otherwise a short proof
that depends on the generated term) and restates the cell / calibration / alignment statements about the generated definitions;
`Props/C14.v` carries them as `C14_kernel_*` theorems.  Fail closed: every selector demands exactly one match, statement lists
around the kernels must have exactly the recorded shape, every name must be bound by the environment given here.
"""
import ast, os, hashlib
from translate import pyexpr as P
from translate.kernelkit import bind

GE = "pybrops/breed/prot/pt/G_E_Phenotyping.py"
TP = "pybrops/breed/prot/pt/TruePhenotyping.py"
MP = "pybrops/breed/prot/bv/MeanPhenotypicBreedingValue.py"
TB = "pybrops/breed/prot/bv/TrueBreedingValue.py"
ERRNP = "pybrops/core/error/error_value_numpy.py"

U = P.Untranslatable


def _src(e):
    return ast.unparse(e)


def _body(fn):
    b = list(fn.body)
    if b and isinstance(b[0], ast.Expr) and isinstance(b[0].value, ast.Constant) and isinstance(b[0].value.value, str):
        b = b[1:]
    return b


def _stmts_are(where, stmts, expected):
    """exact statement texts; an entry `target = ...` fixes only the target and `f(...)` only the function called (the value /
    the argument is a kernel translated separately)"""
    got = [ast.unparse(s) for s in stmts]
    ok = len(got) == len(expected)
    if ok:
        for g, e in zip(got, expected):
            if e.endswith(" = ..."):
                ok = ok and g.startswith(e[:-3]) and "\n" not in g
            elif e.endswith("(...)"):
                ok = ok and g.startswith(e[:-4]) and "\n" not in g
            else:
                ok = ok and g == e
    if not ok:
        raise U("%s: the statement sequence is no longer the one this translator describes:\n  found    %s\n  expected %s" % (where, got, expected))


def _setter(repo, rel, cls, prop):
    """the FunctionDef decorated `@<prop>.setter` in class cls"""
    tree = P.parse_file(repo, rel)
    for node in tree.body:
        if isinstance(node, ast.ClassDef) and node.name == cls:
            hits = [n for n in node.body if isinstance(n, ast.FunctionDef) and n.name == prop
                    and any(ast.unparse(d) == prop + ".setter" for d in n.decorator_list)]
            if len(hits) != 1:
                raise U("%s: expected exactly one setter of %s.%s, found %d" % (rel, cls, prop, len(hits)))
            return hits[0]
    raise U("%s: no class %s" % (rel, cls))


def _method(repo, rel, cls, name):
    """the undecorated method (a property getter of the same name is refused)"""
    fn = P.find_function(repo, rel, cls + "." + name)
    if fn.decorator_list:
        raise U("%s.%s is decorated: not the method this translator describes" % (cls, name))
    return fn


def _one(what, items):
    if len(items) != 1:
        raise U("expected exactly one %s, found %d" % (what, len(items)))
    return items[0]


def _call_stmt_arg(fn, func_text, nargs):
    """the argument list of the single expression statement `func_text(...)` in fn"""
    hits = [n.value for n in ast.walk(fn) if isinstance(n, ast.Expr) and isinstance(n.value, ast.Call) and ast.unparse(n.value.func) == func_text]
    c = _one("statement %s(...) in %s" % (func_text, fn.name), hits)
    if len(c.args) != nargs or c.keywords:
        raise U("%s: %s is called with other arguments: %s" % (fn.name, func_text, ast.unparse(c)))
    return c.args


def _np_call(expr, func_text, nargs, kw=()):
    if not (isinstance(expr, ast.Call) and ast.unparse(expr.func) == func_text and len(expr.args) == nargs
            and sorted(k.arg for k in expr.keywords) == sorted(kw)):
        raise U("expected %s with %d positional arguments and keywords %s: %s" % (func_text, nargs, list(kw), ast.unparse(expr)))
    return expr.args, {k.arg: k.value for k in expr.keywords}


def _coq_str(s):
    if '"' in s or "\\" in s or any(ord(c) < 32 or ord(c) > 126 for c in s):
        raise U("string constant %r" % s)
    return '"%s"%%string' % s


def _str_const(e):
    if not (isinstance(e, ast.Constant) and isinstance(e.value, str)):
        raise U("expected a string constant: " + ast.unparse(e))
    return e.value


def _bool_const(e):
    if not (isinstance(e, ast.Constant) and isinstance(e.value, bool)):
        raise U("expected True/False: " + ast.unparse(e))
    return "true" if e.value else "false"


def _for_loops(stmts):
    return [s for s in stmts if isinstance(s, ast.For)]


def _list_expr(e, env):
    """the iterable of a for loop as a Gallina list: range(a) -> seq 0 a ; zip(a, b) -> combine a b ; bound names"""
    txt = ast.unparse(e)
    if txt in env:
        return env[txt]
    if isinstance(e, ast.Call) and not e.keywords and ast.unparse(e.func) == "range" and len(e.args) == 1:
        a = ast.unparse(e.args[0])
        if a not in env:
            raise U("range(%s): not bound" % a)
        return "(List.seq 0 %s)" % env[a]
    if isinstance(e, ast.Call) and not e.keywords and ast.unparse(e.func) == "zip" and len(e.args) == 2:
        return "(List.combine %s %s)" % (_list_expr(e.args[0], env), _list_expr(e.args[1], env))
    raise U("iterable %s is outside the fragment (range / zip / bound names)" % txt)


# --------------------------------------------------------------------------------------------- generated label names
def _label_kernels(defs, tag, where, fn, width_var, label_target_expr, count_attr, none_attr, prefix_expected_cls=None, copy_kernel=False):
    """<width_var> = math.ceil(math.log10(<count_attr>)) + 1
       <labels>   = [numpy.array(]["P" + str(i + 1).zfill(<width_var>) for i in range(<count_attr>)][, dtype=object)] if <none_attr> is None else <none_attr>
       with copy_kernel the else branch may also be `numpy.array(<none_attr>)` (one positional argument, no keyword: numpy.array copies by
       default; `copy=False`, numpy.asarray, a view or a slice are refused) and a definition k_<tag>_copied : bool says which of the two it is"""
    Zc = lambda env: P.Ctx("Z", env)
    e = P.the_assignment(fn, width_var)
    clog = "math.ceil(math.log10(%s))" % count_attr
    defs.append(P.definition("k_%s_width" % tag, [("clog", "Z")], "Z", P.to_coq(bind(e, {clog: "clog"}), Zc({"clog": "clog"})),
                             "%s: %s = %s   (clog = ceil(log10(%s)))" % (where, width_var, _src(e), count_attr)))
    x = label_target_expr
    if not (isinstance(x, ast.IfExp) and ast.unparse(x.test) == "%s is None" % none_attr):
        raise U("%s: labels are no longer `<generated> if %s is None else ...`: %s" % (where, none_attr, _src(x)))
    if copy_kernel:
        o = x.orelse
        if ast.unparse(o) == none_attr:
            copied = "false"
        elif (isinstance(o, ast.Call) and ast.unparse(o.func) == "numpy.array" and len(o.args) == 1 and not o.keywords
              and ast.unparse(o.args[0]) == none_attr):
            copied = "true"
        else:
            raise U("%s: explicit labels are neither `%s` nor `numpy.array(%s)`: %s" % (where, none_attr, none_attr, _src(o)))
        defs.append(P.definition("k_%s_copied" % tag, [], "bool", copied,
                                 "%s: ... if %s is None else %s   (true: a fresh array; false: the population's own array)" % (where, none_attr, _src(o))))
    elif ast.unparse(x.orelse) != none_attr:
        raise U("%s: labels are no longer `<generated> if %s is None else %s`: %s" % (where, none_attr, none_attr, _src(x)))
    g = x.body
    if isinstance(g, ast.Call) and ast.unparse(g.func) == "numpy.array":
        a, kw = _np_call(g, "numpy.array", 1, ("dtype",))
        g = a[0]
    if not (isinstance(g, ast.ListComp) and len(g.generators) == 1 and not g.generators[0].ifs
            and ast.unparse(g.generators[0].target) == "i" and ast.unparse(g.generators[0].iter) == "range(%s)" % count_attr):
        raise U("%s: generated labels are not a comprehension over range(%s): %s" % (where, count_attr, _src(x)))
    el = g.elt
    if not (isinstance(el, ast.BinOp) and isinstance(el.op, ast.Add) and isinstance(el.right, ast.Call) and isinstance(el.right.func, ast.Attribute)
            and el.right.func.attr == "zfill" and len(el.right.args) == 1 and ast.unparse(el.right.args[0]) == width_var
            and isinstance(el.right.func.value, ast.Call) and ast.unparse(el.right.func.value.func) == "str" and len(el.right.func.value.args) == 1):
        raise U("%s: a generated label is no longer prefix + str(<index>).zfill(%s): %s" % (where, width_var, _src(el)))
    defs.append(P.definition("k_%s_prefix" % tag, [], "String.string", _coq_str(_str_const(el.left)), "%s: %s" % (where, _src(el))))
    defs.append(P.definition("k_%s_index" % tag, [("i", "Z")], "Z", P.to_coq(el.right.func.value.args[0], Zc({"i": "i"})), "%s: %s" % (where, _src(el))))


# --------------------------------------------------------------------------------------------- G_E_Phenotyping
def _ge_phenotype(repo, defs):
    Q = lambda env: P.Ctx("Q", env)
    Zc = lambda env: P.Ctx("Z", env)
    fn = _method(repo, GE, "G_E_Phenotyping", "phenotype")
    body = _body(fn)
    env_loop = _one("top-level for loop in G_E_Phenotyping.phenotype", _for_loops(body))
    if env_loop.orelse:
        raise U("phenotype: for/else")
    # ---- the refusal test, with the argument order of the call
    args = _call_stmt_arg(fn, "check_ndarray_len_gteq", 3)
    helper = P.find_function(repo, ERRNP, "check_ndarray_len_gteq")
    hp = [a.arg for a in helper.args.args]
    hb = _body(helper)
    if hp != ["v", "vname", "vlen"] or len(hb) != 1 or not isinstance(hb[0], ast.If) or hb[0].orelse or not isinstance(hb[0].body[0], ast.Raise):
        raise U("check_ndarray_len_gteq: no longer `if <test>: raise`")
    call_env = {"v": ast.unparse(args[0]), "vlen": ast.unparse(args[2])}
    if call_env["v"] != "self.nrep" or call_env["vlen"] != "self.nenv":
        raise U("phenotype: check_ndarray_len_gteq is called with %s" % call_env)
    defs.append(P.definition("k_nrep_short", [("len_nrep", "Z"), ("nenv", "Z")], "bool",
                             P.to_coq(bind(hb[0].test, {"len(v)": "lenv"}), Zc({"lenv": "len_nrep", "vlen": "nenv"}), "bool"),
                             "phenotype: check_ndarray_len_gteq(%s) raises iff %s" % (", ".join(ast.unparse(a) for a in args), _src(hb[0].test))))
    # the guard comes before the genotypic values are computed and before any draw
    pre = body[:body.index(env_loop)]
    pre_txt = [ast.unparse(s) for s in pre]
    for must in ("check_ndarray_len_gteq(self.nrep, 'nrep', self.nenv)", "gvmat = self.gpmod.gegv(pgmat)"):
        if pre_txt.count(must) != 1:
            raise U("phenotype: expected exactly one top-level statement `%s` before the loop (a cached / conditional computation is outside the fragment)" % must)
    ig, iv = pre_txt.index("check_ndarray_len_gteq(self.nrep, 'nrep', self.nenv)"), pre_txt.index("gvmat = self.gpmod.gegv(pgmat)")
    if not ig < iv:
        raise U("phenotype: the nrep length check no longer precedes the computation")
    for must in ("mat = gvmat.unscale()", "ntaxa = gvmat.ntaxa", "taxa_grp = None if gvmat.taxa_grp is None else gvmat.taxa_grp",
                 "taxa_ls = []", "taxa_grp_ls = None if gvmat.taxa_grp is None else []", "env_ls = []", "rep_ls = []", "values_ls = []"):
        if pre_txt.count(must) != 1:
            raise U("phenotype: expected exactly one statement `%s` before the loop" % must)
    # ---- loops
    if ast.unparse(env_loop.target) != "(env, env_nrep)":
        raise U("phenotype: environment loop target %s" % ast.unparse(env_loop.target))
    defs.append(P.definition("k_env_loop", [("nenv", "nat"), ("nrep", "list nat")], "list (nat * nat)",
                             _list_expr(env_loop.iter, {"self.nenv": "nenv", "self.nrep": "nrep"}),
                             "phenotype: for env, env_nrep in %s" % _src(env_loop.iter)))
    _stmts_are("phenotype (environment loop)", env_loop.body[:1], ["env_effect = ..."])
    rep_loop = _one("replicate loop", _for_loops(env_loop.body))
    if len(env_loop.body) != 2 or env_loop.body[1] is not rep_loop or rep_loop.orelse or ast.unparse(rep_loop.target) != "rep":
        raise U("phenotype: the environment loop is no longer `env_effect = ...; for rep in ...`")
    defs.append(P.definition("k_rep_loop", [("env_nrep", "nat")], "list nat", _list_expr(rep_loop.iter, {"env_nrep": "env_nrep"}),
                             "phenotype: for rep in %s" % _src(rep_loop.iter)))
    _stmts_are("phenotype (replicate loop)", rep_loop.body,
               ["rep_effect = ...", "err_effect = ...", "value = ...", "taxa_ls.append(taxa)",
                "if taxa_grp_ls is not None:\n    taxa_grp_ls.append(taxa_grp)",
                "env_ls.append(...)", "rep_ls.append(...)",
                "values_ls.append(value)"])
    # ---- the record formula
    e = P.the_assignment(fn, "value")
    defs.append(P.definition("k_value", [("m", "Q"), ("e", "Q"), ("r", "Q"), ("x", "Q")], "Q",
                             P.to_coq(e, Q({"mat": "m", "env_effect[None, :]": "e", "rep_effect[None, :]": "r", "err_effect": "x"})),
                             "phenotype: value = %s" % _src(e)))
    # ---- env / rep labels of a block
    for nm in ("env", "rep"):
        a, _ = _np_call(_call_stmt_arg(fn, nm + "_ls.append", 1)[0], "numpy.repeat", 2)
        if ast.unparse(a[1]) != "ntaxa":
            raise U("phenotype: the %s label is repeated %s times" % (nm, ast.unparse(a[1])))
        defs.append(P.definition("k_%s_label" % nm, [(nm, "Z")], "Z", P.to_coq(a[0], Zc({nm: nm})),
                                 "phenotype: %s_ls.append(numpy.repeat(%s, ntaxa))" % (nm, _src(a[0]))))
    # ---- which variance parameter scales which effect
    var_of = {}
    sizes = {"env": None, "rep": None, "err": "ntaxa"}
    for nm in ("env", "rep", "err"):
        draw = P.the_assignment(fn, nm + "_effect")
        a, _ = _np_call(draw, "self.rng.multivariate_normal", 2 if sizes[nm] is None else 3)
        if [ast.unparse(x) for x in a] != [nm + "_mean", nm + "_cov"] + ([] if sizes[nm] is None else [sizes[nm]]):
            raise U("phenotype: %s_effect is drawn as %s" % (nm, _src(draw)))
        ca, _ = _np_call(P.the_assignment(fn, nm + "_cov"), "numpy.diag", 1)
        attr = ast.unparse(ca[0])
        ma, _ = _np_call(P.the_assignment(fn, nm + "_mean"), "numpy.full", 3)
        if [ast.unparse(x) for x in ma] != ["len(%s)" % attr, "0.0", "float"]:
            raise U("phenotype: %s_mean = %s does not match %s_cov = numpy.diag(%s)" % (nm, _src(P.the_assignment(fn, nm + "_mean")), nm, attr))
        table = {"self.var_env": "sd_env", "self.var_rep": "sd_rep", "self.var_err": "sd_err"}
        if attr not in table:
            raise U("phenotype: %s_cov is built from %s" % (nm, attr))
        var_of[nm] = (table[attr], attr)
    defs.append(P.definition("k_effect_sd", [("A", "Type"), ("sd_env", "A"), ("sd_rep", "A"), ("sd_err", "A")], "A * A * A",
                             "(%s, %s, %s)" % (var_of["env"][0], var_of["rep"][0], var_of["err"][0]),
                             "phenotype: env_cov = numpy.diag(%s); rep_cov = numpy.diag(%s); err_cov = numpy.diag(%s)  (sd_x: the square root of var_x)"
                             % (var_of["env"][1], var_of["rep"][1], var_of["err"][1])))
    # ---- after the loop: env-major concatenation of the blocks, label columns
    post = body[body.index(env_loop) + 1:]
    post_txt = [ast.unparse(s) for s in post]
    for must in ("taxa_vt = numpy.concatenate(taxa_ls)", "taxa_grp_vt = None if taxa_grp_ls is None else numpy.concatenate(taxa_grp_ls)",
                 "env_vt = numpy.concatenate(env_ls)", "rep_vt = numpy.concatenate(rep_ls)", "values_mt = numpy.concatenate(values_ls, axis=0)",
                 "values_df = pandas.DataFrame(data=values_mt, columns=cols)", "out_df = pandas.concat([labels_df, values_df], axis=1)", "return out_df"):
        if post_txt.count(must) != 1:
            raise U("phenotype: expected exactly one statement `%s` after the loop" % must)
    ld = P.the_assignment(fn, "labels_df")
    a, _ = _np_call(ld, "pandas.DataFrame", 1)
    if not isinstance(a[0], ast.Dict):
        raise U("phenotype: labels_df is not built from a dict literal")
    cols = [(_str_const(k), ast.unparse(v)) for k, v in zip(a[0].keys, a[0].values)]
    for k, v in cols:
        if v != k + "_vt":
            raise U("phenotype: label column %r is filled from %s" % (k, v))
    defs.append(P.definition("k_label_cols", [], "list String.string", "[%s]" % "; ".join(_coq_str(k) for k, _ in cols),
                             "phenotype: labels_df = %s" % _src(ld)))
    # ---- generated names
    _label_kernels(defs, "ge_taxa", "G_E_Phenotyping.phenotype", fn, "taxazfill", P.the_assignment(fn, "taxa"), "gvmat.ntaxa", "gvmat.taxa")
    _label_kernels(defs, "ge_trait", "G_E_Phenotyping.phenotype", fn, "traitzfill", P.the_assignment(fn, "cols"), "gvmat.ntrait", "gvmat.trait")


def _ge_setters(repo, defs):
    Q = lambda env: P.Ctx("Q", env)
    Zc = lambda env, b=None: P.Ctx("Z", env, bool_env=b)
    # ---- set_h2 / set_H2
    for name, arg, var in (("set_h2", "h2", "var_A"), ("set_H2", "H2", "var_G")):
        fn = _method(repo, GE, "G_E_Phenotyping", name)
        _stmts_are("G_E_Phenotyping." + name, _body(fn),
                   ["check_is_PhasedGenotypeMatrix(pgmat, 'pgmat')", "%s = self.gpmod.%s(pgmat)" % (var, var), "self.var_err = ..."])
        e = P.the_assignment(fn, "self.var_err")
        defs.append(P.definition("k_%s_err" % arg, [("h", "Q"), ("v", "Q")], "Q", P.to_coq(e, Q({arg: "h", var: "v"})),
                                 "%s: self.var_err = %s   (%s = self.gpmod.%s(pgmat))" % (name, _src(e), var, var)))
        # which population variance the setter reads: self.gpmod.var_A(pgmat) (breeding values) or self.gpmod.var_G(pgmat)
        # (genotypic values: with a dominance model the design [A | D])
        srcs = [n.value for n in ast.walk(fn) if isinstance(n, ast.Assign) and len(n.targets) == 1 and ast.unparse(n.targets[0]) == var]
        c = _one("assignment to %s in %s" % (var, name), srcs)
        if not (isinstance(c, ast.Call) and ast.unparse(c.func) in ("self.gpmod.var_A", "self.gpmod.var_G")
                and [ast.unparse(a) for a in c.args] == ["pgmat"] and not c.keywords):
            raise U("%s: %s is no longer self.gpmod.var_A(pgmat) / self.gpmod.var_G(pgmat): %s" % (name, var, _src(c)))
        used = [n.id for n in ast.walk(e) if isinstance(n, ast.Name) and n.id.startswith("var_")]
        if used != [var]:
            raise U("%s: the error variance is computed from %r, not from %s alone" % (name, used, var))
        defs.append(P.definition("k_%s_broad" % arg, [], "bool", "true" if ast.unparse(c.func) == "self.gpmod.var_G" else "false",
                                 "%s: %s = %s  (false: variance of the breeding values, true: of the genotypic values)" % (name, var, _src(c))))
    # ---- nenv setter
    fn = _setter(repo, GE, "G_E_Phenotyping", "nenv")
    b = _body(fn)
    _stmts_are("nenv setter", b[:4], ["check_is_Integral(value, 'nenv')", "check_is_gt(value, 'nenv', 0)", "self._nenv = value", "nrep = getattr(self, '_nrep', None)"])
    if len(b) != 5 or not isinstance(b[4], ast.If) or b[4].orelse or len(b[4].body) != 1:
        raise U("nenv setter: expected a single trailing `if <test>: self._nrep = ...`")
    t = bind(b[4].test, {"nrep is not None": "has_nrep", "len(nrep)": "len_nrep", "numpy.all(nrep == nrep[0])": "uniform"})
    defs.append(P.definition("k_nenv_rebroadcast", [("has_nrep", "bool"), ("len_nrep", "Z"), ("value", "Z"), ("uniform", "bool")], "bool",
                             P.to_coq(t, Zc({"len_nrep": "len_nrep", "value": "value"}, {"has_nrep": "has_nrep", "uniform": "uniform"}), "bool"),
                             "nenv setter: if %s" % _src(b[4].test)))
    e = P.the_assignment(fn, "self._nrep")
    a, _ = _np_call(e, "numpy.full", 3)
    if [ast.unparse(x) for x in a] != ["value", "nrep[0]", "nrep.dtype"]:
        # the arguments may be permuted: translate what is there (size first, fill second)
        pass
    env = {"value": "value", "nrep[0]": "nrep0"}
    for x in a[:2]:
        if ast.unparse(x) not in env:
            raise U("nenv setter: numpy.full argument %s" % ast.unparse(x))
    defs.append(P.definition("k_nenv_full", [("value", "nat"), ("nrep0", "nat")], "list nat",
                             "(List.repeat %s %s)" % (env[ast.unparse(a[1])], env[ast.unparse(a[0])]), "nenv setter: self._nrep = %s" % _src(e)))
    # ---- nrep setter (integer branch)
    fn = _setter(repo, GE, "G_E_Phenotyping", "nrep")
    b = _body(fn)
    if not (len(b) == 2 and isinstance(b[0], ast.If) and ast.unparse(b[0].test) == "isinstance(value, Integral)" and ast.unparse(b[1]) == "self._nrep = value"):
        raise U("nrep setter: shape changed")
    _stmts_are("nrep setter (integer)", b[0].body, ["check_is_gt(value, 'nrep', 0)", "value = ..."])
    arr = b[0].orelse
    if not (len(arr) == 1 and isinstance(arr[0], ast.If) and ast.unparse(arr[0].test) == "isinstance(value, numpy.ndarray)"):
        raise U("nrep setter: array branch changed")
    _stmts_are("nrep setter (array)", arr[0].body[:4], ["check_ndarray_dtype_is_integer(value, 'nrep')", "check_ndarray_ndim(value, 'nrep', 1)",
                                                       "check_ndarray_size(value, 'nrep', self.nenv)", "check_ndarray_all_gt(value, 'nrep', 0)"])
    e = b[0].body[1].value
    a, _ = _np_call(e, "numpy.full", 3)
    env = {"self.nenv": "nenv", "value": "value"}
    for x in a[:2]:
        if ast.unparse(x) not in env:
            raise U("nrep setter: numpy.full argument %s" % ast.unparse(x))
    defs.append(P.definition("k_nrep_full", [("nenv", "nat"), ("value", "nat")], "list nat",
                             "(List.repeat %s %s)" % (env[ast.unparse(a[1])], env[ast.unparse(a[0])]), "nrep setter: value = %s" % _src(e)))
    # ---- variance setters
    for nm in ("env", "rep", "err"):
        fn = _setter(repo, GE, "G_E_Phenotyping", "var_" + nm)
        b = _body(fn)
        if not (len(b) == 3 and isinstance(b[0], ast.If) and ast.unparse(b[0].test) == "value is None" and isinstance(b[1], ast.If)
                and ast.unparse(b[1].test) == "isinstance(value, Real)" and ast.unparse(b[2]) == "self._var_%s = value" % nm):
            raise U("var_%s setter: shape changed" % nm)
        _stmts_are("var_%s setter (None)" % nm, b[0].body, ["value = ..."])
        _stmts_are("var_%s setter (scalar)" % nm, b[1].body, ["check_is_gteq(value, 'var_%s', 0)" % nm, "value = ..."])
        for tag, e, env in (("none", b[0].body[0].value, {"self.gpmod.ntrait": "t"}), ("scalar", b[1].body[1].value, {"self.gpmod.ntrait": "t", "value": "value"})):
            a, _ = _np_call(e, "numpy.full", 3)
            if ast.unparse(a[0]) not in env:
                raise U("var_%s setter: size %s" % (nm, ast.unparse(a[0])))
            fill = P.to_coq(a[1], Q({"value": "value"}))
            defs.append(P.definition("k_var_%s_%s" % (nm, tag), [("t", "nat")] + ([("value", "Q")] if tag == "scalar" else []), "list Q",
                                     "(List.repeat %s %s)" % (fill, env[ast.unparse(a[0])]), "var_%s setter: value = %s" % (nm, _src(e))))


# --------------------------------------------------------------------------------------------- TruePhenotyping
def _true_phenotype(repo, defs):
    fn = _method(repo, TP, "TruePhenotyping", "phenotype")
    b = _body(fn)
    txt = [ast.unparse(s) for s in b]
    for must in ("gvmat = self.gpmod.gegv(pgmat)", "labels_dict = {}", "labels_df = pandas.DataFrame(labels_dict)", "mat = gvmat.unscale()",
                 "values_df = pandas.DataFrame(data=mat, columns=cols)", "out_df = pandas.concat([labels_df, values_df], axis=1)", "return out_df"):
        if txt.count(must) != 1:
            raise U("TruePhenotyping.phenotype: expected exactly one statement `%s`, found %s" % (must, txt))
    ifs = [s for s in b if isinstance(s, ast.If)]
    grp_if = [s for s in ifs if [ast.unparse(x) for x in s.body] == ["labels_dict['taxa_grp'] = gvmat.taxa_grp"]]
    s = _one("`if ...: labels_dict['taxa_grp'] = gvmat.taxa_grp` in TruePhenotyping.phenotype", grp_if)
    if s.orelse:
        raise U("TruePhenotyping.phenotype: else branch on the group column")
    defs.append(P.definition("k_tp_has_grp_col", [("grp_is_none", "bool")], "bool",
                             P.to_coq(bind(s.test, {"gvmat.taxa_grp is not None": "has_grp"}), P.Ctx("Z", {}, bool_env={"has_grp": "(negb grp_is_none)"}), "bool"),
                             "TruePhenotyping.phenotype: if %s: labels_dict['taxa_grp'] = gvmat.taxa_grp" % _src(s.test)))
    _label_kernels(defs, "tp_taxa", "TruePhenotyping.phenotype", fn, "taxazfill", P.the_assignment(fn, "labels_dict['taxa']"), "gvmat.ntaxa", "gvmat.taxa", copy_kernel=True)
    _label_kernels(defs, "tp_trait", "TruePhenotyping.phenotype", fn, "traitzfill", P.the_assignment(fn, "cols"), "gvmat.ntrait", "gvmat.trait")


# --------------------------------------------------------------------------------------------- MeanPhenotypicBreedingValue
def _mean_estimate(repo, defs):
    Zc = lambda env: P.Ctx("Z", env)
    fn = _method(repo, MP, "MeanPhenotypicBreedingValue", "estimate")
    b = _body(fn)
    # ---- group-by keys
    e = P.the_assignment(fn, "by")
    if ast.unparse(e) != "[self.taxa_col]":
        raise U("estimate: by = %s" % _src(e))
    by_if = [s for s in b if isinstance(s, ast.If) and [ast.unparse(x) for x in s.body] == ["by.append(self.taxa_grp_col)"]]
    s = _one("`if ...: by.append(self.taxa_grp_col)`", by_if)
    if s.orelse or len([n for n in ast.walk(fn) if isinstance(n, ast.Call) and ast.unparse(n.func) in ("by.append", "by.extend", "by.insert")]) != 1:
        raise U("estimate: the group-by key list is extended elsewhere")
    t = bind(s.test, {"self.taxa_grp_col is not None": "use_grp", "gtobj is None": "gt_absent"})
    defs.append(P.definition("k_by_grp", [("use_grp", "bool"), ("gt_absent", "bool")], "bool",
                             P.to_coq(t, P.Ctx("Z", {}, bool_env={"use_grp": "use_grp", "gt_absent": "gt_absent"}), "bool"),
                             "estimate: if %s: by.append(self.taxa_grp_col)" % _src(s.test)))
    # ---- groupby(by, as_index=False, dropna=False).agg({trait: "mean" ...})
    e = P.the_assignment(fn, "agg_df")
    if not (isinstance(e, ast.Call) and isinstance(e.func, ast.Attribute) and e.func.attr == "agg" and len(e.args) == 1 and not e.keywords):
        raise U("estimate: agg_df = %s" % _src(e))
    gb = e.func.value
    if not (isinstance(gb, ast.Call) and ast.unparse(gb.func) == "ptobj.groupby"):
        raise U("estimate: aggregation is not on ptobj.groupby(...)")
    a, kw = _np_call(gb, "ptobj.groupby", 1, ("as_index", "dropna"))
    if ast.unparse(a[0]) != "by":
        raise U("estimate: groupby(%s)" % ast.unparse(a[0]))
    defs.append(P.definition("k_dropna", [], "bool", _bool_const(kw["dropna"]), "estimate: %s" % _src(gb)))
    defs.append(P.definition("k_as_index", [], "bool", _bool_const(kw["as_index"]), "estimate: %s" % _src(gb)))
    d = e.args[0]
    if not (isinstance(d, ast.Call) and ast.unparse(d.func) == "dict" and len(d.args) == 1 and isinstance(d.args[0], ast.GeneratorExp)
            and isinstance(d.args[0].elt, ast.Tuple) and len(d.args[0].elt.elts) == 2 and ast.unparse(d.args[0].elt.elts[0]) == "trait"
            and len(d.args[0].generators) == 1 and ast.unparse(d.args[0].generators[0].iter) == "self.trait_cols"
            and ast.unparse(d.args[0].generators[0].target) == "trait" and not d.args[0].generators[0].ifs):
        raise U("estimate: aggregation specification %s" % _src(d))
    defs.append(P.definition("k_agg", [], "String.string", _coq_str(_str_const(d.args[0].elt.elts[1])), "estimate: .agg(%s)" % _src(d)))
    # ---- branch without a genotype matrix
    nogt = _one("`if gtobj is None:` branch", [s for s in b if isinstance(s, ast.If) and ast.unparse(s.test) == "gtobj is None"])
    _stmts_are("estimate (no genotype matrix)", nogt.body,
               ["mat = agg_df[self.trait_cols].to_numpy(dtype=float)", "taxa = agg_df[self.taxa_col].to_numpy(dtype=object)",
                "taxa_grp = None if self.taxa_grp_col is None else agg_df[self.taxa_grp_col].to_numpy(dtype=int)",
                "trait = numpy.array(self.trait_cols, dtype=object)", "out = ...", "return out"])
    a, kw = _np_call(nogt.body[4].value, "DenseEstimatedBreedingValueMatrix.from_numpy", 0, ("mat", "taxa", "taxa_grp", "trait"))
    env = {"mat": "means", "taxa": "key_taxa", "taxa_grp": "key_grp", "trait": "tcols"}
    for k in kw:
        if ast.unparse(kw[k]) not in env:
            raise U("estimate (no genotype matrix): %s = %s" % (k, ast.unparse(kw[k])))
    defs.append(P.definition("k_est_nogt_out", [("T", "Type"), ("G", "Type"), ("C", "Type"), ("M", "Type"), ("key_taxa", "T"), ("key_grp", "G"), ("tcols", "C"), ("means", "M")],
                             "T * G * C * M" if [env[ast.unparse(kw[k])] for k in ("taxa", "taxa_grp", "trait", "mat")] == ["key_taxa", "key_grp", "tcols", "means"] else "_",
                             "(%s, %s, %s, %s)" % tuple(env[ast.unparse(kw[k])] for k in ("taxa", "taxa_grp", "trait", "mat")),
                             "estimate (no genotype matrix): %s" % _src(nogt.body[4].value)))
    # ---- branch with a genotype matrix: hash join onto the genotype order
    rest = b[b.index(nogt) + 1:]
    txt = [ast.unparse(s) for s in rest]
    for must in ("check_is_GenotypeMatrix(gtobj, 'gtobj')", "check_GenotypeMatrix_has_taxa(gtobj, 'gtobj')", "agg_df_mat = agg_df[self.trait_cols].to_numpy()",
                 "agg_df_taxa = agg_df[self.taxa_col].to_numpy()", "agg_df_taxa_hashtable = dict(zip(agg_df_taxa, range(len(agg_df_taxa))))",
                 "ntaxa = gtobj.ntaxa", "ntrait = len(self.trait_cols)", "mat = numpy.full((ntaxa, ntrait), numpy.nan, dtype=float)", "return out"):
        if txt.count(must) != 1:
            raise U("estimate (genotype matrix): expected exactly one statement `%s`" % must)
    loop = _one("join loop", _for_loops(rest))
    if ast.unparse(loop.target) != "(i, taxon)" or ast.unparse(loop.iter) != "enumerate(gtobj.taxa)" or loop.orelse:
        raise U("estimate: join loop is `for %s in %s`" % (ast.unparse(loop.target), ast.unparse(loop.iter)))
    tr = loop.body
    if not (len(tr) == 1 and isinstance(tr[0], ast.Try) and len(tr[0].handlers) == 1 and ast.unparse(tr[0].handlers[0].type) == "KeyError"
            and [ast.unparse(x) for x in tr[0].handlers[0].body] == ["continue"] and not tr[0].orelse and not tr[0].finalbody and len(tr[0].body) == 2):
        raise U("estimate: join loop body changed")
    s_ix, s_cp = tr[0].body
    if not (isinstance(s_ix, ast.Assign) and ast.unparse(s_ix.targets[0]) == "ix" and isinstance(s_ix.value, ast.Subscript)
            and ast.unparse(s_ix.value.value) == "agg_df_taxa_hashtable"):
        raise U("estimate: join index statement %s" % ast.unparse(s_ix))
    key = ast.unparse(s_ix.value.slice)
    if key not in ("taxon", "i"):
        raise U("estimate: join key %s" % key)
    defs.append(P.definition("k_join_key", [("i", "nat"), ("taxon", "String.string")], "String.string" if key == "taxon" else "nat", key,
                             "estimate: %s" % ast.unparse(s_ix)))

    def row_index(sub, arr):
        if not (isinstance(sub, ast.Subscript) and ast.unparse(sub.value) == arr and isinstance(sub.slice, ast.Tuple) and len(sub.slice.elts) == 2
                and ast.unparse(sub.slice.elts[1]) == ":"):
            raise U("estimate: expected %s[<row>, :], found %s" % (arr, ast.unparse(sub)))
        return sub.slice.elts[0]
    if not (isinstance(s_cp, ast.Assign) and len(s_cp.targets) == 1):
        raise U("estimate: join copy statement %s" % ast.unparse(s_cp))
    defs.append(P.definition("k_join_dst", [("i", "Z"), ("ix", "Z")], "Z", P.to_coq(row_index(s_cp.targets[0], "mat"), Zc({"i": "i", "ix": "ix"})),
                             "estimate: %s" % ast.unparse(s_cp)))
    defs.append(P.definition("k_join_src", [("i", "Z"), ("ix", "Z")], "Z", P.to_coq(row_index(s_cp.value, "agg_df_mat"), Zc({"i": "i", "ix": "ix"})),
                             "estimate: %s" % ast.unparse(s_cp)))
    e = P.the_assignment(fn, "out", index=1, count=2)
    a, kw = _np_call(e, "DenseEstimatedBreedingValueMatrix.from_numpy", 0, ("mat", "taxa", "taxa_grp", "trait"))
    env = {"mat": "rows", "gtobj.taxa": "gt_taxa", "gtobj.taxa_grp": "gt_grp", "numpy.array(self.trait_cols, dtype=object)": "tcols"}
    for k in kw:
        if ast.unparse(kw[k]) not in env:
            raise U("estimate (genotype matrix): %s = %s" % (k, ast.unparse(kw[k])))
    defs.append(P.definition("k_est_gt_out", [("T", "Type"), ("G", "Type"), ("C", "Type"), ("M", "Type"), ("gt_taxa", "T"), ("gt_grp", "G"), ("tcols", "C"), ("rows", "M")],
                             "T * G * C * M" if [env[ast.unparse(kw[k])] for k in ("taxa", "taxa_grp", "trait", "mat")] == ["gt_taxa", "gt_grp", "tcols", "rows"] else "_",
                             "(%s, %s, %s, %s)" % tuple(env[ast.unparse(kw[k])] for k in ("taxa", "taxa_grp", "trait", "mat")),
                             "estimate (genotype matrix): %s" % _src(e)))


def _true_bv(repo, defs):
    fn = _method(repo, TB, "TrueBreedingValue", "estimate")
    _stmts_are("TrueBreedingValue.estimate", _body(fn), ["bvmat = ...", "return bvmat"])
    if [a.arg for a in fn.args.args] != ["self", "ptobj", "gtobj", "miscout"]:
        raise U("TrueBreedingValue.estimate: signature changed")
    a, _ = _np_call(P.the_assignment(fn, "bvmat"), "self.gpmod.gebv", 1)
    arg = ast.unparse(a[0])
    if arg not in ("ptobj", "gtobj"):
        raise U("TrueBreedingValue.estimate: gebv(%s)" % arg)
    defs.append(P.definition("k_true_bv_arg", [("A", "Type"), ("ptobj", "A"), ("gtobj", "A")], "A", arg,
                             "TrueBreedingValue.estimate: bvmat = %s" % _src(P.the_assignment(fn, "bvmat"))))


def translate(repo, gen_dir):
    defs = []
    _ge_phenotype(repo, defs)
    _ge_setters(repo, defs)
    _true_phenotype(repo, defs)
    _mean_estimate(repo, defs)
    _true_bv(repo, defs)
    text = (P.HEADER % "harness/translate/c14_kernel.py") + \
        "From Coq Require Import String.\nFrom Coq Require Import List ZArith QArith Bool.\nImport ListNotations.\n\n" + "\n".join(defs)
    path = os.path.join(gen_dir, "C14_Kernel.v")
    P.write_if_changed(path, text)
    return {"file": "Gen/C14_Kernel.v", "definitions": len(defs), "sha256": hashlib.sha256(text.encode()).hexdigest()[:16]}
