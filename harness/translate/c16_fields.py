"""ast translator for C16: pybrops source -> coq/Gen/C16_Fields.v

For each persistable / copyable class (resolved along the MRO to the class whose method body does the work) extract
  * to_hdf5:   the literal ``data = {"key": self.attr, ...}`` dictionary (keys in order),
  * from_hdf5: ``required_fields``, every read ``data["slot"] = h5py_File_read_X(h5file, groupname + "key")``
               (or the inline forms used by DenseSquareTaxaTraitMatrix), whether it is guarded by
               ``if groupname + "key" in h5file``, the ``cls(kw = data["slot"])`` call and ``out.attr = data["slot"]``,
  * __init__:  parameter names,
  * __copy__ / __deepcopy__: constructor keywords ``kw = copy.copy(self.attr)`` and ``out.attr = copy.copy(self.attr)``.
Anything that does not match one of the recognised shapes raises (the check fails closed).
"""
import ast, inspect, importlib, os, textwrap

READERS = {"h5py_File_read_ndarray": "RNd", "h5py_File_read_ndarray_utf8": "RNdUtf8", "h5py_File_read_int": "RInt",
           "h5py_File_read_ndarray_int8": "RNdInt8", "h5py_File_read_ndarray_int": "RNdInt", "h5py_File_read_utf8": "RUtf8",
           "h5py_File_read_dict": "RDict"}

class Unrecognised(Exception):
    pass

def _func_ast(cls, name):
    """(defining class, FunctionDef) of the first class along the MRO whose own dict has ``name``"""
    for k in cls.__mro__:
        if name in k.__dict__:
            f = k.__dict__[name]
            f = getattr(f, "__func__", f)
            src = textwrap.dedent(inspect.getsource(f))
            tree = ast.parse(src)
            fd = tree.body[0]
            if not isinstance(fd, ast.FunctionDef): raise Unrecognised("%s.%s is not a plain function" % (k.__name__, name))
            return k, fd
    return None, None

def _is_super_delegate(fd, name):
    """body is just (docstring, comments,) ``[return] super(...).name(...)``"""
    body = [s for s in fd.body if not (isinstance(s, ast.Expr) and isinstance(s.value, ast.Constant))]
    if len(body) != 1: return False
    s = body[0]
    v = s.value if isinstance(s, (ast.Return, ast.Expr)) else None
    return (isinstance(v, ast.Call) and isinstance(v.func, ast.Attribute) and v.func.attr == name
            and isinstance(v.func.value, ast.Call) and getattr(v.func.value.func, "id", None) == "super")

def _resolve(cls, name):
    """first class along the MRO whose ``name`` is not a pure super() delegation"""
    for k in cls.__mro__:
        if name in k.__dict__:
            f = k.__dict__[name]; f = getattr(f, "__func__", f)
            fd = ast.parse(textwrap.dedent(inspect.getsource(f))).body[0]
            if not isinstance(fd, ast.FunctionDef): raise Unrecognised("%s.%s is not a plain function" % (k.__name__, name))
            if _is_super_delegate(fd, name): continue
            if any(isinstance(d, ast.Name) and d.id == "abstractmethod" for d in fd.decorator_list): return None, None
            return k, fd
    return None, None

def _self_attr(e):
    if isinstance(e, ast.Attribute) and isinstance(e.value, ast.Name) and e.value.id == "self": return e.attr
    return None

def _grp_plus_key(e):
    """groupname + "key"  -> key"""
    if (isinstance(e, ast.BinOp) and isinstance(e.op, ast.Add) and isinstance(e.left, ast.Name) and e.left.id == "groupname"
            and isinstance(e.right, ast.Constant) and isinstance(e.right.value, str)):
        return e.right.value
    return None

def _data_slot(e):
    """data["slot"] -> slot"""
    if isinstance(e, ast.Subscript) and isinstance(e.value, ast.Name) and e.value.id in ("data", "data_dict"):
        s = e.slice
        if isinstance(s, ast.Constant) and isinstance(s.value, str): return s.value
    return None

def _h5_index(e):
    """h5file[groupname + "key"][()] -> key"""
    if (isinstance(e, ast.Subscript) and isinstance(e.slice, ast.Tuple) and len(e.slice.elts) == 0
            and isinstance(e.value, ast.Subscript) and isinstance(e.value.value, ast.Name) and e.value.value.id == "h5file"):
        return _grp_plus_key(e.value.slice)
    return None

def _read_rhs(e):
    """right-hand side of a read -> (key, reader)"""
    if isinstance(e, ast.Call) and isinstance(e.func, ast.Name) and e.func.id in READERS:
        if len(e.args) == 2 and isinstance(e.args[0], ast.Name) and e.args[0].id == "h5file":
            k = _grp_plus_key(e.args[1])
            if k is not None: return k, READERS[e.func.id]
    k = _h5_index(e)
    if k is not None: return k, "RNd"
    # numpy.array([s.decode("utf-8") if isinstance(s,bytes) else s for s in h5file[groupname+"k"][()]], dtype=object)
    if (isinstance(e, ast.Call) and isinstance(e.func, ast.Attribute) and e.func.attr == "array" and len(e.args) == 1
            and isinstance(e.args[0], ast.ListComp) and len(e.args[0].generators) == 1):
        lc = e.args[0]
        k = _h5_index(lc.generators[0].iter)
        elt = lc.elt
        ok = (isinstance(elt, ast.IfExp) and isinstance(elt.body, ast.Call) and isinstance(elt.body.func, ast.Attribute)
              and elt.body.func.attr == "decode" and len(elt.body.args) == 1 and getattr(elt.body.args[0], "value", None) == "utf-8"
              and isinstance(elt.test, ast.Call) and getattr(elt.test.func, "id", None) == "isinstance"
              and any(kw.arg == "dtype" and getattr(kw.value, "id", None) == "object" for kw in e.keywords))
        if k is not None and ok: return k, "RNdUtf8"
    raise Unrecognised("unrecognised read expression: %s" % ast.unparse(e))

def parse_to_hdf5(fd):
    written = None
    for node in ast.walk(fd):
        if isinstance(node, ast.Assign) and len(node.targets) == 1 and isinstance(node.targets[0], ast.Name) \
                and node.targets[0].id == "data" and isinstance(node.value, ast.Dict):
            if written is not None: raise Unrecognised("two data dictionaries in to_hdf5")
            written = []
            for k, v in zip(node.value.keys, node.value.values):
                if not (isinstance(k, ast.Constant) and isinstance(k.value, str)): raise Unrecognised("non-literal key in data dict")
                a = _self_attr(v)
                if a is None: raise Unrecognised("data[%r] is not self.<attr>: %s" % (k.value, ast.unparse(v)))
                written.append((k.value, a))
    if written is None: raise Unrecognised("no data dictionary in to_hdf5")
    # the dictionary must be what is handed to h5py_File_write_dict, with the overwrite flag passed on
    calls = [n for n in ast.walk(fd) if isinstance(n, ast.Call) and getattr(n.func, "id", None) == "h5py_File_write_dict"]
    if len(calls) != 1: raise Unrecognised("expected exactly one h5py_File_write_dict call")
    a = calls[0].args
    if [getattr(x, "id", None) for x in a] != ["h5file", "groupname", "data", "overwrite"]:
        raise Unrecognised("h5py_File_write_dict called with %s" % ast.unparse(calls[0]))
    return written

def parse_from_hdf5(fd):
    required = None; reads = []; ctor = None; post = []; objvar = None
    def visit(stmts, guard):
        nonlocal required, ctor, objvar
        for s in stmts:
            if isinstance(s, ast.If):
                t = s.test
                g = None
                if isinstance(t, ast.Compare) and len(t.ops) == 1 and isinstance(t.ops[0], ast.In) \
                        and isinstance(t.comparators[0], ast.Name) and t.comparators[0].id == "h5file":
                    g = _grp_plus_key(t.left)
                visit(s.body, g if g is not None else guard)
                visit(s.orelse, guard)
                continue
            if isinstance(s, (ast.For, ast.With, ast.Try)):
                visit(s.body, guard); continue
            if isinstance(s, ast.Return):
                break                       # code after the first top-level return is dead
            if isinstance(s, ast.Assign) and len(s.targets) == 1:
                tgt = s.targets[0]
                if isinstance(tgt, ast.Name) and tgt.id == "required_fields":
                    if not isinstance(s.value, ast.List): raise Unrecognised("required_fields is not a list literal")
                    required = [e.value for e in s.value.elts]
                    continue
                slot = _data_slot(tgt)
                if slot is not None:
                    key, rd = _read_rhs(s.value)
                    if guard is not None and guard != key: raise Unrecognised("read of %r guarded by presence of %r" % (key, guard))
                    reads.append((key, slot, rd, guard is not None))
                    continue
                if isinstance(tgt, ast.Name) and isinstance(s.value, ast.Call) and getattr(s.value.func, "id", None) == "cls":
                    if ctor is not None: raise Unrecognised("two constructor calls in from_hdf5")
                    ctor = []; objvar = tgt.id
                    if s.value.args: raise Unrecognised("positional constructor arguments in from_hdf5")
                    for kw in s.value.keywords:
                        sl = _data_slot(kw.value)
                        if sl is not None: ctor.append((kw.arg, sl))
                        elif isinstance(kw.value, ast.Name) and kw.value.id == kw.arg: pass      # gpmod = gpmod
                        elif isinstance(kw.value, ast.Constant) and kw.value.value is None: pass  # rng = None
                        else: raise Unrecognised("constructor keyword %s = %s" % (kw.arg, ast.unparse(kw.value)))
                    continue
                if isinstance(tgt, ast.Attribute) and isinstance(tgt.value, ast.Name) and objvar is not None and tgt.value.id == objvar:
                    sl = _data_slot(s.value)
                    if sl is None: raise Unrecognised("out.%s = %s" % (tgt.attr, ast.unparse(s.value)))
                    post.append((tgt.attr, sl)); continue
    visit(fd.body, None)
    if required is None or ctor is None: raise Unrecognised("from_hdf5 without required_fields / constructor call")
    return required, reads, ctor, post

def parse_init(fd):
    a = fd.args
    return [x.arg for x in a.args[1:]] + [x.arg for x in a.kwonlyargs]

def init_accepts(cls):
    """keywords accepted by the constructor: own parameters, plus those of the next __init__ along the MRO while **kwargs is forwarded"""
    out = []
    for k in cls.__mro__:
        if "__init__" not in k.__dict__ or k is object: continue
        f = k.__dict__["__init__"]
        try: fd = ast.parse(textwrap.dedent(inspect.getsource(f))).body[0]
        except (OSError, TypeError): break
        for p in parse_init(fd):
            if p not in out: out.append(p)
        if fd.args.kwarg is None: break
        fwd = any(isinstance(n, ast.keyword) and n.arg is None and getattr(n.value, "id", None) == fd.args.kwarg.arg for n in ast.walk(fd))
        if not fwd: break
    return out

def _copy_expr(e):
    """copy.copy(self.a) / copy.deepcopy(self.a[, memo]) / self.a / constant -> (attr, mode)"""
    if isinstance(e, ast.Call) and isinstance(e.func, ast.Attribute) and isinstance(e.func.value, ast.Name) and e.func.value.id == "copy":
        a = _self_attr(e.args[0]) if e.args else None
        if a is None: raise Unrecognised("copy of something else than self.<attr>: %s" % ast.unparse(e))
        if e.func.attr == "copy" and len(e.args) == 1: return a, "CShallow"
        if e.func.attr == "deepcopy" and len(e.args) in (1, 2): return a, "CDeep"
    a = _self_attr(e)
    if a is not None: return a, "CPlain"
    if isinstance(e, ast.Constant): return "", "CPlain"
    raise Unrecognised("unrecognised copy expression %s" % ast.unparse(e))

def parse_copy(fd):
    ctor = None; post = []
    for s in fd.body:
        call = None
        if isinstance(s, ast.Assign) and len(s.targets) == 1 and isinstance(s.targets[0], ast.Name) and s.targets[0].id == "out" \
                and isinstance(s.value, ast.Call):
            f = s.value.func
            if (isinstance(f, ast.Attribute) and f.attr == "__class__") or (isinstance(f, ast.Name) and f.id == "cls"):
                call = s.value
            elif isinstance(f, ast.Attribute) and f.attr == "__new__":
                continue
        if isinstance(s, ast.Expr) and isinstance(s.value, ast.Call) and isinstance(s.value.func, ast.Attribute) \
                and s.value.func.attr == "__init__" and getattr(s.value.func.value, "id", None) == "out":
            call = s.value
        if isinstance(s, ast.Return) and isinstance(s.value, ast.Call) and isinstance(s.value.func, ast.Attribute) \
                and s.value.func.attr == "__class__" and _self_attr(s.value.func) == "__class__":
            call = s.value              # return self.__class__(...)
        if call is not None:
            if ctor is not None: raise Unrecognised("two constructor calls in a copy method")
            if call.args: raise Unrecognised("positional constructor arguments in a copy method")
            ctor = [(kw.arg,) + _copy_expr(kw.value) for kw in call.keywords]
            continue
        if isinstance(s, ast.Assign) and len(s.targets) == 1 and isinstance(s.targets[0], ast.Attribute) \
                and getattr(s.targets[0].value, "id", None) == "out":
            post.append((s.targets[0].attr,) + _copy_expr(s.value)); continue
        if isinstance(s, ast.Expr) and isinstance(s.value, ast.Constant): continue      # docstring
        if isinstance(s, ast.Assign) and isinstance(s.value, ast.Call) and getattr(s.value.func, "id", None) == "type": continue  # cls = type(self)
        if isinstance(s, ast.Assign) and isinstance(s.value, ast.Attribute) and s.value.attr == "__class__": continue           # cls = self.__class__
        if isinstance(s, ast.Return) and getattr(s.value, "id", None) == "out": continue
        raise Unrecognised("unrecognised statement in a copy method: %s" % ast.unparse(s)[:120])
    if ctor is None: raise Unrecognised("copy method without a constructor call")
    return ctor, post

def extract(key, cls, meta):
    rec = {"cname": key, "pyclass": cls.__name__, "meta": list(meta)}
    k, fd = _resolve(cls, "to_hdf5")
    if fd is not None:
        rec["h5_def"] = k.__name__; rec["written"] = parse_to_hdf5(fd)
        k, fd = _resolve(cls, "from_hdf5")
        if fd is None: raise Unrecognised("%s has to_hdf5 but no from_hdf5" % cls.__name__)
        rec["rd_def"] = k.__name__
        rec["required"], rec["reads"], rec["rd_ctor"], rec["rd_post"] = parse_from_hdf5(fd)
    else:
        rec.update(h5_def="", written=[], rd_def="", required=[], reads=[], rd_ctor=[], rd_post=[])
    k, fd = _func_ast(cls, "__init__")
    rec["init_params"] = parse_init(fd)
    rec["init_accepts"] = init_accepts(cls)
    k, fd = _func_ast(cls, "__copy__")
    if fd is None: raise Unrecognised("%s has no __copy__" % cls.__name__)
    rec["cp_ctor"], rec["cp_post"] = parse_copy(fd)
    k, fd = _func_ast(cls, "__deepcopy__")
    if fd is None: raise Unrecognised("%s has no __deepcopy__" % cls.__name__)
    rec["dp_ctor"], rec["dp_post"] = parse_copy(fd)
    return rec

def _s(x): return '"%s"' % x
def _l(xs, f): return "[" + "; ".join(f(x) for x in xs) + "]"
def _pair(p): return "(%s, %s)" % (_s(p[0]), _s(p[1]))

def render(recs):
    out = ["(* generated by harness/translate/c16_fields.py from the pybrops source — do not edit *)",
           "From Coq Require Import List String.", "From PV Require Import Lib.C16_Spec.", "Import ListNotations.",
           "Local Open Scope string_scope.", ""]
    for r in recs:
        out.append("Definition spec_%s : cls_spec := {|" % r["cname"])
        out.append("  cname := %s; pyclass := %s;" % (_s(r["cname"]), _s(r["pyclass"])))
        out.append("  h5_def := %s;" % _s(r["h5_def"]))
        out.append("  written := %s;" % _l(r["written"], _pair))
        out.append("  rd_def := %s;" % _s(r["rd_def"]))
        out.append("  required := %s;" % _l(r["required"], _s))
        out.append("  reads := %s;" % _l(r["reads"], lambda x: "mkR %s %s %s %s" % (_s(x[0]), _s(x[1]), x[2], "true" if x[3] else "false")))
        out.append("  rd_ctor := %s;" % _l(r["rd_ctor"], _pair))
        out.append("  rd_post := %s;" % _l(r["rd_post"], _pair))
        out.append("  init_params := %s;" % _l(r["init_params"], _s))
        out.append("  init_accepts := %s;" % _l(r["init_accepts"], _s))
        for f in ("cp_ctor", "cp_post", "dp_ctor", "dp_post"):
            out.append("  %s := %s;" % (f, _l(r[f], lambda x: "mkC %s %s %s" % (_s(x[0]), _s(x[1]), x[2]))))
        out.append("  meta := %s |}." % _l(r["meta"], _s))
        out.append("")
    out.append("Definition all_specs : list cls_spec := %s." % _l(recs, lambda r: "spec_" + r["cname"]))
    return "\n".join(out) + "\n"

def generate(classes, gen_dir):
    """classes: list of (key, class object, metadata attribute names). Writes Gen/C16_Fields.v if the content changed."""
    recs = [extract(k, c, m) for k, c, m in classes]
    txt = render(recs)
    os.makedirs(gen_dir, exist_ok=True)
    path = os.path.join(gen_dir, "C16_Fields.v")
    old = open(path).read() if os.path.exists(path) else None
    if old != txt:
        tmp = path + ".tmp%d" % os.getpid()
        open(tmp, "w").write(txt); os.replace(tmp, path)
    return recs, path
