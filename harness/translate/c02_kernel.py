"""C02 kernel translator (protocol: tools/PHASE2_BRIEF.md section B; exemplar: c09_kernel.py, programme style: c20_program.py).

Regenerates `coq/Gen/C02_Kernel.v` from the current source on every run.  The C02 theorems turn on HOW ONE GAMETE IS MADE, so
the *body* of the meiosis function is translated statement by statement (for both copies of the code: `mat_*` in
pybrops/breed/prot/mate/util.py, tag `m`, and `dense_*` in pybrops/core/util/mate.py, tag `d`):

  k_<t>_shape        gshape = (len(sel), len(xoprob))           rows = gametes, columns = markers (row i of the draws <-> gamete i)
  k_<t>_low/_high    rnd = rng.uniform(0, 1, gshape)            the draws are uniform on [0, 1)
  k_<t>_xo           rnd[i] < xoprob                            the crossover comparison (strict; which side is the draw)
  k_<t>_step         body of `for spix in xoix`                 segment copy from the phase in force, stix = spix, phase = 1 - phase
                                                                (statement ORDER is part of the translation)
  k_<t>_gamete       body of `for i, s in enumerate(sel)`       which row of rnd, starting phase, starting index, final segment
  k_<t>_meiosis      the whole function                         one gamete per (i, s) of enumerate(sel)
  k_<t>_dh/_mate     mat_dh / mat_mate (dense_dh / dense_cross) which genotype/selection goes to which meiosis, the order of the
                                                                two calls (= order of the draws), what is stacked
and the expressions that turn the genetic map into crossover probabilities:
  k_haldane, k_kosambi          HaldaneMapFunction.mapfn / KosambiMapFunction.mapfn (over R)
  k_h_rprob1g, k_k_rprob1g      rprob1g = mapfn(gmap.gdist1g(chrgrp, genpos))  (polymorphic wiring: a swapped argument is a type error)
  k_s_gap, k_s_gap_slices, k_s_start_ix, k_s_start_inf  (and k_e_*)  StandardGeneticMap/ExtendedGeneticMap.gdist1g: gap = this - previous,
                                                                +inf at the first marker of every chromosome
  k_interp_xoprob               DenseGeneticMappableMatrix.interp_xoprob: genpos := interp_genpos(chrgrp, phypos);
                                                                xoprob := rprob1g(gmap, chrgrp, genpos)
  k_embv_sel, k_embv_dh_call    DenseExpectedMaximumBreedingValueMatrix.from_gmod: dense_dh(geno, repeat(i, nprogeny[i]), xoprob, global_prng)

`Proofs/C02_Kernel.v` proves the generated programme equal to the C01 model (`gamete_seg`, `gamete`, `mat_meiosis`, `mat_dh`,
`mat_mate`), `Props/C02.v` restates the rate theorems about the generated definitions.  Fail closed: every statement of the
translated functions must be of a recognised form, every selector must match exactly once; anything else raises
`pyexpr.Untranslatable` (check.py reports the correspondence as broken).
"""
import ast, os, hashlib
from translate import pyexpr as P
from translate.kernelkit import bind

MAT = "pybrops/breed/prot/mate/util.py"
DENSE = "pybrops/core/util/mate.py"
HALD = "pybrops/popgen/gmap/HaldaneMapFunction.py"
KOSA = "pybrops/popgen/gmap/KosambiMapFunction.py"
SGM = "pybrops/popgen/gmap/StandardGeneticMap.py"
EGM = "pybrops/popgen/gmap/ExtendedGeneticMap.py"
DGMM = "pybrops/popgen/gmap/DenseGeneticMappableMatrix.py"
EMBV = "pybrops/model/embvmat/DenseExpectedMaximumBreedingValueMatrix.py"


def U(msg, node=None):
    where = "" if node is None else " (line %d: %s)" % (getattr(node, "lineno", 0), ast.unparse(node)[:100].replace("\n", " "))
    return P.Untranslatable("c02_kernel: " + msg + where)


def _body(fn):
    """statements of a function without the docstring"""
    b = list(fn.body)
    if b and isinstance(b[0], ast.Expr) and isinstance(b[0].value, ast.Constant) and isinstance(b[0].value.value, str):
        b = b[1:]
    return b


def _args(fn, kwarg_ok=False):
    a = fn.args
    if a.vararg or (a.kwarg and not kwarg_ok) or a.kwonlyargs or a.posonlyargs:
        raise U("%s: unexpected parameter kinds" % fn.name, fn)
    return [x.arg for x in a.args]


def _single_assign(st, what):
    if not (isinstance(st, ast.Assign) and len(st.targets) == 1):
        raise U("expected %s" % what, st)
    return st.targets[0], st.value


def _slice2(sub, ndim, what):
    """indices of `a[e0, .., lo:hi]` -> ([e0..], lo, hi) ; the last index must be a plain slice without step"""
    idx = sub.slice
    elts = list(idx.elts) if isinstance(idx, ast.Tuple) else [idx]
    if len(elts) != ndim or not isinstance(elts[-1], ast.Slice) or elts[-1].step is not None or any(isinstance(e, ast.Slice) for e in elts[:-1]):
        raise U("%s: expected %d indices ending in a slice lo:hi" % (what, ndim), sub)
    return elts[:-1], elts[-1].lower, elts[-1].upper


# ---------------------------------------------------------------------------------------------- the meiosis function
class Meiosis:
    """statement-level translation of mat_meiosis / dense_meiosis"""

    def __init__(self, repo, rel, fname, tag):
        self.fn = P.find_function(repo, rel, fname)
        self.tag, self.rel, self.fname = tag, rel, fname
        self.defs = []
        self.k = lambda n: "k_%s_%s" % (tag, n)

    def Z(self, extra=None):
        env = {n: n for n in self.zvars}
        env.update(extra or {})
        return P.Ctx("Z", env)

    def run(self):
        fn = self.fn
        args = _args(fn)
        if len(args) != 4:
            raise U("%s: expected 4 parameters (geno, sel, xoprob, rng), found %r" % (fn.name, args), fn)
        self.geno, self.sel, self.xoprob, self.rng = args
        body = _body(fn)
        if len(body) != 5:
            raise U("%s: expected 5 top-level statements (shape, draws, allocation, loop, return), found %d" % (fn.name, len(body)), fn)
        s_shape, s_rnd, s_alloc, s_loop, s_ret = body
        # --- gshape = (len(sel), len(xoprob))
        tg, val = _single_assign(s_shape, "`gshape = (len(sel), len(xoprob))`")
        if not (isinstance(tg, ast.Name) and isinstance(val, ast.Tuple) and len(val.elts) == 2):
            raise U("shape is not a pair", s_shape)
        self.shape = tg.id
        dims = []
        for e in val.elts:
            if not (isinstance(e, ast.Call) and ast.unparse(e.func) == "len" and len(e.args) == 1 and not e.keywords
                    and isinstance(e.args[0], ast.Name) and e.args[0].id in (self.sel, self.xoprob)):
                raise U("shape entry is not len(%s) / len(%s)" % (self.sel, self.xoprob), e)
            dims.append("len_" + e.args[0].id)
        self.defs.append(P.definition(self.k("shape"), [("len_" + self.sel, "nat"), ("len_" + self.xoprob, "nat")], "nat * nat",
                                      "(%s, %s)" % tuple(dims), "%s: %s" % (fn.name, ast.unparse(s_shape))))
        # --- rnd = rng.uniform(0, 1, gshape)
        tg, val = _single_assign(s_rnd, "`rnd = rng.uniform(0, 1, gshape)`")
        if not (isinstance(tg, ast.Name) and isinstance(val, ast.Call) and ast.unparse(val.func) == self.rng + ".uniform"):
            raise U("the draws do not come from %s.uniform" % self.rng, s_rnd)
        self.rnd = tg.id
        kw = {k.arg: k.value for k in val.keywords}
        if None in kw or len(val.args) + len(kw) != 3:
            raise U("uniform is not called with (low, high, size)", s_rnd)
        pos = dict(zip(("low", "high", "size"), val.args))
        if set(pos) & set(kw) or set(pos) | set(kw) != {"low", "high", "size"}:
            raise U("uniform is not called with (low, high, size)", s_rnd)
        pos.update(kw)
        if ast.unparse(pos["size"]) != self.shape:
            raise U("the draws do not have shape %s" % self.shape, s_rnd)
        q = P.Ctx("Q", {})
        self.defs.append(P.definition(self.k("low"), [], "Q", P.to_coq(pos["low"], q), "%s: %s" % (fn.name, ast.unparse(s_rnd))))
        self.defs.append(P.definition(self.k("high"), [], "Q", P.to_coq(pos["high"], q), "%s: %s" % (fn.name, ast.unparse(s_rnd))))
        # --- gamete = numpy.empty(gshape, dtype = geno.dtype)
        tg, val = _single_assign(s_alloc, "`gamete = numpy.empty(gshape, dtype = geno.dtype)`")
        if not (isinstance(tg, ast.Name) and isinstance(val, ast.Call) and ast.unparse(val.func) in ("numpy.empty", "numpy.zeros")
                and len(val.args) == 1 and ast.unparse(val.args[0]) == self.shape
                and [(k.arg, ast.unparse(k.value)) for k in val.keywords] == [("dtype", self.geno + ".dtype")]):
            raise U("the gamete array is not numpy.empty(%s, dtype = %s.dtype)" % (self.shape, self.geno), s_alloc)
        self.out = tg.id
        # --- return gamete
        if not (isinstance(s_ret, ast.Return) and s_ret.value is not None and ast.unparse(s_ret.value) == self.out):
            raise U("the function does not return %s" % self.out, s_ret)
        # --- for i, s in enumerate(sel):
        if not (isinstance(s_loop, ast.For) and not s_loop.orelse and isinstance(s_loop.target, ast.Tuple) and len(s_loop.target.elts) == 2
                and all(isinstance(e, ast.Name) for e in s_loop.target.elts) and ast.unparse(s_loop.iter) == "enumerate(%s)" % self.sel):
            raise U("expected `for i, s in enumerate(%s)`" % self.sel, s_loop)
        self.i, self.s = (e.id for e in s_loop.target.elts)
        self.zvars = [self.i, self.s]
        self.outer(s_loop.body)
        t = self.tag
        self.defs.append(P.definition(
            self.k("meiosis"), [("geno", "list (list (list Z))"), ("sel", "list nat"), ("xoprob", "list Q"), ("rnd", "list (list Q)")],
            "list (list Z)",
            "map (fun is_ => %s geno rnd xoprob (snd (%s (length sel) (length xoprob))) (fst is_) (snd is_)) (enumerateZ sel)"
            % (self.k("gamete"), self.k("shape")), "%s: for %s, %s in enumerate(%s): ...; return %s" % (fn.name, self.i, self.s, self.sel, self.out)))
        return self.defs

    # one statement of the outer or inner loop that only touches phase / stix / the gamete row
    def simple(self, st, state):
        """-> let-line, or None if the statement is not of the simple kinds"""
        if isinstance(st, ast.Assign) and len(st.targets) == 1 and isinstance(st.targets[0], ast.Name) and st.targets[0].id in state:
            nm = st.targets[0].id
            return "let %s := %s in" % (nm, P.to_coq(st.value, self.Z()))
        if isinstance(st, ast.Assign) and len(st.targets) == 1 and isinstance(st.targets[0], ast.Subscript) \
                and isinstance(st.targets[0].value, ast.Name) and st.targets[0].value.id == self.out:
            dst, src = st.targets[0], st.value
            if not (isinstance(src, ast.Subscript) and isinstance(src.value, ast.Name) and src.value.id == self.geno):
                raise U("the gamete row is not filled from %s[...]" % self.geno, st)
            (di,), dlo, dhi = _slice2(dst, 2, "target")
            (sp, ss), slo, shi = _slice2(src, 3, "source")
            if ast.unparse(di) != self.i:
                raise U("gamete row written is not the loop's own row %s" % self.i, st)
            same = lambda a, b: (a is None and b is None) or (a is not None and b is not None and ast.unparse(a) == ast.unparse(b))
            if not (same(dlo, slo) and same(dhi, shi)):
                raise U("source and target slices differ", st)
            lo = "(0)%Z" if dlo is None else P.to_coq(dlo, self.Z())
            hi = "None" if dhi is None else "(Some %s)" % P.to_coq(dhi, self.Z())
            return "let out := copy_seg out %s %s (geno_row geno %s %s) in" % (lo, hi, P.to_coq(sp, self.Z()), P.to_coq(ss, self.Z()))
        return None

    def outer(self, stmts):
        fn = self.fn
        lines = []
        self.state = []                   # integer state variables in order of first assignment (phase, stix)
        xoix = None
        inner_done = False
        for st in stmts:
            # xoix = numpy.flatnonzero(rnd[e] < xoprob)
            if isinstance(st, ast.Assign) and len(st.targets) == 1 and isinstance(st.targets[0], ast.Name) and isinstance(st.value, ast.Call) \
                    and ast.unparse(st.value.func) == "numpy.flatnonzero":
                if xoix is not None or inner_done:
                    raise U("second crossover lookup", st)
                xoix = st.targets[0].id
                if len(st.value.args) != 1 or st.value.keywords or not isinstance(st.value.args[0], ast.Compare):
                    raise U("flatnonzero is not applied to one comparison", st)
                cmp_ = st.value.args[0]
                subs = [n for n in ast.walk(cmp_) if isinstance(n, ast.Subscript)]
                if len(subs) != 1 or not (isinstance(subs[0].value, ast.Name) and subs[0].value.id == self.rnd) or isinstance(subs[0].slice, (ast.Tuple, ast.Slice)):
                    raise U("the comparison does not read exactly one row %s[e]" % self.rnd, st)
                rowix = P.to_coq(subs[0].slice, self.Z())
                e = bind(cmp_, {ast.unparse(subs[0]): "u__", self.xoprob: "p__"})
                self.defs.append(P.definition(self.k("xo"), [("u", "Q"), ("p", "Q")], "bool",
                                              P.to_coq(e, P.Ctx("Q", {"u__": "u", "p__": "p"}), "bool"),
                                              "%s: %s   (u = one draw of %s, p = its entry of %s)" % (fn.name, ast.unparse(st), ast.unparse(subs[0]), self.xoprob)))
                lines.append("let %s := flatnonzeroZ (cmp_row %s (rowQ rnd %s) xoprob) in" % (xoix, self.k("xo"), rowix))
                continue
            # phase = 0 ; stix = 0 (first assignment declares the state variable)
            if isinstance(st, ast.Assign) and len(st.targets) == 1 and isinstance(st.targets[0], ast.Name) and not inner_done \
                    and st.targets[0].id not in self.state and st.targets[0].id not in (self.i, self.s, xoix, self.out, self.rnd):
                nm = st.targets[0].id
                lines.append("let %s := %s in" % (nm, P.to_coq(st.value, self.Z())))
                self.state.append(nm); self.zvars.append(nm)
                continue
            # for spix in xoix:
            if isinstance(st, ast.For):
                if inner_done or xoix is None or st.orelse or not isinstance(st.target, ast.Name) or ast.unparse(st.iter) != xoix:
                    raise U("expected exactly one loop `for spix in %s`" % xoix, st)
                if len(self.state) != 2:
                    raise U("expected two integer state variables (phase, start index) before the crossover loop, found %r" % self.state, st)
                spix = st.target.id
                self.zvars.append(spix)
                blines = []
                for b in st.body:
                    l = self.simple(b, self.state)
                    if l is None:
                        raise U("unrecognised statement in the crossover loop", b)
                    blines.append(l)
                self.zvars.remove(spix)
                a, b_ = self.state
                self.defs.append(P.definition(
                    self.k("step"), [("geno", "list (list (list Z))"), (self.i, "Z"), (self.s, "Z"), ("st_", "Z * Z * list Z"), (spix, "Z")],
                    "Z * Z * list Z",
                    "let '(%s, %s, out) := st_ in\n  %s\n  (%s, %s, out)" % (a, b_, "\n  ".join(blines), a, b_),
                    "%s: body of `for %s in %s`: %s" % (fn.name, spix, xoix, "; ".join(ast.unparse(x) for x in st.body))))
                lines.append("let '(%s, %s, out) := fold_left (%s geno %s %s) %s (%s, %s, out) in" % (a, b_, self.k("step"), self.i, self.s, xoix, a, b_))
                inner_done = True
                continue
            l = self.simple(st, self.state)
            if l is None:
                raise U("unrecognised statement in the gamete loop", st)
            lines.append(l)
        if not inner_done:
            raise U("no crossover loop found", fn)
        self.defs.append(P.definition(
            self.k("gamete"), [("geno", "list (list (list Z))"), ("rnd", "list (list Q)"), ("xoprob", "list Q"), ("ncol", "nat"), (self.i, "Z"), (self.s, "Z")],
            "list Z", "let out := blank ncol in\n  %s\n  out" % "\n  ".join(lines),
            "%s: body of `for %s, %s in enumerate(%s)`" % (fn.name, self.i, self.s, self.sel)))


def _wrapper(repo, rel, fname, meiosis_py, kname, kmeiosis, ncalls):
    """mat_dh / mat_mate: `g = meiosis(<geno>, <sel>, xoprob, rng)` (ncalls times, each consuming the next draw matrix);
    `progeny = numpy.stack([a, b])`; `return progeny`"""
    fn = P.find_function(repo, rel, fname)
    args = _args(fn)
    if args[-2:] != ["xoprob", "rng"] or len(args) != 2 + 2 * ncalls:
        raise U("%s: unexpected parameters %r" % (fname, args), fn)
    body = _body(fn)
    if len(body) != ncalls + 2:
        raise U("%s: expected %d statements, found %d" % (fname, ncalls + 2, len(body)), fn)
    lines, names = [], []
    for k, st in enumerate(body[:ncalls]):
        tg, val = _single_assign(st, "a meiosis call")
        if not (isinstance(tg, ast.Name) and isinstance(val, ast.Call) and ast.unparse(val.func) == meiosis_py and len(val.args) == 4 and not val.keywords
                and all(isinstance(a, ast.Name) for a in val.args)):
            raise U("%s: expected `g = %s(geno, sel, xoprob, rng)`" % (fname, meiosis_py), st)
        g, s, x, r = (a.id for a in val.args)
        if g not in args or s not in args or (x, r) != ("xoprob", "rng"):
            raise U("%s: meiosis arguments are not parameters of the function in the order (geno, sel, xoprob, rng)" % fname, st)
        lines.append("let %s := %s %s %s xoprob rnd%d in" % (tg.id, kmeiosis, g, s, k))
        names.append(tg.id)
    tg, val = _single_assign(body[ncalls], "`progeny = numpy.stack([...])`")
    if not (isinstance(tg, ast.Name) and isinstance(val, ast.Call) and ast.unparse(val.func) == "numpy.stack" and len(val.args) == 1 and not val.keywords
            and isinstance(val.args[0], ast.List) and len(val.args[0].elts) == 2 and all(isinstance(e, ast.Name) and e.id in names for e in val.args[0].elts)):
        raise U("%s: expected `progeny = numpy.stack([a, b])` of two gamete matrices" % fname, body[ncalls])
    st = body[ncalls + 1]
    if not (isinstance(st, ast.Return) and st.value is not None and ast.unparse(st.value) == tg.id):
        raise U("%s: does not return the stacked matrix" % fname, st)
    ty = lambda a: "list (list (list Z))" if a.endswith("geno") else ("list nat" if a.endswith("sel") else None)
    params = []
    for a in args[:-2]:
        if ty(a) is None:
            raise U("%s: parameter %s is neither a genotype nor a selection" % (fname, a), fn)
        params.append((a, ty(a)))
    params += [("xoprob", "list Q")] + [("rnd%d" % k, "list (list Q)") for k in range(ncalls)]
    term = "%s\n  [%s]" % ("\n  ".join(lines), "; ".join(e.id for e in val.args[0].elts))
    return P.definition(kname, params, "list (list (list Z))", term, "%s: %s" % (fname, "; ".join(ast.unparse(x) for x in body)))


# ---------------------------------------------------------------------------------------------- map functions and distances
def _mapfn(repo, rel, cls, call, kname):
    fn = P.find_function(repo, rel, cls + ".mapfn")
    if _args(fn) != ["self", "d"]:
        raise U("%s.mapfn: unexpected parameters" % cls, fn)
    body = _body(fn)
    if len(body) != 2 or not isinstance(body[1], ast.Return) or body[1].value is None:
        raise U("%s.mapfn: expected `r = <formula>; return r`" % cls, fn)
    tg, val = _single_assign(body[0], "the formula")
    if ast.unparse(body[1].value) != ast.unparse(tg):
        raise U("%s.mapfn: does not return the formula's value" % cls, body[1])
    term = P.to_coq(val, P.Ctx("R", {"d": "d"}, calls={call[0]: (call[1], 1)}))
    return P.definition(kname, [("d", "R")], "R", term, "%s.mapfn: %s" % (cls, ast.unparse(body[0])))


def _rprob1g(repo, rel, cls, kname):
    fn = P.find_function(repo, rel, cls + ".rprob1g")
    if _args(fn) != ["self", "gmap", "vrnt_chrgrp", "vrnt_genpos"]:
        raise U("%s.rprob1g: unexpected parameters" % cls, fn)
    body = _body(fn)
    if len(body) != 1 or not isinstance(body[0], ast.Return):
        raise U("%s.rprob1g: expected a single return" % cls, fn)
    term = P.to_coq(body[0].value, P.Ctx("Q", {"vrnt_chrgrp": "vrnt_chrgrp", "vrnt_genpos": "vrnt_genpos"},
                                         calls={"self.mapfn": ("mapfn", 1), "gmap.gdist1g": ("gdist1g", 2)}))
    return ("(* src: %s.rprob1g: %s *)\n" % (cls, ast.unparse(body[0]))
            + "Definition %s {C G D X : Type} (mapfn : D -> X) (gdist1g : C -> G -> D) (vrnt_chrgrp : C) (vrnt_genpos : G) : X :=\n  %s.\n" % (kname, term))


def _gdist1g(repo, rel, cls, tag):
    fn = P.find_function(repo, rel, cls + ".gdist1g")
    loops = P.loop_tests(fn, ast.For)
    if len(loops) != 1:
        raise U("%s.gdist1g: expected exactly one loop" % cls, fn)
    lp = loops[0]
    if not (isinstance(lp.target, ast.Tuple) and [ast.unparse(e) for e in lp.target.elts] == ["st", "sp"] and ast.unparse(lp.iter) == "zip(start, stop)" and len(lp.body) == 2):
        raise U("%s.gdist1g: expected `for st, sp in zip(start, stop)` with two statements" % cls, lp)
    # start/stop: first index and one-past-the-last index of every chromosome
    if ast.unparse(P.the_assignment(fn, "stop")) != "start + counts":
        raise U("%s.gdist1g: stop is not start + counts" % cls, fn)
    uq = P.the_assignment(fn, "(uniq, start, counts)")
    if ast.unparse(uq) != "numpy.unique(view_chrgrp, return_index=True, return_counts=True)":
        raise U("%s.gdist1g: chromosome boundaries are not numpy.unique(view_chrgrp, return_index, return_counts)" % cls, uq)
    for v, src in (("view_chrgrp", "vrnt_chrgrp[ast:asp]"), ("view_genpos", "vrnt_genpos[ast:asp]")):
        if ast.unparse(P.the_assignment(fn, v)) != src:
            raise U("%s.gdist1g: %s is not %s" % (cls, v, src), fn)
    if ast.unparse(P.the_return(fn)) != "out":
        raise U("%s.gdist1g: does not return out" % cls, fn)
    defs = []
    z = P.Ctx("Z", {"st": "st", "sp": "sp"})
    # out[st] = numpy.inf
    tg, val = _single_assign(lp.body[0], "`out[st] = numpy.inf`")
    if not (isinstance(tg, ast.Subscript) and ast.unparse(tg.value) == "out" and not isinstance(tg.slice, (ast.Slice, ast.Tuple))):
        raise U("%s.gdist1g: expected `out[<index>] = numpy.inf`" % cls, lp.body[0])
    defs.append(P.definition("k_%s_start_ix" % tag, [("st", "Z"), ("sp", "Z")], "Z", P.to_coq(tg.slice, z), "%s.gdist1g: %s" % (cls, ast.unparse(lp.body[0]))))
    if ast.unparse(val) not in ("numpy.inf", "numpy.Inf", "numpy.infty", "float('inf')", "math.inf"):
        raise U("%s.gdist1g: the first marker of a chromosome does not get +inf" % cls, lp.body[0])
    defs.append(P.definition("k_%s_start_inf" % tag, [], "bool", "true", "%s.gdist1g: %s   (+inf)" % (cls, ast.unparse(lp.body[0]))))
    # out[st+1:sp] = view_genpos[st+1:sp] - view_genpos[st:sp-1]
    tg, val = _single_assign(lp.body[1], "the gap assignment")
    if not (isinstance(tg, ast.Subscript) and ast.unparse(tg.value) == "out"):
        raise U("%s.gdist1g: expected `out[lo:hi] = ...`" % cls, lp.body[1])
    _, dlo, dhi = _slice2(tg, 1, "target")
    subs = [n for n in ast.walk(val) if isinstance(n, ast.Subscript)]
    if len(subs) != 2 or any(ast.unparse(s.value) != "view_genpos" for s in subs) or dlo is None or dhi is None:
        raise U("%s.gdist1g: expected a combination of two slices of view_genpos" % cls, lp.body[1])
    sl = [_slice2(s, 1, "operand") for s in subs]
    if any(lo is None or hi is None for _, lo, hi in sl):
        raise U("%s.gdist1g: open slice" % cls, lp.body[1])
    if ast.unparse(subs[0]) == ast.unparse(subs[1]):
        raise U("%s.gdist1g: both operands are the same slice" % cls, lp.body[1])
    # the operand whose slice equals the target's is `this marker`, the other one `the previous marker` (checked by the offsets lemma)
    same = [k for k, (_, lo, hi) in enumerate(sl) if ast.unparse(lo) == ast.unparse(dlo) and ast.unparse(hi) == ast.unparse(dhi)]
    if len(same) != 1:
        raise U("%s.gdist1g: exactly one operand must cover the target's own positions" % cls, lp.body[1])
    cur, prev = subs[same[0]], subs[1 - same[0]]
    e = bind(val, {ast.unparse(cur): "cur__", ast.unparse(prev): "prev__"})
    defs.append(P.definition("k_%s_gap" % tag, [("cur", "Q"), ("prev", "Q")], "Q", P.to_coq(e, P.Ctx("Q", {"cur__": "cur", "prev__": "prev"})),
                             "%s.gdist1g: %s   (cur = %s, prev = %s)" % (cls, ast.unparse(lp.body[1]), ast.unparse(cur), ast.unparse(prev))))
    t = lambda x: P.to_coq(x, z)
    pl, ph = sl[1 - same[0]][1:]
    defs.append(P.definition("k_%s_gap_slices" % tag, [("st", "Z"), ("sp", "Z")], "(Z * Z) * (Z * Z)",
                             "((%s, %s), (%s, %s))" % (t(dlo), t(dhi), t(pl), t(ph)),
                             "%s.gdist1g: (target = this marker's slice, the previous marker's slice) of %s" % (cls, ast.unparse(lp.body[1]))))
    return defs


def _interp_xoprob(repo):
    fn = P.find_function(repo, DGMM, "DenseGeneticMappableMatrix.interp_xoprob")
    if _args(fn, kwarg_ok=True) != ["self", "gmap", "gmapfn"]:
        raise U("interp_xoprob: unexpected parameters", fn)
    assigns = [st for st in _body(fn) if isinstance(st, ast.Assign)]
    others = [st for st in _body(fn) if not isinstance(st, (ast.Assign, ast.Expr, ast.If))]
    if len(assigns) != 2 or others:
        raise U("interp_xoprob: expected exactly two assignments (genetic positions, crossover probabilities)", fn)
    env = {"gmap": "gmap", "self._vrnt_chrgrp": "chrgrp", "self._vrnt_phypos": "phypos"}
    lines = []
    for st, (attr, callee, coqf, ar, nm) in zip(assigns, (("vrnt_genpos", "gmap.interp_genpos", "interp_genpos gmap", 2, "genpos"),
                                                        ("vrnt_xoprob", "gmapfn.rprob1g", "rprob1g", 3, "xoprob"))):
        tg, val = _single_assign(st, "an attribute assignment")
        if ast.unparse(tg) != "self." + attr:
            raise U("interp_xoprob: expected an assignment to self.%s" % attr, st)
        lines.append("let %s := %s in" % (nm, P.to_coq(val, P.Ctx("Q", env, calls={callee: (coqf, ar)}))))
        env["self._" + attr] = nm; env["self." + attr] = nm           # the property setter stores into the private attribute
    return ("(* src: DenseGeneticMappableMatrix.interp_xoprob: %s *)\n" % "; ".join(ast.unparse(a) for a in assigns)
            + "Definition k_interp_xoprob {M C P G X : Type} (interp_genpos : M -> C -> P -> G) (rprob1g : M -> C -> G -> X) (gmap : M) (chrgrp : C) (phypos : P) : G * X :=\n"
            + "  %s\n  (genpos, xoprob).\n" % "\n  ".join(lines))


def _embv(repo):
    fn = P.find_function(repo, EMBV, "DenseExpectedMaximumBreedingValueMatrix.from_gmod")
    calls = [n for n in ast.walk(fn) if isinstance(n, ast.Call) and ast.unparse(n.func) in ("dense_dh", "dense_meiosis", "dense_cross", "mat_dh", "mat_meiosis", "mat_mate")]
    if len(calls) != 1 or ast.unparse(calls[0].func) != "dense_dh" or len(calls[0].args) != 4 or calls[0].keywords:
        raise U("from_gmod: expected exactly one call dense_dh(geno, sel, xoprob, rng)", fn)
    call = calls[0]
    # the call sits in `for j in range(nrep[i])` inside `for i in range(pgmat.ntaxa)`
    loops = P.loop_tests(fn, ast.For)
    if [ast.unparse(l.iter) for l in loops] != ["range(pgmat.ntaxa)", "range(nrep[i])"] or [ast.unparse(l.target) for l in loops] != ["i", "j"]:
        raise U("from_gmod: expected `for i in range(pgmat.ntaxa)` / `for j in range(nrep[i])`", fn)
    if not any(n is call for n in ast.walk(loops[1])) or not any(n is loops[1] for n in ast.walk(loops[0])):
        raise U("from_gmod: the doubled-haploid call is not inside the replicate loop of the taxon loop", fn)
    alias = {}
    for nm in ("geno", "vrnt_xoprob"):
        alias[nm] = ast.unparse(P.the_assignment(fn, nm))
    resolved = [alias.get(ast.unparse(a), ast.unparse(a)) for a in call.args]
    defs = ["(* src: from_gmod: %s   (local aliases resolved) *)\nDefinition k_embv_dh_call : list string :=\n  [%s]%%string.\n"
            % (ast.unparse(call), "; ".join('"%s"' % r for r in resolved))]
    defs.append(P.definition("k_embv_sel", [("i", "Z"), ("nprogeny_i", "Z")], "list Z",
                             P.to_coq(call.args[1], P.Ctx("Z", {"i": "i", "nprogeny[i]": "nprogeny_i"}, calls={"numpy.repeat": ("repeatZ", 2)})),
                             "from_gmod: sel = %s" % ast.unparse(call.args[1])))
    return defs


def translate(repo, gen_dir):
    defs = []
    for rel, tag, names in ((MAT, "m", ("mat_meiosis", "mat_dh", "mat_mate")), (DENSE, "d", ("dense_meiosis", "dense_dh", "dense_cross"))):
        defs += Meiosis(repo, rel, names[0], tag).run()
        defs.append(_wrapper(repo, rel, names[1], names[0], "k_%s_dh" % tag, "k_%s_meiosis" % tag, 1))
        defs.append(_wrapper(repo, rel, names[2], names[0], "k_%s_mate" % tag, "k_%s_meiosis" % tag, 2))
    defs.append(_mapfn(repo, HALD, "HaldaneMapFunction", ("numpy.exp", "exp"), "k_haldane"))
    defs.append(_mapfn(repo, KOSA, "KosambiMapFunction", ("numpy.tanh", "tanh"), "k_kosambi"))
    defs.append(_rprob1g(repo, HALD, "HaldaneMapFunction", "k_h_rprob1g"))
    defs.append(_rprob1g(repo, KOSA, "KosambiMapFunction", "k_k_rprob1g"))
    defs += _gdist1g(repo, SGM, "StandardGeneticMap", "s")
    defs += _gdist1g(repo, EGM, "ExtendedGeneticMap", "e")
    defs.append(_interp_xoprob(repo))
    defs += _embv(repo)
    text = (P.HEADER % "harness/translate/c02_kernel.py") + \
        "From Coq Require Import Reals String.\nFrom PV Require Import Lib.Common Model.C01_Meiosis Model.C02_Loop.\nLocal Open Scope Z_scope.\n\n" + "\n".join(defs)
    P.write_if_changed(os.path.join(gen_dir, "C02_Kernel.v"), text)
    return {"file": "Gen/C02_Kernel.v", "definitions": len(defs), "sha256": hashlib.sha256(text.encode()).hexdigest()[:16]}
