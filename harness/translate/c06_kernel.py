"""C06 kernel translator (protocol: tools/PHASE2_BRIEF.md section B; exemplar: c09_kernel.py).

Regenerates `coq/Gen/C06_Kernel.v` from the current source on every run.  One Gallina `Definition` per kernel expression /
statement group on which the C06 theorems turn:

  hill climbers (SteepestDescentSubsetHillClimber.minimize -> k_sd_*, SortingSteepestDescentSubsetHillClimber.minimize -> k_ssd_*)
    k_*_gscore / k_*_gcv / k_*_pscore / k_*_pcv    `gbest_score = gbest_obj.sum()`, `gbest_cv = gbest_ineqcv.sum() + gbest_eqcv.sum()`, prop_*
    k_*_better_cv / k_*_better_score               the `if` / `elif` tests of the acceptance rule (`<`, `==` and `<`)
    k_*_take_cv / k_*_take_score                   the two accepting branches: WHICH of best_i, best_j, best_obj, best_ineqcv, best_eqcv,
                                                   best_score, best_cv is assigned from WHAT (a branch that forgets best_score is a different term)
    k_*_step                                       the whole `if ... elif ...` statement of the inner loop, composed from the above
    k_*_init / k_*_stop / k_*_commit / k_*_g0      loop-head initialisation, the break test `(best_i is None) or (best_j is None)`,
                                                   the post-scan update of gbest_*, and the evaluation of the start
    k_*_swap                                       `gbest_soln[i], wrkss[j] = wrkss[j], gbest_soln[i]` (three occurrences, all the same exchange)
    k_*_wrkss                                      `wrkss = decn_space[logical_not(in1d(decn_space, gbest_soln))]`
    k_sd_draw                                      arguments of the start draw `self.rng.choice(prob.decn_space, prob.ndecn, replace=False)`
  sorting (SortingSubsetOptimizationAlgorithm.minimize -> k_sort_*, the sorting climber -> k_ssd_*)
    k_*_key                                        what is ranked: the receiver of `.argsort(0)` (`obj`, NOT `obj * prob.obj_wt`)
    k_*_lo / k_*_hi                                bounds of the slice `ix[0:ndecn, 0]`
    k_*_singles / k_*_pick                         the singleton evaluations `[prob.evalfn(numpy.array([e])) for e in prob.decn_space]`, `decn_space[gbest_ix]`
  pymoo_addon
    k_dom_feas / k_dom_pareto / k_dom_cvlt / k_dominates      `dominates`
    k_tc_ndiv / k_tc_nrem / k_tc_lo / k_tc_hi / k_tc_tail / k_tc_draws   `tiled_choice`
    k_rex_mab / k_rex_mba / k_rex_clen / k_rex_nex / k_rex_randint / k_rex_exchange    ReducedExchangeCrossover._do
    k_mut_mab / k_mut_mba / k_mut_mex              ReducedExchangeMutation._do
    k_mutA_* / k_mutB_* : alleles, nhcstep, guard, tiled (argument order of the two tiled_choice calls), trials (the fancy-index assignment)
    k_isbx_round / k_ipm_round                     `out.round(0).astype(X.dtype)`
  every optimiser class
    k_soln_fields                                  table (class, keyword of the Solution constructor, where its value comes from)

`Proofs/C06_Kernel.v` links every definition to the hand model (by `reflexivity` wherever possible) and proves that the machine assembled
from the generated climber pieces (`Model/C06_Machine.v`) refines the model's `climb`; `Props/C06.v` states the theorems about the generated
definitions.  Fail closed: every selector demands exactly one match and a fixed statement shape; anything else raises `pyexpr.Untranslatable`.
"""
import ast, os, hashlib
from translate import pyexpr as P

ALGO = "pybrops/opt/algo/"
SD = ALGO + "SteepestDescentSubsetHillClimber.py"
SSD = ALGO + "SortingSteepestDescentSubsetHillClimber.py"
SORT = ALGO + "SortingSubsetOptimizationAlgorithm.py"
ADDON = ALGO + "pymoo_addon.py"

U = ast.unparse


def _fail(msg):
    raise P.Untranslatable(msg)


def _stmts(body):
    """statements of a block without docstrings / bare string expressions"""
    return [s for s in body if not (isinstance(s, ast.Expr) and isinstance(s.value, ast.Constant) and isinstance(s.value.value, str))]


def _one_target(st, where):
    if not (isinstance(st, ast.Assign) and len(st.targets) == 1):
        _fail("%s: expected a plain assignment, found `%s`" % (where, U(st)))
    return st.targets[0], st.value


# ------------------------------------------------------------------------------------------------ small interpreters
def _interp_assign(stmts, state, rhs_env, where):
    """sequential interpretation of `a = b`, `a = None`, `a, b, c = x, y, z` over names; right-hand sides are looked up in the
    current state first, then in rhs_env; anything else is refused"""
    state = dict(state)
    def look(v):
        if isinstance(v, ast.Constant) and v.value is None: return "None"
        if isinstance(v, ast.Name):
            if v.id in state: return state[v.id]
            if v.id in rhs_env: return rhs_env[v.id]
        _fail("%s: right-hand side `%s` is not a name this translator knows" % (where, U(v)))
    for st in stmts:
        t, v = _one_target(st, where)
        if isinstance(t, ast.Name):
            new = {t.id: look(v)}
        elif isinstance(t, ast.Tuple) and isinstance(v, ast.Tuple) and len(t.elts) == len(v.elts) and all(isinstance(e, ast.Name) for e in t.elts):
            new = {e.id: look(x) for e, x in zip(t.elts, v.elts)}
        else:
            _fail("%s: unsupported assignment `%s`" % (where, U(st)))
        state.update(new)
    return state


HC_FIELDS = ["best_i", "best_j", "best_obj", "best_ineqcv", "best_eqcv", "best_score", "best_cv"]
HC_GET = {"best_i": "(h_i b)", "best_j": "(h_j b)", "best_obj": "(h_obj b)", "best_ineqcv": "(h_ineq b)", "best_eqcv": "(h_eq b)",
          "best_score": "(h_score b)", "best_cv": "(h_cv b)"}
G_FIELDS = ["gbest_obj", "gbest_ineqcv", "gbest_eqcv", "gbest_score", "gbest_cv"]
G_GET = {"gbest_obj": "(g_obj g)", "gbest_ineqcv": "(g_ineq g)", "gbest_eqcv": "(g_eq g)", "gbest_score": "(g_score g)", "gbest_cv": "(g_cv g)"}


def _mk(ctor, fields, state, where):
    missing = [f for f in fields if f not in state]
    if missing:
        _fail("%s: %s not assigned" % (where, missing))
    extra = [k for k in state if k not in fields]
    if extra:
        _fail("%s: unexpected variables assigned: %s" % (where, extra))
    return "(%s %s)" % (ctor, " ".join(state[f] for f in fields))


def _sum_calls(names):
    """pyexpr call table: `<name>.sum()` -> (sumZ <coq name>)"""
    return {py + ".sum": ("sumZ " + cq, 0) for py, cq in names.items()}


def _swap(st, where, arrs):
    """`A[i], B[j] = B[j], A[i]` (any such simultaneous element assignment between the arrays of `arrs`, python name -> coq name):
    returns the new value of every array as a Gallina term over the OLD arrays (right-hand sides are read before any write)
    and the index names used"""
    t, v = _one_target(st, where)
    if not (isinstance(t, ast.Tuple) and isinstance(v, ast.Tuple) and len(t.elts) == len(v.elts) == 2):
        _fail("%s: expected a two-element simultaneous assignment: `%s`" % (where, U(st)))
    new = {}
    idx = []
    for te, ve in zip(t.elts, v.elts):
        for e in (te, ve):
            if not (isinstance(e, ast.Subscript) and isinstance(e.value, ast.Name) and e.value.id in arrs and isinstance(e.slice, ast.Name)):
                _fail("%s: expected element references of %s in `%s`" % (where, sorted(arrs), U(st)))
        if te.value.id in new:
            _fail("%s: array %s written twice in `%s`" % (where, te.value.id, U(st)))
        new[te.value.id] = "(set_nth %s %s (nth %s %s 0))" % (te.slice.id, arrs[te.value.id], ve.slice.id, arrs[ve.value.id])
        idx.append(te.slice.id)
    if set(new) != set(arrs):
        _fail("%s: `%s` does not write every one of %s" % (where, U(st), sorted(arrs)))
    return new, idx


def _complement(expr, where, env):
    """`A[numpy.logical_not(numpy.in1d(A, B))]` (also np., ~ and isin) -> filter (fun e => negb (memZ e B)) A"""
    if not isinstance(expr, ast.Subscript):
        _fail("%s: expected a boolean-mask selection: `%s`" % (where, U(expr)))
    base, (a, b) = U(expr.value), _not_isin(expr.slice, where)
    if U(a) != base:
        _fail("%s: the mask of `%s` is computed over `%s`, not over the indexed array" % (where, U(expr), U(a)))
    for n in (base, U(b)):
        if n not in env: _fail("%s: `%s` is not bound" % (where, n))
    return "(filter (fun e => negb (memZ e %s)) %s)" % (env[U(b)], env[base])


def _not_isin(expr, where):
    """`~np.isin(A, B)` / `np.logical_not(np.in1d(A, B))` -> (A, B) as ast"""
    inner = None
    if isinstance(expr, ast.UnaryOp) and isinstance(expr.op, ast.Invert):
        inner = expr.operand
    elif isinstance(expr, ast.Call) and U(expr.func) in ("np.logical_not", "numpy.logical_not") and len(expr.args) == 1 and not expr.keywords:
        inner = expr.args[0]
    if not (isinstance(inner, ast.Call) and U(inner.func) in ("np.isin", "numpy.isin", "np.in1d", "numpy.in1d") and len(inner.args) == 2 and not inner.keywords):
        _fail("%s: expected the negation of isin/in1d(A, B): `%s`" % (where, U(expr)))
    return inner.args[0], inner.args[1]


def _mask(expr, where, env):
    """-> map (fun e => negb (memZ e B)) A"""
    a, b = _not_isin(expr, where)
    for n in (U(a), U(b)):
        if n not in env: _fail("%s: `%s` is not bound" % (where, n))
    return "(map (fun e => negb (memZ e %s)) %s)" % (env[U(b)], env[U(a)])


# ------------------------------------------------------------------------------------------------ hill climbers
def _climber(repo, rel, cls, tag, defs):
    fn = P.find_function(repo, rel, cls + ".minimize")
    W = "%s.minimize" % cls
    Zc = lambda env, calls=None: P.Ctx("Z", env, calls=calls)
    k = lambda n: "k_%s_%s" % (tag, n)
    src = lambda st: "%s: %s" % (W, U(st))

    # ---- scores of the start and of a proposal
    LZ = "list Z"
    for nm, tgt, idx, cnt, names in (("gscore", "gbest_score", 0, 2, {"gbest_obj": "obj"}), ("gcv", "gbest_cv", 0, 2, {"gbest_ineqcv": "ineq", "gbest_eqcv": "eq"}),
                                     ("pscore", "prop_score", None, None, {"prop_obj": "obj"}), ("pcv", "prop_cv", None, None, {"prop_ineqcv": "ineq", "prop_eqcv": "eq"})):
        e = P.the_assignment(fn, tgt, index=idx, count=cnt)
        defs.append(P.definition(k(nm), [(c, LZ) for c in names.values()], "Z", P.to_coq(e, Zc({}, _sum_calls(names))), "%s: %s = %s" % (W, tgt, U(e))))

    # ---- the loop
    loops = [n for n in ast.walk(fn) if isinstance(n, ast.While)]
    if len(loops) != 1 or not (isinstance(loops[0].test, ast.Constant) and loops[0].test.value is True) or loops[0].orelse:
        _fail(W + ": expected exactly one `while True` loop")
    body = _stmts(loops[0].body)
    fors = [s for s in body if isinstance(s, ast.For)]
    if len(fors) != 1: _fail(W + ": expected one `for i` loop in the while body")
    fi = fors[0]; pos = body.index(fi)
    head, tail = body[:pos], body[pos + 1:]
    if not (U(fi.target) == "i" and U(fi.iter) == "range(len(gbest_soln))" and not fi.orelse):
        _fail(W + ": outer loop is not `for i in range(len(gbest_soln))`: " + U(fi).split("\n")[0])
    ib = _stmts(fi.body)
    if not (len(ib) == 1 and isinstance(ib[0], ast.For) and U(ib[0].target) == "j" and U(ib[0].iter) == "range(len(wrkss))" and not ib[0].orelse):
        _fail(W + ": inner loop is not `for j in range(len(wrkss))`")
    jb = _stmts(ib[0].body)
    if len(jb) != 6 or not isinstance(jb[4], ast.If):
        _fail(W + ": the inner loop body is no longer [exchange, evaluate, prop_score, prop_cv, if/elif, exchange back]: " + repr([U(s).split("\n")[0] for s in jb]))
    arrs = {"gbest_soln": "s", "wrkss": "w"}
    sw1, ix1 = _swap(jb[0], W, arrs)
    sw2, ix2 = _swap(jb[5], W, arrs)
    if sw1 != sw2 or ix1 != ["i", "j"]:
        _fail(W + ": the exchange before the evaluation and the one after it differ (or do not use i, j)")
    t, v = _one_target(jb[1], W)
    if U(t) != "(prop_obj, prop_ineqcv, prop_eqcv)" or U(v) != "prob.evalfn(gbest_soln)":
        _fail(W + ": expected `prop_obj, prop_ineqcv, prop_eqcv = prob.evalfn(gbest_soln)`, found `%s`" % U(jb[1]))
    if [U(_one_target(s, W)[0]) for s in jb[2:4]] != ["prop_score", "prop_cv"]:
        _fail(W + ": expected prop_score, prop_cv after the evaluation")
    defs.append(P.definition(k("swap"), [("s", LZ), ("w", LZ), ("i", "nat"), ("j", "nat")], "list Z * list Z",
                             "(%s, %s)" % (sw1["gbest_soln"], sw1["wrkss"]), src(jb[0])))

    # ---- acceptance rule
    iff = jb[4]
    if not (len(iff.orelse) == 1 and isinstance(iff.orelse[0], ast.If) and not iff.orelse[0].orelse):
        _fail(W + ": the acceptance rule is no longer `if ...: elif ...:` without else")
    eli = iff.orelse[0]
    env4 = {"prop_cv": "prop_cv", "best_cv": "best_cv", "prop_score": "prop_score", "best_score": "best_score"}
    defs.append(P.definition(k("better_cv"), [("prop_cv", "Z"), ("best_cv", "Z")], "bool",
                             P.to_coq(iff.test, Zc({"prop_cv": "prop_cv", "best_cv": "best_cv"}), "bool"), "%s: if %s" % (W, U(iff.test))))
    defs.append(P.definition(k("better_score"), [("prop_cv", "Z"), ("best_cv", "Z"), ("prop_score", "Z"), ("best_score", "Z")], "bool",
                             P.to_coq(eli.test, Zc(env4), "bool"), "%s: elif %s" % (W, U(eli.test))))
    rhs = {"i": "(Some i)", "j": "(Some j)", "prop_obj": "pobj", "prop_ineqcv": "pineq", "prop_eqcv": "peq", "prop_score": "prop_score", "prop_cv": "prop_cv"}
    bparams = [("i", "nat"), ("j", "nat"), ("pobj", LZ), ("pineq", LZ), ("peq", LZ), ("prop_score", "Z"), ("prop_cv", "Z"), ("b", "hcst")]
    for nm, blk in (("take_cv", iff.body), ("take_score", eli.body)):
        stt = _interp_assign(_stmts(blk), HC_GET, rhs, W + " (" + nm + ")")
        defs.append(P.definition(k(nm), bparams, "hcst", _mk("mkHC", HC_FIELDS, stt, W + " (" + nm + ")"),
                                 "%s: %s" % (W, "; ".join(U(s) for s in _stmts(blk)))))
    defs.append(P.definition(
        k("step"), [("i", "nat"), ("j", "nat"), ("pobj", LZ), ("pineq", LZ), ("peq", LZ), ("b", "hcst")], "hcst",
        "let prop_score := %s pobj in let prop_cv := %s pineq peq in\n  if %s prop_cv (h_cv b) then %s i j pobj pineq peq prop_score prop_cv b\n"
        "  else if %s prop_cv (h_cv b) prop_score (h_score b) then %s i j pobj pineq peq prop_score prop_cv b else b"
        % (k("pscore"), k("pcv"), k("better_cv"), k("take_cv"), k("better_score"), k("take_score")),
        "%s: the if/elif statement of the inner loop" % W))

    # ---- loop head, stop test, commit
    stt = _interp_assign(head, {}, G_GET, W + " (loop head)")
    defs.append(P.definition(k("init"), [("g", "gst")], "hcst", _mk("mkHC", HC_FIELDS, stt, W + " (loop head)"), "%s: %s" % (W, "; ".join(U(s) for s in head))))
    if not (len(tail) == 5 and isinstance(tail[0], ast.If) and not tail[0].orelse and len(_stmts(tail[0].body)) == 1 and isinstance(_stmts(tail[0].body)[0], ast.Break)):
        _fail(W + ": after the scan expected `if <stop>: break`, the exchange and three updates of gbest_*")
    defs.append(P.definition(k("stop"), [("b", "hcst")], "bool", _none_test(tail[0].test, W, {"best_i": "(h_i b)", "best_j": "(h_j b)"}), "%s: if %s: break" % (W, U(tail[0].test))))
    sw3, ix3 = _swap(tail[1], W, arrs)
    ren = lambda d: {a: t.replace("best_i", "i").replace("best_j", "j") for a, t in d.items()}
    if ix3 != ["best_i", "best_j"] or ren(sw3) != sw1:
        _fail(W + ": the committed exchange `%s` is not the proposed one" % U(tail[1]))
    stt = _interp_assign(tail[2:], G_GET, {f: HC_GET[f] for f in HC_FIELDS}, W + " (commit)")
    defs.append(P.definition(k("commit"), [("b", "hcst"), ("g", "gst")], "gst", _mk("mkG", G_FIELDS, stt, W + " (commit)"), "%s: %s" % (W, "; ".join(U(s) for s in tail[2:]))))

    # ---- evaluation of the start: gbest_obj, gbest_ineqcv, gbest_eqcv = prob.evalfn(gbest_soln)
    cands = [n for n in ast.walk(fn) if isinstance(n, ast.Assign) and U(n.value) == "prob.evalfn(gbest_soln)" and U(n.targets[0]).startswith("(gbest")]
    if len(cands) != 1: _fail(W + ": expected exactly one `gbest_... = prob.evalfn(gbest_soln)`")
    names = [e.id for e in cands[0].targets[0].elts] if isinstance(cands[0].targets[0], ast.Tuple) else []
    if sorted(names) != sorted(G_FIELDS[:3]): _fail(W + ": `%s`" % U(cands[0]))
    comp = dict(zip(names, ["(e_obj r)", "(e_ineq r)", "(e_eq r)"]))
    stt = {n: comp[n] for n in names}
    stt["gbest_score"] = "(%s %s)" % (k("gscore"), stt["gbest_obj"])
    stt["gbest_cv"] = "(%s %s %s)" % (k("gcv"), stt["gbest_ineqcv"], stt["gbest_eqcv"])
    defs.append(P.definition(k("g0"), [("r", "evalT")], "gst", _mk("mkG", G_FIELDS, stt, W), src(cands[0])))

    # ---- exchange pool
    e = P.the_assignment(fn, "wrkss")
    defs.append(P.definition(k("wrkss"), [("cand", LZ), ("s", LZ)], LZ, _complement(e, W, {"prob.decn_space": "cand", "gbest_soln": "s"}), "%s: wrkss = %s" % (W, U(e))))
    # ---- reported values: miscout
    mis = [n for n in ast.walk(fn) if isinstance(n, ast.Assign) and U(n.targets[0]).startswith("miscout[")]
    got = sorted((U(n.targets[0]), U(n.value)) for n in mis)
    if got != [("miscout['gbest_cv']", "gbest_cv"), ("miscout['gbest_score']", "gbest_score")]:
        _fail(W + ": miscout assignments %r" % (got,))
    return fn


def _none_test(expr, where, env):
    """boolean combination (and/or/not) of `<name> is None` / `<name> is not None`"""
    if isinstance(expr, ast.BoolOp):
        op = "andb" if isinstance(expr.op, ast.And) else "orb"
        parts = [_none_test(v, where, env) for v in expr.values]
        out = parts[-1]
        for p in reversed(parts[:-1]): out = "(%s %s %s)" % (op, p, out)
        return out
    if isinstance(expr, ast.UnaryOp) and isinstance(expr.op, ast.Not):
        return "(negb %s)" % _none_test(expr.operand, where, env)
    if (isinstance(expr, ast.Compare) and len(expr.ops) == 1 and isinstance(expr.comparators[0], ast.Constant) and expr.comparators[0].value is None
            and U(expr.left) in env):
        if isinstance(expr.ops[0], ast.Is): return "(is_none %s)" % env[U(expr.left)]
        if isinstance(expr.ops[0], ast.IsNot): return "(negb (is_none %s))" % env[U(expr.left)]
    _fail("%s: unsupported None-test `%s`" % (where, U(expr)))


# ------------------------------------------------------------------------------------------------ sorting
def _sorting(repo, rel, cls, tag, defs):
    fn = P.find_function(repo, rel, cls + ".minimize")
    W = "%s.minimize" % cls
    k = lambda n: "k_%s_%s" % (tag, n)
    # evals = [prob.evalfn(numpy.array([e])) for e in prob.decn_space]
    e = P.the_assignment(fn, "evals")
    if not (isinstance(e, ast.ListComp) and len(e.generators) == 1 and not e.generators[0].ifs and isinstance(e.generators[0].target, ast.Name)
            and U(e.generators[0].iter) == "prob.decn_space"
            and U(e.elt) == "prob.evalfn(numpy.array([%s]))" % e.generators[0].target.id):
        _fail(W + ": evals is no longer the list of singleton evaluations over prob.decn_space: " + U(e))
    defs.append(P.definition(k("singles"), [("cand", "list Z")], "list (list Z)", "(map (fun e => [e]) cand)", "%s: evals = %s" % (W, U(e))))
    t = [n for n in ast.walk(fn) if isinstance(n, ast.Assign) and U(n.value) == "zip(*evals)"]
    if len(t) != 1 or U(t[0].targets[0]) != "(obj, ineqcv, eqcv)":
        _fail(W + ": expected `obj, ineqcv, eqcv = zip(*evals)`")
    if U(P.the_assignment(fn, "obj")) != "numpy.stack(obj)":
        _fail(W + ": expected `obj = numpy.stack(obj)`")
    # ix = <key>.argsort(0)
    e = P.the_assignment(fn, "ix")
    if not (isinstance(e, ast.Call) and isinstance(e.func, ast.Attribute) and e.func.attr == "argsort" and [U(a) for a in e.args] == ["0"] and not e.keywords):
        _fail(W + ": ix is no longer `<key>.argsort(0)`: " + U(e))
    defs.append(P.definition(k("key"), [("obj", "Z"), ("obj_wt", "Z")], "Z", P.to_coq(e.func.value, P.Ctx("Z", {"obj": "obj", "prob.obj_wt": "obj_wt"})),
                             "%s: ix = %s" % (W, U(e))))
    # gbest_ix = ix[lo:hi, 0]
    e = P.the_assignment(fn, "gbest_ix")
    if not (isinstance(e, ast.Subscript) and U(e.value) == "ix" and isinstance(e.slice, ast.Tuple) and len(e.slice.elts) == 2
            and isinstance(e.slice.elts[0], ast.Slice) and e.slice.elts[0].step is None and U(e.slice.elts[1]) == "0"):
        _fail(W + ": gbest_ix is no longer `ix[lo:hi, 0]`: " + U(e))
    sl = e.slice.elts[0]
    env = {"prob.ndecn": "ndecn"}
    if any(isinstance(n, ast.Name) and n.id == "ndecn" for n in ast.walk(sl)):
        if U(P.the_assignment(fn, "ndecn")) != "prob.ndecn": _fail(W + ": ndecn is not prob.ndecn")
        env["ndecn"] = "ndecn"
    lo = "(0)%Z" if sl.lower is None else P.to_coq(sl.lower, P.Ctx("Z", env))
    if sl.upper is None: _fail(W + ": open upper bound in " + U(e))
    defs.append(P.definition(k("lo"), [("ndecn", "Z")], "Z", lo, "%s: gbest_ix = %s" % (W, U(e))))
    defs.append(P.definition(k("hi"), [("ndecn", "Z")], "Z", P.to_coq(sl.upper, P.Ctx("Z", env)), "%s: gbest_ix = %s" % (W, U(e))))
    e = P.the_assignment(fn, "gbest_soln")
    if U(e) != "prob.decn_space[gbest_ix]": _fail(W + ": gbest_soln = " + U(e))
    defs.append(P.definition(k("pick"), [("cand", "list Z"), ("ix", "list nat")], "list Z", "(np_take 0 cand ix)", "%s: gbest_soln = %s" % (W, U(e))))


# ------------------------------------------------------------------------------------------------ pymoo_addon
def _dominates(repo, defs):
    fn = P.find_function(repo, ADDON, "dominates")
    if [a.arg for a in fn.args.args] != ["obj1", "cv1", "obj2", "cv2"]: _fail("dominates: signature changed")
    body = _stmts(fn.body)
    if not (len(body) == 2 and isinstance(body[0], ast.If) and not body[0].orelse and len(_stmts(body[0].body)) == 1
            and isinstance(_stmts(body[0].body)[0], ast.Return) and isinstance(body[1], ast.Return)):
        _fail("dominates: expected `if <both feasible>: return <pareto>` followed by `return <cv comparison>`")
    Zc = P.Ctx("Z", {"cv1": "cv1", "cv2": "cv2"})
    defs.append(P.definition("k_dom_feas", [("cv1", "Z"), ("cv2", "Z")], "bool", P.to_coq(body[0].test, Zc, "bool"), "dominates: if " + U(body[0].test)))
    r = _stmts(body[0].body)[0].value
    if not (isinstance(r, ast.BoolOp) and isinstance(r.op, ast.And) and len(r.values) == 2): _fail("dominates: " + U(r))
    parts = []
    for v, red, fun in zip(r.values, ("np.all", "np.any"), ("all2z", "any2z")):
        if not (isinstance(v, ast.Call) and U(v.func) == red and len(v.args) == 1 and not v.keywords and isinstance(v.args[0], ast.Compare)):
            _fail("dominates: expected %s(<comparison>): %s" % (red, U(v)))
        parts.append("(%s (fun a b => %s) obj1 obj2)" % (fun, P.to_coq(v.args[0], P.Ctx("Z", {"obj1": "a", "obj2": "b"}), "bool")))
    defs.append(P.definition("k_dom_pareto", [("obj1", "list Z"), ("obj2", "list Z")], "bool", "(andb %s %s)" % tuple(parts), "dominates: return " + U(r)))
    defs.append(P.definition("k_dom_cvlt", [("cv1", "Z"), ("cv2", "Z")], "bool", P.to_coq(body[1].value, Zc, "bool"), "dominates: return " + U(body[1].value)))
    defs.append(P.definition("k_dominates", [("obj1", "list Z"), ("cv1", "Z"), ("obj2", "list Z"), ("cv2", "Z")], "bool",
                             "if k_dom_feas cv1 cv2 then k_dom_pareto obj1 obj2 else k_dom_cvlt cv1 cv2", "dominates: the whole body"))


FALLBACK = "if random_state is None:\n    random_state = global_prng"


def _rs_fallback(fn, where):
    """the statement that names the draw source: `if random_state is None: random_state = global_prng`, a top-level statement of the
    function, either right at the top of a function with a parameter `random_state = None` or right after
    `random_state = kwargs.get('random_state')` (pymoo's `_do` / `do`).  No other binding of `random_state`.  Returns the `if` node"""
    body = _stmts(fn.body)
    ifs = [(i, s) for i, s in enumerate(body) if isinstance(s, ast.If) and U(s) == FALLBACK]
    if len(ifs) != 1:
        _fail("%s: expected exactly one top-level `if random_state is None: random_state = global_prng`" % where)
    pos, node = ifs[0]
    params = [a.arg for a in fn.args.posonlyargs + fn.args.args + fn.args.kwonlyargs]
    binds = [n for n in ast.walk(fn) if isinstance(n, ast.Name) and n.id == "random_state" and isinstance(n.ctx, ast.Store)]
    if "random_state" in params:
        defaults = dict(zip([a.arg for a in fn.args.args][len(fn.args.args) - len(fn.args.defaults):], fn.args.defaults))
        defaults.update({a.arg: d for a, d in zip(fn.args.kwonlyargs, fn.args.kw_defaults)})
        d = defaults.get("random_state")
        if d is None or U(d) != "None":
            _fail("%s: parameter random_state has no default None" % where)
        if pos != 0 or len(binds) != 1:
            _fail("%s: the generator fallback is not the first statement / random_state is rebound" % where)
        style = "parameter"
    else:
        if not (pos >= 1 and isinstance(body[pos - 1], ast.Assign) and U(body[pos - 1]) == "random_state = kwargs.get('random_state')" and len(binds) == 2
                and fn.args.kwarg is not None and fn.args.kwarg.arg == "kwargs"):
            _fail("%s: random_state is neither a parameter nor taken from kwargs.get('random_state') right before the fallback" % where)
        style = "kwargs.get"
    node._c06_style = style
    return node


DRAW_METHODS = {"choice", "random", "randint", "integers", "binomial", "permutation", "shuffle", "permuted", "random_sample", "rand", "randn", "ranf",
                "sample", "normal", "uniform", "multinomial", "standard_normal", "poisson", "beta", "gamma", "exponential", "bytes", "seed"}
GLOBAL_ROOTS = ("np.random", "numpy.random")
PASS_ON = ("self.hillclimb", "self.reduced_exchange")


def _draw_sites(repo, defs):
    """every random draw of pymoo_addon.py: (function, drawn method / helper that draws, the object it draws from).  A function that
    draws must carry the fallback statement before its first draw; any mention of the module-level streams (np.random, global_prng)
    outside that statement is a row of its own (so the lemma `all receivers are random_state` fails)"""
    tree = P.parse_file(repo, ADDON)
    imp = [n for n in tree.body if isinstance(n, ast.ImportFrom) and any(a.name == "global_prng" or a.asname == "global_prng" for a in n.names)]
    if len(imp) != 1 or imp[0].module != "pybrops.core.random.prng" or [(a.name, a.asname) for a in imp[0].names] != [("global_prng", None)]:
        _fail("pymoo_addon: global_prng is no longer `from pybrops.core.random.prng import global_prng`")
    if any(isinstance(t, ast.Name) and t.id in ("global_prng", "np", "numpy") for n in ast.walk(tree) if isinstance(n, (ast.Assign, ast.AugAssign, ast.AnnAssign))
           for t in (n.targets if isinstance(n, ast.Assign) else [n.target])):
        _fail("pymoo_addon: global_prng / np is rebound")
    funs = []
    for n in tree.body:
        if isinstance(n, ast.FunctionDef): funs.append((n.name, n))
        elif isinstance(n, ast.ClassDef):
            for m in n.body:
                if isinstance(m, ast.FunctionDef): funs.append((n.name + "." + m.name, m))
                elif isinstance(m, ast.ClassDef): _fail("pymoo_addon: nested class %s.%s" % (n.name, m.name))
    sites, fallbacks = [], []
    for q, fn in funs:
        if any(isinstance(n, (ast.FunctionDef, ast.Lambda, ast.AsyncFunctionDef)) for n in ast.walk(fn) if n is not fn):
            _fail("%s: nested function (draw sites cannot be attributed)" % q)
        rows = []
        for n in ast.walk(fn):
            if isinstance(n, ast.Call):
                f = n.func
                if isinstance(f, ast.Attribute) and f.attr in DRAW_METHODS and not (U(f.value) == "self" or U(f) in PASS_ON):
                    rows.append((n.lineno, f.attr, U(f.value)))
                elif isinstance(f, ast.Name) and f.id == "randint":
                    a = U(P.the_assignment(fn, "randint"))
                    ok = a == "random_state.integers if hasattr(random_state, 'integers') else random_state.randint"
                    rows.append((n.lineno, "randint", "random_state" if ok else "<%s>" % a))
                elif (isinstance(f, ast.Name) and f.id == "tiled_choice") or U(f) in PASS_ON:
                    kw = [k for k in n.keywords if k.arg == "random_state"]
                    if isinstance(f, ast.Name) and len(n.args) == 3 and not kw: src = U(n.args[2])
                    elif len(kw) == 1 and (not isinstance(f, ast.Name) or len(n.args) == 2): src = U(kw[0].value)
                    else: src = "<none>"
                    rows.append((n.lineno, U(f), src))
            elif isinstance(n, ast.Attribute) and U(n) in GLOBAL_ROOTS:
                rows.append((n.lineno, "<module stream>", U(n)))
        gp = [n for n in ast.walk(fn) if isinstance(n, ast.Name) and n.id == "global_prng"]
        if not rows and not gp: continue
        fb = _rs_fallback(fn, q)
        for n in gp:
            if not any(n is x for x in ast.walk(fb)): rows.append((n.lineno, "<module stream>", "global_prng"))
        if rows and min(r[0] for r in rows) <= fb.lineno:
            _fail("%s: a draw precedes the statement that fixes the generator" % q)
        fallbacks.append((q, fb._c06_style, "global_prng"))
        sites += [(q, m, r) for _, m, r in sorted(rows)]
    qs = lambda s_: '"%s"%%string' % s_.replace('"', '""')
    tab = lambda rows: ";\n   ".join("(%s, %s, %s)" % tuple(qs(x) for x in r) for r in rows)
    defs.append("(* src: pymoo_addon.py, every function that draws random numbers: (function, method drawn / helper handed the generator, object drawn from) *)\n"
                "Definition k_draw_sites : list (string * string * string) :=\n  [%s].\n" % tab(sites))
    defs.append("(* src: pymoo_addon.py: (function, where random_state comes from, what `if random_state is None: random_state = ...` falls back to) *)\n"
                "Definition k_draw_fallbacks : list (string * string * string) :=\n  [%s].\n" % tab(fallbacks))
    return len(sites)


def _choice_args(call, where, fnname):
    if not (isinstance(call, ast.Call) and U(call.func) == fnname and len(call.args) == 2 and [kw.arg for kw in call.keywords] == ["replace"]
            and isinstance(call.keywords[0].value, ast.Constant) and isinstance(call.keywords[0].value.value, bool)):
        _fail("%s: expected %s(n, size, replace=<bool>): %s" % (where, fnname, U(call)))
    return call.args[0], call.args[1], call.keywords[0].value.value


def _tiled_choice(repo, defs):
    fn = P.find_function(repo, ADDON, "tiled_choice")
    if ([a.arg for a in fn.args.args] != ["a", "size", "random_state"] or fn.args.vararg or fn.args.kwarg or fn.args.kwonlyargs or fn.args.posonlyargs
            or [U(d) for d in fn.args.defaults] != ["None"]):
        _fail("tiled_choice: signature is no longer (a, size, random_state=None)")
    _rs_fallback(fn, "tiled_choice")
    Zc = lambda extra=(): P.Ctx("Z", dict({"a": "a", "size": "size"}, **dict(extra)))
    for nm in ("ndiv", "nrem"):
        e = P.the_assignment(fn, nm)
        defs.append(P.definition("k_tc_" + nm, [("a", "Z"), ("size", "Z")], "Z", P.to_coq(e, Zc()), "tiled_choice: %s = %s" % (nm, U(e))))
    loops = [n for n in ast.walk(fn) if isinstance(n, ast.For)]
    if len(loops) != 1 or U(loops[0].target) != "i" or U(loops[0].iter) != "range(ndiv)" or len(_stmts(loops[0].body)) != 1:
        _fail("tiled_choice: expected one loop `for i in range(ndiv)` with one statement")
    t, v = _one_target(_stmts(loops[0].body)[0], "tiled_choice")
    if not (isinstance(t, ast.Subscript) and U(t.value) == "out" and isinstance(t.slice, ast.Slice) and t.slice.lower is not None and t.slice.upper is not None and t.slice.step is None):
        _fail("tiled_choice: loop statement is not `out[lo:hi] = ...`: " + U(t))
    defs.append(P.definition("k_tc_lo", [("a", "Z"), ("i", "Z")], "Z", P.to_coq(t.slice.lower, P.Ctx("Z", {"a": "a", "i": "i"})), "tiled_choice: " + U(t)))
    defs.append(P.definition("k_tc_hi", [("a", "Z"), ("i", "Z")], "Z", P.to_coq(t.slice.upper, P.Ctx("Z", {"a": "a", "i": "i"})), "tiled_choice: " + U(t)))
    n1, s1, r1 = _choice_args(v, "tiled_choice", "random_state.choice")
    body = _stmts(fn.body)
    last = [s for s in body if isinstance(s, ast.Assign) and isinstance(s.targets[0], ast.Subscript) and U(s.targets[0].value) == "out"]
    if len(last) != 1: _fail("tiled_choice: expected one tail assignment `out[a*ndiv:] = ...`")
    t2, v2 = _one_target(last[0], "tiled_choice")
    if not (isinstance(t2.slice, ast.Slice) and t2.slice.lower is not None and t2.slice.upper is None and t2.slice.step is None):
        _fail("tiled_choice: tail is not `out[lo:] = ...`: " + U(t2))
    defs.append(P.definition("k_tc_tail", [("a", "Z"), ("ndiv", "Z")], "Z", P.to_coq(t2.slice.lower, P.Ctx("Z", {"a": "a", "ndiv": "ndiv"})), "tiled_choice: " + U(t2)))
    n2, s2, r2 = _choice_args(v2, "tiled_choice", "random_state.choice")
    env = {"a": "a", "nrem": "nrem"}
    tup = lambda n, s, r: "(%s, %s, %s)" % (P.to_coq(n, P.Ctx("Z", env)), P.to_coq(s, P.Ctx("Z", env)), "true" if r else "false")
    defs.append(P.definition("k_tc_draws", [("a", "Z"), ("nrem", "Z")], "(Z * Z * bool) * (Z * Z * bool)", "(%s, %s)" % (tup(n1, s1, r1), tup(n2, s2, r2)),
                             "tiled_choice: %s ; %s" % (U(v), U(v2))))
    if U(P.the_return(fn)) != "out": _fail("tiled_choice: return")


def _rex(repo, defs):
    fn = P.find_function(repo, ADDON, "ReducedExchangeCrossover._do")
    W = "ReducedExchangeCrossover._do"
    env = {"Xp[0, i, :]": "a", "Xp[1, i, :]": "b"}
    for nm in ("mab", "mba"):
        e = P.the_assignment(fn, nm)
        defs.append(P.definition("k_rex_" + nm, [("a", "list Z"), ("b", "list Z")], "list bool", _mask(e, W, env), "%s: %s = %s" % (W, nm, U(e))))
    if U(P.the_assignment(fn, "ap")) != "Xp[0, i, mab]" or U(P.the_assignment(fn, "bp")) != "Xp[1, i, mba]":
        _fail(W + ": ap / bp are no longer Xp[0,i,mab] / Xp[1,i,mba]")
    if U(P.the_assignment(fn, "Xp[0, i, mab]")) != "ap" or U(P.the_assignment(fn, "Xp[1, i, mba]")) != "bp":
        _fail(W + ": the reduced chromosomes are not written back to the rows they were taken from")
    e = P.the_assignment(fn, "clen")
    from translate.kernelkit import bind
    defs.append(P.definition("k_rex_clen", [("la", "Z"), ("lb", "Z")], "Z",
                             P.to_coq(bind(e, {"len(ap)": "la", "len(bp)": "lb"}), P.Ctx("Z", {"la": "la", "lb": "lb"}, calls={"min": ("Z.min", 2)})),
                             "%s: clen = %s" % (W, U(e))))
    e = P.the_assignment(fn, "nex")
    if not (isinstance(e, ast.IfExp) and isinstance(e.orelse, ast.Call) and U(e.orelse.func) == "randint" and len(e.orelse.args) == 2 and not e.orelse.keywords):
        _fail(W + ": nex is no longer `<k> if <test> else randint(lo, hi)`: " + U(e))
    ri = e.orelse
    e2 = ast.IfExp(test=e.test, body=e.body, orelse=ast.Name(id="draw", ctx=ast.Load()))
    defs.append(P.definition("k_rex_nex", [("clen", "Z"), ("draw", "Z")], "Z", P.to_coq(e2, P.Ctx("Z", {"clen": "clen", "draw": "draw"})), "%s: nex = %s" % (W, U(e))))
    defs.append(P.definition("k_rex_randint", [("clen", "Z")], "Z * Z", "(%s, %s)" % tuple(P.to_coq(a, P.Ctx("Z", {"clen": "clen"})) for a in ri.args), "%s: %s" % (W, U(ri))))
    if U(P.the_assignment(fn, "mex")) != "random_state.choice(clen, nex)": _fail(W + ": mex = " + U(P.the_assignment(fn, "mex")))
    # ap[mex], bp[mex] = bp[mex], ap[mex]
    st = [n for n in ast.walk(fn) if isinstance(n, ast.Assign) and U(n.targets[0]) == "(ap[mex], bp[mex])"]
    if len(st) != 1 or U(st[0].value) != "(bp[mex], ap[mex])": _fail(W + ": the allele exchange is no longer `ap[mex], bp[mex] = bp[mex], ap[mex]`")
    defs.append(P.definition("k_rex_exchange", [("ap", "list Z"), ("bp", "list Z"), ("mex", "list nat")], "list Z * list Z",
                             "(assign_at mex ap bp, assign_at mex bp ap)", "%s: %s" % (W, U(st[0]))))

    fn = P.find_function(repo, ADDON, "ReducedExchangeMutation._do")
    W = "ReducedExchangeMutation._do"
    env = {"Xm[i, :]": "x", "self.setspace": "ss"}
    for nm in ("mab", "mba"):
        e = P.the_assignment(fn, nm)
        defs.append(P.definition("k_mut_" + nm, [("x", "list Z"), ("ss", "list Z")], "list bool", _mask(e, W, env), "%s: %s = %s" % (W, nm, U(e))))
    if [U(P.the_assignment(fn, n)) for n in ("ap", "pp", "bp", "Xm[i, mab]")] != ["Xm[i, mab]", "p[mab]", "self.setspace[mba]", "ap"]:
        _fail(W + ": ap / pp / bp / write-back changed")
    e = P.the_assignment(fn, "mex")
    if not (isinstance(e, ast.Compare) and U(e.left) == "random_state.random(len(pp))"): _fail(W + ": mex = " + U(e))
    e2 = ast.Compare(left=ast.Name(id="u", ctx=ast.Load()), ops=e.ops, comparators=e.comparators)
    defs.append(P.definition("k_mut_mex", [("u", "Q"), ("p", "Q")], "bool", P.to_coq(e2, P.Ctx("Q", {"u": "u", "pp": "p"}), "bool"), "%s: mex = %s" % (W, U(e))))
    if U(P.the_assignment(fn, "ap[mex]")) != "random_state.choice(bp, nex)" or U(P.the_assignment(fn, "nex")) != "mex.sum()":
        _fail(W + ": the replacement draw changed")


def _mutator(repo, cls, tag, defs):
    fn = P.find_function(repo, ADDON, cls + ".hillclimb")
    W = cls + ".hillclimb"
    k = lambda n: "k_%s_%s" % (tag, n)
    e = P.the_assignment(fn, "alleles")
    defs.append(P.definition(k("alleles"), [("ss", "list Z"), ("x", "list Z")], "list Z", _complement(e, W, {"self.setspace": "ss", "origin.X": "x"}), "%s: alleles = %s" % (W, U(e))))
    if U(P.the_assignment(fn, "origin.X")) != "x.copy()": _fail(W + ": origin.X is no longer a copy of x")
    if U(P.the_assignment(fn, "nloci")) != "len(origin.X)" or U(P.the_assignment(fn, "nalleles")) != "len(alleles)": _fail(W + ": nloci / nalleles")
    e = P.the_assignment(fn, "nhcstep")
    if not (isinstance(e, ast.IfExp) and U(e.test) in ("self.nhcstep is None",) and U(e.body) == "nloci" and U(e.orelse) == "self.nhcstep"):
        _fail(W + ": nhcstep = " + U(e))
    defs.append(P.definition(k("nhcstep"), [("nloci", "nat"), ("opt", "option nat")], "nat", "match opt with None => nloci | Some v => v end", "%s: nhcstep = %s" % (W, U(e))))
    # guard: if nalleles == 0: return origin.X   (the first if of the function)
    fb = _rs_fallback(fn, W)
    ifs = [n for n in ast.walk(fn) if isinstance(n, ast.If) and n is not fb]
    if len(ifs) != 1 or len(_stmts(ifs[0].body)) != 1 or not isinstance(_stmts(ifs[0].body)[0], ast.Return) or U(_stmts(ifs[0].body)[0].value) != "origin.X" or ifs[0].orelse:
        _fail(W + ": expected exactly one guard `if <no alleles>: return origin.X`")
    defs.append(P.definition(k("guard"), [("nalleles", "Z")], "bool", P.to_coq(ifs[0].test, P.Ctx("Z", {"nalleles": "nalleles"}), "bool"), "%s: if %s: return origin.X" % (W, U(ifs[0].test))))
    # tiled draws: which count goes with which
    pair = []
    for nm in ("lociix", "alleleix"):
        e = P.the_assignment(fn, nm)
        if not (isinstance(e, ast.Call) and U(e.func) == "tiled_choice" and len(e.args) == 3 and not e.keywords and U(e.args[2]) == "random_state"):
            _fail(W + ": expected %s = tiled_choice(<n>, <size>, random_state): %s" % (nm, U(e)))
        pair.append("(%s, %s)" % tuple(P.to_coq(a, P.Ctx("Z", {"nloci": "nloci", "nalleles": "nalleles", "nhcstep": "nhcstep"})) for a in e.args[:2]))
    defs.append(P.definition(k("tiled"), [("nloci", "Z"), ("nalleles", "Z"), ("nhcstep", "Z")], "(Z * Z) * (Z * Z)", "(%s, %s)" % tuple(pair),
                             "%s: lociix = %s; alleleix = %s" % (W, U(P.the_assignment(fn, "lociix")), U(P.the_assignment(fn, "alleleix")))))
    # trial rows
    if U(P.the_assignment(fn, "Xhc", index=0)) not in ("np.empty((nhcstep, nloci), dtype=x.dtype)",): _fail(W + ": allocation of Xhc")
    if U(P.the_assignment(fn, "Xhc[:, :]")) != "x[None, :]": _fail(W + ": Xhc rows are no longer initialised with x")
    cand = [n for n in ast.walk(fn) if isinstance(n, ast.Assign) and isinstance(n.targets[0], ast.Subscript) and U(n.targets[0].value) == "Xhc" and U(n.targets[0]) != "Xhc[:, :]"]
    if len(cand) != 1: _fail(W + ": expected exactly one exchange assignment into Xhc")
    t, v = _one_target(cand[0], W)
    if not (isinstance(t.slice, ast.Tuple) and len(t.slice.elts) == 2 and U(t.slice.elts[0]) == "np.arange(nhcstep)" and isinstance(t.slice.elts[1], ast.Name)
            and isinstance(v, ast.Subscript) and isinstance(v.value, ast.Name) and isinstance(v.slice, ast.Name)):
        _fail(W + ": the exchange is no longer `Xhc[np.arange(nhcstep), <cols>] = <values>[<ix>]`: " + U(cand[0]))
    names = {"lociix": "lociix", "alleleix": "alleleix", "alleles": "alleles"}
    for n in (t.slice.elts[1].id, v.value.id, v.slice.id):
        if n not in names: _fail(W + ": unexpected name %s in %s" % (n, U(cand[0])))
    defs.append(P.definition(k("trials"), [("x", "list Z"), ("alleles", "list Z"), ("lociix", "list nat"), ("alleleix", "list nat")], "list (list Z)",
                             "(np_rowwise_assign x %s (np_take 0 %s %s))" % (t.slice.elts[1].id, v.value.id, v.slice.id), "%s: %s" % (W, U(cand[0]))))
    if U(P.the_assignment(fn, "pophc", index=0, count=2)) != "Population.new(X=Xhc)" or U(P.the_assignment(fn, "pophc", index=1)) != "pophc[ndix]":
        _fail(W + ": the trial population is no longer Population.new(X=Xhc) filtered by pophc[ndix]")
    if U(P.the_assignment(fn, "ndix")) != "nds.do(F, only_non_dominated_front=True)" or U(P.the_assignment(fn, "F")) != "pophc.get('F')":
        _fail(W + ": non-dominated front computation changed")
    sel = U(P.the_assignment(fn, "selix"))
    if tag == "mutA":
        if sel != "random_state.choice(len(pophc))": _fail(W + ": selix = " + sel)
    else:
        e = P.the_assignment(fn, "minix")
        if not (isinstance(e, ast.Call) and U(e.func) == "np.argmin" and len(e.args) == 1 and [(kw.arg, U(kw.value)) for kw in e.keywords] == [("axis", "0")]):
            _fail(W + ": minix = " + U(e))
        arg = e.args[0]
        if not (isinstance(arg, ast.Subscript) and U(arg.value) == "F" and U(arg.slice) == "ndix"):
            # F (all trial rows) instead of F[ndix] is the repaired defect C06-mutatorB-front-index
            term = "(np_argmin0 nobj F)" if U(arg) == "F" else _fail(W + ": minix = " + U(e))
        else:
            term = "(np_argmin0 nobj (np_take [] F ndix))"
        defs.append(P.definition(k("minix"), [("nobj", "nat"), ("F", "list (list Z)"), ("ndix", "list nat")], "list nat", term, "%s: minix = %s" % (W, U(e))))
        if sel != "random_state.choice(minix)": _fail(W + ": selix = " + sel)
    if U(P.the_assignment(fn, "indiv")) != "pophc[selix]" or U(P.the_assignment(fn, "out")) != "indiv.X": _fail(W + ": selection of the returned row changed")


def _rounding(repo, defs):
    for cls, nm in (("IntegerSimulatedBinaryCrossover", "k_isbx_round"), ("IntegerPolynomialMutation", "k_ipm_round")):
        fn = P.find_function(repo, ADDON, cls + "._do")
        a = P.assignments_to(fn, "out")
        if len(a) != 2: _fail(cls + "._do: expected two assignments to out")
        e = a[1].value
        ok = (isinstance(e, ast.Call) and isinstance(e.func, ast.Attribute) and e.func.attr == "astype" and [U(x) for x in e.args] == ["X.dtype"] and not e.keywords
              and isinstance(e.func.value, ast.Call) and isinstance(e.func.value.func, ast.Attribute) and e.func.value.func.attr == "round"
              and U(e.func.value.func.value) == "out" and len(e.func.value.args) == 1 and not e.func.value.keywords)
        if not ok: _fail(cls + "._do: out = " + U(e))
        dec = P.to_coq(e.func.value.args[0], P.Ctx("Z", {}))
        defs.append(P.definition(nm, [("qs", "list Q")], "list Z", "(np_round_astype %s qs)" % dec, "%s._do: out = %s" % (cls, U(e))))
        if U(P.the_return(fn)) != "out": _fail(cls + "._do: return")


# ------------------------------------------------------------------------------------------------ Solution construction table
OPTIMISERS = [
    ("SortingSubsetOptimizationAlgorithm.py", ["SortingSubsetOptimizationAlgorithm"]),
    ("SteepestDescentSubsetHillClimber.py", ["SteepestDescentSubsetHillClimber"]),
    ("SortingSteepestDescentSubsetHillClimber.py", ["SortingSteepestDescentSubsetHillClimber"]),
    ("SubsetGeneticAlgorithm.py", ["SubsetGeneticAlgorithm"]), ("RealGeneticAlgorithm.py", ["RealGeneticAlgorithm"]),
    ("IntegerGeneticAlgorithm.py", ["IntegerGeneticAlgorithm"]), ("BinaryGeneticAlgorithm.py", ["BinaryGeneticAlgorithm"]),
    ("NSGA2SubsetGeneticAlgorithm.py", ["NSGA2SubsetGeneticAlgorithm"]), ("NSGA2RealGeneticAlgorithm.py", ["NSGA2RealGeneticAlgorithm"]),
    ("NSGA2IntegerGeneticAlgorithm.py", ["NSGA2IntegerGeneticAlgorithm"]), ("NSGA2BinaryGeneticAlgorithm.py", ["NSGA2BinaryGeneticAlgorithm"]),
    ("NSGA3SubsetGeneticAlgorithm.py", ["NSGA3SubsetGeneticAlgorithm"]),
    ("NSGA2MemeticSubsetGeneticAlgorithm.py", ["NSGA2SteepestDescentSubsetGeneticAlgorithm", "NSGA2StochasticDescentSubsetGeneticAlgorithm",
                                                "NSGA2MutatorASubsetGeneticAlgorithm", "NSGA2MutatorBSubsetGeneticAlgorithm"]),
]


def _strip_stack(e):
    """numpy.stack([X]) -> X"""
    if isinstance(e, ast.Call) and U(e.func) == "numpy.stack" and len(e.args) == 1 and not e.keywords and isinstance(e.args[0], ast.List) and len(e.args[0].elts) == 1:
        return e.args[0].elts[0]
    return e


def _solution_table(repo, defs):
    rows = []
    for rel, classes in OPTIMISERS:
        tree = P.parse_file(repo, ALGO + rel)
        present = [n.name for n in tree.body if isinstance(n, ast.ClassDef)]
        if present != classes:
            _fail("%s: classes %r, this translator describes %r (classify the new class)" % (rel, present, classes))
        for cls in classes:
            fn = P.find_function(repo, ALGO + rel, cls + ".minimize")
            W = cls + ".minimize"
            calls = [n for n in ast.walk(fn) if isinstance(n, ast.Call) and isinstance(n.func, ast.Name) and n.func.id.endswith("Solution")]
            if len(calls) != 1 or calls[0].args: _fail(W + ": expected exactly one keyword-only <X>Solution(...) call")
            ret = P.the_return(fn)
            tgt = [n for n in ast.walk(fn) if isinstance(n, ast.Assign) and n.value is calls[0]]
            if len(tgt) != 1 or U(tgt[0].targets[0]) != U(ret): _fail(W + ": the constructed solution is not what is returned")
            # local single-name resolution: a keyword value that is a local name is replaced by the set of expressions assigned to it
            def resolve(e):
                e = _strip_stack(e)
                if not isinstance(e, ast.Name): return U(e)
                asg = []
                for n in ast.walk(fn):
                    if not isinstance(n, ast.Assign): continue
                    for t in n.targets:
                        for x in (t.elts if isinstance(t, ast.Tuple) else [t]):
                            if isinstance(x, ast.Subscript) and isinstance(x.value, ast.Name) and x.value.id == e.id: return e.id   # updated in place
                        if isinstance(t, ast.Name) and t.id == e.id:
                            v = _strip_stack(n.value)
                            if isinstance(v, ast.Name): return e.id         # carried through other locals: keep the name (the climber kernels say where it comes from)
                            asg.append(U(v))
                        elif isinstance(t, ast.Tuple) and any(isinstance(x, ast.Name) and x.id == e.id for x in t.elts):
                            pos = [x.id if isinstance(x, ast.Name) else None for x in t.elts].index(e.id)
                            if isinstance(n.value, ast.Tuple): return e.id
                            asg.append("%s#%d" % (U(n.value), pos))
                return "|".join(sorted(set(asg))) if asg else e.id
            for kw in calls[0].keywords:
                if kw.arg is None: _fail(W + ": **kwargs in the Solution call")
                rows.append((cls, kw.arg, resolve(kw.value)))
    q = lambda s: '"%s"%%string' % s.replace('"', '""')
    body = ";\n   ".join("(%s, %s, %s)" % (q(a), q(b), q(c)) for a, b, c in rows)
    defs.append("(* src: every optimiser's minimize: keyword of the Solution constructor <- expression it receives (local names resolved) *)\n"
                "Definition k_soln_fields : list (string * string * string) :=\n  [%s].\n" % body)
    return len(rows)


# ------------------------------------------------------------------------------------------------ entry
def translate(repo, gen_dir):
    defs = []
    _climber(repo, SD, "SteepestDescentSubsetHillClimber", "sd", defs)
    _climber(repo, SSD, "SortingSteepestDescentSubsetHillClimber", "ssd", defs)
    # start of the random climber: self.rng.choice(prob.decn_space, prob.ndecn, replace=False)
    fn = P.find_function(repo, SD, "SteepestDescentSubsetHillClimber.minimize")
    e = P.the_assignment(fn, "gbest_soln")
    n, s, r = _choice_args(e, "SteepestDescentSubsetHillClimber.minimize", "self.rng.choice")
    q = lambda s_: '"%s"%%string' % s_
    defs.append(P.definition("k_sd_draw", [], "string * string * bool", "(%s, %s, %s)" % (q(U(n)), q(U(s)), "true" if r else "false"),
                             "SteepestDescentSubsetHillClimber.minimize: gbest_soln = " + U(e)))
    _sorting(repo, SORT, "SortingSubsetOptimizationAlgorithm", "sort", defs)
    _sorting(repo, SSD, "SortingSteepestDescentSubsetHillClimber", "ssd", defs)
    _dominates(repo, defs)
    _tiled_choice(repo, defs)
    _rex(repo, defs)
    _mutator(repo, "MutatorA", "mutA", defs)
    _mutator(repo, "MutatorB", "mutB", defs)
    _rounding(repo, defs)
    nsites = _draw_sites(repo, defs)
    nrows = _solution_table(repo, defs)
    text = (P.HEADER % "harness/translate/c06_kernel.py") + \
        "From Coq Require Import ZArith QArith Bool List String.\nFrom PV Require Import Lib.Common Model.C06_Opt.\nImport ListNotations.\nLocal Open Scope Z_scope.\n\n" + "\n".join(defs)
    path = os.path.join(gen_dir, "C06_Kernel.v")
    P.write_if_changed(path, text)
    return {"file": "Gen/C06_Kernel.v", "definitions": len(defs), "solution_table_rows": nrows, "draw_sites": nsites, "sha256": hashlib.sha256(text.encode()).hexdigest()[:16]}
