"""C03 translator: source (ast) -> coq/Gen/C03_MetaReset.v

For each of the 13 labelled matrix classes, each grouped axis kind it carries (taxa -> taxa_grp_*, variant ->
vrnt_chrgrp_*) and each in-place layout-changing method (append_X, remove_X, incorp_X, reorder_X, sort_X, ungroup_X),
resolved through the statically computed MRO: which of the four group-metadata fields (name, stix, spix, len) the method
body assigns None to (`self._taxa_grp_name = None` or through the property `self.taxa_grp_name = None`), and which
other methods of the same axis it calls on self (so that sort_X -> reorder_X is visible).
Fails closed on unrecognised constructs.  Pure ast.  Deterministic output."""
import ast, os
from translate.c03_dispatch import Source, TranslateError, CLASSES, _is_docstring, _coq_str

INPLACE = ["append", "remove", "incorp", "reorder", "sort", "ungroup"]
META = {"taxa": "taxa_grp", "vrnt": "vrnt_chrgrp"}
SUF = ["name", "stix", "spix", "len"]

def _kinds_of_class(src, rel, cname):
    """grouped kinds carried: the class (through its MRO) defines <meta>_name as a property"""
    out = []
    for kind, meta in META.items():
        if src.find_method(rel, cname, meta + "_name") is not None and src.find_method(rel, cname, "group_" + kind) is not None:
            out.append(kind)
    return out

def _scan(fn, meta, where):
    """-> (set of suffixes assigned None, list of self.<method> calls)"""
    reset, calls = set(), []
    for node in ast.walk(fn):
        if isinstance(node, (ast.Assign, ast.AugAssign, ast.AnnAssign)):
            targets = node.targets if isinstance(node, ast.Assign) else [node.target]
            for t in targets:
                if isinstance(t, ast.Attribute) and isinstance(t.value, ast.Name) and t.value.id == "self":
                    name = t.attr.lstrip("_")
                    if name.startswith(meta + "_") and name[len(meta) + 1:] in SUF:
                        if isinstance(node, ast.Assign) and isinstance(node.value, ast.Constant) and node.value.value is None:
                            reset.add(name[len(meta) + 1:])
                        elif isinstance(node, ast.Assign) and isinstance(node.value, (ast.Name, ast.BinOp, ast.Subscript, ast.Call, ast.Attribute)):
                            reset.discard(name[len(meta) + 1:])            # re-assigned to a computed value (group_X)
                        else:
                            raise TranslateError("%s: unrecognised assignment to %s" % (where, t.attr))
                elif isinstance(t, ast.Tuple):
                    for e in t.elts:
                        if isinstance(e, ast.Attribute) and isinstance(e.value, ast.Name) and e.value.id == "self" \
                                and e.attr.lstrip("_").startswith(meta + "_"):
                            raise TranslateError("%s: tuple assignment to metadata in an in-place method" % where)
        if isinstance(node, ast.Call) and isinstance(node.func, ast.Attribute) and isinstance(node.func.value, ast.Name) \
                and node.func.value.id == "self":
            calls.append(node.func.attr)
        if isinstance(node, (ast.Delete, ast.Global, ast.Nonlocal, ast.With, ast.Try, ast.While, ast.Lambda)):
            raise TranslateError("%s: unrecognised construct %s" % (where, type(node).__name__))
    return reset, calls

def _refers_to_super(fn, meth):
    for node in ast.walk(fn):
        if isinstance(node, ast.Attribute) and node.attr == meth and isinstance(node.value, ast.Call) \
                and isinstance(node.value.func, ast.Name) and node.value.func.id == "super":
            return True
    return False

def _next_impl(src, rel, cname, cur_r, cur_n, meth):
    """the implementation of `meth` that follows class (cur_r, cur_n) in the MRO of (rel, cname)"""
    after = False
    for r, n in src.mro(rel, cname):
        if after:
            for st in src.classdef(r, n).body:
                if isinstance(st, ast.FunctionDef) and st.name == meth:
                    return (r, n, st)
        if (r, n) == (cur_r, cur_n): after = True
    return None

def meta_rows(repo):
    src = Source(repo)
    rows = []
    for cname, rel in CLASSES:
        for kind in _kinds_of_class(src, rel, cname):
            meta = META[kind]
            for m in INPLACE:
                meth = "%s_%s" % (m, kind)
                found = src.find_method(rel, cname, meth)
                if found is None:
                    raise TranslateError("%s has group metadata for %s but no %s" % (cname, kind, meth))
                r, n, fn = found
                where = "%s.%s (defined in %s)" % (cname, meth, n)
                body = [st for st in fn.body if not _is_docstring(st)]
                if len(body) == 1 and isinstance(body[0], ast.Raise):
                    raise TranslateError("%s is abstract" % where)
                reset, calls = _scan(fn, meta, where)
                # delegation: a body that refers to super(...).<same method> (called, or handed to a helper that calls it)
                # inherits what the next implementation in the MRO resets; followed transitively
                cur_r, cur_n, cur_fn = r, n, fn
                seen = 0
                while _refers_to_super(cur_fn, meth):
                    nxt = _next_impl(src, rel, cname, cur_r, cur_n, meth)
                    if nxt is None:
                        raise TranslateError("%s delegates to super().%s but no further implementation exists" % (where, meth))
                    cur_r, cur_n, cur_fn = nxt
                    r2, c2 = _scan(cur_fn, meta, "%s.%s (inherited from %s)" % (cname, meth, cur_n))
                    reset |= r2; calls += c2
                    seen += 1
                    if seen > 8: raise TranslateError("%s: delegation chain too long" % where)
                rows.append((cname, meth, n, kind, [s in reset for s in SUF], sorted(set(c for c in calls if c.endswith("_" + kind)))))
    return rows

def render(rows):
    out = ["(* generated by harness/translate/c03_metareset.py from the pybrops sources - do not edit *)",
           "From Coq Require Import String List.", "From PV Require Import Lib.Common Model.C03_LMat.", "Import ListNotations.",
           "Local Open Scope string_scope.", "",
           "(** (class, in-place method, class that defines it, axis kind, [name; stix; spix; len] assigned None, methods of the axis it calls) *)",
           "Definition metareset_rows : list (string * string * string * akind * list bool * list string) := ["]
    K = {"taxa": "KTaxa", "vrnt": "KVrnt"}
    lines = []
    for cname, meth, owner, kind, bits, calls in rows:
        lines.append("  (%s, %s, %s, %s, [%s], [%s])" % (_coq_str(cname), _coq_str(meth), _coq_str(owner), K[kind],
                     "; ".join("true" if b else "false" for b in bits), "; ".join(_coq_str(c) for c in calls)))
    out.append(";\n".join(lines))
    out.append("].")
    return "\n".join(out) + "\n"

def translate(repo, gen_dir):
    rows = meta_rows(repo)
    os.makedirs(gen_dir, exist_ok=True)
    path = os.path.join(gen_dir, "C03_MetaReset.v")
    txt = render(rows)
    if not os.path.exists(path) or open(path).read() != txt:
        with open(path, "w") as f:
            f.write(txt)
    return {"table": "Gen/C03_MetaReset.v", "rows": len(rows)}

if __name__ == "__main__":
    import sys
    for r in meta_rows(sys.argv[1] if len(sys.argv) > 1 else "/repo"):
        print(r)
