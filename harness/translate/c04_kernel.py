"""C04 kernel translator: regenerates `coq/Gen/C04_Kernel.v` from the current source of the genomic-model classes on every run.

One Gallina `Definition` per *kernel expression* on which the C04 theorems turn (the `src:` comment of each definition quotes the
statement it was translated from).  Class tags: A = DenseAdditiveLinearGenomicModel (rrBLUPModel0 inherits it), AD =
DenseAdditiveDominanceLinearGenomicModel, L = DenseLinearGenomicModel.

  allele tables      k_<c>_fa_mask / _da_mask        `mask = self.u_a > 0.0` / `< 0.0`                      (sign test of the effect)
                     k_<c>_fa_where / _da_where      `numpy.where(mask, acount, maxfav - acount)`           (which allele is counted)
                     k_<c>_fa_reset(val) / _da_...   `out[self.u_a == 0.0] = 0`                             (neutral markers: exact zero test)
                     k_<c>_maxfav, _da_maxfav        `dtype.type(gmat.ploidy * gmat.ntaxa)`
                     k_<c>_{fa,da}{avail,fixed,poly} the flag expression; WHICH count it is taken from (facount/dacount) is resolved
                                                     from the local assignment and becomes the variable `fa` or `da` of the definition
                     k_<c>_{fa,da}freq               count / (ploidy * ntaxa)  (a quotient)
                     k_A_nafixed / k_A_napoly        neutral flags (integer comparisons on the count, exact zero test on the effect)
  dominance design   k_AD_<m>_het_obj / _het_raw     `numpy.logical_and(A != 0, A != <ploidy>)` of gegv/predict/score/var_G, both branches
                     k_AD_<m>_default_ploidy         `ploidy = 2` (raw array without the keyword)
                     k_AD_<m>_design_obj / _raw      `numpy.concatenate([A, D], axis=1)`                    (order of the blocks)
  effect blocks      k_A_u, k_AD_u, k_AD_gv_effects  `numpy.concatenate([self.u_misc, self.u_a(, self.u_d)], axis=0)`, `[self.u_a, self.u_d]`
  predictions        k_<c>_gebv_numpy                `Z @ self.u_a` (A) / `Z @ self.u` (L)                  (which effects)
                     k_AD_gegv_numpy                 `Z @ U`
                     k_<c>_predict                   `X @ self.beta + Z @ self.u`
                     k_<c>_xstar0/_xstar_rest/_location   `Xstar[0,0] = 1; Xstar[0,1:] = 1/nfixed; location = Xstar @ self.beta`
  statistics         k_<c>_sqerr/_sst_term/_rsq      `((Y - Y_hat)**2).sum(0)`, `((Y - Y_mean)**2).sum(0)`, `1.0 - SSE/SST`
                     k_<c>_var_a_term/_var_a_scale   `ploidy ** 2.0 * (self.u_a ** 2 * p * (1.0 - p)).sum(0)`
                     k_<c>_<m>_afreq_raw/_default_ploidy  `p = gtobj.sum(0) / (ploidy * gtobj.shape[0])`, `ploidy = 2`  (m = var_a, bulmer)
                     k_<c>_bulmer_mask/_bulmer_ratio `mask = sigma_a == 0.0` (EXACT zero), `out = sigma_A / denom`
  ridge regression   k_gs_adiff0, k_gs_moved, k_gs_guard, k_gs_coord     gauss_seidel: `adiff = 2 * atol`, `adiff > atol`,
                                                     `numpy.any(...) and niter < maxiter`, the coordinate update
                     k_poly_eq / k_poly_col          `ispolymorphic = ~numpy.all(Z == Z[0, :], axis=0)`
                     k_mono_effect                   `u_a[~ispolymorphic, :] = 0.0`
                     k_center, k_ridge               `y - y.mean()`, `varE / varU`

Fail closed: every selector demands exactly one match, every name must be bound by the environment given here, structural
statements that are not translated (e.g. `denom[mask] = 1.0`, `out[mask] = numpy.nan`) are compared textually; anything else raises
`pyexpr.Untranslatable` (check.py reports the correspondence as broken).
"""
import ast, copy, os, hashlib
from translate import pyexpr as P
from translate.kernelkit import bind, elementwise_bool

A_FILE = "pybrops/model/gmod/DenseAdditiveLinearGenomicModel.py"
AD_FILE = "pybrops/model/gmod/DenseAdditiveDominanceLinearGenomicModel.py"
L_FILE = "pybrops/model/gmod/DenseLinearGenomicModel.py"
RR_FILE = "pybrops/model/gmod/rrBLUPModel0.py"
A_CLS, AD_CLS, L_CLS = "DenseAdditiveLinearGenomicModel", "DenseAdditiveDominanceLinearGenomicModel", "DenseLinearGenomicModel"


def U(msg):
    return P.Untranslatable(msg)


def src(e):
    return ast.unparse(e)


# ------------------------------------------------------------------------------------------------ local rewriting (numpy idioms)
class _Norm(ast.NodeTransformer):
    """numpy idioms -> the plain python fragment pyexpr understands (each rewrite keeps the meaning element-wise):
    numpy.where(m, a, b) -> (a if m else b); numpy.logical_and(a, b) -> (a and b); numpy.divide(a, b, dtype=...) -> a / b;
    dtype.type(x) -> x; x ** 2.0 -> x ** 2"""
    def visit_Call(self, node):
        node = self.generic_visit(node)
        f = ast.unparse(node.func)
        if f == "numpy.where" and len(node.args) == 3 and not node.keywords:
            return ast.IfExp(test=node.args[0], body=node.args[1], orelse=node.args[2])
        if f == "numpy.logical_and" and len(node.args) == 2 and not node.keywords:
            return ast.BoolOp(op=ast.And(), values=list(node.args))
        if f == "numpy.divide" and len(node.args) == 2 and all(k.arg == "dtype" for k in node.keywords):
            return ast.BinOp(left=node.args[0], op=ast.Div(), right=node.args[1])
        if f == "dtype.type" and len(node.args) == 1 and not node.keywords:
            return node.args[0]
        return node

    def visit_BinOp(self, node):
        node = self.generic_visit(node)
        if isinstance(node.op, ast.Pow) and isinstance(node.right, ast.Constant) and isinstance(node.right.value, float) \
                and node.right.value == int(node.right.value):
            node.right = ast.Constant(value=int(node.right.value))
        return node


def norm(e):
    return ast.fix_missing_locations(_Norm().visit(copy.deepcopy(e)))


def strip_sum0(e):
    """`<expr>.sum(0)` -> <expr> (the sum over the first axis is the model's sumQ / vecmat; the summand is the kernel)"""
    if isinstance(e, ast.Call) and isinstance(e.func, ast.Attribute) and e.func.attr == "sum" and len(e.args) == 1 \
            and isinstance(e.args[0], ast.Constant) and e.args[0].value == 0 and not e.keywords:
        return e.func.value
    raise U("expected `<expr>.sum(0)`, found " + src(e))


def replace_sum0(e, name):
    """replace the unique sub-expression `<expr>.sum(0)` by `name`; returns (rewritten expression, <expr>)"""
    found = []

    class T(ast.NodeTransformer):
        def visit_Call(self, node):
            try:
                inner = strip_sum0(node)
            except P.Untranslatable:
                return self.generic_visit(node)
            found.append(inner)
            return ast.Name(id=name, ctx=ast.Load())
    out = T().visit(copy.deepcopy(e))
    if len(found) != 1:
        raise U("expected exactly one `.sum(0)` in " + src(e))
    return ast.fix_missing_locations(out), found[0]


def masked_store(fn, array, index=None):
    """the statement `array[<mask expr>] = <value>`: returns (mask expr, value expr); exactly one such statement (or the index-th)"""
    hits = []
    for node in ast.walk(fn):
        if isinstance(node, ast.Assign) and len(node.targets) == 1 and isinstance(node.targets[0], ast.Subscript) \
                and ast.unparse(node.targets[0].value) == array:
            hits.append(node)
    hits.sort(key=lambda n: (n.lineno, n.col_offset))
    if index is None:
        if len(hits) != 1:
            raise U("%s: expected exactly one store into %s[...], found %d" % (fn.name, array, len(hits)))
        index = 0
    if not (0 <= index < len(hits)):
        raise U("%s: no store #%d into %s[...]" % (fn.name, index, array))
    return hits[index].targets[0].slice, hits[index].value


def require_stmt(fn, text):
    """a structural statement that is not translated must be present verbatim (exactly once)"""
    n = sum(1 for node in ast.walk(fn) if isinstance(node, ast.stmt) and not isinstance(node, (ast.FunctionDef, ast.If, ast.While, ast.For))
            and ast.unparse(node) == text)
    if n != 1:
        raise U("%s: expected the statement `%s` exactly once, found %d" % (fn.name, text, n))


def mixed_bool(expr, zctx, qctx, qnames):
    """boolean combination whose comparisons are integer ones except those mentioning a name of `qnames` (rational ones)"""
    if isinstance(expr, ast.BoolOp):
        op = "andb" if isinstance(expr.op, ast.And) else "orb"
        parts = [mixed_bool(v, zctx, qctx, qnames) for v in expr.values]
        out = parts[-1]
        for p in reversed(parts[:-1]):
            out = "(%s %s %s)" % (op, p, out)
        return out
    if isinstance(expr, ast.UnaryOp) and isinstance(expr.op, ast.Not):
        return "(negb %s)" % mixed_bool(expr.operand, zctx, qctx, qnames)
    if isinstance(expr, ast.Compare):
        names = set(P.names_in(expr))
        return P.to_coq(expr, qctx if names & set(qnames) else zctx, "bool")
    raise U("boolean expression " + src(expr))


def mat_to_coq(expr, env):
    """matrix expressions: `A @ B` -> (mm A B), `A + B` -> (add A B), names through env (mm/add are parameters of the definition)"""
    if isinstance(expr, ast.BinOp) and isinstance(expr.op, ast.MatMult):
        return "(mm %s %s)" % (mat_to_coq(expr.left, env), mat_to_coq(expr.right, env))
    if isinstance(expr, ast.BinOp) and isinstance(expr.op, ast.Add):
        return "(add %s %s)" % (mat_to_coq(expr.left, env), mat_to_coq(expr.right, env))
    if isinstance(expr, (ast.Name, ast.Attribute)):
        key = ast.unparse(expr)
        if key in env:
            return env[key]
        raise U("matrix name %s is not bound by the translator's environment" % key)
    raise U("matrix expression " + src(expr))


def concat_to_coq(expr, env, axis):
    """`numpy.concatenate([e1, ..., en], axis=<axis>)` -> (cat e1 (cat e2 ... en)) with `cat` a parameter of the definition"""
    if not (isinstance(expr, ast.Call) and ast.unparse(expr.func) == "numpy.concatenate" and len(expr.args) == 1
            and isinstance(expr.args[0], ast.List) and len(expr.args[0].elts) >= 2
            and len(expr.keywords) == 1 and expr.keywords[0].arg == "axis"
            and isinstance(expr.keywords[0].value, ast.Constant) and expr.keywords[0].value.value == axis):
        raise U("expected numpy.concatenate([...], axis=%d), found %s" % (axis, src(expr)))
    parts = [mat_to_coq(e, env) for e in expr.args[0].elts]
    out = parts[-1]
    for p in reversed(parts[:-1]):
        out = "(cat %s %s)" % (p, out)
    return out


MATP = [("X", "M"), ("Z", "M"), ("beta", "M"), ("u", "M"), ("u_misc", "M"), ("u_a", "M"), ("u_d", "M")]
MATENV = {"X": "X", "Z": "Z", "self.beta": "beta", "self.u": "u", "self.u_misc": "u_misc", "self.u_a": "u_a", "self.u_d": "u_d"}


def translate(repo, gen_dir):
    defs = []
    D = lambda *a, **k: defs.append(P.definition(*a, **k))
    Q = lambda env, bool_env=None: P.Ctx("Q", env, bool_env=bool_env)
    Zc = lambda env, bool_env=None: P.Ctx("Z", env, bool_env=bool_env)

    # ------------------------------------------------------------------------------------ allele tables (classes A and L)
    for tag, rel, cls, ueff in (("A", A_FILE, A_CLS, "self.u_a"), ("L", L_FILE, L_CLS, "self.u")):
        for fd, other in (("fa", "da"), ("da", "fa")):
            fn = P.find_function(repo, rel, "%s.%scount" % (cls, fd))
            e = P.the_assignment(fn, "mask")
            D("k_%s_%s_mask" % (tag, fd), [("u", "Q")], "bool", P.to_coq(e, Q({ueff: "u"}), "bool"), "%s.%scount: mask = %s" % (cls, fd, src(e)))
            e = P.the_assignment(fn, "maxfav")
            D("k_%s_%smaxfav" % (tag, "" if fd == "fa" else "da_"), [("ploidy", "Z"), ("ntaxa", "Z")], "Z",
              P.to_coq(norm(e), Zc({"gmat.ploidy": "ploidy", "gmat.ntaxa": "ntaxa"})), "%s.%scount: maxfav = %s" % (cls, fd, src(e)))
            require_stmt(fn, "acount = gmat.acount(dtype=dtype)[:, None]")
            e = P.the_assignment(fn, "out")
            D("k_%s_%s_where" % (tag, fd), [("mask", "bool"), ("acount", "Z"), ("maxfav", "Z")], "Z",
              P.to_coq(norm(e), Zc({"acount": "acount", "maxfav": "maxfav"}, bool_env={"mask": "mask"})), "%s.%scount: out = %s" % (cls, fd, src(e)))
            m, v = masked_store(fn, "out")
            D("k_%s_%s_reset" % (tag, fd), [("u", "Q")], "bool", P.to_coq(m, Q({ueff: "u"}), "bool"),
              "%s.%scount: out[%s] = %s" % (cls, fd, src(m), src(v)))
            D("k_%s_%s_resetval" % (tag, fd), [], "Z", P.to_coq(v, Zc({})), "%s.%scount: out[%s] = %s" % (cls, fd, src(m), src(v)))
        flags = ["faavail", "daavail", "fafixed", "dafixed"] + (["fapoly", "dapoly"] if tag == "A" else [])
        for f in flags:
            fn = P.find_function(repo, rel, "%s.%s" % (cls, f))
            env = {}
            note = []
            # which count the flag is taken from: the local variable is bound to `fa` or `da` according to the method called
            for local in ("facount", "dacount"):
                a = P.assignments_to(fn, local)
                if len(a) > 1:
                    raise U("%s.%s: %s assigned more than once" % (cls, f, local))
                if a:
                    t = src(a[0].value)
                    if t not in ("self.facount(gmat)", "self.dacount(gmat)"):
                        raise U("%s.%s: %s = %s is not one of the two count methods" % (cls, f, local, t))
                    env[local] = "fa" if t == "self.facount(gmat)" else "da"
                    note.append("%s = %s" % (local, t))
            for local in ("maxfav", "maxdel"):
                a = P.assignments_to(fn, local)
                if len(a) > 1:
                    raise U("%s.%s: %s assigned more than once" % (cls, f, local))
                if a:
                    env[local] = P.to_coq(a[0].value, Zc({"gmat.ploidy": "ploidy", "gmat.ntaxa": "ntaxa"}))
                    note.append("%s = %s" % (local, src(a[0].value)))
            e = P.the_assignment(fn, "out", index=0)
            D("k_%s_%s" % (tag, f), [("fa", "Z"), ("da", "Z"), ("ploidy", "Z"), ("ntaxa", "Z")], "bool",
              P.to_coq(elementwise_bool(e), Zc(env), "bool"), "%s.%s: %s; out = %s" % (cls, f, "; ".join(note), src(e)))
        for f in ("fafreq", "dafreq"):
            fn = P.find_function(repo, rel, "%s.%s" % (cls, f))
            e = P.the_assignment(fn, "out", index=0)
            D("k_%s_%s" % (tag, f), [("fa", "Q"), ("da", "Q"), ("ploidy", "Q"), ("ntaxa", "Q")], "Q",
              P.to_coq(bind_calls(norm(e)), Q({"fa": "fa", "da": "da", "gmat.ploidy": "ploidy", "gmat.ntaxa": "ntaxa"})),
              "%s.%s: out = %s" % (cls, f, src(e)))
    for f in ("nafixed", "napoly"):
        fn = P.find_function(repo, A_FILE, "%s.%s" % (A_CLS, f))
        require_stmt(fn, "acount = gmat.acount()[:, None]")
        mf = P.the_assignment(fn, "maxfav")
        zenv = {"acount": "acount", "maxfav": P.to_coq(mf, Zc({"gmat.ploidy": "ploidy", "gmat.ntaxa": "ntaxa"}))}
        e = P.the_assignment(fn, "out", index=0)
        D("k_A_%s" % f, [("u", "Q"), ("acount", "Z"), ("ploidy", "Z"), ("ntaxa", "Z")], "bool",
          mixed_bool(elementwise_bool(e), Zc(zenv), Q({"self.u_a": "u"}), ["self.u_a"]),
          "%s.%s: maxfav = %s; out = %s" % (A_CLS, f, src(mf), src(e)))

    # ------------------------------------------------------------------------------------ dominance design (class AD)
    for m in ("gegv", "predict", "score", "var_G"):
        fn = P.find_function(repo, AD_FILE, "%s.%s" % (AD_CLS, m))
        ds = P.assignments_to(fn, "D")
        if len(ds) != 2:
            raise U("%s.%s: expected two assignments to D (matrix object / raw array), found %d" % (AD_CLS, m, len(ds)))
        for which, node, penv in (("obj", ds[0], {"A": "a", "gtobj.ploidy": "ploidy"}), ("raw", ds[1], {"A": "a", "ploidy": "ploidy"})):
            D("k_AD_%s_het_%s" % (m, which), [("a", "Z"), ("ploidy", "Z")], "bool", P.to_coq(norm(node.value), Zc(penv), "bool"),
              "%s.%s (%s branch): D = %s" % (AD_CLS, m, "GenotypeMatrix" if which == "obj" else "ndarray", src(node.value)))
        pl = P.assignments_to(fn, "ploidy")
        if len(pl) != 1:
            raise U("%s.%s: expected exactly one assignment to ploidy (the default of a raw array), found %d" % (AD_CLS, m, len(pl)))
        D("k_AD_%s_default_ploidy" % m, [], "Z", P.to_coq(pl[0].value, Zc({})), "%s.%s: if ploidy is None: ploidy = %s" % (AD_CLS, m, src(pl[0].value)))
        zs = P.assignments_to(fn, "Z")
        if len(zs) != 2:
            raise U("%s.%s: expected two assignments to Z, found %d" % (AD_CLS, m, len(zs)))
        for which, node in (("obj", zs[0]), ("raw", zs[1])):
            D("k_AD_%s_design_%s" % (m, which), [("M", "Type"), ("cat", "M -> M -> M"), ("A", "M"), ("D", "M")], "M",
              concat_to_coq(node.value, {"A": "A", "D": "D"}, 1), "%s.%s: Z = %s" % (AD_CLS, m, src(node.value)))
        # the A of both branches must be the dosage itself
        aa = [src(n.value) for n in P.assignments_to(fn, "A")]
        if aa != ["gtobj.mat_asformat('{0,1,2}')", "gtobj"]:
            raise U("%s.%s: A is no longer (mat_asformat('{0,1,2}'), gtobj): %s" % (AD_CLS, m, aa))

    # ------------------------------------------------------------------------------------ effect blocks
    fn = P.find_function(repo, A_FILE, A_CLS + ".u")
    e = P.the_assignment(fn, "out")
    D("k_A_u", [("M", "Type"), ("cat", "M -> M -> M"), ("u_misc", "M"), ("u_a", "M")], "M", concat_to_coq(e, MATENV, 0), "%s.u: out = %s" % (A_CLS, src(e)))
    fn = P.find_function(repo, AD_FILE, AD_CLS + ".u")
    e = P.the_assignment(fn, "out")
    D("k_AD_u", [("M", "Type"), ("cat", "M -> M -> M"), ("u_misc", "M"), ("u_a", "M"), ("u_d", "M")], "M", concat_to_coq(e, MATENV, 0), "%s.u: out = %s" % (AD_CLS, src(e)))
    fn = P.find_function(repo, AD_FILE, AD_CLS + ".gegv_numpy")
    e = P.the_assignment(fn, "U")
    D("k_AD_gv_effects", [("M", "Type"), ("cat", "M -> M -> M"), ("u_misc", "M"), ("u_a", "M"), ("u_d", "M")], "M", concat_to_coq(e, MATENV, 0),
      "%s.gegv_numpy: U = %s" % (AD_CLS, src(e)))
    e = P.the_assignment(fn, "gegv_hat")
    D("k_AD_gegv_numpy", [("M", "Type"), ("mm", "M -> M -> M"), ("Z", "M"), ("U", "M")], "M", mat_to_coq(e, {"Z": "Z", "U": "U"}),
      "%s.gegv_numpy: gegv_hat = %s" % (AD_CLS, src(e)))

    # ------------------------------------------------------------------------------------ predictions
    mp = [("M", "Type"), ("mm", "M -> M -> M"), ("add", "M -> M -> M")] + MATP
    for tag, rel, cls in (("A", A_FILE, A_CLS), ("L", L_FILE, L_CLS)):
        fn = P.find_function(repo, rel, cls + ".gebv_numpy")
        e = P.the_assignment(fn, "gebv_hat")
        D("k_%s_gebv_numpy" % tag, mp, "M", mat_to_coq(e, MATENV), "%s.gebv_numpy: gebv_hat = %s" % (cls, src(e)))
    for tag, rel, cls in (("A", A_FILE, A_CLS), ("AD", AD_FILE, AD_CLS), ("L", L_FILE, L_CLS)):
        fn = P.find_function(repo, rel, cls + ".predict_numpy")
        e = P.the_assignment(fn, "Y_hat")
        D("k_%s_predict" % tag, mp, "M", mat_to_coq(e, MATENV), "%s.predict_numpy: Y_hat = %s" % (cls, src(e)))
        # score_numpy: the prediction it scores (the same expression, or a call of predict_numpy), the squared errors, R^2
        fn = P.find_function(repo, rel, cls + ".score_numpy")
        e = P.the_assignment(fn, "Y_hat")
        if src(e) == "self.predict_numpy(X, Z, **kwargs)":
            term = "(k_%s_predict M mm add X Z beta u u_misc u_a u_d)" % tag
        else:
            term = mat_to_coq(e, MATENV)
        D("k_%s_score_pred" % tag, mp, "M", term, "%s.score_numpy: Y_hat = %s" % (cls, src(e)))
        e = P.the_assignment(fn, "SSE")
        D("k_%s_sqerr" % tag, [("y", "Q"), ("yhat", "Q")], "Q", P.to_coq(strip_sum0(e), Q({"Y": "y", "Y_hat": "yhat"})), "%s.score_numpy: SSE = %s" % (cls, src(e)))
        require_stmt(fn, "Y_mean = Y.mean(0)")
        e = P.the_assignment(fn, "SST")
        D("k_%s_sst_term" % tag, [("y", "Q"), ("ymean", "Q")], "Q", P.to_coq(strip_sum0(e), Q({"Y": "y", "Y_mean": "ymean"})), "%s.score_numpy: SST = %s" % (cls, src(e)))
        e = P.the_assignment(fn, "Rsq")
        D("k_%s_rsq" % tag, [("sse", "Q"), ("sst", "Q")], "Q", P.to_coq(e, Q({"SSE": "sse", "SST": "sst"})), "%s.score_numpy: Rsq = %s" % (cls, src(e)))
        # intercept of the breeding values
        meth, val = {"A": ("gebv", "gebv_hat"), "AD": ("gegv", "gegv_hat"), "L": ("gebv", "gebv_hat")}[tag]
        fn = P.find_function(repo, rel, "%s.%s" % (cls, meth))
        require_stmt(fn, "nfixed = self.beta.shape[0]")
        e = P.the_assignment(fn, "Xstar[0, 0]")
        D("k_%s_xstar0" % tag, [], "Q", P.to_coq(e, Q({})), "%s.%s: Xstar[0, 0] = %s" % (cls, meth, src(e)))
        e = P.the_assignment(fn, "Xstar[0, 1:]")
        D("k_%s_xstar_rest" % tag, [("nfixed", "Q")], "Q", P.to_coq(e, Q({"nfixed": "nfixed"})), "%s.%s: Xstar[0, 1:] = %s" % (cls, meth, src(e)))
        e = P.the_assignment(fn, "location")
        D("k_%s_location" % tag, [("V", "Type"), ("M", "Type"), ("mm", "V -> M -> V"), ("Xstar", "V")] + MATP[2:], "V",
          mat_to_coq(e, dict(MATENV, Xstar="Xstar")), "%s.%s: location = %s" % (cls, meth, src(e)))
        require_stmt(fn, "%s += location" % val)

    # ------------------------------------------------------------------------------------ genic variance, Bulmer ratio (A and L)
    for tag, rel, cls, ueff in (("A", A_FILE, A_CLS, "self.u_a"), ("L", L_FILE, L_CLS, "self.u")):
        fn = P.find_function(repo, rel, cls + ".var_a_numpy")
        require_stmt(fn, "p = p[:, None]")
        e = P.the_assignment(fn, "out")
        outer, inner = replace_sum0(norm(e), "S")
        D("k_%s_var_a_term" % tag, [("u", "Q"), ("p", "Q")], "Q", P.to_coq(inner, Q({ueff: "u", "p": "p"})), "%s.var_a_numpy: out = %s   [summand]" % (cls, src(e)))
        D("k_%s_var_a_scale" % tag, [("ploidy", "Q"), ("S", "Q")], "Q", P.to_coq(outer, Q({"ploidy": "ploidy", "S": "S"})), "%s.var_a_numpy: out = %s   [S = the sum]" % (cls, src(e)))
        for m in ("var_a", "bulmer"):
            fn = P.find_function(repo, rel, "%s.%s" % (cls, m))
            pl = P.assignments_to(fn, "ploidy")
            if [src(n.value) for n in pl][:1] != ["gtobj.ploidy"] or len(pl) != 2:
                raise U("%s.%s: expected `ploidy = gtobj.ploidy` then the raw-array default, found %s" % (cls, m, [src(n.value) for n in pl]))
            D("k_%s_%s_default_ploidy" % (tag, m), [], "Z", P.to_coq(pl[1].value, Zc({})), "%s.%s: if ploidy is None: ploidy = %s" % (cls, m, src(pl[1].value)))
            ps = P.assignments_to(fn, "p")
            if len(ps) != 2 or src(ps[0].value) != "gtobj.afreq()":
                raise U("%s.%s: expected `p = gtobj.afreq()` then the raw-array frequency, found %s" % (cls, m, [src(n.value) for n in ps]))
            e = ps[1].value
            D("k_%s_%s_afreq_raw" % (tag, m), [("count", "Q"), ("ploidy", "Q"), ("ntaxa", "Q")], "Q",
              P.to_coq(bind(e, {"gtobj.sum(0)": "count", "gtobj.shape[0]": "ntaxa"}), Q({"count": "count", "ploidy": "ploidy", "ntaxa": "ntaxa"})),
              "%s.%s: p = %s" % (cls, m, src(e)))
            call = P.the_assignment(fn, "out")
            want = "self.var_a_numpy(p, ploidy, **kwargs)" if m == "var_a" else "self.bulmer_numpy(Z, p, ploidy, **kwargs)"
            if src(call) != want:
                raise U("%s.%s: out = %s (expected %s)" % (cls, m, src(call), want))
        fn = P.find_function(repo, rel, cls + ".bulmer_numpy")
        for st in ("sigma_A = self.var_A_numpy(Z)", "sigma_a = self.var_a_numpy(p, ploidy)", "denom = sigma_a.copy()", "denom[mask] = 1.0", "out[mask] = numpy.nan"):
            require_stmt(fn, st)
        e = P.the_assignment(fn, "mask")
        D("k_%s_bulmer_mask" % tag, [("sigma_a", "Q")], "bool", P.to_coq(e, Q({"sigma_a": "sigma_a"}), "bool"), "%s.bulmer_numpy: mask = %s" % (cls, src(e)))
        e = P.the_assignment(fn, "out")
        D("k_%s_bulmer_ratio" % tag, [("sigma_A", "Q"), ("denom", "Q")], "Q", P.to_coq(e, Q({"sigma_A": "sigma_A", "denom": "denom"})), "%s.bulmer_numpy: out = %s" % (cls, src(e)))

    # ------------------------------------------------------------------------------------ gauss_seidel, rrBLUPModel0.fit_numpy
    fn = P.find_function(repo, RR_FILE, "gauss_seidel")
    e = P.the_assignment(fn, "adiff", index=0, count=2)
    D("k_gs_adiff0", [("atol", "Q")], "Q", P.to_coq(e, Q({"atol": "atol"})), "gauss_seidel: adiff = %s" % src(e))
    if src(P.the_assignment(fn, "adiff", index=1)) != "numpy.abs(xcurr - xprev)":
        raise U("gauss_seidel: adiff is no longer numpy.abs(xcurr - xprev)")
    for st in ("xprev[:] = xcurr", "niter += 1", "niter = 0", "xcurr = numpy.zeros(nmkr, dtype=float)", "nmkr = len(b)"):
        require_stmt(fn, st)
    w = P.the_while_test(fn)
    if not (isinstance(w, ast.BoolOp) and isinstance(w.op, ast.And) and len(w.values) == 2 and isinstance(w.values[0], ast.Call)
            and src(w.values[0].func) == "numpy.any" and len(w.values[0].args) == 1 and not w.values[0].keywords):
        raise U("gauss_seidel: loop guard is not `numpy.any(<cmp>) and <cmp>`: " + src(w))
    D("k_gs_moved", [("adiff", "Q"), ("atol", "Q")], "bool", P.to_coq(w.values[0].args[0], Q({"adiff": "adiff", "atol": "atol"}), "bool"),
      "gauss_seidel: while %s   [element test inside numpy.any]" % src(w))
    guard = ast.BoolOp(op=ast.And(), values=[ast.Name(id="moved", ctx=ast.Load()), w.values[1]])
    D("k_gs_guard", [("moved", "bool"), ("niter", "Z"), ("maxiter", "Z")], "bool",
      P.to_coq(guard, Zc({"niter": "niter", "maxiter": "maxiter"}, bool_env={"moved": "moved"}), "bool"), "gauss_seidel: while %s   [moved = numpy.any(...)]" % src(w))
    loops = P.loop_tests(fn, ast.For)
    if len(loops) != 1 or src(loops[0].iter) != "range(nmkr)" or src(loops[0].target) != "i":
        raise U("gauss_seidel: expected exactly one loop `for i in range(nmkr)`")
    e = P.the_assignment(fn, "xcurr[i]")
    eb = bind(e, {"A[i, :i].dot(xcurr[:i])": "lo", "A[i, i + 1:].dot(xcurr[i + 1:])": "hi", "b[i]": "bi", "A[i, i]": "aii"})
    D("k_gs_coord", [("bi", "Q"), ("lo", "Q"), ("hi", "Q"), ("aii", "Q")], "Q", P.to_coq(eb, Q({"bi": "bi", "lo": "lo", "hi": "hi", "aii": "aii"})),
      "gauss_seidel: xcurr[i] = %s   [lo = A[i, :i].dot(xcurr[:i]), hi = A[i, i + 1:].dot(xcurr[i + 1:])]" % src(e))
    if src(P.the_return(fn)) != "xcurr":
        raise U("gauss_seidel no longer returns xcurr")

    fn = P.find_function(repo, RR_FILE, "rrBLUPModel0.fit_numpy")
    e = P.the_assignment(fn, "ispolymorphic")
    if not (isinstance(e, ast.UnaryOp) and isinstance(e.op, ast.Invert) and isinstance(e.operand, ast.Call) and src(e.operand.func) == "numpy.all"
            and len(e.operand.args) == 1 and [(k.arg, src(k.value)) for k in e.operand.keywords] == [("axis", "0")]
            and isinstance(e.operand.args[0], ast.Compare)):
        raise U("fit_numpy: ispolymorphic is not `~numpy.all(<cmp>, axis=0)`: " + src(e))
    D("k_poly_eq", [("z", "Z"), ("z0", "Z")], "bool", P.to_coq(e.operand.args[0], Zc({"Z": "z", "Z[0, :]": "z0"}), "bool"),
      "rrBLUPModel0.fit_numpy: ispolymorphic = %s   [element test]" % src(e))
    D("k_poly_col", [("all_equal", "bool")], "bool", "(negb all_equal)", "rrBLUPModel0.fit_numpy: ispolymorphic = %s   [all_equal = numpy.all(..., axis=0)]" % src(e))
    for st in ("Zpoly = Z[:, ispolymorphic]", "u_a[ispolymorphic, :] = uhat", "models = [rrBLUP_ML0(Y[:, i], Zpoly) for i in range(ntrait)]",
               "uhat = numpy.stack([models[i]['uhat'] for i in range(ntrait)], axis=1)", "beta = numpy.stack([models[i]['betahat'] for i in range(ntrait)], axis=1)"):
        require_stmt(fn, st)
    m, v = masked_store(fn, "u_a", index=1)
    if src(m) != "(~ispolymorphic, slice(None, None, None))" and src(m) != "~ispolymorphic, :" and "~ispolymorphic" not in src(m):
        raise U("fit_numpy: second store into u_a is not on ~ispolymorphic: " + src(m))
    D("k_mono_effect", [], "Q", P.to_coq(v, Q({})), "rrBLUPModel0.fit_numpy: u_a[%s] = %s" % (src(m), src(v)))
    fn = P.find_function(repo, RR_FILE, "rrBLUP_ML0_center_y")
    e = P.the_return(fn)
    D("k_center", [("y", "Q"), ("ymean", "Q")], "Q", P.to_coq(bind(e, {"y.mean()": "ymean"}), Q({"y": "y", "ymean": "ymean"})), "rrBLUP_ML0_center_y: return %s" % src(e))
    fn = P.find_function(repo, RR_FILE, "rrBLUP_ML0_calc_ridge")
    e = P.the_return(fn)
    D("k_ridge", [("varE", "Q"), ("varU", "Q")], "Q", P.to_coq(e, Q({"varE": "varE", "varU": "varU"})), "rrBLUP_ML0_calc_ridge: return %s" % src(e))
    fn = P.find_function(repo, RR_FILE, "rrBLUP_ML0")
    for st in ("meanY = y.mean()", "y = rrBLUP_ML0_center_y(y)", "ridge = rrBLUP_ML0_calc_ridge(varE, varU)", "ZtZplI = rrBLUP_ML0_calc_ZtZplI(Z, ridge)",
               "Zty = rrBLUP_ML0_calc_Zty(Z, y)", "uhat = gauss_seidel(ZtZplI, Zty, gsatol, gsmaxiter)", "betahat = numpy.array([meanY])"):
        require_stmt(fn, st)
    fn = P.find_function(repo, RR_FILE, "rrBLUP_ML0_calc_ZtZplI")
    for st in ("ZtZplI = Z.T @ Z", "diagZtZplI = numpy.einsum('ii->i', ZtZplI)", "diagZtZplI += ridge", "return ZtZplI"):
        require_stmt(fn, st)
    fn = P.find_function(repo, RR_FILE, "rrBLUP_ML0_calc_Zty")
    require_stmt(fn, "Zty = Z.T @ y")

    text = (P.HEADER % "harness/translate/c04_kernel.py") + \
        "From Coq Require Import ZArith QArith Bool.\nLocal Open Scope Z_scope.\n\n" + "\n".join(defs)
    path = os.path.join(gen_dir, "C04_Kernel.v")
    P.write_if_changed(path, text)
    return {"file": "Gen/C04_Kernel.v", "definitions": len(defs), "sha256": hashlib.sha256(text.encode()).hexdigest()[:16]}


def bind_calls(e):
    """`self.facount(gmat)` / `self.dacount(gmat)` -> the names fa / da (at least one of them must occur)"""
    txt = {src(n) for n in ast.walk(e) if isinstance(n, ast.Call)}
    table = {k: v for k, v in (("self.facount(gmat)", "fa"), ("self.dacount(gmat)", "da")) if k in txt}
    if len(table) != 1:
        raise U("expected exactly one of self.facount(gmat) / self.dacount(gmat) in " + src(e))
    return bind(e, table)
