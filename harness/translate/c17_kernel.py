"""C17 kernel translator (protocol: tools/PHASE2_BRIEF.md section B; exemplar: c09_kernel.py).

Regenerates `coq/Gen/C17_Kernel.v` from the current source of pybrops/core/random/sampling.py (and of
core/util/array.py:sliceaxisix) on every run: one Gallina `Definition` per *kernel expression* of the four sampling
utilities, i.e. the expressions on which the C17 theorems turn:

  stochastic_universal_sampling
    k_sus_empty                 k == 0                                   (the early return for an output size of zero)
    k_sus_dist / k_sus_dist_q   tot_fit / k                              (`ptr_dist = ...`; binary64 and exact-rational reading)
    k_sus_ptr / k_sus_ptr_q     offset + ptr_dist * numpy.arange(k)      (`ptrs = ...`, one element; arange(k) bound as `i`)
    k_sus_positive(_f)          p > 0.0                                  (argument of count_nonzero in `last = ...`)
    k_sus_last                  numpy.count_nonzero(p > 0.0) - 1         (count bound as one variable)
    k_sus_guard(_f)             (ix < last) and (cumsum[ix] <= ptr)      (the test of the while loop: the half-open cells)
    k_sus_uniform_lo/_hi        rng.uniform(0.0, ptr_dist)               (argument order of the offset draw)
  tiled_choice
    k_tiled_qu / k_tiled_re     divmod(nsample, noption)                 (`qu, re = ...`: argument order)
    k_tiled_lo / k_tiled_hi     out[(i*noption):((i+1)*noption)] = a     (bounds of tile i)
    k_tiled_rest                out[(qu*noption):] = rng.choice(...)     (start of the remainder)
  outcross_shuffle
    k_oc_dup_term               numpy.sum(c-1)                           (objfn: `out += ...`, per unique value)
    k_oc_accept                 score < gbest_score                      (strict improvement: termination depends on it)
    k_oc_i_lo/_hi, k_oc_j_lo/_hi, k_oc_pair   [[i,j] for i in range(len(xravel)) for j in range(i+1, len(xravel))]
                                                                         (no filter allowed: every pair of entries is a candidate)
    k_oc_swap                   xravel[i], xravel[j] = xravel[j], xravel[i]   (both statements: exchange and undo)
    k_oc_continue               iterate = not local_optima
  axis_shuffle
    k_axis_args                 sliceaxisix(a.shape, axis)               (argument order; ill-typed in Coq when swapped)
  sliceaxisix
    k_sax_leaf                  len(l) == len(s)-1                       (the last dimension)

`Model/C17_KernelProg.v` assembles the four utilities from these definitions, `Proofs/C17_Kernel.v` proves the assembled
programs equal to the hand model (`sus_f`, `sus_q`, `tiled_sel`, `outcross`), and `Props/C17.v` states the property theorems
about the assembled programs, so a changed expression (`<` for `<=`, `k / tot_fit`, `count_nonzero(c > 1)`, `<=` for `<`,
a filter in the exchange list, `divmod(noption, nsample)`) makes `Props/C17.vo` fail to build whatever the random cases
exercise.  Besides the expressions, the translator pins the *glue* around them (statement shapes such as `for ptr in ptrs`,
`sel.append(indices[ix])`, `p.argsort()[::-1]`, `for i in range(qu)`): a statement of another shape is refused.
Fail closed: every selector demands exactly one match, every name must be bound by the environment given here, anything
else raises `pyexpr.Untranslatable`.
"""
import ast, os, hashlib
from translate import pyexpr as P
from translate.kernelkit import bind

SAMPLING = "pybrops/core/random/sampling.py"
ARRAY = "pybrops/core/util/array.py"


def _src(e):
    return ast.unparse(e)


def _need(cond, msg):
    if not cond:
        raise P.Untranslatable(msg)


def _own_nodes(fn):
    """nodes of fn without those of nested function definitions"""
    out = []

    def rec(node):
        for ch in ast.iter_child_nodes(node):
            if isinstance(ch, (ast.FunctionDef, ast.AsyncFunctionDef, ast.Lambda, ast.ClassDef)):
                continue
            out.append(ch)
            rec(ch)
    rec(fn)
    return out


def _is_cmp(t):
    """an arithmetic comparison (not `x is None`)"""
    return isinstance(t, ast.Compare) and not any(isinstance(o, (ast.Is, ast.IsNot, ast.In, ast.NotIn)) for o in t.ops)


def _the(nodes, what):
    _need(len(nodes) == 1, "expected exactly one %s, found %d" % (what, len(nodes)))
    return nodes[0]


def _glue(fn, kind, text_of, expected, what):
    """exactly one node of `kind` in fn whose rendering (text_of) equals `expected`"""
    got = [text_of(n) for n in _own_nodes(fn) if isinstance(n, kind)]
    _need(got.count(expected) == 1, "%s: expected exactly one %s `%s` (found: %s)" % (fn.name, what, expected, got))


def _mixed_and(test, zenv, env2, sort2):
    """`(a) and (b)` with the first conjunct an integer comparison and the second a comparison in sort2"""
    _need(isinstance(test, ast.BoolOp) and isinstance(test.op, ast.And) and len(test.values) == 2,
          "while test is not a conjunction of two comparisons: " + _src(test))
    a, b = test.values
    _need(isinstance(a, ast.Compare) and isinstance(b, ast.Compare), "while test is not a conjunction of two comparisons: " + _src(test))
    return "(andb %s %s)" % (P.to_coq(a, P.Ctx("Z", zenv), "bool"), P.to_coq(b, P.Ctx(sort2, env2), "bool"))


def translate(repo, gen_dir):
    defs = []
    D = lambda *a: defs.append(P.definition(*a))
    Fc = lambda env: P.Ctx("F", env)
    Qc = lambda env: P.Ctx("Q", env)
    Zc = lambda env: P.Ctx("Z", env)

    # ================================================================== stochastic_universal_sampling
    fn = P.find_function(repo, SAMPLING, "stochastic_universal_sampling")
    name = "stochastic_universal_sampling"
    # -- early return for an output size of zero
    tests = [t for t in P.if_tests(fn) if _is_cmp(t)]
    e = _the(tests, "comparison among the `if` tests of " + name)
    D("k_sus_empty", [("k", "Z")], "bool", P.to_coq(e, Zc({"k": "k"}), "bool"), "%s: if %s: return a[numpy.empty(size, dtype=int)]" % (name, _src(e)))
    _need(_src(P.the_assignment(fn, "k")) == "numpy.prod(size)", name + ": k is no longer numpy.prod(size)")
    # -- pointer distance
    e = P.the_assignment(fn, "ptr_dist")
    D("k_sus_dist", [("tot", "float"), ("k", "float")], "float", P.to_coq(e, Fc({"tot_fit": "tot", "k": "k"})), "%s: ptr_dist = %s" % (name, _src(e)))
    D("k_sus_dist_q", [("tot", "Q"), ("k", "Q")], "Q", P.to_coq(e, Qc({"tot_fit": "tot", "k": "k"})), "%s: ptr_dist = %s   (exact rationals)" % (name, _src(e)))
    _need(_src(P.the_assignment(fn, "tot_fit")) == "p.sum()", name + ": tot_fit is no longer p.sum()")
    # -- pointers
    e = P.the_assignment(fn, "ptrs")
    eb = bind(e, {"numpy.arange(k)": "i"})
    env = {"offset": "off", "ptr_dist": "d", "i": "i"}
    D("k_sus_ptr", [("off", "float"), ("d", "float"), ("i", "float")], "float", P.to_coq(eb, Fc(env)), "%s: ptrs = %s   (element i)" % (name, _src(e)))
    D("k_sus_ptr_q", [("off", "Q"), ("d", "Q"), ("i", "Q")], "Q", P.to_coq(eb, Qc(env)), "%s: ptrs = %s   (element i, exact rationals)" % (name, _src(e)))
    # -- last position of positive weight
    e = P.the_assignment(fn, "last")
    calls = [n for n in ast.walk(e) if isinstance(n, ast.Call)]
    c = _the(calls, "call in `last = ...`")
    _need(_src(c.func) == "numpy.count_nonzero" and len(c.args) == 1 and not c.keywords, name + ": last is not built on numpy.count_nonzero(<mask>)")
    D("k_sus_positive", [("x", "Q")], "bool", P.to_coq(c.args[0], Qc({"p": "x"}), "bool"), "%s: last = %s   (the mask, per element)" % (name, _src(e)))
    D("k_sus_positive_f", [("x", "float")], "bool", P.to_coq(c.args[0], Fc({"p": "x"}), "bool"), "%s: last = %s   (the mask, per element, binary64)" % (name, _src(e)))
    D("k_sus_last", [("npos", "Z")], "Z", P.to_coq(bind(e, {_src(c): "npos"}), Zc({"npos": "npos"})), "%s: last = %s" % (name, _src(e)))
    # -- the walk
    e = P.the_while_test(fn)
    zenv = {"ix": "ix", "last": "last"}
    D("k_sus_guard", [("ix", "Z"), ("last", "Z"), ("c", "Q"), ("ptr", "Q")], "bool",
      _mixed_and(e, zenv, {"cumsum[ix]": "c", "ptr": "ptr"}, "Q"), "%s: while %s: ix += 1" % (name, _src(e)))
    D("k_sus_guard_f", [("ix", "Z"), ("last", "Z"), ("c", "float"), ("ptr", "float")], "bool",
      _mixed_and(e, zenv, {"cumsum[ix]": "c", "ptr": "ptr"}, "F"), "%s: while %s: ix += 1   (binary64)" % (name, _src(e)))
    w = P.loop_tests(fn, ast.While)[0]
    _need(len(w.body) == 1 and _src(w.body[0]) == "ix += 1" and not w.orelse, name + ": the body of the while loop is not `ix += 1`")
    loops = P.loop_tests(fn, ast.For)
    lp = _the(loops, "for loop in " + name)
    _need(_src(lp.target) == "ptr" and _src(lp.iter) == "ptrs" and len(lp.body) == 2 and lp.body[0] is w
          and _src(lp.body[1]) == "sel.append(indices[ix])", name + ": the pointer loop is not `for ptr in ptrs: while ...; sel.append(indices[ix])`")
    _need(_src(P.the_assignment(fn, "ix")) == "0", name + ": ix does not start at 0")
    _need(_src(P.the_assignment(fn, "indices")) == "p.argsort()[::-1]", name + ": indices is no longer p.argsort()[::-1]")
    _need(_src(P.the_assignment(fn, "cumsum")) == "p[indices].cumsum()", name + ": cumsum is no longer p[indices].cumsum()")
    _need([_src(x) for x in (a.value for a in P.assignments_to(fn, "sel"))] == ["[]", "numpy.array(sel)", "sel.reshape(size)"],
          name + ": sel is not built as [], numpy.array(sel), sel.reshape(size)")
    _glue(fn, ast.Expr, lambda n: _src(n.value), "rng.shuffle(sel)", "statement")
    _need(_src(P.the_return(fn, index=1)) == "a[sel]" and len([n for n in ast.walk(fn) if isinstance(n, ast.Return)]) == 2,
          name + ": the result is no longer a[sel]")
    # -- the offset draw
    e = P.the_assignment(fn, "offset")
    _need(isinstance(e, ast.Call) and _src(e.func) == "rng.uniform" and len(e.args) == 2 and not e.keywords,
          name + ": offset is not rng.uniform(low, high)")
    D("k_sus_uniform_lo", [], "float", P.to_coq(e.args[0], Fc({"ptr_dist": "d"})), "%s: offset = %s   (first argument)" % (name, _src(e)))
    D("k_sus_uniform_hi", [("d", "float")], "float", P.to_coq(e.args[1], Fc({"ptr_dist": "d"})), "%s: offset = %s   (second argument)" % (name, _src(e)))

    # ================================================================== tiled_choice
    fn = P.find_function(repo, SAMPLING, "tiled_choice")
    name = "tiled_choice"
    e = P.the_assignment(fn, "(qu, re)")
    _need(isinstance(e, ast.Call) and _src(e.func) == "divmod" and len(e.args) == 2 and not e.keywords, name + ": qu, re is not divmod(a, b)")
    zenv = {"nsample": "nsample", "noption": "noption"}
    a0, a1 = (P.to_coq(x, Zc(zenv)) for x in e.args)
    D("k_tiled_qu", [("nsample", "Z"), ("noption", "Z")], "Z", "(Z.div %s %s)" % (a0, a1), "%s: qu, re = %s   (quotient)" % (name, _src(e)))
    D("k_tiled_re", [("nsample", "Z"), ("noption", "Z")], "Z", "(Z.modulo %s %s)" % (a0, a1), "%s: qu, re = %s   (remainder)" % (name, _src(e)))
    _need(_src(P.the_assignment(fn, "noption")) == "len(a)", name + ": noption is no longer len(a)")
    _need(_src(P.the_assignment(fn, "nsample")) == "numpy.prod(size)", name + ": nsample is no longer numpy.prod(size)")
    # slices written into `out`
    subs = [n for n in _own_nodes(fn) if isinstance(n, ast.Assign) and len(n.targets) == 1 and isinstance(n.targets[0], ast.Subscript)]
    _need(len(subs) == 2 and all(_src(n.targets[0].value) == "out" and isinstance(n.targets[0].slice, ast.Slice) and n.targets[0].slice.step is None
                                 for n in subs), name + ": expected exactly two slice assignments into out")
    tile = _the([n for n in subs if _src(n.value) == "a"], "assignment `out[...] = a`")
    rest = _the([n for n in subs if n is not tile], "assignment of the remainder")
    zenv = {"i": "i", "noption": "noption", "qu": "qu"}
    sl = tile.targets[0].slice
    _need(sl.lower is not None and sl.upper is not None, name + ": the tile slice needs both bounds")
    D("k_tiled_lo", [("i", "Z"), ("noption", "Z")], "Z", P.to_coq(sl.lower, Zc(zenv)), "%s: %s   (lower bound)" % (name, _src(tile)))
    D("k_tiled_hi", [("i", "Z"), ("noption", "Z")], "Z", P.to_coq(sl.upper, Zc(zenv)), "%s: %s   (upper bound)" % (name, _src(tile)))
    sl = rest.targets[0].slice
    _need(sl.lower is not None and sl.upper is None, name + ": the remainder slice must be open to the right")
    D("k_tiled_rest", [("qu", "Z"), ("noption", "Z")], "Z", P.to_coq(sl.lower, Zc(zenv)), "%s: %s   (lower bound)" % (name, _src(rest)))
    _need(_src(rest.value) == "rng.choice(a, re, replace, p)", name + ": the remainder is no longer rng.choice(a, re, replace, p)")
    lp = _the(P.loop_tests(fn, ast.For), "for loop in " + name)
    _need(_src(lp.target) == "i" and _src(lp.iter) == "range(qu)" and lp.body == [tile], name + ": the tiling loop is not `for i in range(qu): out[...] = a`")
    _glue(fn, ast.Expr, lambda n: _src(n.value), "rng.shuffle(out)", "statement")
    _need(_src(P.the_return(fn)) == "out", name + ": the result is no longer out")

    # ================================================================== outcross_shuffle
    fn = P.find_function(repo, SAMPLING, "outcross_shuffle")
    obj = P.find_function(repo, SAMPLING, "outcross_shuffle.objfn")
    name = "outcross_shuffle"
    # -- objective
    aug = [n for n in ast.walk(obj) if isinstance(n, ast.AugAssign)]
    n = _the(aug, "augmented assignment in objfn")
    _need(isinstance(n.op, ast.Add) and _src(n.target) == "out", name + ".objfn: the accumulation is not `out += ...`")
    e = n.value
    _need(isinstance(e, ast.Call) and _src(e.func) == "numpy.sum" and len(e.args) == 1 and not e.keywords,
          name + ".objfn: the row term is not numpy.sum(<elementwise expression of the counts>): " + _src(e))
    D("k_oc_dup_term", [("c", "Z")], "Z", P.to_coq(e.args[0], Zc({"c": "c"})), "%s.objfn: out += %s   (per unique value of a row, c = its count)" % (name, _src(e)))
    _need(_src(P.the_assignment(obj, "(u, c)")) == "numpy.unique(xrow, return_counts=True)", name + ".objfn: u, c is no longer numpy.unique(xrow, return_counts=True)")
    lp = _the(P.loop_tests(obj, ast.For), "for loop in objfn")
    _need(_src(lp.target) == "xrow" and _src(lp.iter) == "x" and len(lp.body) == 2, name + ".objfn: the loop is not `for xrow in x`")
    _need(_src(P.the_assignment(obj, "out")) == "0" and _src(P.the_return(obj)) == "out", name + ".objfn: out does not start at 0 / is not returned")
    # -- acceptance test
    tests = [t for t in (n.test for n in _own_nodes(fn) if isinstance(n, ast.If)) if _is_cmp(t)]
    e = _the(tests, "comparison among the `if` tests of " + name)
    D("k_oc_accept", [("score", "Z"), ("best", "Z")], "bool", P.to_coq(e, Zc({"score": "score", "gbest_score": "best"}), "bool"),
      "%s: if %s: accept the exchange" % (name, _src(e)))
    own_assign = lambda target: [n.value for n in _own_nodes(fn) if isinstance(n, ast.Assign) and len(n.targets) == 1 and _src(n.targets[0]) == target]
    _need([_src(v) for v in own_assign("gbest_score")] == ["objfn(xconfig)", "score"], name + ": gbest_score is not objfn(xconfig), then score")
    _need([_src(v) for v in own_assign("score")] == ["objfn(xconfig)"], name + ": score is no longer objfn(xconfig)")
    _need([_src(v) for v in own_assign("xravel")] == ["xconfig.flat"], name + ": xravel is no longer xconfig.flat")
    # -- exchange list
    e = _the(own_assign("exchix"), "assignment to exchix")
    _need(isinstance(e, ast.Call) and _src(e.func) == "numpy.array" and len(e.args) == 1 and not e.keywords and isinstance(e.args[0], ast.ListComp),
          name + ": exchix is not numpy.array([... for ... for ...])")
    lc = e.args[0]
    _need(len(lc.generators) == 2 and all(not g.ifs and not g.is_async for g in lc.generators),
          name + ": the exchange list must be an unfiltered comprehension over two ranges: " + _src(lc))
    gi, gj = lc.generators
    _need(_src(gi.target) == "i" and _src(gj.target) == "j", name + ": the exchange list is not over i, then j")

    def rng_bounds(it):
        _need(isinstance(it, ast.Call) and _src(it.func) == "range" and 1 <= len(it.args) <= 2 and not it.keywords, name + ": not a range(): " + _src(it))
        return (ast.Constant(0), it.args[0]) if len(it.args) == 1 else (it.args[0], it.args[1])
    zenv = {"i": "i", "len(xravel)": "n"}
    zenv_n = {"len(xravel)": "n"}

    class _Len(ast.NodeTransformer):           # len(xravel) as one name
        def visit_Call(self, node):
            if _src(node) == "len(xravel)":
                return ast.Name(id="LEN", ctx=ast.Load())
            return self.generic_visit(node)
    import copy
    lenify = lambda x: _Len().visit(copy.deepcopy(x))
    lo, hi = rng_bounds(gi.iter)
    D("k_oc_i_lo", [("n", "Z")], "Z", P.to_coq(lenify(lo), Zc({"LEN": "n"})), "%s: %s   (i from)" % (name, _src(lc)))
    D("k_oc_i_hi", [("n", "Z")], "Z", P.to_coq(lenify(hi), Zc({"LEN": "n"})), "%s: ... for i in %s   (i below)" % (name, _src(gi.iter)))
    lo, hi = rng_bounds(gj.iter)
    D("k_oc_j_lo", [("i", "Z"), ("n", "Z")], "Z", P.to_coq(lenify(lo), Zc({"LEN": "n", "i": "i"})), "%s: ... for j in %s   (j from)" % (name, _src(gj.iter)))
    D("k_oc_j_hi", [("i", "Z"), ("n", "Z")], "Z", P.to_coq(lenify(hi), Zc({"LEN": "n", "i": "i"})), "%s: ... for j in %s   (j below)" % (name, _src(gj.iter)))
    _need(isinstance(lc.elt, ast.List) and len(lc.elt.elts) == 2 and all(isinstance(x, ast.Name) and x.id in ("i", "j") for x in lc.elt.elts),
          name + ": an entry of the exchange list is not a pair of i and j")
    D("k_oc_pair", [("i", "nat"), ("j", "nat")], "(nat * nat)", "(%s, %s)" % tuple(x.id for x in lc.elt.elts), "%s: entry %s of the exchange list" % (name, _src(lc.elt)))
    # -- the exchange and its undo
    sw = own_assign("(xravel[i], xravel[j])")
    _need(len(sw) == 2, name + ": expected two exchange statements (exchange, undo), found %d" % len(sw))
    terms = []
    for v in sw:
        _need(isinstance(v, ast.Tuple) and len(v.elts) == 2, name + ": exchange right-hand side is not a pair")
        env = {"xravel[i]": "xi", "xravel[j]": "xj"}
        terms.append("(%s, %s)" % (P.to_coq(v.elts[0], Zc(env)), P.to_coq(v.elts[1], Zc(env))))
    _need(terms[0] == terms[1], name + ": the undo is not the same exchange")
    D("k_oc_swap", [("xi", "Z"), ("xj", "Z")], "(Z * Z)", terms[0], "%s: xravel[i], xravel[j] = %s   (new values at i and j; exchange and undo)" % (name, _src(sw[0])))
    lp = _the([n for n in _own_nodes(fn) if isinstance(n, ast.For)], "for loop in " + name)
    _need(_src(lp.target) == "(i, j)" and _src(lp.iter) == "exchix", name + ": the exchange loop is not `for i,j in exchix`")
    # -- continuation
    it = own_assign("iterate")
    _need(len(it) == 2 and _src(it[0]) == "True", name + ": iterate is not True, then an expression of local_optima")
    D("k_oc_continue", [("local_optima", "bool")], "bool", P.to_coq(it[1], P.Ctx("Z", {}, bool_env={"local_optima": "local_optima"}), "bool"),
      "%s: iterate = %s" % (name, _src(it[1])))
    _need([_src(v) for v in own_assign("local_optima")] == ["True", "False"], name + ": local_optima is not True, then False on acceptance")
    _need(_src(_the([n for n in _own_nodes(fn) if isinstance(n, ast.While)], "while loop").test) == "iterate", name + ": the outer loop is not `while iterate`")
    _glue(fn, ast.Expr, lambda n: _src(n.value), "rng.shuffle(exchix)", "statement")

    # ================================================================== axis_shuffle
    fn = P.find_function(repo, SAMPLING, "axis_shuffle")
    name = "axis_shuffle"
    lp = _the(P.loop_tests(fn, ast.For), "for loop in " + name)
    it = lp.iter
    _need(isinstance(it, ast.Call) and _src(it.func) == "sliceaxisix" and len(it.args) == 2 and not it.keywords and _src(lp.target) == "s",
          name + ": the loop is not `for s in sliceaxisix(x, y)`")
    env = {"a.shape": "shape", "axis": "axis"}
    for x in it.args:
        _need(_src(x) in env, name + ": unexpected argument %s of sliceaxisix" % _src(x))
    D("k_axis_args", [("shape", "list nat"), ("axis", "list Z")], "(list nat * list Z)", "(%s, %s)" % tuple(env[_src(x)] for x in it.args),
      "%s: for s in %s" % (name, _src(it)))
    _need(len(lp.body) == 1 and _src(lp.body[0]) == "rng.shuffle(a[s])", name + ": the loop body is not rng.shuffle(a[s])")

    # ================================================================== sliceaxisix
    fn = P.find_function(repo, ARRAY, "sliceaxisix.recurse")
    name = "sliceaxisix.recurse"
    tests = P.if_tests(fn)
    _need(len(tests) == 3 and [_src(t) for t in tests[1:]] == ["len(l) in a", "len(l) in a"], name + ": expected the tests <leaf>, len(l) in a, len(l) in a")

    class _Lens(ast.NodeTransformer):
        def visit_Call(self, node):
            if _src(node) == "len(l)": return ast.Name(id="ll", ctx=ast.Load())
            if _src(node) == "len(s)": return ast.Name(id="ls", ctx=ast.Load())
            return self.generic_visit(node)
    D("k_sax_leaf", [("ll", "Z"), ("ls", "Z")], "bool", P.to_coq(_Lens().visit(copy.deepcopy(tests[0])), Zc({"ll": "ll", "ls": "ls"}), "bool"),
      "%s: if %s   (the last dimension)" % (name, _src(tests[0])))
    rngs = [_src(n.iter) for n in ast.walk(fn) if isinstance(n, ast.For)]
    _need(rngs == ["range(s[len(l)])", "range(s[len(l)])"], name + ": the index loops are not range(s[len(l)])")
    top = P.find_function(repo, ARRAY, "sliceaxisix")
    yf = [n for n in _own_nodes(top) if isinstance(n, ast.YieldFrom)]
    _need(len(yf) == 1 and _src(yf[0].value) == "recurse([], shape, axis)", "sliceaxisix: does not `yield from recurse([], shape, axis)`")

    text = (P.HEADER % "harness/translate/c17_kernel.py") + \
        "From Coq Require Import ZArith QArith Bool List PrimFloat.\nLocal Open Scope Z_scope.\n\n" + "\n".join(defs)
    path = os.path.join(gen_dir, "C17_Kernel.v")
    P.write_if_changed(path, text)
    return {"file": "Gen/C17_Kernel.v", "definitions": len(defs), "sha256": hashlib.sha256(text.encode()).hexdigest()[:16]}
