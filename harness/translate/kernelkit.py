"""Helpers shared by the per-property kernel translators (`cXX_kernel.py`), on top of pyexpr (which stays untouched):
`bind` (treat a whole array sub-expression as one kernel variable), `elementwise_bool` (numpy's | & ~ on comparisons),
`shape_first_dim`.  All fail closed with `pyexpr.Untranslatable`."""
import ast
from translate import pyexpr as P


def elementwise_bool(expr):
    """numpy writes element-wise boolean algebra with | & ~ on comparison results: rewrite to or/and/not (only when every
    operand is itself a comparison or such a combination - anything else is refused by pyexpr later)"""
    if isinstance(expr, ast.BinOp) and isinstance(expr.op, (ast.BitOr, ast.BitAnd)):
        l, r = elementwise_bool(expr.left), elementwise_bool(expr.right)
        for s in (l, r):
            if not isinstance(s, (ast.Compare, ast.BoolOp, ast.UnaryOp)):
                raise P.Untranslatable("| or & applied to a non-comparison: " + ast.unparse(expr))
        return ast.BoolOp(op=ast.Or() if isinstance(expr.op, ast.BitOr) else ast.And(), values=[l, r])
    if isinstance(expr, ast.UnaryOp) and isinstance(expr.op, ast.Invert):
        return ast.UnaryOp(op=ast.Not(), operand=elementwise_bool(expr.operand))
    return expr


def bind(expr, table):
    """replace every sub-expression whose source text is a key of `table` by the (python) name given there, so that a whole
    array expression such as `self._mat.sum(self.taxa_axis)` can be bound as ONE variable of the kernel.  Every key must
    occur (otherwise the kernel no longer has the shape this translator describes)."""
    seen = set()

    class T(ast.NodeTransformer):
        def visit(self, node):
            if isinstance(node, ast.expr):
                txt = ast.unparse(node)
                if txt in table:
                    seen.add(txt)
                    return ast.copy_location(ast.Name(id=table[txt], ctx=ast.Load()), node)
            return self.generic_visit(node)
    import copy
    out = T().visit(copy.deepcopy(expr))
    missing = set(table) - seen
    if missing:
        raise P.Untranslatable("expected sub-expression(s) %s in %s" % (sorted(missing), ast.unparse(expr)))
    return out


def shape_first_dim(fn, target):
    """first element of the shape tuple of `target = numpy.empty((a, b, ...), ...)` / numpy.zeros (must be a plain name)"""
    call = P.the_assignment(fn, target, index=0)
    if not (isinstance(call, ast.Call) and ast.unparse(call.func) in ("numpy.empty", "numpy.zeros") and call.args
            and isinstance(call.args[0], ast.Tuple) and call.args[0].elts and isinstance(call.args[0].elts[0], ast.Name)):
        raise P.Untranslatable("%s: %s is not allocated by numpy.empty/zeros((name, ...))" % (fn.name, target))
    return call.args[0].elts[0].id


