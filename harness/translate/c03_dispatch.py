"""C03 translator: source (ast) -> coq/Gen/C03_Dispatch.v

For each of the 13 labelled matrix classes and each axis-generic method (adjoin, delete, insert, select, concat, append,
remove, incorp, lexsort, reorder, sort, group, ungroup, is_grouped) resolved through the statically computed MRO:
which axis attribute each branch of the if/elif chain tests and what the branch does (call of an axis-specific method,
`raise`, or the constant False).  Fails closed: any construct it does not recognise raises TranslateError.
Pure ast — nothing from /repo is imported or executed.  Output is deterministic."""
import ast, os

class TranslateError(Exception):
    pass

CLASSES = [
    ("DenseTaxaMatrix", "pybrops/core/mat/DenseTaxaMatrix.py"),
    ("DenseVariantMatrix", "pybrops/core/mat/DenseVariantMatrix.py"),
    ("DenseTraitMatrix", "pybrops/core/mat/DenseTraitMatrix.py"),
    ("DensePhasedMatrix", "pybrops/core/mat/DensePhasedMatrix.py"),
    ("DenseTaxaVariantMatrix", "pybrops/core/mat/DenseTaxaVariantMatrix.py"),
    ("DensePhasedTaxaVariantMatrix", "pybrops/core/mat/DensePhasedTaxaVariantMatrix.py"),
    ("DenseTaxaTraitMatrix", "pybrops/core/mat/DenseTaxaTraitMatrix.py"),
    ("DenseSquareTaxaMatrix", "pybrops/core/mat/DenseSquareTaxaMatrix.py"),
    ("DenseSquareTaxaTraitMatrix", "pybrops/core/mat/DenseSquareTaxaTraitMatrix.py"),
    ("DenseGenotypeMatrix", "pybrops/popgen/gmat/DenseGenotypeMatrix.py"),
    ("DensePhasedGenotypeMatrix", "pybrops/popgen/gmat/DensePhasedGenotypeMatrix.py"),
    ("DenseBreedingValueMatrix", "pybrops/popgen/bvmat/DenseBreedingValueMatrix.py"),
    ("DenseCoancestryMatrix", "pybrops/popgen/cmat/DenseCoancestryMatrix.py"),
]
GENERIC = ["adjoin", "delete", "insert", "select", "concat", "append", "remove", "incorp", "lexsort", "reorder", "sort",
           "group", "ungroup", "is_grouped"]
AXIS_ATTR = {"taxa_axis": "KTaxa", "square_taxa_axes": "KTaxa", "square_axes": "KTaxa", "vrnt_axis": "KVrnt",
             "trait_axis": "KTrait", "phase_axis": "KPhase"}
SUFFIX = {"taxa": "KTaxa", "vrnt": "KVrnt", "trait": "KTrait", "phase": "KPhase"}

class Source:
    """class index over the package with import-based name resolution and C3 linearisation"""
    def __init__(self, repo):
        self.repo = repo
        self.files = {}
    def parse(self, rel):
        if rel not in self.files:
            p = os.path.join(self.repo, rel)
            if not os.path.exists(p):
                raise TranslateError("missing source file %s" % rel)
            with open(p, "rb") as f:
                src = f.read().decode("utf8").replace("\r\n", "\n")
            self.files[rel] = ast.parse(src, filename=rel)
        return self.files[rel]
    def classdef(self, rel, name):
        for n in self.parse(rel).body:
            if isinstance(n, ast.ClassDef) and n.name == name:
                return n
        raise TranslateError("class %s not found in %s" % (name, rel))
    def resolve(self, rel, name):
        """file that defines `name` as seen from file `rel`"""
        tree = self.parse(rel)
        for n in tree.body:
            if isinstance(n, ast.ClassDef) and n.name == name:
                return rel
        for n in tree.body:
            if isinstance(n, ast.ImportFrom) and n.module and n.level == 0:
                for a in n.names:
                    if (a.asname or a.name) == name:
                        if not n.module.startswith("pybrops"):
                            return None                      # external base (abc etc.)
                        cand = n.module.replace(".", "/") + ".py"
                        if os.path.exists(os.path.join(self.repo, cand)):
                            return self.resolve(cand, a.name)
                        cand = n.module.replace(".", "/") + "/__init__.py"
                        if os.path.exists(os.path.join(self.repo, cand)):
                            return self.resolve(cand, a.name)
                        raise TranslateError("cannot locate module %s" % n.module)
        if name in ("object", "ABC"):
            return None
        raise TranslateError("cannot resolve base class %s in %s" % (name, rel))
    def bases(self, rel, name):
        out = []
        for b in self.classdef(rel, name).bases:
            if isinstance(b, ast.Name):
                r = self.resolve(rel, b.id)
                if r is not None:
                    out.append((r, b.id))
            elif isinstance(b, ast.Attribute):
                continue                                        # abc.ABC and the like
            else:
                raise TranslateError("unrecognised base expression in %s.%s" % (rel, name))
        return out
    def mro(self, rel, name, _memo=None):
        memo = {} if _memo is None else _memo
        key = (rel, name)
        if key in memo:
            return memo[key]
        bs = self.bases(rel, name)
        seqs = [list(self.mro(r, n, memo)) for r, n in bs] + [list(bs)]
        res = [key]
        while True:
            seqs = [s for s in seqs if s]
            if not seqs:
                break
            for s in seqs:
                h = s[0]
                if not any(h in t[1:] for t in seqs):
                    break
            else:
                raise TranslateError("inconsistent MRO for %s" % name)
            res.append(h)
            for s in seqs:
                if s and s[0] == h:
                    del s[0]
        memo[key] = res
        return res
    def find_method(self, rel, name, meth):
        for r, n in self.mro(rel, name):
            for st in self.classdef(r, n).body:
                if isinstance(st, ast.FunctionDef) and st.name == meth:
                    return (r, n, st)
        return None

def _is_docstring(st):
    return isinstance(st, ast.Expr) and isinstance(st.value, ast.Constant) and isinstance(st.value.value, str)
def _attr_of(node):
    """self.X / mats[0].X / cls.X -> ('X')"""
    if isinstance(node, ast.Attribute):
        v = node.value
        if isinstance(v, ast.Name) and v.id in ("self", "cls"):
            return node.attr
        if isinstance(v, ast.Subscript) and isinstance(v.value, ast.Name) and v.value.id == "mats":
            return node.attr
    return None

def _branch_test(test):
    if isinstance(test, ast.Compare) and len(test.ops) == 1 and isinstance(test.left, ast.Name) and test.left.id == "axis":
        attr = _attr_of(test.comparators[0])
        if attr in AXIS_ATTR and isinstance(test.ops[0], (ast.Eq, ast.In)):
            if isinstance(test.ops[0], ast.Eq) != (not attr.endswith("axes")):
                raise TranslateError("axis test uses the wrong comparison for %s" % attr)
            return attr
    raise TranslateError("unrecognised axis test: %s" % ast.dump(test)[:120])

def _branch_action(body, where):
    if len(body) != 1:
        raise TranslateError("%s: branch with %d statements" % (where, len(body)))
    st = body[0]
    if isinstance(st, ast.Raise):
        return ("raise", None)
    val = None
    if isinstance(st, ast.Expr):
        val = st.value
    elif isinstance(st, ast.Assign) and len(st.targets) == 1 and isinstance(st.targets[0], ast.Name) and st.targets[0].id in ("out", "indices", "grouped"):
        val = st.value
    if isinstance(val, ast.Constant) and val.value is False:
        return ("false", None)
    if isinstance(val, ast.Call):
        callee = _attr_of(val.func)
        if callee is not None:
            return ("call", callee)
    raise TranslateError("%s: unrecognised branch body %s" % (where, ast.dump(st)[:120]))

def generic_rows(repo):
    src = Source(repo)
    rows = []
    for cname, rel in CLASSES:
        for meth in GENERIC:
            found = src.find_method(rel, cname, meth)
            if found is None:
                continue                                  # e.g. DenseTraitMatrix has no group()
            r, n, fn = found
            where = "%s.%s (defined in %s)" % (cname, meth, n)
            body = [st for st in fn.body if not _is_docstring(st)]
            if any(isinstance(st, ast.Raise) for st in body) and len(body) == 1:
                continue                                  # abstract declaration only
            # axis = get_axis(axis, X.mat_ndim)
            st0 = body[0]
            ok0 = (isinstance(st0, ast.Assign) and isinstance(st0.targets[0], ast.Name) and st0.targets[0].id == "axis"
                   and isinstance(st0.value, ast.Call) and isinstance(st0.value.func, ast.Name) and st0.value.func.id == "get_axis"
                   and len(st0.value.args) == 2 and isinstance(st0.value.args[0], ast.Name) and st0.value.args[0].id == "axis"
                   and _attr_of(st0.value.args[1]) == "mat_ndim")
            if not ok0:
                raise TranslateError("%s: does not start with axis = get_axis(axis, .mat_ndim)" % where)
            chain = None
            for st in body[1:]:
                if isinstance(st, ast.If):
                    if chain is not None:
                        raise TranslateError("%s: more than one if chain" % where)
                    chain = st
                elif isinstance(st, ast.Return):
                    continue
                elif isinstance(st, ast.Assign) and len(st.targets) == 1 and isinstance(st.targets[0], ast.Name) \
                        and st.targets[0].id in ("out", "indices", "grouped") and isinstance(st.value, ast.Constant) \
                        and st.value.value in (None, False):
                    continue                              # out = None / grouped = False (declarations)
                else:
                    raise TranslateError("%s: unrecognised statement %s" % (where, ast.dump(st)[:100]))
            if chain is None:
                raise TranslateError("%s: no if chain" % where)
            branches = []
            node = chain
            while True:
                attr = _branch_test(node.test)
                branches.append((attr,) + _branch_action(node.body, where))
                if len(node.orelse) == 1 and isinstance(node.orelse[0], ast.If):
                    node = node.orelse[0]
                    continue
                if len(node.orelse) != 1 or not isinstance(node.orelse[0], ast.Raise):
                    raise TranslateError("%s: the chain does not end in else: raise" % where)
                break
            rows.append((cname, meth, n, branches))
    return rows

def _coq_str(s):
    if not all(c.isalnum() or c == "_" for c in s):
        raise TranslateError("unexpected identifier %r" % s)
    return '"%s"' % s

def render(rows):
    out = ["(* generated by harness/translate/c03_dispatch.py from the pybrops sources - do not edit *)",
           "From Coq Require Import String List.", "From PV Require Import Lib.Common Model.C03_LMat.", "Import ListNotations.",
           "Local Open Scope string_scope.", "",
           "(** what a branch of a generic method does *)",
           "Inductive dact := DCall (callee : string) | DRaise | DFalse.",
           "(** (class, generic method, class that defines it, branches: axis attribute tested, its kind, action) *)",
           "Definition dispatch_rows : list (string * string * string * list (string * akind * dact)) := ["]
    lines = []
    for cname, meth, owner, branches in rows:
        bs = []
        for attr, kind, callee in branches:
            act = "DRaise" if kind == "raise" else ("DFalse" if kind == "false" else "DCall %s" % _coq_str(callee))
            bs.append("(%s, %s, %s)" % (_coq_str(attr), AXIS_ATTR[attr], act))
        lines.append("  (%s, %s, %s, [%s])" % (_coq_str(cname), _coq_str(meth), _coq_str(owner), "; ".join(bs)))
    out.append(";\n".join(lines))
    out.append("].")
    return "\n".join(out) + "\n"

def translate(repo, gen_dir):
    rows = generic_rows(repo)
    os.makedirs(gen_dir, exist_ok=True)
    path = os.path.join(gen_dir, "C03_Dispatch.v")
    txt = render(rows)
    if not os.path.exists(path) or open(path).read() != txt:
        with open(path, "w") as f:
            f.write(txt)
    return {"table": "Gen/C03_Dispatch.v", "rows": len(rows), "branches": sum(len(r[3]) for r in rows)}

if __name__ == "__main__":
    import sys
    for r in generic_rows(sys.argv[1] if len(sys.argv) > 1 else "/repo"):
        print(r)
