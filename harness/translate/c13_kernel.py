"""C13 kernel translator: regenerates `coq/Gen/C13_Kernel.v` from the current source on every run (protocol: tools/PHASE2_BRIEF.md
section B; exemplar: c09_kernel.py).  One Gallina `Definition` per *kernel expression* of the relationship-matrix code, i.e. the
scalar / element-wise expressions on which the C13 theorems turn.  Floats are translated into exact rationals (`Q`, the sort of
Model/C13_Coanc.v), integer code into `Z`, the Yang square-root scaling additionally into Coq reals (`R`).

  molecular (DenseMolecularCoancestryMatrix.from_gmat)
    k_mol_rnvrnt            1.0 / gmat.nvrnt                                   `rnvrnt = ...`
    k_mol_is_hap/_is_dip    ploidy == 1 / ploidy == 2                          tests of the branch that assigns `mat`
    k_mol_hap_compl         1 - X                                              `Y = ...` (haploid branch)
    k_mol_hap_sum           (X @ X.T) + (Y @ Y.T)                              integer Gram sums (bound as xx, yy)
    k_mol_hap_entry         (2.0 * rnvrnt) * <sum>                             `mat = ...` (haploid branch)
    k_mol_dip_center        X - 1                                              `X -= 1` (diploid branch: {-1,0,1} coding)
    k_mol_dip_entry         1.0 + rnvrnt * (X @ X.T)                           `mat = ...` (diploid branch)
  VanRaden / Yang / generalised weighted (from_gmat of the three classes), per class tag vr|yang|gw
    k_<t>_mean              p[None,:] * float(ploidy)  (gw: float(ploidy) * p) `M = ...`
    k_<t>_center            X - M                                              `Z = ...` (first assignment)
    k_<t>_freq_scalar_bad   (v < 0.0) or (v > 1.0)                             check_is_in_interval_inclusive(<freq>, .., 0.0, 1.0) with the
    k_<t>_freq_array_bad                                                       helper's own test inlined; check_ndarray_in_interval likewise
    k_<t>_freq_bcast        gmat.nvrnt                                         length of the broadcast of a scalar frequency
    k_vr_het_compl          1.0 - p_anc                                        the argument of `p_anc.dot(...)`
    k_vr_scale              1.0 / (float(ploidy) * <p.(1-p)>)                  `G_scale = ...`
    k_vr_entry              G_scale * Z.dot(Z.T)                               `G = ...`
    k_yang_var              float(ploidy) * p_anc * (1.0 - p_anc)              the argument of numpy.sqrt in `Z_scale = 1.0 / numpy.sqrt(...)`
    k_yang_zscale_R         1.0 / sqrt(...)                                    the same assignment over the reals
    k_yang_scaled_R         Z * Z_scale                                        `Z = ...` (second assignment), over the reals
    k_yang_scale            1.0 / gmat.nvrnt                                   `G_scale = ...`
    k_yang_entry            G_scale * Z.dot(Z.T)                               `G = ...`
    k_gw_weighted           Z * mkrwt[None,:]                                  the receiver of `.dot(Z.T)` in `G = ...`
    k_gw_wt_scalar_bad      (v < 0.0) or (v > inf)                             check_is_in_interval_inclusive(mkrwt, .., 0.0, math.inf)
    k_gw_wt_bcast           gmat.nvrnt
  views and summaries (DenseCoancestryMatrix)
    k_coan_view / k_kin_view          self._mat.copy() / 0.5 * self._mat       returns of mat_asformat, by branch
    k_coancestry_acc / k_kinship_acc  self._mat[args] / 0.5 * self._mat[args]
    k_maxinb_kin, k_mininb, k_mininb_kin, k_inverse_coan_arg / k_inverse_kin_arg (argument handed to numpy.linalg.inv),
    k_max_kin / k_min_kin / k_mean_kin (`out *= 0.5`), k_psd_clip_test / k_psd_clip_val / k_psd_ok
  wiring tables (strings)
    k_labels      per from_gmat: which expression is handed to the constructor as mat / taxa / taxa_grp and which is assigned to the
                  four group-metadata attributes of the new object (`copy gmat.X` = `gmat.X.copy() if gmat.X is not None else None`)
    k_factories   per factory: class called and the keyword -> argument map
    k_reductions  which numpy reduction each summary applies to which attribute

Structural facts that are not expressions are checked here and make the translation fail (fail closed), e.g. the Gram product
of the molecular matrix is taken on `gmat.tacount(int)`, min_inbreeding inverts `self.mat` itself, `Z_scale` has the shape
`1.0 / numpy.sqrt(e)`.  Every selector demands exactly one match; every name must be bound by the environment given here.
"""
import ast, copy, hashlib, os
from translate import pyexpr as P
from translate.kernelkit import bind

U = P.Untranslatable
CM = "pybrops/popgen/cmat/"
MOL, VR, YANG, GW, DCM = (CM + "DenseMolecularCoancestryMatrix.py", CM + "DenseVanRadenCoancestryMatrix.py", CM + "DenseYangCoancestryMatrix.py",
                          CM + "DenseGeneralizedWeightedCoancestryMatrix.py", CM + "DenseCoancestryMatrix.py")
ERR_PY, ERR_NP = "pybrops/core/error/error_value_python.py", "pybrops/core/error/error_value_numpy.py"
FACTORIES = (("mol", CM + "fcty/DenseMolecularCoancestryMatrixFactory.py", "DenseMolecularCoancestryMatrixFactory", "DenseMolecularCoancestryMatrix"),
             ("vr", CM + "fcty/DenseVanRadenCoancestryMatrixFactory.py", "DenseVanRadenCoancestryMatrixFactory", "DenseVanRadenCoancestryMatrix"),
             ("yang", CM + "fcty/DenseYangCoancestryMatrixFactory.py", "DenseYangCoancestryMatrixFactory", "DenseYangCoancestryMatrix"),
             ("gw", CM + "fcty/DenseGeneralizedWeightedCoancestryMatrixFactory.py", "DenseGeneralizedWeightedCoancestryMatrixFactory",
              "DenseGeneralizedWeightedCoancestryMatrix"))


def src(e):
    return ast.unparse(e)


# ------------------------------------------------------------------------------------------------ selectors (fail closed)
def the_if(fn, test_text):
    """the unique `if`/`elif` of fn whose test reads exactly `test_text`"""
    hits = [n for n in ast.walk(fn) if isinstance(n, ast.If) and src(n.test) == test_text]
    if len(hits) != 1:
        raise U("%s: expected exactly one `if %s`, found %d" % (fn.name, test_text, len(hits)))
    return hits[0]


def in_branch(fn, test_text):
    node = the_if(fn, test_text)
    m = ast.Module(body=list(node.body), type_ignores=[])
    m.name = "%s[if %s]" % (fn.name, test_text)
    return m


def the_aug(fn, target, opcls):
    """the unique augmented assignment `target <op>= e` of fn, as the expression `target <op> e`"""
    hits = [n for n in ast.walk(fn) if isinstance(n, ast.AugAssign) and src(n.target) == target]
    if len(hits) != 1 or not isinstance(hits[0].op, opcls):
        raise U("%s: expected exactly one `%s %s= ...`, found %d" % (fn.name, target, opcls.__name__, len(hits)))
    n = hits[0]
    t = copy.deepcopy(n.target); t.ctx = ast.Load()
    return ast.BinOp(left=t, op=n.op, right=n.value)


def the_call(node, func_text):
    """the unique call of `func_text` (dotted source text of the callee) under node"""
    hits = [n for n in ast.walk(node) if isinstance(n, ast.Call) and src(n.func) == func_text]
    if len(hits) != 1:
        raise U("expected exactly one call of %s in %s, found %d" % (func_text, getattr(node, "name", src(node)[:60]), len(hits)))
    return hits[0]


def calls_with_first_arg(fn, func_text, first):
    hits = [n for n in ast.walk(fn) if isinstance(n, ast.Call) and src(n.func) == func_text and n.args and src(n.args[0]) == first]
    if len(hits) != 1:
        raise U("%s: expected exactly one call %s(%s, ...), found %d" % (fn.name, func_text, first, len(hits)))
    return hits[0]


def branch_return(fn, test_text):
    node = the_if(fn, test_text)
    r = [n for n in node.body if isinstance(n, ast.Return) and n.value is not None]
    if len(r) != 1 or len(node.body) != 1:
        raise U("%s: the branch `if %s` is not a single return" % (fn.name, test_text))
    return r[0].value


def expect(cond, msg):
    if not cond:
        raise U(msg)


def require_text(e, allowed, what):
    if src(e) not in allowed:
        raise U("%s is `%s`, expected one of %s" % (what, src(e), sorted(allowed)))


# ------------------------------------------------------------------------------------------------ interval checks
def _interval_test(repo, rel, name):
    """the test of the single `if` of an interval-check helper, numpy.any(...) wrappers removed: an expression in v, vmin, vmax"""
    fn = P.find_function(repo, rel, name)
    args = [a.arg for a in fn.args.args]
    expect(args == ["v", "vname", "vmin", "vmax"], "%s: parameters are %s" % (name, args))
    tests = P.if_tests(fn)
    expect(len(tests) == 1, "%s: expected exactly one if" % name)
    body_if = [n for n in ast.walk(fn) if isinstance(n, ast.If)][0]
    expect(len(body_if.body) == 1 and isinstance(body_if.body[0], ast.Raise) and src(body_if.body[0].exc.func) == "ValueError" and not body_if.orelse,
           "%s: the if does not just raise ValueError" % name)

    class Strip(ast.NodeTransformer):
        def visit_Call(self, node):
            self.generic_visit(node)
            if src(node.func) == "numpy.any" and len(node.args) == 1 and not node.keywords:
                return node.args[0]
            return node
    return Strip().visit(copy.deepcopy(tests[0]))


def inline_interval(test, lo, hi):
    """substitute the call-site bounds for vmin / vmax; a comparison `v > math.inf` is the constant False"""
    inf = src(hi) in ("math.inf", "numpy.inf", "float('inf')")

    class Sub(ast.NodeTransformer):
        def visit_Compare(self, node):
            names = {src(n) for n in ast.walk(node) if isinstance(n, ast.Name)}
            if inf and "vmax" in names:
                if src(node) != "v > vmax":
                    raise U("comparison with an infinite bound: " + src(node))
                return ast.Constant(value=False)
            return self.generic_visit(node)

        def visit_Name(self, node):
            if node.id == "vmin": return copy.deepcopy(lo)
            if node.id == "vmax": return copy.deepcopy(hi)
            return node
    return Sub().visit(copy.deepcopy(test))


# ------------------------------------------------------------------------------------------------ string tables
def coq_str(s):
    return '"%s"%%string' % s.replace('"', '""')


def coq_pairs(pairs):
    return "[" + "; ".join("(%s, %s)" % (coq_str(a), coq_str(b)) for a, b in pairs) + "]"


def _resolve_label(fn, e):
    """what a constructor keyword finally reads: `gmat.taxa`, or a local bound once to `gmat.X.copy() if gmat.X is not None else None`
    (reported as `copy gmat.X`)"""
    if isinstance(e, ast.Name):
        v = P.the_assignment(fn, e.id)
        if isinstance(v, ast.IfExp):
            body, test, orelse = src(v.body), src(v.test), src(v.orelse)
            if body.endswith(".copy()") and test == body[:-7] + " is not None" and orelse == "None":
                return "copy " + body[:-7]
        return src(v) if not isinstance(v, ast.Name) else _resolve_label(fn, v)
    return src(e)


META = ("taxa_grp_name", "taxa_grp_stix", "taxa_grp_spix", "taxa_grp_len")


def ctor_labels(fn, mat_names):
    call = the_call(fn, "cls")
    expect(not call.args, "%s: cls(...) has positional arguments" % fn.name)
    kw = {k.arg: k.value for k in call.keywords if k.arg is not None}
    expect(set(kw) == {"mat", "taxa", "taxa_grp"}, "%s: cls(...) keywords are %s" % (fn.name, sorted(kw)))
    require_text(kw["mat"], mat_names, "%s: the matrix handed to the constructor" % fn.name)
    ret = P.the_return(fn)
    outs = P.assignments_to(fn, src(ret))
    expect(len(outs) == 1 and outs[0].value is call, "%s: the returned object is not the constructed one" % fn.name)
    row = [("mat", src(kw["mat"])), ("taxa", _resolve_label(fn, kw["taxa"])), ("taxa_grp", _resolve_label(fn, kw["taxa_grp"]))]
    # the four group-metadata arrays are set on the constructed object afterwards: `out.<name> = e`, exactly once each
    for name in META:
        row.append((name, _resolve_label(fn, P.the_assignment(fn, "%s.%s" % (src(ret), name)))))
    return row


# ------------------------------------------------------------------------------------------------ the translation
def translate(repo, gen_dir):
    defs = []
    Q = lambda env: P.Ctx("Q", env)
    Z = lambda env: P.Ctx("Z", env)
    R = lambda env, calls=None: P.Ctx("R", env, calls=calls)
    D = lambda *a, **k: defs.append(P.definition(*a, **k))
    labels = []

    # ================================================================ molecular
    fn = P.find_function(repo, MOL, "DenseMolecularCoancestryMatrix.from_gmat")
    where = "DenseMolecularCoancestryMatrix.from_gmat: "
    require_text(P.the_assignment(fn, "ploidy"), {"gmat.ploidy"}, where + "ploidy")
    e = P.the_assignment(fn, "rnvrnt")
    D("k_mol_rnvrnt", [("nvrnt", "Q")], "Q", P.to_coq(e, Q({"gmat.nvrnt": "nvrnt"})), where + "rnvrnt = " + src(e))
    # the Gram products are integer matrix products on a wide integer type
    require_text(P.the_assignment(fn, "X"), {"gmat.tacount(int)", "gmat.tacount('int64')", "gmat.tacount(numpy.int64)", "gmat.tacount('int')"},
                 where + "the allele-count table X")
    hap, dip = the_if(fn, "ploidy == 1"), the_if(fn, "ploidy == 2")
    expect(len(hap.orelse) == 1 and hap.orelse[0] is dip and not dip.orelse, where + "the ploidy branches are not `if ploidy == 1 ... elif ploidy == 2`")
    D("k_mol_is_hap", [("ploidy", "Z")], "bool", P.to_coq(hap.test, Z({"ploidy": "ploidy"}), "bool"), where + "if " + src(hap.test))
    D("k_mol_is_dip", [("ploidy", "Z")], "bool", P.to_coq(dip.test, Z({"ploidy": "ploidy"}), "bool"), where + "elif " + src(dip.test))
    expect(len(P.assignments_to(fn, "mat")) == 3 and src(P.the_assignment(fn, "mat", index=0)) == "None", where + "assignments to mat")
    bh = in_branch(fn, "ploidy == 1")
    expect(len(bh.body) == 2, where + "haploid branch has %d statements" % len(bh.body))
    e = P.the_assignment(bh, "Y")
    D("k_mol_hap_compl", [("x", "Z")], "Z", P.to_coq(e, Z({"X": "x"})), where + "Y = " + src(e))
    e = P.the_assignment(bh, "mat")
    expect(isinstance(e, ast.BinOp) and isinstance(e.op, ast.Mult), where + "haploid mat is not a product")
    s = e.right
    D("k_mol_hap_sum", [("xx", "Z"), ("yy", "Z")], "Z", P.to_coq(bind(s, {"X @ X.T": "xx", "Y @ Y.T": "yy"}), Z({"xx": "xx", "yy": "yy"})),
      where + "(integer) " + src(s))
    D("k_mol_hap_entry", [("rnvrnt", "Q"), ("s", "Q")], "Q", P.to_coq(bind(e, {src(s): "s"}), Q({"rnvrnt": "rnvrnt", "s": "s"})),
      where + "mat = " + src(e))
    bd = in_branch(fn, "ploidy == 2")
    expect(len(bd.body) == 2, where + "diploid branch has %d statements" % len(bd.body))
    e = the_aug(bd, "X", ast.Sub)
    D("k_mol_dip_center", [("x", "Z")], "Z", P.to_coq(e, Z({"X": "x"})), where + "X -= 1, i.e. X = " + src(e))
    e = P.the_assignment(bd, "mat")
    D("k_mol_dip_entry", [("rnvrnt", "Q"), ("xx", "Q")], "Q", P.to_coq(bind(e, {"X @ X.T": "xx"}), Q({"rnvrnt": "rnvrnt", "xx": "xx"})),
      where + "mat = " + src(e))
    labels.append(("mol", ctor_labels(fn, {"mat"})))

    # ================================================================ interval-check helpers
    t_scalar = _interval_test(repo, ERR_PY, "check_is_in_interval_inclusive")
    t_array = _interval_test(repo, ERR_NP, "check_ndarray_in_interval")

    def freq_checks(fn, tag, var, where):
        """range tests and broadcast length of the reference-frequency argument `var`"""
        c = calls_with_first_arg(fn, "check_is_in_interval_inclusive", var)
        expect(len(c.args) == 4, where + "check_is_in_interval_inclusive arity")
        t = inline_interval(t_scalar, c.args[2], c.args[3])
        D("k_%s_freq_scalar_bad" % tag, [("v", "Q")], "bool", P.to_coq(t, Q({"v": "v"}), "bool"),
          where + src(c) + "  raises iff  " + src(t))
        c = calls_with_first_arg(fn, "check_ndarray_in_interval", var)
        expect(len(c.args) == 4, where + "check_ndarray_in_interval arity")
        t = inline_interval(t_array, c.args[2], c.args[3])
        D("k_%s_freq_array_bad" % tag, [("v", "Q")], "bool", P.to_coq(t, Q({"v": "v"}), "bool"),
          where + src(c) + "  raises iff, for some element v,  " + src(t))
        c = calls_with_first_arg(fn, "check_ndarray_axis_len", var)
        expect([src(a) for a in c.args[2:]] == ["0", "gmat.nvrnt"], where + "length check of %s is %s" % (var, src(c)))
        D("k_%s_freq_bcast" % tag, [("nvrnt", "Z")], "Z", P.to_coq(bcast_len(fn, var, where), Z({"gmat.nvrnt": "nvrnt"})),
          where + "scalar %s -> array of this length" % var)
        require_text(the_if(fn, "%s is None" % var).body[0].value, {"gmat.afreq()"}, where + "the estimate used when %s is None" % var)

    def bcast_len(fn, var, where):
        """the length to which a scalar argument is broadcast: numpy.repeat(var, n) or numpy.full((n,), var, dtype='float64')"""
        br = in_branch(fn, "isinstance(%s, Real)" % var)
        e = P.the_assignment(br, var)
        if isinstance(e, ast.Call) and src(e.func) == "numpy.repeat" and len(e.args) == 2 and not e.keywords and src(e.args[0]) == var:
            return e.args[1]
        if isinstance(e, ast.Call) and src(e.func) == "numpy.full" and len(e.args) == 2 and src(e.args[1]) == var \
                and isinstance(e.args[0], ast.Tuple) and len(e.args[0].elts) == 1 \
                and [(k.arg, src(k.value)) for k in e.keywords] in ([], [("dtype", "'float64'")], [("dtype", "float")]):
            return e.args[0].elts[0]
        raise U(where + "a scalar %s is not broadcast by numpy.repeat / numpy.full: %s" % (var, src(e)))

    # ================================================================ VanRaden, Yang, generalised weighted
    for tag, rel, cls, var in (("vr", VR, "DenseVanRadenCoancestryMatrix", "p_anc"), ("yang", YANG, "DenseYangCoancestryMatrix", "p_anc"),
                               ("gw", GW, "DenseGeneralizedWeightedCoancestryMatrix", "afreq")):
        fn = P.find_function(repo, rel, cls + ".from_gmat")
        where = cls + ".from_gmat: "
        freq_checks(fn, tag, var, where)
        e = P.the_assignment(fn, "M")
        D("k_%s_mean" % tag, [("p", "Q"), ("ploidy", "Q")], "Q",
          P.to_coq(bind(e, {"float(gmat.ploidy)": "ploidy"}), Q({"%s[None, :]" % var: "p", "ploidy": "ploidy"})), where + "M = " + src(e))
        require_text(P.the_assignment(fn, "X"), {"gmat.tacount()"}, where + "the allele-count table X")
        e = P.the_assignment(fn, "Z", index=0)
        D("k_%s_center" % tag, [("x", "Q"), ("m", "Q")], "Q", P.to_coq(e, Q({"X": "x", "M": "m"})), where + "Z = " + src(e))
        nz = len(P.assignments_to(fn, "Z"))
        if tag == "vr":
            expect(nz == 1, where + "%d assignments to Z" % nz)
            e = P.the_assignment(fn, "G_scale")
            dot = the_call(e, "p_anc.dot")
            expect(len(dot.args) == 1 and not dot.keywords, where + "p_anc.dot arity")
            D("k_vr_het_compl", [("p", "Q")], "Q", P.to_coq(dot.args[0], Q({"p_anc": "p"})), where + "second factor of the dot product in G_scale: " + src(dot.args[0]))
            D("k_vr_scale", [("ploidy", "Q"), ("het", "Q")], "Q",
              P.to_coq(bind(e, {"float(gmat.ploidy)": "ploidy", src(dot): "het"}), Q({"ploidy": "ploidy", "het": "het"})), where + "G_scale = " + src(e))
        if tag == "yang":
            expect(nz == 2, where + "%d assignments to Z" % nz)
            e = P.the_assignment(fn, "Z_scale")
            expect(isinstance(e, ast.BinOp) and isinstance(e.op, ast.Div) and src(e.left) == "1.0" and isinstance(e.right, ast.Call)
                   and src(e.right.func) == "numpy.sqrt" and len(e.right.args) == 1 and not e.right.keywords,
                   where + "Z_scale is not 1.0 / numpy.sqrt(e): " + src(e))
            v = e.right.args[0]
            D("k_yang_var", [("ploidy", "Q"), ("p", "Q")], "Q", P.to_coq(bind(v, {"float(gmat.ploidy)": "ploidy"}), Q({"ploidy": "ploidy", "p_anc": "p"})),
              where + "radicand of Z_scale: " + src(v))
            D("k_yang_zscale_R", [("ploidy", "R"), ("p", "R")], "R",
              P.to_coq(bind(e, {"float(gmat.ploidy)": "ploidy"}), R({"ploidy": "ploidy", "p_anc": "p"}, {"numpy.sqrt": ("sqrt", 1)})),
              where + "Z_scale = " + src(e))
            e = P.the_assignment(fn, "Z", index=1)
            D("k_yang_scaled_R", [("z", "R"), ("zscale", "R")], "R", P.to_coq(e, R({"Z": "z", "Z_scale": "zscale"})), where + "Z = " + src(e))
            e = P.the_assignment(fn, "G_scale")
            D("k_yang_scale", [("nvrnt", "Q")], "Q", P.to_coq(e, Q({"gmat.nvrnt": "nvrnt"})), where + "G_scale = " + src(e))
        e = P.the_assignment(fn, "G")
        if tag in ("vr", "yang"):
            D("k_%s_entry" % tag, [("s", "Q"), ("zz", "Q")], "Q", P.to_coq(bind(e, {"Z.dot(Z.T)": "zz"}), Q({"G_scale": "s", "zz": "zz"})),
              where + "G = " + src(e))
        else:
            expect(nz == 1, where + "%d assignments to Z" % nz)
            expect(isinstance(e, ast.Call) and isinstance(e.func, ast.Attribute) and e.func.attr == "dot" and [src(a) for a in e.args] == ["Z.T"]
                   and not e.keywords, where + "G is not (<weighted Z>).dot(Z.T): " + src(e))
            w = e.func.value
            D("k_gw_weighted", [("z", "Q"), ("w", "Q")], "Q", P.to_coq(w, Q({"Z": "z", "mkrwt[None, :]": "w"})), where + "G = (" + src(w) + ").dot(Z.T)")
            c = calls_with_first_arg(fn, "check_is_in_interval_inclusive", "mkrwt")
            t = inline_interval(t_scalar, c.args[2], c.args[3])
            D("k_gw_wt_scalar_bad", [("v", "Q")], "bool", P.to_coq(t, Q({"v": "v"}), "bool"), where + src(c) + "  raises iff  " + src(t))
            D("k_gw_wt_bcast", [("nvrnt", "Z")], "Z", P.to_coq(bcast_len(fn, "mkrwt", where), Z({"gmat.nvrnt": "nvrnt"})),
              where + "scalar mkrwt -> array of this length")
            c = calls_with_first_arg(fn, "check_ndarray_axis_len", "mkrwt")
            expect([src(a) for a in c.args[2:]] == ["0", "gmat.nvrnt"], where + "length check of mkrwt is " + src(c))
            none = the_if(fn, "mkrwt is None").body[0].value
            require_text(none, {"numpy.full((gmat.nvrnt,), 1.0, dtype='float64')", "numpy.ones(gmat.nvrnt)", "numpy.ones((gmat.nvrnt,))"},
                         where + "default marker weights")
        labels.append((tag, ctor_labels(fn, {"G"})))

    # ================================================================ views and summaries
    K = "DenseCoancestryMatrix."
    same = {"self._mat": "x", "self.mat": "x"}

    def qdef(name, e, env, what, params=(("x", "Q"),), want="num", rtype="Q"):
        D(name, list(params), rtype, P.to_coq(e, Q(env), want), what)

    fn = P.find_function(repo, DCM, "DenseCoancestryMatrix.mat_asformat")
    e = branch_return(fn, "format == 'coancestry'")
    expect(isinstance(e, ast.Call) and src(e.func) in ("self._mat.copy", "self.mat.copy") and not e.args, K + "mat_asformat: coancestry view is " + src(e))
    qdef("k_coan_view", e.func.value, same, K + "mat_asformat[coancestry]: return " + src(e) + "  (a copy)")
    e = branch_return(fn, "format == 'kinship'")
    qdef("k_kin_view", e, same, K + "mat_asformat[kinship]: return " + src(e))
    for name, kn in (("coancestry", "k_coancestry_acc"), ("kinship", "k_kinship_acc")):
        fn = P.find_function(repo, DCM, "DenseCoancestryMatrix." + name)
        e = P.the_return(fn)
        qdef(kn, e, {"self._mat[args]": "x"}, K + name + ": return " + src(e))

    reductions = []
    fn = P.find_function(repo, DCM, "DenseCoancestryMatrix.max_inbreeding")
    e = P.the_assignment(fn, "out", index=0)
    require_text(e, {"self.mat.diagonal().max()", "self._mat.diagonal().max()"}, K + "max_inbreeding: out")
    reductions.append(("max_inbreeding", "diagonal.max"))
    e = P.the_assignment(in_branch(fn, "format == 'kinship'"), "out")
    expect(len(P.assignments_to(fn, "out")) == 2, K + "max_inbreeding: assignments to out")
    qdef("k_maxinb_kin", e, {"out": "x"}, K + "max_inbreeding[kinship]: out = " + src(e))

    fn = P.find_function(repo, DCM, "DenseCoancestryMatrix.min_inbreeding")
    inv = P.the_assignment(fn, "Ginv")
    require_text(inv, {"numpy.linalg.inv(self.mat)", "numpy.linalg.inv(self._mat)"}, K + "min_inbreeding: the matrix that is inverted")
    expect(len(P.assignments_to(fn, "out")) == 2, K + "min_inbreeding: assignments to out")
    e = P.the_assignment(fn, "out", index=0)
    qdef("k_mininb", bind(e, {"Ginv.sum()": "s"}), {"s": "s"}, K + "min_inbreeding: out = " + src(e), params=(("s", "Q"),))
    e = P.the_assignment(in_branch(fn, "format == 'kinship'"), "out")
    qdef("k_mininb_kin", e, {"out": "x"}, K + "min_inbreeding[kinship]: out = " + src(e))

    fn = P.find_function(repo, DCM, "DenseCoancestryMatrix.inverse")
    for name, test in (("k_inverse_coan_arg", "format == 'coancestry'"), ("k_inverse_kin_arg", "format == 'kinship'")):
        e = P.the_assignment(in_branch(fn, test), "out")
        expect(isinstance(e, ast.Call) and src(e.func) == "numpy.linalg.inv" and len(e.args) == 1 and not e.keywords, K + "inverse: out = " + src(e))
        qdef(name, e.args[0], same, K + "inverse[%s]: out = %s" % (test, src(e)))
    require_text(P.the_return(fn), {"out"}, K + "inverse: returned value")

    for name in ("max", "min", "mean"):
        fn = P.find_function(repo, DCM, "DenseCoancestryMatrix." + name)
        e = P.the_assignment(fn, "out")
        expect(isinstance(e, ast.Call) and src(e.func) in ("self._mat." + name, "self.mat." + name) and not e.args
               and [(k.arg, src(k.value)) for k in e.keywords][:1] == [("axis", "axis")], K + name + ": out = " + src(e))
        reductions.append((name, e.func.attr))
        br = in_branch(fn, "format == 'kinship'")
        expect(len(br.body) == 1, K + name + ": kinship branch")
        e = the_aug(br, "out", ast.Mult)
        qdef("k_%s_kin" % name, e, {"out": "x"}, K + name + "[kinship]: out *= 0.5, i.e. out = " + src(e))
        require_text(P.the_return(fn), {"out"}, K + name + ": returned value")

    fn = P.find_function(repo, DCM, "DenseCoancestryMatrix.is_positive_semidefinite")
    tests = P.if_tests(fn)
    expect(len(tests) == 1, K + "is_positive_semidefinite: ifs")
    qdef("k_psd_clip_test", tests[0], {"eigvaltol": "tol"}, K + "is_positive_semidefinite: if " + src(tests[0]), params=(("tol", "Q"),), want="bool", rtype="bool")
    e = P.the_assignment(fn, "eigvaltol")
    D("k_psd_clip_val", [], "Q", P.to_coq(e, Q({})), K + "is_positive_semidefinite: eigvaltol = " + src(e))
    e = P.the_return(fn)
    expect(isinstance(e, ast.Call) and src(e.func) == "numpy.all" and len(e.args) == 1, K + "is_positive_semidefinite: return " + src(e))
    t = bind(e.args[0], {"numpy.linalg.eigvals(self._mat)": "ev"})
    qdef("k_psd_ok", t, {"ev": "ev", "eigvaltol": "tol"}, K + "is_positive_semidefinite: return " + src(e) + "  (per eigenvalue ev)",
         params=(("ev", "Q"), ("tol", "Q")), want="bool", rtype="bool")

    # ================================================================ wiring tables
    defs.append("(* src: the keywords of the constructor call `cls(...)` of every from_gmat and the group-metadata attributes set on the new object, resolved to what they read *)\n"
                "Definition k_labels : list (string * list (string * string)) :=\n  [%s].\n"
                % ";\n   ".join("(%s, %s)" % (coq_str(t), coq_pairs(p)) for t, p in labels))
    fac = []
    for tag, rel, fcls, target in FACTORIES:
        fn = P.find_function(repo, rel, fcls + ".from_gmat")
        e = P.the_return(fn)
        expect(isinstance(e, ast.Call) and not e.args, fcls + ".from_gmat: return " + src(e))
        kws = [(k.arg, src(k.value)) for k in e.keywords if k.arg is not None]
        star = [src(k.value) for k in e.keywords if k.arg is None]
        expect(star in ([], ["kwargs"]), fcls + ".from_gmat: ** arguments " + str(star))
        fac.append((tag, [("callee", src(e.func))] + kws))
    defs.append("(* src: the call each factory's from_gmat returns: callee and keyword -> argument *)\n"
                "Definition k_factories : list (string * list (string * string)) :=\n  [%s].\n"
                % ";\n   ".join("(%s, %s)" % (coq_str(t), coq_pairs(p)) for t, p in fac))
    defs.append("(* src: the numpy reduction behind each summary of DenseCoancestryMatrix *)\n"
                "Definition k_reductions : list (string * string) :=\n  %s.\n" % coq_pairs(reductions))

    text = (P.HEADER % "harness/translate/c13_kernel.py") + \
        "From Coq Require Import ZArith QArith Bool Reals String List.\nImport ListNotations.\n\n" + "\n".join(defs)
    path = os.path.join(gen_dir, "C13_Kernel.v")
    P.write_if_changed(path, text)
    return {"file": "Gen/C13_Kernel.v", "definitions": len(defs), "sha256": hashlib.sha256(text.encode()).hexdigest()[:16]}
