"""C15 kernel translator: regenerates `coq/Gen/C15_Kernel.v` from the current source on every run (protocol: tools/PHASE2_BRIEF.md
section B; exemplar: c09_kernel.py).  One Gallina `Definition` per *kernel expression* of the breeding-value matrices
(pybrops/popgen/bvmat/DenseBreedingValueMatrix.py) and of the generic scaled matrix (pybrops/core/mat/DenseScaledMatrix.py):

  from_numpy        k_fn_location_red / k_fn_scale_red   numpy.nanmean(mat, axis=0) / numpy.nanstd(mat, axis=0)   (which reduction)
                    k_fn_scale_zero / k_fn_scale_fill    scale[scale == 0.0] = 1.0                                (exact test, fill value)
                    k_fn_standardize                     (1.0 / scale[None,:]) * (mat - location[None,:])
                    k_fn_ctor                            cls(mat = mat, location = location, scale = scale, taxa = ..., ...)   (which value goes where)
  unscale           k_unscale                            (self._scale * self._mat) + self._location
  tmax tmin tmean   k_<stat>_red, k_<stat>_unscale       out = self._mat.<red>(axis = self.taxa_axis); if unscale: out *= self._scale; out += self._location
  trange tstd tvar  k_<stat>_red, k_<stat>_unscale       ... if unscale: out *= self._scale   (tvar: self._scale**2)
  targmax targmin   k_<stat>_red                         self._mat.argmax/argmin(axis = self.taxa_axis)
  select/delete/insert/adjoin_taxa
                    k_<op>_calls                         every `x = numpy.take/delete/insert/append(...)` of the routine: array, index object,
                                                         values, keywords (the same index object for values and labels, no `mode`)
                    k_<op>_build                         the keyword arguments handed to self.__class__.from_numpy
  adjoin/insert/append/incorp_taxa
                    k_<op>_operand                       what a matrix operand contributes: values.unscale()  (CUnscale)  or values.mat (CStored)
  concat_taxa       k_concat_part                        numpy.concatenate([m.unscale() for m in mats], ...)
                    k_concat_loc0 / k_concat_sc0         the placeholder location / scale handed to the inherited routine
  _restandardize    k_restd_assign                       self._mat, self._location, self._scale = tmp._mat, tmp._location, tmp._scale
  DenseScaledMatrix k_sm_transform, k_sm_untransform, k_sm_unscale, k_sm_unscale_scale_reset / _location_reset,
                    k_sm_rescale_up / _down, k_sm_rescale_loc_red / _scale_red, k_sm_rescale_zero / _fill

Numeric kernels are exact rationals (sort "Q" of pyexpr) on ONE element (numpy broadcasts them over the matrix); in-place statement
chains (`out *= a; out += b`) are folded into one expression in statement order.  `Proofs/C15_Kernel.v` proves each equal to the hand
model's operation (reflexivity for the reductions / contributions / tables, `==` by computation-free field reasoning for the affine
maps, whose model versions normalise with Qred) and `Props/C15.v` states the round-trip, scale-rule and covariance laws about the
*generated* definitions.  A changed expression (`numpy.isclose(scale, 0.0)`, `out += location` before `out *= scale`, `mean` for
`nanmean`, `values.mat` for `values.unscale()`, `mode='clip'` in one take, swapped location/scale) either leaves the expected
statement shape (the translator raises: the check reports the correspondence as broken) or changes a generated definition so that
`Proofs/C15_Kernel.vo`, hence `Props/C15.vo`, no longer builds.  Fail closed throughout.
"""
import ast, os, hashlib
from translate import pyexpr as P

BV = "pybrops/popgen/bvmat/DenseBreedingValueMatrix.py"
SM = "pybrops/core/mat/DenseScaledMatrix.py"
BVC = "DenseBreedingValueMatrix"
SMC = "DenseScaledMatrix"

REDUCTIONS = {"max": "RMax", "min": "RMin", "mean": "RMean", "std": "RStd", "var": "RVar", "ptp": "RPtp",
              "argmax": "RArgmax", "argmin": "RArgmin", "nanmean": "RNanMean", "nanstd": "RNanStd"}


def _src(e):
    return ast.unparse(e)


def _body(fn):
    """statements of a function without its docstring"""
    b = list(fn.body)
    if b and isinstance(b[0], ast.Expr) and isinstance(b[0].value, ast.Constant) and isinstance(b[0].value.value, str):
        b = b[1:]
    return b


def _fail(msg):
    raise P.Untranslatable(msg)


def _qctx(env):
    return P.Ctx("Q", env)


def _s(txt):
    if '"' in txt or "\n" in txt:
        _fail("text %r cannot be quoted as a Gallina string" % txt)
    return '"%s"%%string' % txt


def _slist(xs):
    return "[" + "; ".join(_s(x) for x in xs) + "]"


# ------------------------------------------------------------------------------------------------ statement shapes
def _fold_aug(where, stmts, var):
    """`var op= e1; var op= e2 ...` -> the expression ((var op e1) op e2) ...; every statement must be such an in-place update"""
    expr = ast.Name(id=var, ctx=ast.Load())
    if not stmts:
        _fail("%s: no in-place update of %s" % (where, var))
    for st in stmts:
        if not (isinstance(st, ast.AugAssign) and isinstance(st.target, ast.Name) and st.target.id == var
                and isinstance(st.op, (ast.Mult, ast.Add, ast.Sub, ast.Div))):
            _fail("%s: expected an in-place update `%s op= ...`, found `%s`" % (where, var, _src(st)))
        expr = ast.BinOp(left=expr, op=st.op, right=st.value)
    return ast.fix_missing_locations(expr)


def _reduction_of(where, call, arr, axis):
    """`arr.<red>(axis = <axis>)` or `numpy.<red>(arr, axis = <axis>)` -> constructor name"""
    if not isinstance(call, ast.Call):
        _fail("%s: expected a reduction call, found `%s`" % (where, _src(call)))
    kws = {k.arg: _src(k.value) for k in call.keywords}
    if kws != {"axis": axis}:
        _fail("%s: reduction `%s` must have exactly the keyword axis = %s" % (where, _src(call), axis))
    f = call.func
    if isinstance(f, ast.Attribute) and _src(f.value) == arr and not call.args:
        name = f.attr
    elif isinstance(f, ast.Attribute) and _src(f.value) == "numpy" and len(call.args) == 1 and _src(call.args[0]) == arr:
        name = f.attr
    else:
        _fail("%s: `%s` is not a reduction of %s" % (where, _src(call), arr))
    if name not in REDUCTIONS:
        _fail("%s: unknown reduction %s" % (where, name))
    return REDUCTIONS[name]


def _stat(repo, name, scale_env, with_location):
    """out = <reduction of self._mat along the taxa axis>; if unscale: <in-place chain>; return out"""
    where = "%s.%s" % (BVC, name)
    fn = P.find_function(repo, BV, where)
    b = _body(fn)
    if not (len(b) == 3 and isinstance(b[0], ast.Assign) and _src(b[0].targets[0]) == "out" and len(b[0].targets) == 1
            and isinstance(b[1], ast.If) and _src(b[1].test) == "unscale" and not b[1].orelse
            and isinstance(b[2], ast.Return) and _src(b[2].value) == "out"):
        _fail("%s: expected `out = <reduction>; if unscale: <updates>; return out`" % where)
    args = [a.arg for a in fn.args.args]
    if args != ["self", "unscale"] or len(fn.args.defaults) != 1 or _src(fn.args.defaults[0]) != "False":
        _fail("%s: expected the signature (self, unscale = False)" % where)
    red = _reduction_of(where, b[0].value, "self._mat", "self.taxa_axis")
    e = _fold_aug(where, b[1].body, "out")
    params = [("out", "Q"), ("scale", "Q")] + ([("location", "Q")] if with_location else [])
    env = {"out": "out", "self._scale": "scale"}
    if with_location:
        env["self._location"] = "location"
    term = P.to_coq(e, _qctx(env))
    if with_location and "location" not in P.names_in(e) and "self._location" not in P.names_in(e):
        _fail("%s: the location is not added back" % where)
    return [P.definition("k_%s_red" % name, [], "reduction", red, "%s: %s" % (where, _src(b[0]))),
            P.definition("k_%s_unscale" % name, params, "Q", term, "%s: if unscale: %s" % (where, "; ".join(_src(s) for s in b[1].body)))]


def _argstat(repo, name):
    where = "%s.%s" % (BVC, name)
    fn = P.find_function(repo, BV, where)
    b = _body(fn)
    if not (len(b) == 2 and isinstance(b[0], ast.Assign) and _src(b[0].targets[0]) == "out" and isinstance(b[1], ast.Return) and _src(b[1].value) == "out"):
        _fail("%s: expected `out = <reduction>; return out`" % where)
    red = _reduction_of(where, b[0].value, "self._mat", "self.taxa_axis")
    return [P.definition("k_%s_red" % name, [], "reduction", red, "%s: %s" % (where, _src(b[0])))]


def _mask_fill(where, fn, var):
    """the single statement `var[<test on var>] = <constant>` -> (test expr, value expr)"""
    found = []
    for node in ast.walk(fn):
        if isinstance(node, ast.Assign) and len(node.targets) == 1 and isinstance(node.targets[0], ast.Subscript) \
                and _src(node.targets[0].value) == var and isinstance(node.targets[0].slice, (ast.Compare, ast.Call, ast.BoolOp, ast.UnaryOp, ast.BinOp)):
            found.append(node)
    if len(found) != 1:
        _fail("%s: expected exactly one masked assignment to %s, found %d" % (where, var, len(found)))
    return found[0].targets[0].slice, found[0].value, found[0]


def _numpy_calls(where, fn, funcs):
    """every assignment `x = numpy.<f>(...)` with f in funcs, in source order -> rows (target, function, [arguments and keywords])"""
    rows = []
    nodes = [n for n in ast.walk(fn) if isinstance(n, ast.Call) and _src(n.func) in funcs]
    nodes.sort(key=lambda n: (n.lineno, n.col_offset))
    assigned = {}
    for st in ast.walk(fn):
        if isinstance(st, ast.Assign) and len(st.targets) == 1 and isinstance(st.value, ast.Call) and _src(st.value.func) in funcs:
            assigned[id(st.value)] = _src(st.targets[0])
    for n in nodes:
        if id(n) not in assigned:
            _fail("%s: the result of `%s` is not assigned to a variable" % (where, _src(n)))
        rows.append((assigned[id(n)], _src(n.func), [_src(a) for a in n.args] + ["%s=%s" % (k.arg, _src(k.value)) for k in n.keywords]))
    if not rows:
        _fail("%s: no call of %s" % (where, "/".join(sorted(funcs))))
    return rows


def _calls_def(name, rows, src):
    term = "[" + ";\n   ".join("(%s, (%s, %s))" % (_s(t), _s(f), _slist(a)) for t, f, a in rows) + "]"
    return P.definition(name, [], "list call", term, src)


def _kwargs_of(where, call):
    if call.args:
        _fail("%s: positional arguments in `%s`" % (where, _src(call)))
    return [("**" if k.arg is None else k.arg, _src(k.value)) for k in call.keywords]


def _pairs_def(name, pairs, src):
    term = "[" + "; ".join("(%s, %s)" % (_s(a), _s(b)) for a, b in pairs) + "]"
    return P.definition(name, [], "list (string * string)", term, src)


def _build_call(where, fn):
    """the single `out = self.__class__.from_numpy(...)` of a copy-on-manipulation routine"""
    calls = [n for n in ast.walk(fn) if isinstance(n, ast.Call) and _src(n.func).endswith(".from_numpy")]
    if len(calls) != 1 or _src(calls[0].func) != "self.__class__.from_numpy":
        _fail("%s: expected exactly one call self.__class__.from_numpy(...)" % where)
    rets = [n for n in ast.walk(fn) if isinstance(n, ast.Return) and n.value is not None]
    if len(rets) != 1 or _src(rets[0].value) != "out":
        _fail("%s: expected a single `return out`" % where)
    a = P.assignments_to(fn, "out")
    if len(a) != 1 or a[0].value is not calls[0]:
        _fail("%s: `out` is not the from_numpy result" % where)
    return _kwargs_of(where, calls[0])


def _operand(where, fn):
    """`if isinstance(values, self.__class__): ...; values = values.<what>` -> CUnscale / CStored"""
    ifs = [n for n in ast.walk(fn) if isinstance(n, ast.If) and _src(n.test) == "isinstance(values, self.__class__)"]
    if len(ifs) != 1:
        _fail("%s: expected exactly one `if isinstance(values, self.__class__)`" % where)
    body = [_src(s) for s in ifs[0].body]
    expected_head = ["if taxa is None:\n    taxa = values.taxa", "if taxa_grp is None:\n    taxa_grp = values.taxa_grp"]
    if body[:2] != expected_head or len(body) != 3:
        _fail("%s: the matrix-operand branch is not `taxa/taxa_grp default to the operand's; values = ...` (%s)" % (where, body))
    last = ifs[0].body[2]
    if not (isinstance(last, ast.Assign) and _src(last.targets[0]) == "values"):
        _fail("%s: the matrix-operand branch does not assign `values`" % where)
    v = _src(last.value)
    if v == "values.unscale()": return "CUnscale", _src(last)
    if v in ("values.mat", "values._mat"): return "CStored", _src(last)
    _fail("%s: unknown operand contribution `%s`" % (where, v))


def _top_aug(fn, var):
    out = [s for s in _body(fn) if isinstance(s, ast.AugAssign) and _src(s.target) == var]
    inner = [n for n in ast.walk(fn) if isinstance(n, ast.AugAssign) and _src(n.target) == var]
    if len(out) != len(inner):
        _fail("%s: in-place updates of %s inside nested statements" % (fn.name, var))
    return out


def _const_q(where, e):
    if not (isinstance(e, ast.Constant) and isinstance(e.value, (int, float)) and not isinstance(e.value, bool)):
        _fail("%s: expected a numeric constant, found `%s`" % (where, _src(e)))
    return P.to_coq(e, _qctx({}))


# ------------------------------------------------------------------------------------------------ the translation
def translate(repo, gen_dir):
    defs = []

    # ---- from_numpy
    where = BVC + ".from_numpy"
    fn = P.find_function(repo, BV, where)
    e = P.the_assignment(fn, "location")
    defs.append(P.definition("k_fn_location_red", [], "reduction", _reduction_of(where, e, "mat", "0"), "%s: location = %s" % (where, _src(e))))
    e = P.the_assignment(fn, "scale")
    defs.append(P.definition("k_fn_scale_red", [], "reduction", _reduction_of(where, e, "mat", "0"), "%s: scale = %s" % (where, _src(e))))
    test, val, st = _mask_fill(where, fn, "scale")
    defs.append(P.definition("k_fn_scale_zero", [("scale", "Q")], "bool", P.to_coq(test, _qctx({"scale": "scale"}), "bool"), "%s: %s" % (where, _src(st))))
    defs.append(P.definition("k_fn_scale_fill", [], "Q", _const_q(where, val), "%s: %s" % (where, _src(st))))
    a = P.assignments_to(fn, "mat")
    if len(a) != 1:
        _fail("%s: expected exactly one assignment to mat" % where)
    # order of the statements: location, scale, fill, standardise
    order = [P.assignments_to(fn, "location")[0].lineno, P.assignments_to(fn, "scale")[0].lineno, st.lineno, a[0].lineno]
    if order != sorted(order):
        _fail("%s: location / scale / zero-scale rule / standardisation are not computed in this order" % where)
    e = a[0].value
    defs.append(P.definition("k_fn_standardize", [("mat", "Q"), ("location", "Q"), ("scale", "Q")], "Q",
                             P.to_coq(e, _qctx({"mat": "mat", "scale[None, :]": "scale", "location[None, :]": "location"})),
                             "%s: mat = %s" % (where, _src(e))))
    calls = [n for n in ast.walk(fn) if isinstance(n, ast.Call) and _src(n.func) == "cls"]
    if len(calls) != 1:
        _fail("%s: expected exactly one constructor call cls(...)" % where)
    defs.append(_pairs_def("k_fn_ctor", _kwargs_of(where, calls[0]), "%s: out = %s" % (where, _src(calls[0]))))

    # ---- unscale
    where = BVC + ".unscale"
    fn = P.find_function(repo, BV, where)
    if len(_body(fn)) != 1:
        _fail("%s: expected a single return statement" % where)
    e = P.the_return(fn)
    defs.append(P.definition("k_unscale", [("mat", "Q"), ("scale", "Q"), ("location", "Q")], "Q",
                             P.to_coq(e, _qctx({"self._mat": "mat", "self._scale": "scale", "self._location": "location"})),
                             "%s: return %s" % (where, _src(e))))

    # ---- statistics
    for name in ("tmax", "tmin", "tmean"):
        defs += _stat(repo, name, None, True)
    for name in ("trange", "tstd", "tvar"):
        defs += _stat(repo, name, None, False)
    for name in ("targmax", "targmin"):
        defs += _argstat(repo, name)

    # ---- copy-on-manipulation taxa routines: numpy calls and the from_numpy keywords
    for op, funcs in (("select", {"numpy.take"}), ("delete", {"numpy.delete"}), ("insert", {"numpy.insert"}), ("adjoin", {"numpy.append"})):
        where = "%s.%s_taxa" % (BVC, op)
        fn = P.find_function(repo, BV, where)
        rows = _numpy_calls(where, fn, funcs)
        other = [n for n in ast.walk(fn) if isinstance(n, ast.Call) and _src(n.func).startswith("numpy.") and _src(n.func) not in funcs | {"numpy.empty"}]
        if other:
            _fail("%s: unexpected numpy call `%s`" % (where, _src(other[0])))
        defs.append(_calls_def("k_%s_calls" % op, rows, "%s: %s" % (where, "; ".join("%s = %s(%s)" % (t, f, ", ".join(a)) for t, f, a in rows))))
        defs.append(_pairs_def("k_%s_build" % op, _build_call(where, fn), "%s: out = self.__class__.from_numpy(...)" % where))

    # ---- what a matrix operand contributes
    for op in ("adjoin", "insert", "append", "incorp"):
        where = "%s.%s_taxa" % (BVC, op)
        fn = P.find_function(repo, BV, where)
        c, s = _operand(where, fn)
        defs.append(P.definition("k_%s_operand" % op, [], "contrib", c, "%s: if isinstance(values, self.__class__): ... %s" % (where, s)))

    # ---- concat_taxa
    where = BVC + ".concat_taxa"
    fn = P.find_function(repo, BV, where)
    calls = [n for n in ast.walk(fn) if isinstance(n, ast.Call) and _src(n.func) == "numpy.concatenate"]
    if len(calls) != 1 or len(calls[0].args) != 1 or not isinstance(calls[0].args[0], ast.ListComp):
        _fail("%s: expected one numpy.concatenate([... for m in mats], ...)" % where)
    b = _body(fn)
    if not (len(b) == 3 and isinstance(b[0], ast.Assign) and _src(b[0].targets[0]) == "out" and isinstance(b[1], ast.Expr)
            and isinstance(b[2], ast.Return) and _src(b[2].value) == "out"):
        _fail("%s: expected `out = <inherited concat_taxa>; out._restandardize(...); return out`" % where)
    lc = calls[0].args[0]
    if len(lc.generators) != 1 or _src(lc.generators[0].target) != "m" or _src(lc.generators[0].iter) != "mats" or lc.generators[0].ifs:
        _fail("%s: the concatenated list does not range over every matrix of mats" % where)
    if [(k.arg, _src(k.value)) for k in calls[0].keywords] != [("axis", "out.taxa_axis")]:
        _fail("%s: numpy.concatenate must have exactly the keyword axis = out.taxa_axis" % where)
    elt = _src(lc.elt)
    part = {"m.unscale()": "CUnscale", "m.mat": "CStored", "m._mat": "CStored"}.get(elt)
    if part is None:
        _fail("%s: unknown contribution `%s`" % (where, elt))
    rs = [n for n in ast.walk(fn) if isinstance(n, ast.Call) and _src(n.func) == "out._restandardize"]
    if len(rs) != 1 or len(rs[0].args) != 1 or rs[0].args[0] is not calls[0] or rs[0].keywords:
        _fail("%s: the concatenated values are not handed to out._restandardize" % where)
    defs.append(P.definition("k_concat_part", [], "contrib", part, "%s: %s" % (where, _src(rs[0]))))
    sup = [n for n in ast.walk(fn) if isinstance(n, ast.Call) and _src(n.func).endswith(".concat_taxa")]
    if len(sup) != 1 or _src(sup[0].func) != "super(DenseBreedingValueMatrix, cls).concat_taxa":
        _fail("%s: expected one call of the inherited concat_taxa" % where)
    kw = {("**" if k.arg is None else k.arg): k.value for k in sup[0].keywords}
    if sorted(kw) != ["**", "mats"] or _src(kw["mats"]) != "mats" or not isinstance(kw["**"], ast.Dict):
        _fail("%s: the inherited concat_taxa is not called with mats = mats and placeholder parameters" % where)
    ph = {}
    for k, v in zip(kw["**"].keys, kw["**"].values):
        if k is None:
            continue
        ph[_src(k).strip("'\"")] = v
    if sorted(ph) != ["location", "scale"]:
        _fail("%s: expected placeholder location and scale" % where)
    defs.append(P.definition("k_concat_loc0", [], "Q", _const_q(where, ph["location"]), "%s: placeholder location" % where))
    defs.append(P.definition("k_concat_sc0", [], "Q", _const_q(where, ph["scale"]), "%s: placeholder scale" % where))

    # ---- _restandardize
    where = BVC + "._restandardize"
    fn = P.find_function(repo, BV, where)
    b = _body(fn)
    if not (len(b) == 2 and _src(b[0]) == "tmp = self.__class__.from_numpy(mat)" and isinstance(b[1], ast.Assign) and len(b[1].targets) == 1
            and isinstance(b[1].targets[0], ast.Tuple) and isinstance(b[1].value, ast.Tuple) and len(b[1].targets[0].elts) == len(b[1].value.elts)):
        _fail("%s: expected `tmp = self.__class__.from_numpy(mat); <tuple> = <tuple>`" % where)
    defs.append(_pairs_def("k_restd_assign", [(_src(t), _src(v)) for t, v in zip(b[1].targets[0].elts, b[1].value.elts)], "%s: %s" % (where, _src(b[1]))))

    # ---- the in-place routines: unscale, inherited routine, re-standardise (restore the stored values when the routine raises)
    where = BVC + "._manipulate_unscaled"
    fn = P.find_function(repo, BV, where)
    steps = []
    for s in _body(fn):
        if isinstance(s, ast.Try):
            if s.orelse or s.finalbody or len(s.handlers) != 1 or _src(s.handlers[0].type) != "Exception":
                _fail("%s: unexpected shape of the try statement" % where)
            steps += ["try: " + _src(x) for x in s.body] + ["except Exception: " + _src(x) for x in s.handlers[0].body]
        else:
            steps.append(_src(s))
    defs.append(P.definition("k_manip_steps", [], "list string", _slist(steps), "%s: the whole body" % where))
    for op in ("append", "remove", "incorp"):
        where = "%s.%s_taxa" % (BVC, op)
        fn = P.find_function(repo, BV, where)
        calls = [n for n in ast.walk(fn) if isinstance(n, ast.Call) and _src(n.func) == "self._manipulate_unscaled"]
        if len(calls) != 1 or len(calls[0].args) != 1:
            _fail("%s: expected one call self._manipulate_unscaled(<inherited routine>, ...)" % where)
        last = _body(fn)[-1]
        if not (isinstance(last, ast.Expr) and last.value is calls[0]):
            _fail("%s: the call of self._manipulate_unscaled is not the last statement" % where)
        pairs = [("method", _src(calls[0].args[0]))] + [("**" if k.arg is None else k.arg, _src(k.value)) for k in calls[0].keywords]
        defs.append(_pairs_def("k_%s_pass" % op, pairs, "%s: %s" % (where, _src(calls[0]))))

    # ---- DenseScaledMatrix
    smenv ={"out": "out", "self.scale": "scale", "self.location": "location"}
    for name, params in (("transform", [("out", "Q"), ("location", "Q"), ("scale", "Q")]), ("untransform", [("out", "Q"), ("scale", "Q"), ("location", "Q")])):
        where = "%s.%s" % (SMC, name)
        fn = P.find_function(repo, SM, where)
        init = P.the_assignment(fn, "out")
        if _src(init) != "mat.copy() if copy else mat":
            _fail("%s: expected `out = mat.copy() if copy else mat`" % where)
        augs = _top_aug(fn, "out")
        e = _fold_aug(where, augs, "out")
        defs.append(P.definition("k_sm_%s" % name, params, "Q", P.to_coq(e, _qctx(smenv)), "%s: %s" % (where, "; ".join(_src(s) for s in augs))))
    where = SMC + ".unscale"
    fn = P.find_function(repo, SM, where)
    if _src(P.the_assignment(fn, "out")) != "self.mat if inplace else self.mat.copy()":
        _fail("%s: expected `out = self.mat if inplace else self.mat.copy()`" % where)
    augs = _top_aug(fn, "out")
    defs.append(P.definition("k_sm_unscale", [("out", "Q"), ("scale", "Q"), ("location", "Q")], "Q", P.to_coq(_fold_aug(where, augs, "out"), _qctx(smenv)),
                             "%s: %s" % (where, "; ".join(_src(s) for s in augs))))
    ifs = [n for n in _body(fn) if isinstance(n, ast.If)]
    if len(ifs) != 1 or _src(ifs[0].test) != "inplace" or ifs[0].orelse or sorted(_src(s.targets[0]) for s in ifs[0].body if isinstance(s, ast.Assign)) != ["self.location[:]", "self.scale[:]"] \
            or len(ifs[0].body) != 2:
        _fail("%s: expected `if inplace: self.scale[:] = ...; self.location[:] = ...`" % where)
    defs.append(P.definition("k_sm_unscale_scale_reset", [], "Q", _const_q(where, P.the_assignment(fn, "self.scale[:]")), "%s: self.scale[:] = ..." % where))
    defs.append(P.definition("k_sm_unscale_location_reset", [], "Q", _const_q(where, P.the_assignment(fn, "self.location[:]")), "%s: self.location[:] = ..." % where))
    where = SMC + ".rescale"
    fn = P.find_function(repo, SM, where)
    if _src(P.the_assignment(fn, "out")) != "self.mat if inplace else self.mat.copy()":
        _fail("%s: expected `out = self.mat if inplace else self.mat.copy()`" % where)
    if _src(P.the_assignment(fn, "axes")) != "tuple(range(out.ndim - 1))":
        _fail("%s: expected axes = tuple(range(out.ndim-1))" % where)
    augs = _top_aug(fn, "out")
    nl = P.assignments_to(fn, "new_location"); ns = P.assignments_to(fn, "new_scale")
    test, val, st = _mask_fill(where, fn, "new_scale")
    if len(augs) != 4 or len(nl) != 1 or len(ns) != 1:
        _fail("%s: expected two updates, the new parameters, two updates" % where)
    lines = [augs[0].lineno, augs[1].lineno, nl[0].lineno, ns[0].lineno, st.lineno, augs[2].lineno, augs[3].lineno]
    if lines != sorted(lines):
        _fail("%s: statements are not in the order unscale / new parameters / zero-scale rule / rescale" % where)
    defs.append(P.definition("k_sm_rescale_up", [("out", "Q"), ("scale", "Q"), ("location", "Q")], "Q", P.to_coq(_fold_aug(where, augs[:2], "out"), _qctx(smenv)),
                             "%s: %s" % (where, "; ".join(_src(s) for s in augs[:2]))))
    defs.append(P.definition("k_sm_rescale_loc_red", [], "reduction", _reduction_of(where, nl[0].value, "out", "axes"), "%s: %s" % (where, _src(nl[0]))))
    defs.append(P.definition("k_sm_rescale_scale_red", [], "reduction", _reduction_of(where, ns[0].value, "out", "axes"), "%s: %s" % (where, _src(ns[0]))))
    defs.append(P.definition("k_sm_rescale_zero", [("scale", "Q")], "bool", P.to_coq(test, _qctx({"new_scale": "scale"}), "bool"), "%s: %s" % (where, _src(st))))
    defs.append(P.definition("k_sm_rescale_fill", [], "Q", _const_q(where, val), "%s: %s" % (where, _src(st))))
    defs.append(P.definition("k_sm_rescale_down", [("out", "Q"), ("location", "Q"), ("scale", "Q")], "Q",
                             P.to_coq(_fold_aug(where, augs[2:], "out"), _qctx({"out": "out", "new_location": "location", "new_scale": "scale"})),
                             "%s: %s" % (where, "; ".join(_src(s) for s in augs[2:]))))
    ifs = [n for n in _body(fn) if isinstance(n, ast.If)]
    if len(ifs) != 1 or _src(ifs[0].test) != "inplace" or ifs[0].orelse or [_src(s) for s in ifs[0].body] != ["self.location = new_location", "self.scale = new_scale"]:
        _fail("%s: expected `if inplace: self.location = new_location; self.scale = new_scale`" % where)

    # ---- the subclasses only change the constructor signature: they must not override any routine covered here
    covered = {"from_numpy", "unscale", "tmax", "tmin", "tmean", "trange", "tstd", "tvar", "targmax", "targmin", "select_taxa", "delete_taxa", "insert_taxa",
               "adjoin_taxa", "append_taxa", "incorp_taxa", "remove_taxa", "concat_taxa", "_restandardize", "_manipulate_unscaled"}
    for rel, cls in (("pybrops/popgen/bvmat/DenseEstimatedBreedingValueMatrix.py", "DenseEstimatedBreedingValueMatrix"),
                     ("pybrops/popgen/bvmat/DenseGenomicEstimatedBreedingValueMatrix.py", "DenseGenomicEstimatedBreedingValueMatrix")):
        tree = P.parse_file(repo, rel)
        cd = [n for n in tree.body if isinstance(n, ast.ClassDef) and n.name == cls]
        if len(cd) != 1:
            _fail("%s: class %s not found" % (rel, cls))
        own = {n.name for n in cd[0].body if isinstance(n, ast.FunctionDef)}
        if own & covered:
            _fail("%s overrides %s: extend the kernel table" % (cls, sorted(own & covered)))

    header = (P.HEADER % "harness/translate/c15_kernel.py") + \
        "From Coq Require Import QArith Bool String List.\nImport ListNotations.\nLocal Open Scope Q_scope.\n\n" \
        "(* which numpy reduction along the taxa axis *)\n" \
        "Inductive reduction := RMax | RMin | RMean | RStd | RVar | RPtp | RArgmax | RArgmin | RNanMean | RNanStd.\n" \
        "(* what a matrix operand / a concatenated matrix contributes: its unscaled values or its stored values *)\n" \
        "Inductive contrib := CUnscale | CStored.\n" \
        "(* `target = function(arguments)` *)\n" \
        "Definition call := (string * (string * list string))%type.\n\n"
    text = header + "\n".join(defs)
    path = os.path.join(gen_dir, "C15_Kernel.v")
    P.write_if_changed(path, text)
    return {"file": "Gen/C15_Kernel.v", "definitions": len(defs), "sha256": hashlib.sha256(text.encode()).hexdigest()[:16]}
