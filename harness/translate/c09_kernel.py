"""C09 kernel translator (EXEMPLAR for the `CXX_kernel.py` translators; protocol in tools/PHASE2_BRIEF.md section B).

Regenerates `coq/Gen/C09_Kernel.v` from the current source on every run: one Gallina `Definition` per *kernel expression*
of the genotype summary statistics, i.e. the expressions on which the C09 theorems turn:

  k_denom            ploidy * ntaxa                                  (DenseGenotypeMatrix.afreq, `denom = ...`)
  k_afreq            <count> / denom                                 (the expression assigned to `out`; a quotient, not a product
                                                                      with a rounded reciprocal - the boundary theorem depends on it)
  k_afixed           (afreq == 0.0) | (afreq == 1.0)                 (DenseGenotypeMatrix.afixed)
  k_apoly            (afreq > 0.0) & (afreq < 1.0)                   (DenseGenotypeMatrix.apoly)
  k_maf_mask/k_maf   out > 0.5  /  1.0 - out[mask]                   (DenseGenotypeMatrix.maf)
  k_ph_denom/k_ph_afreq, k_ph_maf_mask/k_ph_maf                      (same expressions of DensePhasedGenotypeMatrix)
  k_gt_nclass        self.ploidy + 1                                 (first dimension of the gtcount output, both classes)

  k_tafreq_recip/k_tafreq    1.0 / ploidy ; rnphase * <taxon counts>           (tafreq, both classes: k_ / k_ph_)
  k_gtfreq_recip/k_gtfreq    1.0 / ntaxa ; recip * <genotype counts>           (gtfreq, both classes)
  k_meh_compl, k_meh_scale   numpy.dot(p, 1.0 - p) ; ploidy / nvrnt            (DenseGenotypeMatrix.meh; exact rationals)
  k_ph_meh_term/k_ph_meh_scale  (p * (1.0 - p)).sum() ; out *= ploidy / nvrnt  (DensePhasedGenotypeMatrix.meh)
  k_fmt_m101                 self.mat - 1 / `out -= 1`                          (mat_asformat "{-1,0,1}", both classes)
  k_fmt_shift, k_fmt_mask    self.mat - 1.0 ; view == 0                        (mat_asformat "{-1,m,1}", both classes; the statements
                                                                                around them - the three format tests, `{0,1,2}` returning a
                                                                                copy / the phase sum, the per-column loop `view = out[:, i]`,
                                                                                `mean = view.mean()`, `out[mask, i] = mean` - are matched
                                                                                textually: a rewritten branch is refused, fail closed)

`Proofs/C09_Kernel.v` proves `generated = hand model` for each by `reflexivity`, and `Props/C09.v` states the boundary
theorem about the *generated* definitions, so a changed expression (`<` for `<=`, `(1.0/denom)*count`, `nphase + 1`) makes
`Props/C09.vo` fail to build whatever the random cases exercise.  Fail closed: every selector demands exactly one match,
every name must be bound by the environment given here, anything else raises `pyexpr.Untranslatable`.
"""
import ast, os
from translate import pyexpr as P

UNPH = "pybrops/popgen/gmat/DenseGenotypeMatrix.py"
PHAS = "pybrops/popgen/gmat/DensePhasedGenotypeMatrix.py"


from translate.kernelkit import bind, elementwise_bool, shape_first_dim as _shape_first_dim


def _only_cast_after(fn, target, first):
    """every assignment to `target` after the first `first` ones must be the dtype cast `dtype.type(target)`"""
    for a in P.assignments_to(fn, target)[first:]:
        if ast.unparse(a.value) != "dtype.type(%s)" % target:
            raise P.Untranslatable("%s: unexpected re-assignment %s = %s" % (fn.name, target, ast.unparse(a.value)))


def translate(repo, gen_dir):
    defs = []
    F = lambda env, bool_env=None: P.Ctx("F", env, bool_env=bool_env)
    Z = lambda env: P.Ctx("Z", env)

    def src(e):
        return ast.unparse(e)

    for tag, rel, cls, count_txt in (
            ("", UNPH, "DenseGenotypeMatrix", "self._mat.sum(self.taxa_axis)"),
            ("ph_", PHAS, "DensePhasedGenotypeMatrix", "self._mat.sum((self.phase_axis, self.taxa_axis))")):
        # ---- afreq: denom = ploidy * ntaxa ; out = <count> / denom
        fn = P.find_function(repo, rel, cls + ".afreq")
        e = P.the_assignment(fn, "denom")
        defs.append(P.definition("k_%sdenom" % tag, [("ploidy", "Z"), ("ntaxa", "Z")], "Z",
                                 P.to_coq(e, Z({"self.ploidy": "ploidy", "self.ntaxa": "ntaxa"})), "%s.afreq: denom = %s" % (cls, src(e))))
        e = P.the_assignment(fn, "out", index=0)
        # the allele count is bound as ONE name (its own definition is integer code, compared exactly by the correspondence)
        defs.append(P.definition("k_%safreq" % tag, [("count", "float"), ("denom", "float")], "float",
                                 P.to_coq(bind(e, {count_txt: "count"}), F({"count": "count", "denom": "denom"})),
                                 "%s.afreq: out = %s" % (cls, src(e))))
        # ---- maf: mask = out > 0.5 ; out[mask] = 1.0 - out[mask]
        fn = P.find_function(repo, rel, cls + ".maf")
        e = P.the_assignment(fn, "mask")
        defs.append(P.definition("k_%smaf_mask" % tag, [("x", "float")], "bool", P.to_coq(e, F({"out": "x"}), "bool"),
                                 "%s.maf: mask = %s" % (cls, src(e))))
        e = P.the_assignment(fn, "out[mask]")
        defs.append(P.definition("k_%smaf" % tag, [("x", "float")], "float", P.to_coq(e, F({"out[mask]": "x"})),
                                 "%s.maf: out[mask] = %s" % (cls, src(e))))
        # ---- gtcount: number of genotype classes = first dimension of the allocated output
        fn = P.find_function(repo, rel, cls + ".gtcount")
        nm = _shape_first_dim(fn, "out")          # `ngt`; the loop `for i in range(ngt)` must run over the same name
        loops = [n for n in ast.walk(fn) if isinstance(n, ast.For)]
        if len(loops) != 1 or ast.unparse(loops[0].iter) != "range(%s)" % nm:
            raise P.Untranslatable("%s.gtcount: expected exactly one loop `for i in range(%s)`" % (cls, nm))
        e = P.the_assignment(fn, nm)
        defs.append(P.definition("k_%sgt_nclass" % tag, [("ploidy", "Z"), ("nphase", "Z")], "Z",
                                 P.to_coq(e, Z({"self.ploidy": "ploidy", "self.nphase": "nphase"})), "%s.gtcount: %s = %s" % (cls, nm, src(e))))

        # ---- tafreq: rnphase = 1.0 / ploidy ; out = rnphase * <per-taxon counts>
        taxon_txt = "self._mat" if not tag else "self._mat.sum(self.phase_axis)"
        fn = P.find_function(repo, rel, cls + ".tafreq")
        e = P.the_assignment(fn, "rnphase")
        defs.append(P.definition("k_%stafreq_recip" % tag, [("ploidy", "float")], "float", P.to_coq(e, F({"self.ploidy": "ploidy"})),
                                 "%s.tafreq: rnphase = %s" % (cls, src(e))))
        e = P.the_assignment(fn, "out", index=0, count=2)
        defs.append(P.definition("k_%stafreq" % tag, [("rnphase", "float"), ("x", "float")], "float",
                                 P.to_coq(bind(e, {taxon_txt: "x"}), F({"rnphase": "rnphase", "x": "x"})), "%s.tafreq: out = %s" % (cls, src(e))))
        _only_cast_after(fn, "out", 1)
        # ---- gtfreq: recip = 1.0 / ntaxa ; out = recip * self.gtcount()
        fn = P.find_function(repo, rel, cls + ".gtfreq")
        e = P.the_assignment(fn, "recip")
        defs.append(P.definition("k_%sgtfreq_recip" % tag, [("ntaxa", "float")], "float", P.to_coq(e, F({"self.ntaxa": "ntaxa"})),
                                 "%s.gtfreq: recip = %s" % (cls, src(e))))
        e = P.the_assignment(fn, "out", index=0, count=2)
        defs.append(P.definition("k_%sgtfreq" % tag, [("recip", "float"), ("c", "float")], "float",
                                 P.to_coq(bind(e, {"self.gtcount()": "c"}), F({"recip": "recip", "c": "c"})), "%s.gtfreq: out = %s" % (cls, src(e))))
        _only_cast_after(fn, "out", 1)
        # ---- meh (exact rationals: the float summation order of dot / sum is not modelled, the formula is)
        Qc = lambda env: P.Ctx("Q", env)
        fn = P.find_function(repo, rel, cls + ".meh")
        if src(P.the_assignment(fn, "p")) != "self.afreq()":
            raise P.Untranslatable("%s.meh: p is no longer self.afreq()" % cls)
        e = P.the_assignment(fn, "out", index=0, count=2)
        aug = [a for a in P.assignments_to(fn, "out", include_aug=True) if isinstance(a, ast.AugAssign)]
        if len(aug) != 1 or not isinstance(aug[0].op, ast.Mult):
            raise P.Untranslatable("%s.meh: expected exactly one `out *= ...`" % cls)
        if not tag:
            if not (isinstance(e, ast.Call) and src(e.func) == "numpy.dot" and len(e.args) == 2 and not e.keywords and src(e.args[0]) == "p"):
                raise P.Untranslatable("%s.meh: out is no longer numpy.dot(p, ...)" % cls)
            defs.append(P.definition("k_meh_compl", [("p", "Q")], "Q", P.to_coq(e.args[1], Qc({"p": "p"})), "%s.meh: out = %s" % (cls, src(e))))
            if src(aug[0].value) != "rnphase":
                raise P.Untranslatable("%s.meh: out is no longer scaled by rnphase" % cls)
            sc = P.the_assignment(fn, "rnphase")
        else:
            if not (isinstance(e, ast.Call) and isinstance(e.func, ast.Attribute) and e.func.attr == "sum" and not e.args and not e.keywords):
                raise P.Untranslatable("%s.meh: out is no longer (<term>).sum()" % cls)
            defs.append(P.definition("k_ph_meh_term", [("p", "Q")], "Q", P.to_coq(e.func.value, Qc({"p": "p"})), "%s.meh: out = %s" % (cls, src(e))))
            sc = aug[0].value
        defs.append(P.definition("k_%smeh_scale" % tag, [("ploidy", "Q"), ("nvrnt", "Q")], "Q",
                                 P.to_coq(sc, Qc({"self.ploidy": "ploidy", "self.nvrnt": "nvrnt"})), "%s.meh: out *= %s" % (cls, src(sc))))
        _only_cast_after(fn, "out", 1)
        # ---- mat_asformat: the three branches
        fn = P.find_function(repo, rel, cls + ".mat_asformat")
        tests = [src(t) for t in P.if_tests(fn)]
        if tests != ["format == '{0,1,2}'", "format == '{-1,0,1}'", "format == '{-1,m,1}'"]:
            raise P.Untranslatable("%s.mat_asformat: format tests are %r" % (cls, tests))
        dos_txt = "self.mat" if not tag else "self.mat.sum(0, dtype=self.mat.dtype)"
        rets = [src(P.the_return(fn, index=i)) for i in range(3)]
        if rets != [("self.mat.copy()" if not tag else dos_txt), "out", "out"] or len([n for n in ast.walk(fn) if isinstance(n, ast.Return)]) != 3:
            raise P.Untranslatable("%s.mat_asformat: returns are %r" % (cls, rets))
        e0 = P.the_assignment(fn, "out", index=0, count=2); e1 = P.the_assignment(fn, "out", index=1, count=2)
        augs = [a for a in P.assignments_to(fn, "out", include_aug=True) if isinstance(a, ast.AugAssign)]
        if not tag:
            if augs: raise P.Untranslatable("%s.mat_asformat: unexpected in-place update of out" % cls)
            m101 = bind(e0, {"self.mat": "x"}); shift = bind(e1, {"self.mat": "x"})
        else:
            if len(augs) != 1 or src(e0) != dos_txt:
                raise P.Untranslatable("%s.mat_asformat: expected out = %s followed by one in-place update" % (cls, dos_txt))
            m101 = ast.BinOp(left=ast.Name(id="x", ctx=ast.Load()), op=augs[0].op, right=augs[0].value)
            shift = bind(e1, {"self.mat.sum(0)": "x"})
        defs.append(P.definition("k_%sfmt_m101" % tag, [("x", "Z")], "Z", P.to_coq(m101, Z({"x": "x"})),
                                 "%s.mat_asformat {-1,0,1}: %s" % (cls, src(e0) if not tag else "out = %s; out %s= %s" % (src(e0), {ast.Sub: "-", ast.Add: "+"}.get(type(augs[0].op), "?"), src(augs[0].value)))))
        # (dosages are small integers: the float subtraction `- 1.0` is exact, the shifted value is kept as an integer)
        defs.append(P.definition("k_%sfmt_shift" % tag, [("x", "Z")], "Z", P.to_coq(shift, Z({"x": "x"})),
                                 "%s.mat_asformat {-1,m,1}: out = %s" % (cls, src(e1))))
        e = P.the_assignment(fn, "mask")
        defs.append(P.definition("k_%sfmt_mask" % tag, [("x", "Z")], "bool", P.to_coq(e, Z({"view": "x"}), "bool"),
                                 "%s.mat_asformat {-1,m,1}: mask = %s" % (cls, src(e))))
        loops = [n for n in ast.walk(fn) if isinstance(n, (ast.For, ast.While))]
        if len(loops) != 1 or not isinstance(loops[0], ast.For) or src(loops[0].target) != "i" or src(loops[0].iter) != "range(out.shape[1])":
            raise P.Untranslatable("%s.mat_asformat {-1,m,1}: expected exactly one loop `for i in range(out.shape[1])`" % cls)
        body = [src(st) for st in loops[0].body]
        # (the mask statement itself is the kernel k_fmt_mask translated above; the other three are matched textually)
        if len(body) != 4 or [body[0], body[1], body[3]] != ["view = out[:, i]", "mean = view.mean()", "out[mask, i] = mean"] \
                or body[2] != "mask = " + src(e):
            raise P.Untranslatable("%s.mat_asformat {-1,m,1}: the per-column loop body is %r" % (cls, body))
        # every statement of the function is one of the matched ones (nothing else may touch `out`)
        known = {"out = " + src(e0), "out = " + src(e1), "return out", "return " + rets[0]} | set(body) | \
                {src(a) for a in augs}      # (the in-place update of the phased {-1,0,1} branch is the kernel k_ph_fmt_m101)
        for st in ast.walk(fn):
            if isinstance(st, (ast.Assign, ast.AugAssign, ast.AnnAssign, ast.Return, ast.Expr, ast.Delete, ast.With, ast.Try)) \
                    and not (isinstance(st, ast.Expr) and isinstance(st.value, ast.Constant)) and src(st) not in known:
                raise P.Untranslatable("%s.mat_asformat: unexpected statement `%s`" % (cls, src(st)))

    # ---- fixation / polymorphism flags (the phased class inherits afixed and overrides apoly with an all()-test on alleles,
    #      which is integer code covered by the model and the correspondence, not a float kernel)
    fn = P.find_function(repo, UNPH, "DenseGenotypeMatrix.afixed")
    e = elementwise_bool(P.the_assignment(fn, "out", index=0))
    defs.append(P.definition("k_afixed", [("x", "float")], "bool", P.to_coq(e, F({"afreq": "x"}), "bool"),
                             "DenseGenotypeMatrix.afixed: out = %s" % src(P.the_assignment(fn, "out", index=0))))
    fn = P.find_function(repo, UNPH, "DenseGenotypeMatrix.apoly")
    e = elementwise_bool(P.the_assignment(fn, "out", index=0))
    defs.append(P.definition("k_apoly", [("x", "float")], "bool", P.to_coq(e, F({"afreq": "x"}), "bool"),
                             "DenseGenotypeMatrix.apoly: out = %s" % src(P.the_assignment(fn, "out", index=0))))
    # the phased class must still inherit afixed (if it defines its own, this table no longer describes it)
    tree = P.parse_file(repo, PHAS)
    for node in tree.body:
        if isinstance(node, ast.ClassDef) and node.name == "DensePhasedGenotypeMatrix":
            own = {n.name for n in node.body if isinstance(n, ast.FunctionDef)}
            if "afixed" in own:
                raise P.Untranslatable("DensePhasedGenotypeMatrix now defines its own afixed: extend the kernel table")
            if "apoly" not in own:
                raise P.Untranslatable("DensePhasedGenotypeMatrix no longer overrides apoly: the model's apoly_ph does not describe it")

    text = (P.HEADER % "harness/translate/c09_kernel.py") + \
        "From Coq Require Import ZArith QArith Bool PrimFloat.\nLocal Open Scope Z_scope.\n\n" + "\n".join(defs)
    path = os.path.join(gen_dir, "C09_Kernel.v")
    P.write_if_changed(path, text)
    import hashlib
    return {"file": "Gen/C09_Kernel.v", "definitions": len(defs), "sha256": hashlib.sha256(text.encode()).hexdigest()[:16]}
