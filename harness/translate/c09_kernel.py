"""C09 kernel translator (EXEMPLAR for the `CXX_kernel.py` translators; protocol in tools/PHASE2_BRIEF.md section B).

Regenerates `coq/Gen/C09_Kernel.v` from the current source on every run: one Gallina `Definition` per *kernel expression*
of the genotype summary statistics, i.e. the expressions on which the C09 theorems turn:

  k_denom            ploidy * ntaxa                                  (DenseGenotypeMatrix.afreq, `denom = ...`)
  k_afreq            <count> / denom                                 (the expression assigned to `out`; a quotient, not a product
                                                                      with a rounded reciprocal - the boundary theorem depends on it)
  k_afixed           (afreq == 0.0) | (afreq == 1.0)                 (DenseGenotypeMatrix.afixed)
  k_apoly            (afreq > 0.0) & (afreq < 1.0)                   (DenseGenotypeMatrix.apoly)
  k_maf_mask/k_maf   out > 0.5  /  1.0 - out[mask]                   (DenseGenotypeMatrix.maf)
  k_ph_denom/k_ph_afreq, k_ph_maf_mask/k_ph_maf                      (same expressions of DensePhasedGenotypeMatrix)
  k_gt_nclass        self.ploidy + 1                                 (first dimension of the gtcount output, both classes)

`Proofs/C09_Kernel.v` proves `generated = hand model` for each by `reflexivity`, and `Props/C09.v` states the boundary
theorem about the *generated* definitions, so a changed expression (`<` for `<=`, `(1.0/denom)*count`, `nphase + 1`) makes
`Props/C09.vo` fail to build whatever the random cases exercise.  Fail closed: every selector demands exactly one match,
every name must be bound by the environment given here, anything else raises `pyexpr.Untranslatable`.
"""
import ast, os
from translate import pyexpr as P

UNPH = "pybrops/popgen/gmat/DenseGenotypeMatrix.py"
PHAS = "pybrops/popgen/gmat/DensePhasedGenotypeMatrix.py"


from translate.kernelkit import bind, elementwise_bool, shape_first_dim as _shape_first_dim


def translate(repo, gen_dir):
    defs = []
    F = lambda env, bool_env=None: P.Ctx("F", env, bool_env=bool_env)
    Z = lambda env: P.Ctx("Z", env)

    def src(e):
        return ast.unparse(e)

    for tag, rel, cls, count_txt in (
            ("", UNPH, "DenseGenotypeMatrix", "self._mat.sum(self.taxa_axis)"),
            ("ph_", PHAS, "DensePhasedGenotypeMatrix", "self._mat.sum((self.phase_axis, self.taxa_axis))")):
        # ---- afreq: denom = ploidy * ntaxa ; out = <count> / denom
        fn = P.find_function(repo, rel, cls + ".afreq")
        e = P.the_assignment(fn, "denom")
        defs.append(P.definition("k_%sdenom" % tag, [("ploidy", "Z"), ("ntaxa", "Z")], "Z",
                                 P.to_coq(e, Z({"self.ploidy": "ploidy", "self.ntaxa": "ntaxa"})), "%s.afreq: denom = %s" % (cls, src(e))))
        e = P.the_assignment(fn, "out", index=0)
        # the allele count is bound as ONE name (its own definition is integer code, compared exactly by the correspondence)
        defs.append(P.definition("k_%safreq" % tag, [("count", "float"), ("denom", "float")], "float",
                                 P.to_coq(bind(e, {count_txt: "count"}), F({"count": "count", "denom": "denom"})),
                                 "%s.afreq: out = %s" % (cls, src(e))))
        # ---- maf: mask = out > 0.5 ; out[mask] = 1.0 - out[mask]
        fn = P.find_function(repo, rel, cls + ".maf")
        e = P.the_assignment(fn, "mask")
        defs.append(P.definition("k_%smaf_mask" % tag, [("x", "float")], "bool", P.to_coq(e, F({"out": "x"}), "bool"),
                                 "%s.maf: mask = %s" % (cls, src(e))))
        e = P.the_assignment(fn, "out[mask]")
        defs.append(P.definition("k_%smaf" % tag, [("x", "float")], "float", P.to_coq(e, F({"out[mask]": "x"})),
                                 "%s.maf: out[mask] = %s" % (cls, src(e))))
        # ---- gtcount: number of genotype classes = first dimension of the allocated output
        fn = P.find_function(repo, rel, cls + ".gtcount")
        nm = _shape_first_dim(fn, "out")          # `ngt`; the loop `for i in range(ngt)` must run over the same name
        loops = [n for n in ast.walk(fn) if isinstance(n, ast.For)]
        if len(loops) != 1 or ast.unparse(loops[0].iter) != "range(%s)" % nm:
            raise P.Untranslatable("%s.gtcount: expected exactly one loop `for i in range(%s)`" % (cls, nm))
        e = P.the_assignment(fn, nm)
        defs.append(P.definition("k_%sgt_nclass" % tag, [("ploidy", "Z"), ("nphase", "Z")], "Z",
                                 P.to_coq(e, Z({"self.ploidy": "ploidy", "self.nphase": "nphase"})), "%s.gtcount: %s = %s" % (cls, nm, src(e))))

    # ---- fixation / polymorphism flags (the phased class inherits afixed and overrides apoly with an all()-test on alleles,
    #      which is integer code covered by the model and the correspondence, not a float kernel)
    fn = P.find_function(repo, UNPH, "DenseGenotypeMatrix.afixed")
    e = elementwise_bool(P.the_assignment(fn, "out", index=0))
    defs.append(P.definition("k_afixed", [("x", "float")], "bool", P.to_coq(e, F({"afreq": "x"}), "bool"),
                             "DenseGenotypeMatrix.afixed: out = %s" % src(P.the_assignment(fn, "out", index=0))))
    fn = P.find_function(repo, UNPH, "DenseGenotypeMatrix.apoly")
    e = elementwise_bool(P.the_assignment(fn, "out", index=0))
    defs.append(P.definition("k_apoly", [("x", "float")], "bool", P.to_coq(e, F({"afreq": "x"}), "bool"),
                             "DenseGenotypeMatrix.apoly: out = %s" % src(P.the_assignment(fn, "out", index=0))))
    # the phased class must still inherit afixed (if it defines its own, this table no longer describes it)
    tree = P.parse_file(repo, PHAS)
    for node in tree.body:
        if isinstance(node, ast.ClassDef) and node.name == "DensePhasedGenotypeMatrix":
            own = {n.name for n in node.body if isinstance(n, ast.FunctionDef)}
            if "afixed" in own:
                raise P.Untranslatable("DensePhasedGenotypeMatrix now defines its own afixed: extend the kernel table")
            if "apoly" not in own:
                raise P.Untranslatable("DensePhasedGenotypeMatrix no longer overrides apoly: the model's apoly_ph does not describe it")

    text = (P.HEADER % "harness/translate/c09_kernel.py") + \
        "From Coq Require Import ZArith Bool PrimFloat.\nLocal Open Scope Z_scope.\n\n" + "\n".join(defs)
    path = os.path.join(gen_dir, "C09_Kernel.v")
    P.write_if_changed(path, text)
    import hashlib
    return {"file": "Gen/C09_Kernel.v", "definitions": len(defs), "sha256": hashlib.sha256(text.encode()).hexdigest()[:16]}
