"""C01 kernel translator: regenerates `coq/Gen/C01_Kernel.v` from the current source on every run (fail closed).

What is regenerated (the expressions and statement sequences on which the C01 theorems turn):

 A. meiosis kernel, for `pybrops/breed/prot/mate/util.py:mat_meiosis` (tag `mat`) and its duplicate
    `pybrops/core/util/mate.py:dense_meiosis` (tag `dense`):
      k_<t>_gshape      (len(sel), len(xoprob))                          shape of the uniform matrix and of the gamete matrix
      k_<t>_unif_lo/hi  rng.uniform(0, 1, gshape)                        range of the draws
      k_<t>_xo          rnd[i] < xoprob                                  the crossover test (strict: never a crossover where xoprob == 0)
      k_<t>_phase0, k_<t>_stix0                                          initialisations before the inner loop
      k_<t>_seg_dst/src gamete[i,stix:spix] = geno[phase,s,stix:spix]    the index expressions of the segment copy
      k_<t>_stix_next, k_<t>_phase_next   stix = spix; phase = 1 - phase the updates (after the copy - statement order is checked)
      k_<t>_tail_dst/src gamete[i,stix:] = geno[phase,s,stix:]           the copy after the loop
 B. straight-line bodies, rng threaded in call order, helper calls with their arguments in source order:
      k_mat_dh, k_mat_mate (util.py), k_dense_dh, k_dense_cross (core/util/mate.py)
      k_raw_<Protocol>   the whole of <Protocol>.mate() after the argument checks up to the constructor call:
                         parent index expansion (which xconfig column, repeated by what), the mat_mate/mat_dh calls with their
                         argument order, the selfing loop, names (prefix, zero-fill width, range), family labels, both counters
      k_meta_<Protocol>  which pgmat attribute reaches which marker-metadata field of the progeny (constructor keywords and the
                         four `progeny.vrnt_chrgrp_* = pgmat.vrnt_chrgrp_*` copies)
      k_nparent_<Protocol>
`Proofs/C01_Kernel.v` proves each equal to the hand model (`core`, `mate_raw`, `progeny_meta`, `mat_mate`, `seg_copy`, `Qltb` ...),
`Props/C01.v` states the kernel theorems about the generated definitions.  Anything outside the fragment handled here raises
`pyexpr.Untranslatable` (the check reports the correspondence as broken).
"""
import ast, os, hashlib
from translate import pyexpr as P

UTIL = "pybrops/breed/prot/mate/util.py"
DENSE = "pybrops/core/util/mate.py"
PROTOS = ["SelfCross", "TwoWayCross", "TwoWayDHCross", "ThreeWayCross", "ThreeWayDHCross", "FourWayCross", "FourWayDHCross"]
META = ["vrnt_chrgrp", "vrnt_phypos", "vrnt_name", "vrnt_genpos", "vrnt_xoprob", "vrnt_hapgrp", "vrnt_hapalt", "vrnt_hapref", "vrnt_mask",
        "vrnt_chrgrp_name", "vrnt_chrgrp_stix", "vrnt_chrgrp_spix", "vrnt_chrgrp_len"]
CTOR_META = META[:9]
POST_META = META[9:]
U = P.Untranslatable


def src(e):
    return ast.unparse(e)


def body_wo_doc(fn):
    b = list(fn.body)
    if b and isinstance(b[0], ast.Expr) and isinstance(b[0].value, ast.Constant) and isinstance(b[0].value.value, str):
        b = b[1:]
    return b


def one_target(st, what):
    if not (isinstance(st, ast.Assign) and len(st.targets) == 1):
        raise U("%s: expected a simple assignment, found `%s`" % (what, src(st)[:80]))
    return st.targets[0]


# ------------------------------------------------------------------------------------------- A. meiosis kernel
def _is_name(e, n):
    return isinstance(e, ast.Name) and e.id == n


def _slice_parts(sub, base, nlead, what):
    """sub = base[e1, .., e_nlead, lo:hi] -> ([e1..], lo, hi)"""
    if not (isinstance(sub, ast.Subscript) and _is_name(sub.value, base) and isinstance(sub.slice, ast.Tuple)
            and len(sub.slice.elts) == nlead + 1 and isinstance(sub.slice.elts[-1], ast.Slice) and sub.slice.elts[-1].step is None):
        raise U("%s: expected %s[%d indices, start:stop], found `%s`" % (what, base, nlead, src(sub)))
    sl = sub.slice.elts[-1]
    return list(sub.slice.elts[:-1]), sl.lower, sl.upper


def _tuple_z(parts, env):
    Z = P.Ctx("Z", env)
    out = P.to_coq(parts[-1], Z)
    for e in reversed(parts[:-1]):
        out = "(%s, %s)" % (P.to_coq(e, Z), out)
    return out


def meiosis_kernel(repo, rel, fname, tag):
    fn = P.find_function(repo, rel, fname)
    params = [a.arg for a in fn.args.args]
    if params != ["geno", "sel", "xoprob", "rng"]:
        raise U("%s: parameters %s" % (fname, params))
    body = body_wo_doc(fn)
    if len(body) != 5:
        raise U("%s: expected 5 statements (gshape, rnd, gamete, for, return), found %d" % (fname, len(body)))
    defs = []
    k = lambda n: "k_%s_%s" % (tag, n)
    # gshape = (len(sel), len(xoprob))
    t = one_target(body[0], fname)
    e = body[0].value
    if not (_is_name(t, "gshape") and isinstance(e, ast.Tuple) and len(e.elts) == 2 and all(isinstance(x, ast.Call) and _is_name(x.func, "len")
            and len(x.args) == 1 and isinstance(x.args[0], ast.Name) for x in e.elts)):
        raise U("%s: gshape statement `%s`" % (fname, src(body[0])))
    env = {"sel": "nsel", "xoprob": "nxo"}
    try:
        comps = [env[x.args[0].id] for x in e.elts]
    except KeyError as ex:
        raise U("%s: gshape uses len(%s)" % (fname, ex))
    defs.append(P.definition(k("gshape"), [("nsel", "nat"), ("nxo", "nat")], "nat * nat", "(%s, %s)" % tuple(comps), "%s: %s" % (fname, src(body[0]))))
    # rnd = rng.uniform(lo, hi, gshape)
    t = one_target(body[1], fname); e = body[1].value
    if not (_is_name(t, "rnd") and isinstance(e, ast.Call) and src(e.func) == "rng.uniform" and len(e.args) == 3 and not e.keywords and _is_name(e.args[2], "gshape")):
        raise U("%s: draw statement `%s`" % (fname, src(body[1])))
    Q = P.Ctx("Q", {})
    defs.append(P.definition(k("unif_lo"), [], "Q", P.to_coq(e.args[0], Q), "%s: %s" % (fname, src(body[1]))))
    defs.append(P.definition(k("unif_hi"), [], "Q", P.to_coq(e.args[1], Q), "%s: %s" % (fname, src(body[1]))))
    # gamete = numpy.empty(gshape, dtype = geno.dtype)
    if src(body[2]) != "gamete = numpy.empty(gshape, dtype=geno.dtype)":
        raise U("%s: allocation statement `%s`" % (fname, src(body[2])))
    # for i, s in enumerate(sel):
    lp = body[3]
    if not (isinstance(lp, ast.For) and src(lp.target) in ("(i, s)", "i, s") and src(lp.iter) == "enumerate(sel)" and not lp.orelse):
        raise U("%s: outer loop `%s`" % (fname, src(lp)[:60]))
    if src(body[4]) != "return gamete":
        raise U("%s: return statement `%s`" % (fname, src(body[4])))
    ob = lp.body
    if len(ob) != 5:
        raise U("%s: outer loop body has %d statements (expected xoix, phase, stix, inner loop, tail copy)" % (fname, len(ob)))
    # xoix = numpy.flatnonzero(rnd[i] < xoprob)
    t = one_target(ob[0], fname); e = ob[0].value
    if not (_is_name(t, "xoix") and isinstance(e, ast.Call) and src(e.func) == "numpy.flatnonzero" and len(e.args) == 1 and not e.keywords
            and isinstance(e.args[0], ast.Compare)):
        raise U("%s: crossover statement `%s`" % (fname, src(ob[0])))
    defs.append(P.definition(k("xo"), [("u", "Q"), ("p", "Q")], "bool", P.to_coq(e.args[0], P.Ctx("Q", {"rnd[i]": "u", "xoprob": "p"}), "bool"),
                             "%s: %s" % (fname, src(ob[0]))))
    # phase = 0 ; stix = 0 (either order)
    inits = {}
    for st in ob[1:3]:
        t = one_target(st, fname)
        if not isinstance(t, ast.Name): raise U("%s: initialisation `%s`" % (fname, src(st)))
        inits[t.id] = st.value
    if set(inits) != {"phase", "stix"}:
        raise U("%s: expected the initialisations of phase and stix, found %s" % (fname, sorted(inits)))
    Z0 = P.Ctx("Z", {})
    defs.append(P.definition(k("phase0"), [], "Z", P.to_coq(inits["phase"], Z0), "%s: phase = %s" % (fname, src(inits["phase"]))))
    defs.append(P.definition(k("stix0"), [], "Z", P.to_coq(inits["stix"], Z0), "%s: stix = %s" % (fname, src(inits["stix"]))))
    # for spix in xoix: copy; stix = ..; phase = ..
    il = ob[3]
    if not (isinstance(il, ast.For) and _is_name(il.target, "spix") and _is_name(il.iter, "xoix") and not il.orelse and len(il.body) == 3):
        raise U("%s: inner loop `%s`" % (fname, src(il)[:80]))
    cp = il.body[0]
    dst = one_target(cp, fname)
    lead, lo, hi = _slice_parts(dst, "gamete", 1, fname)
    if lo is None or hi is None: raise U("%s: segment copy with an open slice `%s`" % (fname, src(cp)))
    envz = {"i": "i", "s": "s", "phase": "phase", "stix": "stix", "spix": "spix"}
    defs.append(P.definition(k("seg_dst"), [("i", "Z"), ("stix", "Z"), ("spix", "Z")], "Z * (Z * Z)", _tuple_z(lead + [lo, hi], envz), "%s: %s" % (fname, src(cp))))
    lead, lo, hi = _slice_parts(cp.value, "geno", 2, fname)
    if lo is None or hi is None: raise U("%s: segment copy with an open slice `%s`" % (fname, src(cp)))
    defs.append(P.definition(k("seg_src"), [("phase", "Z"), ("s", "Z"), ("stix", "Z"), ("spix", "Z")], "Z * (Z * (Z * Z))", _tuple_z(lead + [lo, hi], envz),
                             "%s: %s" % (fname, src(cp))))
    ups = {}
    for st in il.body[1:]:
        t = one_target(st, fname)
        if not isinstance(t, ast.Name): raise U("%s: update `%s`" % (fname, src(st)))
        ups[t.id] = st.value
    if set(ups) != {"phase", "stix"}:
        raise U("%s: expected the updates of stix and phase after the copy, found %s" % (fname, sorted(ups)))
    if "phase" in P.names_in(ups["stix"]) or "stix" in P.names_in(ups["phase"]):
        raise U("%s: the updates of stix and phase depend on each other" % fname)
    defs.append(P.definition(k("stix_next"), [("stix", "Z"), ("spix", "Z")], "Z", P.to_coq(ups["stix"], P.Ctx("Z", {"stix": "stix", "spix": "spix"})),
                             "%s: stix = %s" % (fname, src(ups["stix"]))))
    defs.append(P.definition(k("phase_next"), [("phase", "Z")], "Z", P.to_coq(ups["phase"], P.Ctx("Z", {"phase": "phase"})),
                             "%s: phase = %s" % (fname, src(ups["phase"]))))
    # gamete[i,stix:] = geno[phase,s,stix:]
    cp = ob[4]
    dst = one_target(cp, fname)
    lead, lo, hi = _slice_parts(dst, "gamete", 1, fname)
    if lo is None or hi is not None: raise U("%s: tail copy `%s`" % (fname, src(cp)))
    defs.append(P.definition(k("tail_dst"), [("i", "Z"), ("stix", "Z")], "Z * Z", _tuple_z(lead + [lo], envz), "%s: %s" % (fname, src(cp))))
    lead, lo, hi = _slice_parts(cp.value, "geno", 2, fname)
    if lo is None or hi is not None: raise U("%s: tail copy `%s`" % (fname, src(cp)))
    defs.append(P.definition(k("tail_src"), [("phase", "Z"), ("s", "Z"), ("stix", "Z")], "Z * (Z * Z)", _tuple_z(lead + [lo], envz), "%s: %s" % (fname, src(cp))))
    return defs


# ------------------------------------------------------------------------------------------- B. straight-line bodies
STOCH = {   # python helper -> (model function, kinds of the arguments before rng, kind of the result)
    "mat_meiosis": ("mat_meiosis", ["geno", "natlist", "xoprob"], "gam"),
    "mat_dh": ("mat_dh", ["geno", "natlist", "xoprob"], "geno"),
    "mat_mate": ("mat_mate", ["geno", "geno", "natlist", "natlist", "xoprob"], "geno"),
    "dense_meiosis": ("mat_meiosis", ["geno", "natlist", "xoprob"], "gam"),
    "dense_dh": ("mat_dh", ["geno", "natlist", "xoprob"], "geno"),
    "dense_cross": ("mat_mate", ["geno", "geno", "natlist", "natlist", "xoprob"], "geno"),
}
RNG_NAMES = ("rng", "self.rng")


class Straight:
    """sequential translation of assignments into nested lets; python names are prefixed v_; `rng` is threaded"""

    def __init__(self, what, vars_, attrs, zenv):
        self.what = what
        self.kind = dict(vars_)          # python name -> kind
        self.attrs = dict(attrs)         # dotted attribute text -> (coq term, kind)
        self.zenv = dict(zenv)           # dotted text -> coq Z term (self.progeny_counter -> pc)
        self.lets = []

    def v(self, n):
        return "v_" + n

    # ---- integer expressions (names of kind nat are injected)
    def zexpr(self, e):
        env = dict(self.zenv)
        for n, kd in self.kind.items():
            if kd == "nat": env[n] = "(Z.of_nat %s)" % self.v(n)
            elif kd == "Z": env[n] = self.v(n)
        return P.to_coq(e, P.Ctx("Z", env))

    # ---- array expressions -> (term, kind)
    def arr(self, e):
        if isinstance(e, ast.Name):
            if e.id not in self.kind: raise U("%s: name %s is not bound" % (self.what, e.id))
            return self.v(e.id), self.kind[e.id]
        txt = src(e)
        if txt in self.attrs:
            return self.attrs[txt]
        if isinstance(e, ast.Subscript):
            # xconfig[:,k]
            if isinstance(e.value, ast.Name) and self.kind.get(e.value.id) == "xconfig" and isinstance(e.slice, ast.Tuple) and len(e.slice.elts) == 2:
                a, b = e.slice.elts
                if isinstance(a, ast.Slice) and a.lower is None and a.upper is None and a.step is None and isinstance(b, ast.Constant) \
                        and isinstance(b.value, int) and not isinstance(b.value, bool) and b.value >= 0:
                    return "(colx %d%%nat %s)" % (b.value, self.v(e.value.id)), "natlist"
            # X.shape[1]
            if isinstance(e.value, ast.Attribute) and e.value.attr == "shape" and isinstance(e.slice, ast.Constant) and e.slice.value == 1:
                t, kd = self.arr(e.value.value)
                if kd == "geno": return "(ntaxa_of %s)" % t, "nat"
            raise U("%s: subscript `%s`" % (self.what, txt))
        if isinstance(e, ast.BinOp) and isinstance(e.op, ast.Mult):
            (a, ka), (b, kb) = self.arr(e.left), self.arr(e.right)
            if ka == kb == "natlist": return "(map2 Nat.mul %s %s)" % (a, b), "natlist"
            raise U("%s: product `%s` of %s and %s" % (self.what, txt, ka, kb))
        if isinstance(e, ast.List):
            parts = [self.arr(x) for x in e.elts]
            if parts and all(kd == "gam" for _, kd in parts): return "[%s]" % "; ".join(t for t, _ in parts), "gamlist"
            raise U("%s: list `%s`" % (self.what, txt))
        if isinstance(e, ast.Call):
            f = src(e.func)
            kws = {k.arg: k.value for k in e.keywords}
            if f == "numpy.repeat" and len(e.args) == 2 and not kws:
                (a, ka), (b, kb) = self.arr(e.args[0]), self.arr(e.args[1])
                if ka in ("natlist", "Zlist") and kb == "natlist": return "(repeat_by %s %s)" % (a, b), ka
                raise U("%s: numpy.repeat of %s by %s in `%s`" % (self.what, ka, kb, txt))
            if f == "numpy.arange" and len(e.args) == 1 and not kws:
                a, ka = self.arr(e.args[0])
                if ka == "nat": return "(seq 0 %s)" % a, "natlist"
            if f in ("numpy.arange", "range") and len(e.args) == 2 and (not kws or (f == "numpy.arange" and set(kws) == {"dtype"} and
                                                                                  isinstance(kws["dtype"], ast.Constant) and kws["dtype"].value == "int64")):
                return "(rangeZ %s %s)" % (self.zexpr(e.args[0]), self.zexpr(e.args[1])), "Zlist"
            if f == "numpy.stack" and len(e.args) == 1 and not kws:
                t, kd = self.arr(e.args[0])
                if kd == "gamlist": return t, "geno"
            if f == "len" and len(e.args) == 1 and not kws:
                t, kd = self.arr(e.args[0])
                if kd in ("xconfig", "natlist"): return "(length %s)" % t, "nat"
            raise U("%s: call `%s`" % (self.what, txt))
        raise U("%s: expression `%s`" % (self.what, txt))

    def stoch(self, e):
        """f(args..., rng) for a helper of STOCH -> (term without the binding, result kind) or None"""
        if not (isinstance(e, ast.Call) and isinstance(e.func, ast.Name) and e.func.id in STOCH): return None
        fn, kinds, rk = STOCH[e.func.id]
        if e.keywords or len(e.args) != len(kinds) + 1 or src(e.args[-1]) not in RNG_NAMES:
            raise U("%s: call `%s` (expected %d arguments and the generator last)" % (self.what, src(e), len(kinds) + 1))
        ts = []
        for a, want in zip(e.args[:-1], kinds):
            t, kd = self.arr(a)
            if kd != want: raise U("%s: argument `%s` of %s is a %s (expected %s)" % (self.what, src(a), e.func.id, kd, want))
            ts.append(t)
        return "%s %s rng" % (fn, " ".join(ts)), rk

    def assign(self, st):
        t = one_target(st, self.what)
        if not isinstance(t, ast.Name): raise U("%s: assignment target `%s`" % (self.what, src(t)))
        s = self.stoch(st.value)
        if s is not None:
            term, kd = s
            self.kind[t.id] = kd
            self.lets.append("let '(%s, rng) := %s in" % (self.v(t.id), term))
            return
        term, kd = self.arr(st.value)
        self.kind[t.id] = kd
        self.lets.append("let %s := %s in" % (self.v(t.id), term))

    def loop(self, st):
        """for <unused> in range(<nat name>): X = helper(..., rng)   with X already bound (state = (X, rng))"""
        if not (isinstance(st.target, ast.Name) and isinstance(st.iter, ast.Call) and _is_name(st.iter.func, "range") and len(st.iter.args) == 1
                and isinstance(st.iter.args[0], ast.Name) and self.kind.get(st.iter.args[0].id) == "nat" and not st.orelse and len(st.body) == 1):
            raise U("%s: loop `%s`" % (self.what, src(st)[:80]))
        b = st.body[0]; t = one_target(b, self.what)
        if not (isinstance(t, ast.Name) and t.id in self.kind): raise U("%s: loop body `%s`" % (self.what, src(b)))
        if st.target.id in P.names_in(b.value): raise U("%s: the loop variable is used in `%s`" % (self.what, src(b)))
        s = self.stoch(b.value)
        if s is None: raise U("%s: loop body `%s` is not a helper call" % (self.what, src(b)))
        term, kd = s
        if kd != self.kind[t.id]: raise U("%s: loop body changes the kind of %s" % (self.what, t.id))
        x = self.v(t.id)
        self.lets.append("let '(%s, rng) := loop_n %s (fun '(%s, rng) => %s) (%s, rng) in" % (x, self.v(st.iter.args[0].id), x, term, x))

    def text(self, result):
        return "\n  ".join(self.lets + [result])


def straight_fn(repo, rel, fname, name, kinds):
    """a helper consisting of assignments and `return <name>`: -> Definition name args rng := ... (result, rng)"""
    fn = P.find_function(repo, rel, fname)
    params = [a.arg for a in fn.args.args]
    if params != [n for n, _ in kinds] + ["rng"]:
        raise U("%s: parameters %s" % (fname, params))
    S = Straight(fname, kinds, {}, {})
    body = body_wo_doc(fn)
    if not body or not isinstance(body[-1], ast.Return) or not isinstance(body[-1].value, ast.Name):
        raise U("%s: does not end in `return <name>`" % fname)
    for st in body[:-1]:
        S.assign(st)
    t, kd = S.arr(body[-1].value)
    if kd != "geno": raise U("%s: returns a %s" % (fname, kd))
    ty = {"geno": "list (list (list Z))", "natlist": "list nat", "xoprob": "list Q"}
    ps = [("v_" + n, ty[kd]) for n, kd in kinds] + [("rng", "rngst")]
    return P.definition(name, ps, "list (list (list Z)) * rngst", S.text("(%s, rng)" % t), "%s: whole body" % fname)


def _str_codes(s):
    return "[%s]" % "; ".join(str(ord(c)) for c in s)


def protocol_defs(repo, proto):
    rel = "pybrops/breed/prot/mate/%s.py" % proto
    what = "%s.mate" % proto
    defs = []
    # nparent
    fn = P.find_function(repo, rel, proto + ".nparent")          # first definition = the getter
    r = P.the_return(fn)
    if not (isinstance(r, ast.Constant) and isinstance(r.value, int) and not isinstance(r.value, bool) and r.value >= 0):
        raise U("%s.nparent returns `%s`" % (proto, src(r)))
    defs.append(P.definition("k_nparent_%s" % proto, [], "nat", "%d%%nat" % r.value, "%s.nparent: return %s" % (proto, src(r))))
    fn = P.find_function(repo, rel, proto + ".mate")
    params = [a.arg for a in fn.args.args]
    if params != ["self", "pgmat", "xconfig", "nmating", "nprogeny", "miscout", "nself"]:
        raise U("%s: parameters %s" % (what, params))
    body = body_wo_doc(fn)
    # leading argument checks: check_*(...) calls and `if isinstance(...)` / `if miscout is not None` blocks (modelled by hand: expand_count)
    k = 0
    def is_check(st):
        if isinstance(st, ast.Expr) and isinstance(st.value, ast.Call) and isinstance(st.value.func, ast.Name) and st.value.func.id.startswith("check_"): return True
        if isinstance(st, ast.If) and not st.orelse and (src(st.test).startswith("isinstance(") or src(st.test) == "miscout is not None"): return True
        return False
    while k < len(body) and is_check(body[k]): k += 1
    rest = body[k:]
    if any(is_check(st) or isinstance(st, ast.If) for st in rest):
        raise U("%s: an argument check / branch after the start of the progeny generation" % what)
    S = Straight(what, {"xconfig": "xconfig", "nmating": "natlist", "nprogeny": "natlist", "nself": "nat"},
                 {"pgmat.mat": ("pg_mat", "geno"), "pgmat.vrnt_xoprob": ("pg_xoprob", "xoprob")},
                 {"self.progeny_counter": "pc", "self.family_counter": "fc"})
    ctor = None; post = {}; grouped = False; returned = False
    for st in rest:
        if returned: raise U("%s: statement after return" % what)
        if ctor is None:
            if isinstance(st, ast.For):
                S.loop(st); continue
            if isinstance(st, ast.AugAssign):
                tt = src(st.target)
                if not (isinstance(st.op, ast.Add) and tt in S.zenv): raise U("%s: statement `%s`" % (what, src(st)))
                cv = S.zenv[tt]
                S.lets.append("let %s := (Z.add %s %s) in" % (cv, cv, S.zexpr(st.value))); continue
            t = one_target(st, what)
            if isinstance(t, ast.Name) and t.id == "taxa":
                # numpy.array([PREFIX + str(i).zfill(W) for i in riter], dtype = object)
                e = st.value
                ok = isinstance(e, ast.Call) and src(e.func) == "numpy.array" and len(e.args) == 1 and isinstance(e.args[0], ast.ListComp) \
                    and {kw.arg for kw in e.keywords} == {"dtype"} and src(e.keywords[0].value) in ("object", "'object'")
                if ok:
                    lc = e.args[0]
                    ok = len(lc.generators) == 1 and not lc.generators[0].ifs and isinstance(lc.generators[0].target, ast.Name) \
                        and isinstance(lc.generators[0].iter, ast.Name) and S.kind.get(lc.generators[0].iter.id) == "Zlist"
                if ok:
                    iv = lc.generators[0].target.id; el = lc.elt
                    ok = isinstance(el, ast.BinOp) and isinstance(el.op, ast.Add) and isinstance(el.left, ast.Constant) and isinstance(el.left.value, str) \
                        and isinstance(el.right, ast.Call) and isinstance(el.right.func, ast.Attribute) and el.right.func.attr == "zfill" \
                        and src(el.right.func.value) == "str(%s)" % iv and len(el.right.args) == 1 and isinstance(el.right.args[0], ast.Constant) \
                        and isinstance(el.right.args[0].value, int) and not el.right.keywords
                if not ok: raise U("%s: name statement `%s`" % (what, src(st)[:120]))
                S.kind["taxa"] = "names"
                S.lets.append("let v_taxa := map (name_of %s %d%%nat) %s in" % (_str_codes(el.left.value), el.right.args[0].value, S.v(lc.generators[0].iter.id)))
                defs.append(P.definition("k_prefix_%s" % proto, [], "list Z", _str_codes(el.left.value), "%s: %s" % (what, src(el))))
                defs.append(P.definition("k_width_%s" % proto, [], "nat", "%d%%nat" % el.right.args[0].value, "%s: %s" % (what, src(el))))
                continue
            if isinstance(t, ast.Name) and t.id == "progeny":
                e = st.value
                if not (isinstance(e, ast.Call) and src(e.func) == "DensePhasedGenotypeMatrix" and not e.args): raise U("%s: constructor `%s`" % (what, src(e)[:80]))
                ctor = {}
                for kw in e.keywords:
                    if kw.arg is None:
                        if src(kw.value) != "kwargs": raise U("%s: constructor **%s" % (what, src(kw.value)))
                        continue
                    if kw.arg in ctor: raise U("%s: constructor keyword %s twice" % (what, kw.arg))
                    ctor[kw.arg] = kw.value
                continue
            S.assign(st)
        else:
            if isinstance(st, ast.Return):
                if src(st.value) != "progeny": raise U("%s: returns `%s`" % (what, src(st.value)))
                returned = True; continue
            if isinstance(st, ast.Expr) and src(st.value) == "progeny.group_taxa()":
                if grouped: raise U("%s: group_taxa() twice" % what)
                grouped = True; continue
            t = one_target(st, what)
            tt = src(t)
            if grouped or not tt.startswith("progeny.") or tt[len("progeny."):] not in POST_META or tt in post:
                raise U("%s: statement after the constructor `%s`" % (what, src(st)))
            post[tt[len("progeny."):]] = st.value
    if ctor is None or not grouped or not returned:
        raise U("%s: constructor call, group_taxa() and return are not all present" % what)
    extra = set(ctor) - set(CTOR_META) - {"mat", "taxa", "taxa_grp"}
    if extra: raise U("%s: constructor keywords %s" % (what, sorted(extra)))
    outs = []
    for key, want in (("mat", "geno"), ("taxa", "names"), ("taxa_grp", "Zlist")):
        if key not in ctor: raise U("%s: constructor without %s" % (what, key))
        t, kd = S.arr(ctor[key])
        if kd != want: raise U("%s: constructor %s = `%s` is a %s" % (what, key, src(ctor[key]), kd))
        outs.append(t)
    result = ("mkProgeny %s %s %s [] [] [] [] (mkMeta None None None None None None None None None None None None None) pc fc (reqs rng)"
              % tuple(outs))
    ps = [("pg_mat", "list (list (list Z))"), ("pg_xoprob", "list Q"), ("v_xconfig", "list (list nat)"), ("v_nmating", "list nat"), ("v_nprogeny", "list nat"),
          ("v_nself", "nat"), ("pc", "Z"), ("fc", "Z"), ("rng", "rngst")]
    defs.append(P.definition("k_raw_%s" % proto, ps, "progeny", S.text(result),
                             "%s: statements after the argument checks up to the constructor call (%d lets)" % (what, len(S.lets))))
    # metadata hand-over
    fields = []
    for key in META:
        e = ctor.get(key) if key in CTOR_META else post.get(key)
        if e is None:
            fields.append("None"); continue
        txt = src(e)
        if not (txt.startswith("pgmat.") and txt[len("pgmat."):] in META):
            raise U("%s: metadata field %s is given `%s`" % (what, key, txt))
        fields.append("(vm_%s m)" % txt[len("pgmat.vrnt_"):])
    defs.append(P.definition("k_meta_%s" % proto, [("m", "vmeta")], "vmeta", "mkMeta " + " ".join(fields),
                             "%s: constructor keywords vrnt_* and the progeny.vrnt_chrgrp_* copies" % what))
    return defs


def translate(repo, gen_dir):
    defs = []
    defs += meiosis_kernel(repo, UTIL, "mat_meiosis", "mat")
    defs += meiosis_kernel(repo, DENSE, "dense_meiosis", "dense")
    G3 = [("geno", "geno"), ("sel", "natlist"), ("xoprob", "xoprob")]
    G5 = [("fgeno", "geno"), ("mgeno", "geno"), ("fsel", "natlist"), ("msel", "natlist"), ("xoprob", "xoprob")]
    defs.append(straight_fn(repo, UTIL, "mat_dh", "k_mat_dh", G3))
    defs.append(straight_fn(repo, UTIL, "mat_mate", "k_mat_mate", G5))
    defs.append(straight_fn(repo, DENSE, "dense_dh", "k_dense_dh", G3))
    defs.append(straight_fn(repo, DENSE, "dense_cross", "k_dense_cross", G5))
    for proto in PROTOS:
        defs += protocol_defs(repo, proto)
    text = (P.HEADER % "harness/translate/c01_kernel.py") + \
        "From PV Require Import Lib.Common Model.C01_Meiosis Model.C01_Mating Model.C01_Kit.\nLocal Open Scope Z_scope.\n\n" + "\n".join(defs)
    path = os.path.join(gen_dir, "C01_Kernel.v")
    P.write_if_changed(path, text)
    return {"file": "Gen/C01_Kernel.v", "definitions": len(defs), "sha256": hashlib.sha256(text.encode()).hexdigest()[:16]}
