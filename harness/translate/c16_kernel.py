"""C16 kernel translator: regenerates `coq/Gen/C16_Kernel.v` from the current source on every run (protocol: tools/PHASE2_BRIEF.md B,
exemplar c09_kernel.py).  `Gen/C16_Fields.v` (c16_fields.py) covers *which* fields are written/read/copied; this file covers the
boolean / string / numeric expressions on which the C16 theorems turn and which those tables do not contain:

  pybrops/core/util/h5py.py : h5py_File_write_dict
    k_wd_fieldname        groupname + key                              (which string is the prefix)
    k_wd_del_none         overwrite and (fieldname in h5file)          (None item: delete what an earlier write left)
    k_wd_del_data         (fieldname in h5file) and overwrite          (data item: delete-then-create)
    k_wd_del_dict         overwrite and (fieldname in h5file)          (dictionary item: clear the nested group first)
    k_wd_nested_group     fieldname + '/'                              (group name handed to the recursive call)
    k_wd_nested_overwrite <default of `overwrite`>                     (the recursive call does not pass `overwrite` on)
    (the statement shape - None test first with `continue`, then writable item / dictionary / raise, each `del h5file[fieldname]`
     followed by create_dataset(fieldname, data = item) resp. the recursive call - is matched structurally, fail closed)
  pybrops/core/util/h5py.py : h5py_File_read_dict
    k_rd_decode           isinstance(out[key], bytes) and <dtype encoding> == "utf-8"
  every to_hdf5 / from_hdf5 of the 12 persistable classes (resolved along the MRO as c16_fields does)
    k_h5_needs_slash      groupname[-1] != '/'      +  `groupname += '/'`   (one definition; every copy must have this text)
  StandardGeneticMap / ExtendedGeneticMap (vrnt_genpos setter, to_pandas)
    k_gmap_to_cM, k_egmap_to_cM       100.0 * x
    k_gmap_from_cM, k_egmap_from_cM   0.01 * x
    k_gmap_units_M, k_gmap_units_cM   ("M","Morgans") / ("cM","centiMorgans")   (the same tuples at all eight sites)
    k_(e)gmap_default_units_to/_from  defaults of vrnt_genpos_units of the writers / readers (a default/default round trip mixes them)
    k_(e)gmap_ctor_passes_kind/_fill  does `__init__` hand self.spline_kind / self.spline_fill_value to build_spline?  + build_spline defaults
    k_egmap_default_name_col_to/_from, k_egmap_file_header, k_egmap_file_optional   column names written by to_egmap / expected by from_egmap
    k_egmap_optional_read             when from_egmap reads an optional column: over `'<name>' in df.columns` and `df['<name>'].notna().any()`
  from_pandas of both map classes, DenseCoancestryMatrix, DenseBreedingValueMatrix
    k_col_select          one row per `df[A] if isinstance(B, str) else df.iloc[:, C]` / `get_loc(A) if isinstance(B, str) else C`
  every to_hdf5 of the 12 persistable classes
    k_h5_open_mode        one row per class: the <mode> of `h5file = h5py.File(filename, <mode>)` as a function of `overwrite`; the five
                          statements that touch h5file are matched exactly (a handle is used as it is)
  DenseTwoWayDHAdditiveGeneticVarianceMatrix
    k_vm_taxazfill, k_vm_traitzfill   ceil(log10(n)) + 1
    k_vm_columns          to_pandas: output column -> (label array, axis of flattenix(self.mat) that indexes it), in column order
    k_vm_from_axes        from_pandas: for `mat[femaleix, maleix, traitix] = variance_data`, the frame column each index derives from
  DensePhasedGenotypeMatrix.from_vcf (c = pgm) / DenseGenotypeMatrix.from_vcf (c = gm), matched statement by statement
    k_vcf_<c>_chrom, k_vcf_<c>_phypos   what is appended to vrnt_chrgrp / vrnt_phypos, over int(variant.CHROM), variant.POS, .start, .end
                                        (currently int(variant.CHROM) and variant.start + 1; the former variant.POS - cyvcf2's 32-bit field - or any
                                         other arithmetic over these four attributes is translated as written, so Proofs/C16_Vcf.v : rec_of_line_model
                                         stops compiling; an expression reading anything else is Untranslatable)
    k_vcf_<c>_name                      str(variant.ID)
    k_vcf_<c>_allele_lo/_hi             the columns of variant.genotypes kept (phases[:, LO:HI])
    k_vcf_<c>_transpose, k_vcf_gm_sum_axis   numpy.int8(mat).transpose(...), mat.sum(<axis>, dtype = 'int8')
    k_vcf_<c>_ctor                      constructor field -> the local array it is filled from

`Model/C16_Kernel.v` writes h5py_File_write_dict / to_hdf5 / the unit conversions / the long-table layout in terms of these
definitions, `Proofs/C16_Kernel.v` proves them equal to the hand model (`reflexivity` wherever possible) and `Props/C16.v` restates
the round-trip theorems about the generated definitions.  Fail closed: every selector demands exactly one match and the exact
statement shape described here; anything else raises `pyexpr.Untranslatable`.
"""
import ast, os, hashlib
from translate import pyexpr as P
from translate.kernelkit import bind

H5 = "pybrops/core/util/h5py.py"
SGM = "pybrops/popgen/gmap/StandardGeneticMap.py"
EGM = "pybrops/popgen/gmap/ExtendedGeneticMap.py"
VMAT = "pybrops/model/vmat/DenseTwoWayDHAdditiveGeneticVarianceMatrix.py"

U = P.Untranslatable


def src(e):
    return ast.unparse(e)


# ------------------------------------------------------------------------------------------------ own helpers (not in pyexpr)
def zlit(s):
    """python str literal -> Gallina list of code points"""
    return "[" + "; ".join(str(ord(c)) for c in s) + "]%Z" if s else "(@nil Z)"


def str_to_coq(e, env):
    """string-valued expressions: names bound by env, str literals, concatenation"""
    if isinstance(e, ast.Name):
        if e.id in env: return env[e.id]
        raise U("name %s is not bound (string expression)" % e.id)
    if isinstance(e, ast.Constant) and isinstance(e.value, str):
        return zlit(e.value)
    if isinstance(e, ast.BinOp) and isinstance(e.op, ast.Add):
        return "(app %s %s)" % (str_to_coq(e.left, env), str_to_coq(e.right, env))
    raise U("string expression " + src(e))


def setter(repo, rel, cls, prop):
    """the FunctionDef decorated `@<prop>.setter` in class cls"""
    tree = P.parse_file(repo, rel)
    for node in tree.body:
        if isinstance(node, ast.ClassDef) and node.name == cls:
            hits = [n for n in node.body if isinstance(n, ast.FunctionDef) and n.name == prop
                    and any(src(d) == prop + ".setter" for d in n.decorator_list)]
            if len(hits) != 1: raise U("%s.%s: expected exactly one setter, found %d" % (cls, prop, len(hits)))
            return hits[0]
    raise U("%s: no class %s" % (rel, cls))


def no_doc(body):
    return [s for s in body if not (isinstance(s, ast.Expr) and isinstance(s.value, ast.Constant))]


def is_del_field(s):
    return isinstance(s, ast.Delete) and len(s.targets) == 1 and src(s.targets[0]) == "h5file[fieldname]"


def bool2(e, what):
    """a conjunction/disjunction over exactly `overwrite` and `fieldname in h5file` -> Gallina over (overwrite in_file : bool)"""
    e2 = bind(e, {"fieldname in h5file": "in_file"})
    names = set(P.names_in(e2))
    if names != {"overwrite", "in_file"}: raise U("%s: expected a test over overwrite and `fieldname in h5file`, found %s" % (what, src(e)))
    return P.to_coq(e2, P.Ctx("Z", {}, bool_env={"overwrite": "overwrite", "in_file": "in_file"}), "bool")


def units_tuple(e, var):
    """`var in ("a","b")` -> ["a","b"]"""
    if not (isinstance(e, ast.Compare) and len(e.ops) == 1 and isinstance(e.ops[0], ast.In) and src(e.left) == var
            and isinstance(e.comparators[0], ast.Tuple) and all(isinstance(x, ast.Constant) and isinstance(x.value, str) for x in e.comparators[0].elts)):
        raise U("expected `%s in (<str>, ...)`, found %s" % (var, src(e)))
    return [x.value for x in e.comparators[0].elts]


def slist(xs):
    return "[" + "; ".join('"%s"%%string' % x for x in xs) + "]"


# ------------------------------------------------------------------------------------------------ h5py_File_write_dict
def wd_kernels(repo, defs):
    fn = P.find_function(repo, H5, "h5py_File_write_dict")
    params = [a.arg for a in fn.args.args]
    if params != ["h5file", "groupname", "in_dict", "overwrite"] or fn.args.vararg or fn.args.kwarg or fn.args.kwonlyargs:
        raise U("h5py_File_write_dict: parameters %s" % params)
    if len(fn.args.defaults) != 1 or not isinstance(fn.args.defaults[0], ast.Constant) or not isinstance(fn.args.defaults[0].value, bool):
        raise U("h5py_File_write_dict: `overwrite` must be the only defaulted parameter, with a boolean default")
    default_ow = fn.args.defaults[0].value
    loops = [s for s in no_doc(fn.body) if isinstance(s, ast.For)]
    others = [s for s in no_doc(fn.body) if not isinstance(s, ast.For)]
    if len(loops) != 1 or any(not (isinstance(s, ast.Expr) and isinstance(s.value, ast.Call) and src(s.value.func).startswith("check_")) for s in others):
        raise U("h5py_File_write_dict: expected type checks followed by exactly one loop")
    loop = loops[0]
    if src(loop.target) != "(key, item)" or src(loop.iter) != "in_dict.items()" or loop.orelse:
        raise U("h5py_File_write_dict: loop header `for %s in %s`" % (src(loop.target), src(loop.iter)))
    body = loop.body
    if len(body) != 3: raise U("h5py_File_write_dict: loop body has %d statements (expected fieldname, None test, dispatch)" % len(body))
    # (1) fieldname = groupname + key
    s0 = body[0]
    if not (isinstance(s0, ast.Assign) and len(s0.targets) == 1 and src(s0.targets[0]) == "fieldname"):
        raise U("h5py_File_write_dict: first loop statement is not `fieldname = ...`")
    defs.append(P.definition("k_wd_fieldname", [("groupname", "list Z"), ("key", "list Z")], "list Z",
                             str_to_coq(s0.value, {"groupname": "groupname", "key": "key"}), "h5py_File_write_dict: fieldname = %s" % src(s0.value)))
    # (2) if item is None: [if <test>: del h5file[fieldname]]; continue
    s1 = body[1]
    if not (isinstance(s1, ast.If) and src(s1.test) == "item is None" and not s1.orelse and len(s1.body) == 2
            and isinstance(s1.body[0], ast.If) and not s1.body[0].orelse and len(s1.body[0].body) == 1 and is_del_field(s1.body[0].body[0])
            and isinstance(s1.body[1], ast.Continue)):
        raise U("h5py_File_write_dict: the None branch is not `if item is None: if <test>: del h5file[fieldname]; continue`")
    defs.append(P.definition("k_wd_del_none", [("overwrite", "bool"), ("in_file", "bool")], "bool", bool2(s1.body[0].test, "None branch"),
                             "h5py_File_write_dict (item is None): if %s: del h5file[fieldname]" % src(s1.body[0].test)))
    # (3) if isinstance(item, writable_classes): [if <test>: del]; create_dataset(fieldname, data = item)
    #     elif isinstance(item, dict): [if <test>: del]; h5py_File_write_dict(h5file, fieldname + '/', item)   else: raise
    s2 = body[2]
    if not (isinstance(s2, ast.If) and src(s2.test) == "isinstance(item, writable_classes)" and len(s2.body) == 2 and len(s2.orelse) == 1):
        raise U("h5py_File_write_dict: the data branch is not `if isinstance(item, writable_classes): ...; elif ...`")
    d0, d1 = s2.body
    if not (isinstance(d0, ast.If) and not d0.orelse and len(d0.body) == 1 and is_del_field(d0.body[0])
            and isinstance(d1, ast.Expr) and src(d1.value) == "h5file.create_dataset(fieldname, data=item)"):
        raise U("h5py_File_write_dict: data branch is not `if <test>: del h5file[fieldname]; h5file.create_dataset(fieldname, data = item)`")
    defs.append(P.definition("k_wd_del_data", [("overwrite", "bool"), ("in_file", "bool")], "bool", bool2(d0.test, "data branch"),
                             "h5py_File_write_dict (writable item): if %s: del h5file[fieldname]" % src(d0.test)))
    s3 = s2.orelse[0]
    if not (isinstance(s3, ast.If) and src(s3.test) == "isinstance(item, dict)" and len(s3.body) == 2 and len(s3.orelse) == 1 and isinstance(s3.orelse[0], ast.Raise)):
        raise U("h5py_File_write_dict: the dictionary branch is not `elif isinstance(item, dict): ...; else: raise`")
    e0, e1 = s3.body
    if not (isinstance(e0, ast.If) and not e0.orelse and len(e0.body) == 1 and is_del_field(e0.body[0])
            and isinstance(e1, ast.Expr) and isinstance(e1.value, ast.Call) and src(e1.value.func) == "h5py_File_write_dict"):
        raise U("h5py_File_write_dict: dictionary branch is not `if <test>: del h5file[fieldname]; h5py_File_write_dict(...)`")
    defs.append(P.definition("k_wd_del_dict", [("overwrite", "bool"), ("in_file", "bool")], "bool", bool2(e0.test, "dictionary branch"),
                             "h5py_File_write_dict (dict item): if %s: del h5file[fieldname]" % src(e0.test)))
    call = e1.value
    kw = {k.arg: k.value for k in call.keywords}
    if None in kw: raise U("h5py_File_write_dict: **kwargs in the recursive call")
    args = dict(zip(params, call.args)); args.update(kw)
    if len(call.args) > 4 or set(args) - set(params): raise U("h5py_File_write_dict: recursive call " + src(call))
    if src(args.get("h5file", ast.Name(id="?"))) != "h5file" or src(args.get("in_dict", ast.Name(id="?"))) != "item":
        raise U("h5py_File_write_dict: recursive call must pass h5file and item: " + src(call))
    defs.append(P.definition("k_wd_nested_group", [("fieldname", "list Z")], "list Z", str_to_coq(args["groupname"], {"fieldname": "fieldname"}),
                             "h5py_File_write_dict (dict item): recursive call with groupname = %s" % src(args["groupname"])))
    if "overwrite" in args:
        term = P.to_coq(args["overwrite"], P.Ctx("Z", {}, bool_env={"overwrite": "overwrite"}), "bool"); how = src(args["overwrite"])
    else:
        term = "true" if default_ow else "false"; how = "not passed: default %s" % default_ow
    defs.append(P.definition("k_wd_nested_overwrite", [("overwrite", "bool")], "bool", term,
                             "h5py_File_write_dict (dict item): recursive call %s  [overwrite %s]" % (src(call), how)))


def rd_kernels(repo, defs):
    fn = P.find_function(repo, H5, "h5py_File_read_dict")
    loops = [n for n in ast.walk(fn) if isinstance(n, ast.For)]
    if len(loops) != 1 or src(loops[0].target) != "key" or src(loops[0].iter) != "view.keys()":
        raise U("h5py_File_read_dict: expected exactly one loop `for key in view.keys()`")
    if src(P.the_assignment(fn, "view")) != "h5file[fieldname]": raise U("h5py_File_read_dict: view = " + src(P.the_assignment(fn, "view")))
    body = loops[0].body
    if not (len(body) == 2 and isinstance(body[0], ast.Assign) and src(body[0]) == "out[key] = view[key][()]"
            and isinstance(body[1], ast.If) and not body[1].orelse and len(body[1].body) == 1
            and src(body[1].body[0]) == "out[key] = out[key].decode('utf-8')"):
        raise U("h5py_File_read_dict: loop body is not `out[key] = view[key][()]; if <test>: out[key] = out[key].decode('utf-8')`")
    t = body[1].test
    t2 = bind(t, {"isinstance(out[key], bytes)": "is_bytes", "h5py.check_string_dtype(view[key].dtype).encoding == 'utf-8'": "is_utf8"})
    defs.append(P.definition("k_rd_decode", [("is_bytes", "bool"), ("is_utf8", "bool")], "bool",
                             P.to_coq(t2, P.Ctx("Z", {}, bool_env={"is_bytes": "is_bytes", "is_utf8": "is_utf8"}), "bool"),
                             "h5py_File_read_dict: if %s: out[key] = out[key].decode('utf-8')" % src(t)))


# ------------------------------------------------------------------------------------------------ group-name normalisation
def slash_kernel(classes, defs):
    """every to_hdf5 / from_hdf5 body (resolved as c16_fields resolves them) contains exactly one
       `if isinstance(groupname, str): if groupname[-1] != '/': groupname += '/'  elif groupname is None: groupname = ""  else: raise`"""
    from translate import c16_fields as CF
    seen = {}
    sites = []
    for key, cls in classes:
        for meth in ("to_hdf5", "from_hdf5"):
            k, fd = CF._resolve(cls, meth)
            if fd is None: raise U("%s has no %s" % (cls.__name__, meth))
            live = []                       # statements after the first top-level return are dead (DenseBreedingValueMatrix.from_hdf5)
            for st in fd.body:
                live.append(st)
                if isinstance(st, ast.Return): break
            ifs = [n for st in live for n in ast.walk(st) if isinstance(n, ast.If) and src(n.test) == "isinstance(groupname, str)"]
            if len(ifs) != 1: raise U("%s.%s: expected exactly one `if isinstance(groupname, str)`" % (k.__name__, meth))
            n = ifs[0]
            inner = no_doc(n.body)
            if meth == "from_hdf5":
                # from_hdf5 additionally checks that the group exists before it normalises the name
                inner = [s for s in inner if not (isinstance(s, ast.Expr) and isinstance(s.value, ast.Call) and src(s.value.func) == "check_h5py_File_has_group")]
            ok = (len(inner) == 1 and isinstance(inner[0], ast.If) and not inner[0].orelse and len(inner[0].body) == 1
                  and isinstance(inner[0].body[0], ast.AugAssign) and isinstance(inner[0].body[0].op, ast.Add) and src(inner[0].body[0].target) == "groupname"
                  and len(n.orelse) == 1 and isinstance(n.orelse[0], ast.If) and src(n.orelse[0].test) == "groupname is None"
                  and len(n.orelse[0].body) == 1 and src(n.orelse[0].body[0]) == "groupname = ''"
                  and len(n.orelse[0].orelse) == 1 and isinstance(n.orelse[0].orelse[0], ast.Raise))
            if not ok: raise U("%s.%s: group-name normalisation has an unrecognised shape" % (k.__name__, meth))
            text = (src(inner[0].test), src(inner[0].body[0].value))
            seen.setdefault(text, []).append("%s.%s" % (k.__name__, meth))
            sites.append("%s.%s" % (k.__name__, meth))
    if len(seen) != 1:
        raise U("group-name normalisation differs between methods: %s" % {k: v[:3] for k, v in seen.items()})
    (test, suffix), = seen.keys()
    t = ast.parse(test, mode="eval").body
    if not (isinstance(t, ast.Compare) and len(t.ops) == 1 and src(t.left) == "groupname[-1]" and isinstance(t.comparators[0], ast.Constant)
            and isinstance(t.comparators[0].value, str) and len(t.comparators[0].value) == 1):
        raise U("group-name test " + test)
    c = ord(t.comparators[0].value)
    if isinstance(t.ops[0], ast.NotEq): term = "(negb (Z.eqb (List.last groupname 0) %d))" % c
    elif isinstance(t.ops[0], ast.Eq): term = "(Z.eqb (List.last groupname 0) %d)" % c
    else: raise U("group-name test " + test)
    uniq = sorted(set(sites))
    defs.append(P.definition("k_h5_needs_slash", [("groupname", "list Z")], "bool", term,
                             "%d to_hdf5/from_hdf5 bodies (%s ...): if %s: groupname += %s" % (len(uniq), ", ".join(uniq[:3]), test, suffix)))
    defs.append(P.definition("k_h5_slash", [], "list Z", str_to_coq(ast.parse(suffix, mode="eval").body, {}), "the suffix appended: groupname += %s" % suffix))
    return len(uniq)


# ------------------------------------------------------------------------------------------------ genetic maps
def gmap_kernels(repo, defs):
    F = lambda env: P.Ctx("F", env)
    units = {"M": set(), "cM": set()}
    for tag, rel, cls in (("gmap", SGM, "StandardGeneticMap"), ("egmap", EGM, "ExtendedGeneticMap")):
        # to_pandas: vrnt_genpos_convert = self.vrnt_genpos ; if units in M: pass elif units in cM: vrnt_genpos_convert = 100.0 * vrnt_genpos_convert else raise
        fn = P.find_function(repo, rel, cls + ".to_pandas")
        if src(P.the_assignment(fn, "vrnt_genpos_convert", index=0, count=2)) != "self.vrnt_genpos":
            raise U("%s.to_pandas: vrnt_genpos_convert does not start from self.vrnt_genpos" % cls)
        e = P.the_assignment(fn, "vrnt_genpos_convert", index=1, count=2)
        defs.append(P.definition("k_%s_to_cM" % tag, [("x", "float")], "float", P.to_coq(e, F({"vrnt_genpos_convert": "x"})),
                                 "%s.to_pandas (units cM): vrnt_genpos_convert = %s" % (cls, src(e))))
        chain = [n for n in ast.walk(fn) if isinstance(n, ast.If) and "vrnt_genpos_units in" in src(n.test)]
        chain.sort(key=lambda n: n.lineno)
        if len(chain) != 2 or chain[0].orelse != [chain[1]] or not isinstance(chain[0].body[0], ast.Pass) or len(chain[1].orelse) != 1 or not isinstance(chain[1].orelse[0], ast.Raise):
            raise U("%s.to_pandas: unit dispatch is not `if units in M: pass elif units in cM: convert else: raise`" % cls)
        if not (len(chain[1].body) == 1 and isinstance(chain[1].body[0], ast.Assign) and src(chain[1].body[0].targets[0]) == "vrnt_genpos_convert"):
            raise U("%s.to_pandas: the cM branch does not assign vrnt_genpos_convert" % cls)
        units["M"].add(tuple(units_tuple(chain[0].test, "vrnt_genpos_units"))); units["cM"].add(tuple(units_tuple(chain[1].test, "vrnt_genpos_units")))
        # the converted array is what goes into the frame under the genetic-position column
        out = P.the_assignment(fn, "out", index=0)
        if not (isinstance(out, ast.Call) and src(out.func) == "pandas.DataFrame" and out.args and isinstance(out.args[0], ast.Dict)
                and any(src(k) == "vrnt_genpos_col" and src(v) == "vrnt_genpos_convert" for k, v in zip(out.args[0].keys, out.args[0].values))):
            raise U("%s.to_pandas: vrnt_genpos_col is not filled from vrnt_genpos_convert" % cls)
        # setter: array = value / value[0]; if units in M: pass elif units in cM: array = 0.01 * array else raise; self._vrnt_genpos = array
        fn = setter(repo, rel, cls, "vrnt_genpos")
        a = P.assignments_to(fn, "array")
        if [src(x.value) for x in a[:2]] != ["value", "value[0]"] or len(a) != 3: raise U("%s.vrnt_genpos setter: assignments to array: %s" % (cls, [src(x.value) for x in a]))
        e = a[2].value
        defs.append(P.definition("k_%s_from_cM" % tag, [("x", "float")], "float", P.to_coq(e, F({"array": "x"})),
                                 "%s.vrnt_genpos setter (units cM): array = %s" % (cls, src(e))))
        chain = [n for n in ast.walk(fn) if isinstance(n, ast.If) and src(n.test).startswith("units in")]
        chain.sort(key=lambda n: n.lineno)
        if len(chain) != 2 or chain[0].orelse != [chain[1]] or not isinstance(chain[0].body[0], ast.Pass) or chain[1].body != [a[2]] or len(chain[1].orelse) != 1 or not isinstance(chain[1].orelse[0], ast.Raise):
            raise U("%s.vrnt_genpos setter: unit dispatch is not `if units in M: pass elif units in cM: array = ... else: raise`" % cls)
        units["M"].add(tuple(units_tuple(chain[0].test, "units"))); units["cM"].add(tuple(units_tuple(chain[1].test, "units")))
        if src(P.the_assignment(fn, "self._vrnt_genpos")) != "array": raise U("%s.vrnt_genpos setter does not store `array`" % cls)
        if src(P.the_assignment(fn, "units", index=0, count=2)) != "'M'" or src(P.the_assignment(fn, "units", index=1, count=2)) != "value[1]":
            raise U("%s.vrnt_genpos setter: units" % cls)
    for k in units:
        if len(units[k]) != 1: raise U("genetic-map unit names differ between sites: %s" % sorted(units[k]))
    defs.append(P.definition("k_gmap_units_M", [], "list String.string", slist(list(units["M"])[0]), "unit names taken as Morgans (setter and to_pandas of both map classes)"))
    defs.append(P.definition("k_gmap_units_cM", [], "list String.string", slist(list(units["cM"])[0]), "unit names taken as centiMorgans (setter and to_pandas of both map classes)"))


# ------------------------------------------------------------------------------------------------ genetic maps: defaults, constructor, egmap
def _default(fn, name):
    """default value (a str constant or None) of parameter `name` of fn"""
    a = fn.args
    pos = a.args
    defs_ = [None] * (len(pos) - len(a.defaults)) + list(a.defaults)
    for p_, d in list(zip(pos, defs_)) + list(zip(a.kwonlyargs, a.kw_defaults)):
        if p_.arg == name:
            if d is None: raise U("%s: parameter %s has no default" % (fn.name, name))
            if isinstance(d, ast.Constant) and (isinstance(d.value, str) or d.value is None): return d.value
            raise U("%s: default of %s is %s" % (fn.name, name, src(d)))
    raise U("%s: no parameter %s" % (fn.name, name))


def ostr(v):
    return "None" if v is None else '(Some "%s"%%string)' % v


def gmap_api_kernels(repo, defs):
    for tag, rel, cls in (("gmap", SGM, "StandardGeneticMap"), ("egmap", EGM, "ExtendedGeneticMap")):
        tp = P.find_function(repo, rel, cls + ".to_pandas"); fp = P.find_function(repo, rel, cls + ".from_pandas")
        tc = P.find_function(repo, rel, cls + ".to_csv"); fc = P.find_function(repo, rel, cls + ".from_csv")
        for what in ("vrnt_genpos_units", "vrnt_genpos_col"):
            if _default(tp, what) != _default(tc, what) or _default(fp, what) != _default(fc, what):
                raise U("%s: pandas and csv codecs have different defaults for %s" % (cls, what))
        defs.append(P.definition("k_%s_default_units_to" % tag, [], "String.string", '"%s"%%string' % _default(tp, "vrnt_genpos_units"),
                                 "%s.to_pandas / to_csv: default of vrnt_genpos_units" % cls))
        defs.append(P.definition("k_%s_default_units_from" % tag, [], "String.string", '"%s"%%string' % _default(fp, "vrnt_genpos_units"),
                                 "%s.from_pandas / from_csv: default of vrnt_genpos_units" % cls))
        # __init__: if auto_build_spline: self.build_spline(<args>)   and the defaults of build_spline
        init = P.find_function(repo, rel, cls + ".__init__")
        calls = [n for n in ast.walk(init) if isinstance(n, ast.Call) and src(n.func) == "self.build_spline"]
        if len(calls) != 1: raise U("%s.__init__: expected exactly one self.build_spline(...) call" % cls)
        guard = [n for n in ast.walk(init) if isinstance(n, ast.If) and src(n.test) == "auto_build_spline" and any(c is calls[0] for c in ast.walk(n))]
        if len(guard) != 1: raise U("%s.__init__: build_spline is not guarded by `if auto_build_spline`" % cls)
        c = calls[0]
        a = [src(x) for x in c.args]; kw = {k.arg: src(k.value) for k in c.keywords}
        bs = P.find_function(repo, rel, cls + ".build_spline")
        if [x.arg for x in bs.args.args[1:3]] != ["kind", "fill_value"]: raise U("%s.build_spline: parameters" % cls)
        def stored(attr):      # self.<attr> = ... or self._<attr> = ... (exactly one of the two spellings, exactly once)
            a_ = P.assignments_to(bs, "self." + attr) + P.assignments_to(bs, "self._" + attr)
            if len(a_) != 1: raise U("%s.build_spline: %d assignments to %s" % (cls, len(a_), attr))
            return src(a_[0].value)
        if stored("spline_kind") != "kind" or stored("spline_fill_value") != "fill_value":
            raise U("%s.build_spline does not store kind / fill_value" % cls)
        kind_arg = a[0] if len(a) >= 1 else kw.get("kind"); fill_arg = a[1] if len(a) >= 2 else kw.get("fill_value")
        for got, want in ((kind_arg, "self.spline_kind"), (fill_arg, "self.spline_fill_value")):
            if got not in (None, want): raise U("%s.__init__: build_spline called with %s" % (cls, src(c)))
        asg = [src(x.value) for x in P.assignments_to(init, "self.spline_kind")]
        if asg != ["spline_kind"]: raise U("%s.__init__: self.spline_kind = %s" % (cls, asg))
        defs.append(P.definition("k_%s_ctor_passes_kind" % tag, [], "bool", "true" if kind_arg is not None else "false",
                                 "%s.__init__: if auto_build_spline: %s" % (cls, src(c))))
        defs.append(P.definition("k_%s_ctor_passes_fill" % tag, [], "bool", "true" if fill_arg is not None else "false",
                                 "%s.__init__: if auto_build_spline: %s" % (cls, src(c))))
        defs.append(P.definition("k_%s_build_default_kind" % tag, [], "String.string", '"%s"%%string' % _default(bs, "kind"), "%s.build_spline: default of kind" % cls))
        defs.append(P.definition("k_%s_build_default_fill" % tag, [], "String.string", '"%s"%%string' % _default(bs, "fill_value"), "%s.build_spline: default of fill_value" % cls))
    # ExtendedGeneticMap: names of the optional columns, writer defaults versus reader defaults, and the egmap pair
    cls = "ExtendedGeneticMap"
    tp = P.find_function(repo, EGM, cls + ".to_pandas"); fp = P.find_function(repo, EGM, cls + ".from_pandas")
    tc = P.find_function(repo, EGM, cls + ".to_csv")
    for col in ("vrnt_name_col", "vrnt_fncode_col"):
        if _default(tp, col) != _default(tc, col): raise U("%s: to_pandas / to_csv defaults of %s differ" % (cls, col))
    defs.append(P.definition("k_egmap_default_name_col_to", [], "option String.string", ostr(_default(tp, "vrnt_name_col")), "%s.to_pandas / to_csv: default of vrnt_name_col" % cls))
    defs.append(P.definition("k_egmap_default_name_col_from", [], "option String.string", ostr(_default(fp, "vrnt_name_col")), "%s.from_pandas: default of vrnt_name_col" % cls))
    te = P.find_function(repo, EGM, cls + ".to_egmap")
    calls = [n for n in ast.walk(te) if isinstance(n, ast.Call) and src(n.func) == "self.to_csv"]
    if len(calls) != 1 or calls[0].args: raise U("to_egmap: expected exactly one self.to_csv(keywords...)")
    kw = {k.arg: k.value for k in calls[0].keywords}
    def kwstr(name):
        if name in kw:
            if isinstance(kw[name], ast.Constant) and isinstance(kw[name].value, str): return kw[name].value
            raise U("to_egmap: %s = %s" % (name, src(kw[name])))
        return _default(tc, name)
    if src(kw.get("filename", ast.Name(id="?"))) != "filename" or kwstr("sep") != "\t" or kwstr("vrnt_genpos_units") not in ("M", "Morgans"):
        raise U("to_egmap: " + src(calls[0]))
    header = [kwstr(c) for c in ("vrnt_chrgrp_col", "vrnt_phypos_col", "vrnt_stop_col", "vrnt_genpos_col", "vrnt_name_col", "vrnt_fncode_col")]
    defs.append(P.definition("k_egmap_file_header", [], "list String.string", slist(header), "to_egmap: column names written (%s)" % src(calls[0]).replace("\n", " ")))
    fe = P.find_function(repo, EGM, cls + ".from_egmap")
    calls = [n for n in ast.walk(fe) if isinstance(n, ast.Call) and src(n.func) == "cls.from_pandas"]
    if len(calls) != 1 or calls[0].args: raise U("from_egmap: expected exactly one cls.from_pandas(keywords...)")
    kw = {k.arg: k.value for k in calls[0].keywords}
    for name, ix in (("vrnt_chrgrp_col", 0), ("vrnt_phypos_col", 1), ("vrnt_stop_col", 2), ("vrnt_genpos_col", 3)):
        if src(kw.get(name, ast.Name(id="?"))) != str(ix): raise U("from_egmap: %s = %s" % (name, src(kw.get(name, ast.Name(id="?")))))
    if src(kw.get("vrnt_genpos_units", ast.Name(id="?"))) not in ("'M'", "'Morgans'"): raise U("from_egmap: units")
    # <ix> if <test over `'<name>' in df.columns` and, possibly, `df['<name>'].notna().any()`> else None      (ix = 4, 5)
    expected = []; conds = {}
    for name, ix in (("vrnt_name_col", 4), ("vrnt_fncode_col", 5)):
        e = kw.get(name)
        if not (isinstance(e, ast.IfExp) and src(e.body) == str(ix) and src(e.orelse) == "None"):
            raise U("from_egmap: %s = %s" % (name, src(e) if e is not None else None))
        heads = [n for n in ast.walk(e.test) if isinstance(n, ast.Compare) and len(n.ops) == 1 and isinstance(n.ops[0], ast.In)
                 and src(n.comparators[0]) == "df.columns" and isinstance(n.left, ast.Constant) and isinstance(n.left.value, str)]
        if len(heads) != 1: raise U("from_egmap: %s: expected exactly one `'<name>' in df.columns` in %s" % (name, src(e.test)))
        col = heads[0].left.value
        table = {src(heads[0]): "in_header"}
        filled = "df[%r].notna().any()" % col
        if any(src(n) == filled for n in ast.walk(e.test)): table[filled] = "has_value"
        t2 = bind(e.test, table)
        if not set(P.names_in(t2)) <= {"in_header", "has_value"}:
            raise U("from_egmap: %s: the test %s is not over `%s` / `%s` alone" % (name, src(e.test), src(heads[0]), filled))
        term = P.to_coq(t2, P.Ctx("Z", {}, bool_env={"in_header": "in_header", "has_value": "has_value"}), "bool")
        conds.setdefault(term, []).append(src(e))
        expected.append(col)
    if len(conds) != 1: raise U("from_egmap: the two optional columns are admitted under different conditions: %s" % sorted(conds.values()))
    (term, texts), = conds.items()
    defs.append(P.definition("k_egmap_file_optional", [], "list String.string", slist(expected),
                             "from_egmap: the optional columns 4 and 5 are looked for under these header names"))
    defs.append(P.definition("k_egmap_optional_read", [("in_header", "bool"), ("has_value", "bool")], "bool", term,
                             "from_egmap: %s   [in_header = '<name>' in df.columns, has_value = df['<name>'].notna().any()]" % " ; ".join(texts)))


# ------------------------------------------------------------------------------------------------ column selection of the table readers
READERS_BY_COL = (("StandardGeneticMap", SGM, True), ("ExtendedGeneticMap", EGM, True),
                  ("DenseCoancestryMatrix", "pybrops/popgen/cmat/DenseCoancestryMatrix.py", False),
                  ("DenseBreedingValueMatrix", "pybrops/popgen/bvmat/DenseBreedingValueMatrix.py", False))
def colsel_kernels(repo, defs):
    """every `X = df[A] if isinstance(B, str) else df.iloc[:, C]` and `X = df.columns.get_loc(A) if isinstance(B, str) else C` of the
    from_pandas readers -> one row (reader, X, A, B, C); any other conditional on isinstance(_, str) in these readers is refused"""
    rows = []
    for cls, rel, named in READERS_BY_COL:
        fn = P.find_function(repo, rel, cls + ".from_pandas")
        for n in ast.walk(fn):
            if not (isinstance(n, ast.IfExp) and isinstance(n.test, ast.Call) and src(n.test.func) == "isinstance" and len(n.test.args) == 2 and src(n.test.args[1]) == "str"):
                continue
            b = src(n.test.args[0]); body, orelse = n.body, n.orelse
            if isinstance(body, ast.Subscript) and src(body.value) == "df" and isinstance(orelse, ast.Subscript) and src(orelse.value) == "df.iloc" \
                    and isinstance(orelse.slice, ast.Tuple) and len(orelse.slice.elts) == 2 and src(orelse.slice.elts[0]) == ":":
                a, c = src(body.slice), src(orelse.slice.elts[1]); form = "series"
            elif isinstance(body, ast.Call) and src(body.func) in ("df.columns.get_loc", "taxa_col_pdi.get_loc") and len(body.args) == 1:
                a, c = src(body.args[0]), src(orelse); form = "index"
            else:
                raise U("%s.from_pandas: unrecognised column selection %s" % (cls, src(n)))
            tgt = None
            for st in ast.walk(fn):
                if isinstance(st, ast.Assign) and st.value is n: tgt = src(st.targets[0])
            rows.append((cls, tgt or "<inline>", form, a, b, c, named and tgt is not None))
    if len(rows) < 12: raise U("column-selection table: only %d rows found" % len(rows))
    term = "[" + ";\n   ".join('("%s"%%string, "%s"%%string, "%s"%%string, "%s"%%string, "%s"%%string, %s)' % (r[0], r[1], r[3], r[4], r[5], "true" if r[6] else "false") for r in rows) + "]"
    defs.append(P.definition("k_col_select", [], "list (String.string * String.string * String.string * String.string * String.string * bool)", term,
                             "from_pandas readers: (class, variable assigned, column given by NAME, variable tested by isinstance(_, str), column given by POSITION, "
                             "is the variable named <field> and the argument <field>_col?)"))
    return len(rows)


# ------------------------------------------------------------------------------------------------ variance matrices (long table)
def vm_kernels(repo, defs):
    cls = "DenseTwoWayDHAdditiveGeneticVarianceMatrix"
    fn = P.find_function(repo, VMAT, cls + ".to_pandas")
    Zc = lambda env: P.Ctx("Z", env)
    for nm, dim in (("taxazfill", "self.ntaxa"), ("traitzfill", "self.ntrait")):
        e = P.the_assignment(fn, nm)
        key = "math.ceil(math.log10(%s))" % dim
        defs.append(P.definition("k_vm_" + nm, [("clog", "Z")], "Z", P.to_coq(bind(e, {key: "clog"}), Zc({"clog": "clog"})),
                                 "%s.to_pandas: %s = %s   [clog = %s]" % (cls, nm, src(e), key)))
    # flatmat, (femaleix, maleix, traitix) = flattenix(self.mat)
    unp = [n for n in ast.walk(fn) if isinstance(n, ast.Assign) and isinstance(n.value, ast.Call) and src(n.value.func) == "flattenix"]
    if len(unp) != 1 or src(unp[0].value) != "flattenix(self.mat)": raise U("%s.to_pandas: expected exactly one flattenix(self.mat)" % cls)
    tgt = unp[0].targets[0]
    if not (isinstance(tgt, ast.Tuple) and len(tgt.elts) == 2 and isinstance(tgt.elts[0], ast.Name) and isinstance(tgt.elts[1], ast.Tuple)
            and all(isinstance(x, ast.Name) for x in tgt.elts[1].elts) and len(tgt.elts[1].elts) == 3):
        raise U("%s.to_pandas: flattenix result is not unpacked as `flat, (i, j, k)`" % cls)
    flat = tgt.elts[0].id; axis = {x.id: i for i, x in enumerate(tgt.elts[1].elts)}
    # label sources: taxa / trait are self.taxa / self.trait or synthesised
    for v, attr in (("taxa", "self.taxa"), ("trait", "self.trait")):
        a = P.assignments_to(fn, v)
        if len(a) != 2 or src(a[1].value) != attr: raise U("%s.to_pandas: %s is not (synthesised | %s)" % (cls, v, attr))
    cols = []
    stmts = []
    def flat_stmts(body, guard):
        for s in body:
            if isinstance(s, ast.If):
                flat_stmts(s.body, src(s.test)); flat_stmts(s.orelse, guard)
            else: stmts.append((s, guard))
    flat_stmts(fn.body, None)
    values = None
    for s, guard in stmts:
        if isinstance(s, ast.Assign) and src(s.targets[0]) == "values":
            values = s.value; continue
        if isinstance(s, ast.Expr) and isinstance(s.value, ast.Call) and src(s.value.func) == "out_dict.update":
            d = s.value.args[0]
            if not (isinstance(d, ast.Dict) and len(d.keys) == 1 and isinstance(d.keys[0], ast.Name)): raise U("%s.to_pandas: out_dict.update(%s)" % (cls, src(d)))
            col = d.keys[0].id; v = d.values[0]
            if src(v) == "values":
                # values = None if self.taxa_grp is None else self.taxa_grp[ix]
                if not (isinstance(values, ast.IfExp) and src(values.test) == "self.taxa_grp is None" and src(values.body) == "None"): raise U("%s.to_pandas: values = %s" % (cls, src(values)))
                v = values.orelse
                if guard != "%s is not None" % col: raise U("%s.to_pandas: column %s is guarded by %s" % (cls, col, guard))
                optional = True
            else:
                if guard is not None: raise U("%s.to_pandas: column %s is guarded by %s" % (cls, col, guard))
                optional = False
            if isinstance(v, ast.Name) and v.id == flat: cols.append((col, "mat", 3, optional)); continue
            if not (isinstance(v, ast.Subscript) and isinstance(v.slice, ast.Name) and v.slice.id in axis): raise U("%s.to_pandas: column %s = %s" % (cls, col, src(v)))
            arr = {"taxa": "taxa", "trait": "trait", "self.taxa_grp": "taxa_grp"}.get(src(v.value))
            if arr is None: raise U("%s.to_pandas: column %s = %s" % (cls, col, src(v)))
            cols.append((col, arr, axis[v.slice.id], optional))
    if len(cols) != 6: raise U("%s.to_pandas: %d output columns recognised (expected 6)" % (cls, len(cols)))
    term = "[" + "; ".join('("%s"%%string, "%s"%%string, %d%%nat, %s)' % (c, a, i, "true" if o else "false") for c, a, i, o in cols) + "]"
    defs.append(P.definition("k_vm_columns", [], "list (String.string * String.string * nat * bool)", term,
                             "%s.to_pandas: column parameter -> (label array, axis of flattenix(self.mat) used as index | 3 = the flattened values, optional column?)" % cls))
    # from_pandas: mat[femaleix, maleix, traitix] = variance_data ; each index array is computed from which frame column?
    fn = P.find_function(repo, VMAT, cls + ".from_pandas")
    asg = [n for n in ast.walk(fn) if isinstance(n, ast.Assign) and isinstance(n.targets[0], ast.Subscript) and src(n.targets[0].value) == "mat"]
    if len(asg) != 1 or not isinstance(asg[0].targets[0].slice, ast.Tuple): raise U("%s.from_pandas: expected exactly one `mat[i, j, k] = ...`" % cls)
    idx = [src(x) for x in asg[0].targets[0].slice.elts]
    colix = {}          # data array -> column parameter
    for nm in ("female", "male", "trait", "variance"):
        e = P.the_assignment(fn, nm + "_data")
        want = "df.iloc[:, %s_colix].to_numpy" % nm
        if not (isinstance(e, ast.Call) and src(e.func) == want): raise U("%s.from_pandas: %s_data = %s" % (cls, nm, src(e)))
        colix[nm + "_data"] = nm + "_col"
        a = P.assignments_to(fn, nm + "_colix")
        if [src(x.value) for x in a] != ["df.columns.get_loc(%s_col)" % nm, "%s_col" % nm]: raise U("%s.from_pandas: %s_colix" % (cls, nm))
    origin = {}
    for n in ast.walk(fn):      # femaleix[female_data == taxon] = i   inside `for i, taxon in enumerate(taxa)`
        if isinstance(n, ast.Assign) and isinstance(n.targets[0], ast.Subscript) and isinstance(n.targets[0].slice, ast.Compare) and src(n.value) == "i":
            c = n.targets[0].slice
            if src(c.comparators[0]) != "taxon" or not isinstance(c.ops[0], ast.Eq): raise U("%s.from_pandas: %s" % (cls, src(n)))
            origin[src(n.targets[0].value)] = colix.get(src(c.left))
    e = [n for n in ast.walk(fn) if isinstance(n, ast.Assign) and src(n.targets[0]) == "(trait, traitix)"]
    if len(e) != 1 or src(e[0].value) != "numpy.unique(trait_data, return_inverse=True)": raise U("%s.from_pandas: trait, traitix" % cls)
    origin["traitix"] = colix["trait_data"]
    if src(asg[0].value) != "variance_data": raise U("%s.from_pandas: mat[...] = %s" % (cls, src(asg[0].value)))
    if src(P.the_assignment(fn, "taxa")) != "numpy.union1d(female_taxa, male_taxa)": raise U("%s.from_pandas: taxa" % cls)
    axes = []
    for i in idx:
        if origin.get(i) is None: raise U("%s.from_pandas: index %s of mat[...] has no recognised origin" % (cls, i))
        axes.append(origin[i])
    defs.append(P.definition("k_vm_from_axes", [], "list String.string", slist(axes),
                             "%s.from_pandas: mat[%s] = variance_data   (the frame column each index array is computed from)" % (cls, ", ".join(idx))))
    shp = P.the_assignment(fn, "mat")
    if not (isinstance(shp, ast.Call) and src(shp.func) == "numpy.full" and src(shp.args[0]) == "(nfemale, nmale, ntrait)" and src(shp.args[1]) == "numpy.nan"):
        raise U("%s.from_pandas: mat = %s" % (cls, src(shp)))
    for nm, w in (("nfemale", "len(taxa)"), ("nmale", "len(taxa)"), ("ntrait", "len(trait)")):
        if src(P.the_assignment(fn, nm)) != w: raise U("%s.from_pandas: %s" % (cls, nm))


# ------------------------------------------------------------------------------------------------ how to_hdf5 opens a file given by name
def open_kernels(classes, defs):
    """every to_hdf5 (resolved along the MRO as c16_fields does): the statements that mention `h5file` are exactly
         h5file = None
         if isinstance(filename, (str, Path)): h5file = h5py.File(filename, <mode>)
         elif isinstance(filename, h5py.File): ...; h5file = filename
         h5py_File_write_dict(h5file, groupname, data, overwrite)
         if isinstance(filename, (str, Path)): h5file.close()
       -> one row per class: (harness key, fun overwrite => <mode>).  <mode> is a str constant or a conditional expression over
       `overwrite` whose branches are str constants; anything else (another statement touching h5file, a second h5py.File call, a
       computed mode) is refused."""
    from translate import c16_fields as CF
    rows = []; texts = []
    def mode_term(e, where):
        if isinstance(e, ast.Constant) and isinstance(e.value, str):
            if '"' in e.value: raise U("%s: mode %r" % (where, e.value))
            return '"%s"%%string' % e.value
        if isinstance(e, ast.IfExp):
            t = e.test
            if isinstance(t, ast.Name) and t.id == "overwrite": c = "overwrite"
            elif isinstance(t, ast.UnaryOp) and isinstance(t.op, ast.Not) and isinstance(t.operand, ast.Name) and t.operand.id == "overwrite": c = "(negb overwrite)"
            else: raise U("%s: the mode depends on %s" % (where, src(t)))
            return "(if %s then %s else %s)" % (c, mode_term(e.body, where), mode_term(e.orelse, where))
        raise U("%s: file mode %s is not a str constant or a conditional over `overwrite`" % (where, src(e)))
    for key, cls in classes:
        k, fd = CF._resolve(cls, "to_hdf5")
        if fd is None: raise U("%s has no to_hdf5" % cls.__name__)
        where = "%s.to_hdf5" % k.__name__
        params = [a.arg for a in fd.args.args]
        if params != ["self", "filename", "groupname", "overwrite"] or fd.args.vararg or fd.args.kwarg or fd.args.kwonlyargs:
            raise U("%s: parameters %s" % (where, params))
        calls = [n for n in ast.walk(fd) if isinstance(n, ast.Call) and src(n.func) in ("h5py.File", "File", "h5py.File.__call__")]
        if len(calls) != 1: raise U("%s: expected exactly one h5py.File(...) call, found %d" % (where, len(calls)))
        call = calls[0]
        kw = {x.arg: x.value for x in call.keywords}
        if None in kw or set(kw) - {"name", "mode"} or len(call.args) > 2 or (len(call.args) == 2 and "mode" in kw):
            raise U("%s: %s" % (where, src(call)))
        name = call.args[0] if call.args else kw.get("name")
        if name is None or src(name) != "filename": raise U("%s: the file opened is not `filename`: %s" % (where, src(call)))
        mode = call.args[1] if len(call.args) == 2 else kw.get("mode", ast.Constant(value="r"))
        term = mode_term(mode, where)
        # every simple statement that mentions h5file, with the test of the enclosing `if` (None at top level)
        found = []
        def visit(body, guard):
            for st in body:
                if isinstance(st, ast.If):
                    visit(st.body, src(st.test)); visit(st.orelse, guard)
                elif isinstance(st, (ast.For, ast.While, ast.With, ast.Try, ast.FunctionDef, ast.ClassDef)):
                    if "h5file" in src(st) or "h5py.File(" in src(st): raise U("%s: h5file used inside a compound statement: %s" % (where, src(st)[:80]))
                elif any(isinstance(n, ast.Name) and n.id == "h5file" for n in ast.walk(st)):
                    found.append((src(st), guard))
        visit(fd.body, None)
        by_name = "isinstance(filename, (str, Path))"; by_handle = "isinstance(filename, h5py.File)"
        want = [("h5file = None", None), ("h5file = " + src(call), by_name), ("h5file = filename", by_handle),
                ("h5py_File_write_dict(h5file, groupname, data, overwrite)", None), ("h5file.close()", by_name)]
        if found != want:
            raise U("%s: the statements that use h5file are %s" % (where, [f for f in found if f not in want] or found))
        rows.append('("%s"%%string, fun overwrite : bool => %s)' % (key, term))
        texts.append("%s: %s" % (where, src(call)))
    uniq = sorted(set(texts))
    defs.append(P.definition("k_h5_open_mode", [], "list (String.string * (bool -> String.string))", "[" + ";\n   ".join(rows) + "]",
                             "to_hdf5 of the %d persistable classes, file given by NAME (str / Path): %s   [a handle is used as it is: h5file = filename]"
                             % (len(rows), " | ".join(uniq)[:600])))
    return len(rows)


# ------------------------------------------------------------------------------------------------ VCF importers
VCF_IMPORTERS = (("pgm", "pybrops/popgen/gmat/DensePhasedGenotypeMatrix.py", "DensePhasedGenotypeMatrix"),
                 ("gm", "pybrops/popgen/gmat/DenseGenotypeMatrix.py", "DenseGenotypeMatrix"))
_VCF_ATTRS = {"int(variant.CHROM)": "chrom", "variant.POS": "POS", "variant.start": "start", "variant.end": "end_"}
_VCF_PARAMS = [("chrom", "Z"), ("POS", "Z"), ("start", "Z"), ("end_", "Z")]

def bind_any(expr, table):
    """like kernelkit.bind, but a key need not occur (which attribute an expression reads is what is being extracted)"""
    import copy
    class T(ast.NodeTransformer):
        def visit(self, node):
            if isinstance(node, ast.expr) and src(node) in table:
                return ast.copy_location(ast.Name(id=table[src(node)], ctx=ast.Load()), node)
            return self.generic_visit(node)
    return T().visit(copy.deepcopy(expr))


def vcf_kernels(repo, defs):
    """both from_vcf bodies, matched statement by statement (fail closed):
         vcf = cyvcf2.VCF(filename) ; taxa = numpy.array(vcf.samples, dtype = object) ; mat/vrnt_chrgrp/vrnt_phypos/vrnt_name = []
         for variant in vcf:
             vrnt_chrgrp.append(<Z expression over int(variant.CHROM), variant.POS, variant.start, variant.end>)   -> k_vcf_<c>_chrom
             vrnt_phypos.append(<the same fragment>)   [now: variant.start + 1, 64-bit]                           -> k_vcf_<c>_phypos
             vrnt_name.append(str(variant.ID))                                                                    -> k_vcf_<c>_name
             phases = numpy.int8(variant.genotypes) ; mat.append(phases[:, LO:HI].copy())                         -> k_vcf_<c>_allele_lo/_hi
         mat = numpy.int8(mat).transpose(A, B, C)                                                                 -> k_vcf_<c>_transpose
         [gm: ploidy = mat.shape[0] ; mat = mat.sum(AX, dtype = 'int8')]                                          -> k_vcf_gm_sum_axis
         vrnt_chrgrp = numpy.int64(vrnt_chrgrp) ; vrnt_phypos = numpy.int64(vrnt_phypos) ; vrnt_name = numpy.array(vrnt_name, dtype = object)
         out = cls(<field> = <the local of the same name>, ...)                                                   -> k_vcf_<c>_ctor
         if auto_group_vrnt: out.group_vrnt() ; return out"""
    for tag, rel, cls in VCF_IMPORTERS:
        where = cls + ".from_vcf"
        fn = P.find_function(repo, rel, where)
        params = [a.arg for a in fn.args.args]
        if params != ["cls", "filename", "auto_group_vrnt"] or fn.args.vararg or fn.args.kwarg or fn.args.kwonlyargs: raise U("%s: parameters %s" % (where, params))
        if [src(d) for d in fn.args.defaults] != ["True"]: raise U("%s: defaults %s" % (where, [src(d) for d in fn.args.defaults]))
        body = [s for s in no_doc(fn.body) if not (isinstance(s, ast.Expr) and isinstance(s.value, ast.Call) and src(s.value.func).startswith("check_"))]
        loops = [s for s in body if isinstance(s, ast.For)]
        if len(loops) != 1 or src(loops[0].target) != "variant" or src(loops[0].iter) != "vcf" or loops[0].orelse:
            raise U("%s: expected exactly one loop `for variant in vcf`" % where)
        k = body.index(loops[0])
        pre = [src(s) for s in body[:k]]
        if pre != ["vcf = cyvcf2.VCF(filename)", "taxa = numpy.array(vcf.samples, dtype=object)", "mat = []", "vrnt_chrgrp = []", "vrnt_phypos = []", "vrnt_name = []"]:
            raise U("%s: statements before the loop are %s" % (where, pre))
        lb = loops[0].body
        if len(lb) != 5: raise U("%s: the loop body has %d statements (expected 3 appends, phases, mat.append)" % (where, len(lb)))
        def appended(st, lst):
            if not (isinstance(st, ast.Expr) and isinstance(st.value, ast.Call) and src(st.value.func) == lst + ".append" and len(st.value.args) == 1 and not st.value.keywords):
                raise U("%s: expected `%s.append(<expr>)`, found `%s`" % (where, lst, src(st)))
            return st.value.args[0]
        for st, lst, nm in ((lb[0], "vrnt_chrgrp", "chrom"), (lb[1], "vrnt_phypos", "phypos")):
            e = appended(st, lst)
            e2 = bind_any(e, _VCF_ATTRS)
            extra = set(P.names_in(e2)) - set(_VCF_ATTRS.values())
            if extra: raise U("%s: %s.append(%s) reads %s (only int(variant.CHROM), variant.POS, variant.start, variant.end are modelled)" % (where, lst, src(e), sorted(extra)))
            defs.append(P.definition("k_vcf_%s_%s" % (tag, nm), _VCF_PARAMS, "Z", P.to_coq(e2, P.Ctx("Z", {v: v for v in _VCF_ATTRS.values()})),
                                     "%s: %s.append(%s)   [chrom = int(variant.CHROM), end_ = variant.end]" % (where, lst, src(e))))
        e = appended(lb[2], "vrnt_name")
        if src(e) != "str(variant.ID)": raise U("%s: vrnt_name.append(%s): only str(variant.ID) is modelled" % (where, src(e)))
        defs.append(P.definition("k_vcf_%s_name" % tag, [("ID", "option (list Z)")], "list Z", "match ID with Some s => s | None => %s end" % zlit("None"),
                                 "%s: vrnt_name.append(%s)   [cyvcf2 gives None for a '.' identifier; str(None) = 'None']" % (where, src(e))))
        if src(lb[3]) != "phases = numpy.int8(variant.genotypes)": raise U("%s: `%s`" % (where, src(lb[3])))
        e = appended(lb[4], "mat")
        ok = (isinstance(e, ast.Call) and isinstance(e.func, ast.Attribute) and e.func.attr == "copy" and not e.args and not e.keywords
              and isinstance(e.func.value, ast.Subscript) and src(e.func.value.value) == "phases" and isinstance(e.func.value.slice, ast.Tuple)
              and len(e.func.value.slice.elts) == 2 and src(e.func.value.slice.elts[0]) == ":" and isinstance(e.func.value.slice.elts[1], ast.Slice))
        if not ok: raise U("%s: mat.append(%s) is not mat.append(phases[:, LO:HI].copy())" % (where, src(e)))
        sl = e.func.value.slice.elts[1]
        if sl.step is not None or not all(isinstance(x, ast.Constant) and isinstance(x.value, int) and x.value >= 0 for x in (sl.lower, sl.upper)): raise U("%s: allele slice %s" % (where, src(sl)))
        defs.append(P.definition("k_vcf_%s_allele_lo" % tag, [], "nat", "%d%%nat" % sl.lower.value, "%s: mat.append(%s)" % (where, src(e))))
        defs.append(P.definition("k_vcf_%s_allele_hi" % tag, [], "nat", "%d%%nat" % sl.upper.value, "%s: mat.append(%s)" % (where, src(e))))
        post = body[k + 1:]
        e = post[0] if post else None
        ok = (isinstance(e, ast.Assign) and src(e.targets[0]) == "mat" and isinstance(e.value, ast.Call) and isinstance(e.value.func, ast.Attribute)
              and e.value.func.attr == "transpose" and src(e.value.func.value) == "numpy.int8(mat)" and not e.value.keywords
              and all(isinstance(x, ast.Constant) and isinstance(x.value, int) for x in e.value.args))
        if not ok: raise U("%s: after the loop: `%s` is not mat = numpy.int8(mat).transpose(a, b, c)" % (where, src(e) if e is not None else None))
        defs.append(P.definition("k_vcf_%s_transpose" % tag, [], "list nat", "[" + "; ".join("%d%%nat" % x.value for x in e.value.args) + "]",
                                 "%s: %s   [the list built in the loop has axes (variant, taxon, allele)]" % (where, src(e))))
        rest = [src(x) for x in post[1:]]
        if tag == "gm":
            if len(post) < 3 or rest[0] != "ploidy = mat.shape[0]": raise U("%s: `%s`" % (where, rest[:1]))
            e = post[2]
            ok = (isinstance(e, ast.Assign) and src(e.targets[0]) == "mat" and isinstance(e.value, ast.Call) and src(e.value.func) == "mat.sum" and len(e.value.args) == 1
                  and isinstance(e.value.args[0], ast.Constant) and isinstance(e.value.args[0].value, int) and [(x.arg, src(x.value)) for x in e.value.keywords] == [("dtype", "'int8'")])
            if not ok: raise U("%s: `%s` is not mat = mat.sum(<axis>, dtype = 'int8')" % (where, src(e)))
            defs.append(P.definition("k_vcf_gm_sum_axis", [], "nat", "%d%%nat" % e.value.args[0].value, "%s: %s" % (where, src(e))))
            rest = rest[2:]
        if rest[:3] != ["vrnt_chrgrp = numpy.int64(vrnt_chrgrp)", "vrnt_phypos = numpy.int64(vrnt_phypos)", "vrnt_name = numpy.array(vrnt_name, dtype=object)"]:
            raise U("%s: array conversions are %s" % (where, rest[:3]))
        if rest[4:] != ["if auto_group_vrnt:\n    out.group_vrnt()", "return out"] or len(rest) != 6: raise U("%s: tail is %s" % (where, rest[3:]))
        c = post[-3]
        if not (isinstance(c, ast.Assign) and src(c.targets[0]) == "out" and isinstance(c.value, ast.Call) and src(c.value.func) == "cls" and not c.value.args
                and all(x.arg is not None for x in c.value.keywords)):
            raise U("%s: `%s` is not out = cls(<keywords>)" % (where, src(c)))
        kws = sorted((x.arg, src(x.value)) for x in c.value.keywords)
        defs.append(P.definition("k_vcf_%s_ctor" % tag, [], "list (String.string * String.string)", "[" + "; ".join('("%s"%%string, "%s"%%string)' % kv for kv in kws) + "]",
                                 "%s: %s   (constructor field, local it is filled from; sorted by field)" % (where, src(c).replace("\n", " "))))


def translate(repo, gen_dir, classes):
    """classes: [(harness key, class object)] of the HDF5-persistable classes (imported from `repo` by the harness)"""
    defs = []
    wd_kernels(repo, defs)
    rd_kernels(repo, defs)
    nsites = slash_kernel(classes, defs)
    gmap_kernels(repo, defs)
    gmap_api_kernels(repo, defs)
    ncol = colsel_kernels(repo, defs)
    vm_kernels(repo, defs)
    nopen = open_kernels(classes, defs)
    vcf_kernels(repo, defs)
    text = (P.HEADER % "harness/translate/c16_kernel.py") + \
        "From Coq Require Import ZArith Bool List String PrimFloat.\nImport ListNotations.\nLocal Open Scope Z_scope.\n\n" + "\n".join(defs)
    path = os.path.join(gen_dir, "C16_Kernel.v")
    P.write_if_changed(path, text)
    return {"file": "Gen/C16_Kernel.v", "definitions": len(defs), "slash_sites": nsites, "column_selections": ncol, "open_modes": nopen, "sha256": hashlib.sha256(text.encode()).hexdigest()[:16]}
