"""C18 kernel translator: regenerates `coq/Gen/C18_Kernel.v` from the current source on every run (protocol: tools/PHASE2_BRIEF.md
section B; exemplar: c09_kernel.py).  One Gallina `Definition` per kernel expression of the haplotype-block code on which the C18
theorems turn; `Proofs/C18_Kernel.v` proves `hand model = composition of the generated definitions` and `Props/C18.v` restates the
main theorems about those compositions, so a changed expression breaks the build of `Props/C18.vo` whatever the random cases exercise.

  haplo.nhaploblk_chrom   k_too_few (guard `nhaploblk < nchr`), k_genlen (`genpos[spix-1] - genpos[stix]`, index expressions included),
                          k_ideal (`(nhaploblk / genlen.sum()) * genlen`, operation order), k_start (`numpy.ones(nchr)`),
                          k_rounds (`range(nhaploblk - nchr)`), k_diff (`actual - ideal`), k_pick (`diff.argmin()`), k_bump (`+= 1`)
  haplo.haplobin          k_chroms (which array feeds nhap/stix/spix), k_hbound (`linspace(genpos[stix], genpos[spix-1], nhap+1)`),
                          k_chrmap / k_bin_target (`genpos[stix:spix]`, `haplobin[stix:spix][mask]`), k_in_bin (`>= lower & <= upper`),
                          k_prev0 (`k - nhap - 1`), k_spread_count (`range(stix, spix)`), k_spread_step (`min(max(lab, prev, k-(spix-m)), prev+1)`)
  haplo.haplobin_bounds   k_break (`haplobin[i] != prev`), k_hlen (`hspix - hstix`), k_bounds_result (order of the returned triple)
  haplomat, OHV/OPV/GB._calc_haplomat (tags h_, ohv_, opv_, gb_)
                          k_<tag>too_few, k_<tag>overfull (`nblk > chrgrp_len`), k_<tag>nblk / k_<tag>hbin (argument order handed to the helpers),
                          k_<tag>nblocks (third component of the shape), k_<tag>runs (`enumerate(zip(hstix, hspix))`),
                          k_<tag>block_val (`mat[:,:,st:sp].dot(u[st:sp,i])`: both slices)
  OHV                     k_xmap (triudix / triuix by unique_parents), k_ohv_scale (`ploidy * ...max((0,2)).sum(1)`),
                          k_ohv_<Cls>_ploidy (the `ploidy =` argument of from_pgmat_gpmod), k_ohv_latent (Subset), k_ohvw_<Cls>_contrib / _latent
  OPV / GB                k_opv_ploidy, k_opv_latent; k_gb_ploidy, k_gb_st, k_gb_latent

Sorts: pyexpr's "Z" and "Q", plus two sorts registered here for the duration of a run (pyexpr.py itself is not edited):
"O" = the abstract number type of the model (`ops T`: o_add O ..., comparisons o_leb/o_ltb) and "N" = natural numbers for
comparisons, indices and iteration counts (`range(a - b)` runs max(0, a-b) times = `Nat.sub`).
PINS: statements that the model abstracts (chunking of _calc_ohvmat, the order of the loop body, the array a label is written to)
must keep the exact text recorded here; a change fails closed.  Everything fails closed with `pyexpr.Untranslatable`.
"""
import ast, os, copy, hashlib
from contextlib import contextmanager
from translate import pyexpr as P
from translate.kernelkit import bind, elementwise_bool

HAPLO = "pybrops/core/util/haplo.py"
OHV = "pybrops/breed/prot/sel/prob/OptimalHaploidValueSelectionProblem.py"
OPV = "pybrops/breed/prot/sel/prob/OptimalPopulationValueSelectionProblem.py"
GB = "pybrops/breed/prot/sel/prob/GenotypeBuilderSelectionProblem.py"

_EXTRA = {
    "O": {"add": "o_add O", "sub": "o_sub O", "mul": "o_mul O", "div": "o_div O", "neg": None,
          "lt": lambda a, b: "(o_ltb O %s %s)" % (a, b), "le": lambda a, b: "(o_leb O %s %s)" % (a, b), "eq": None},
    "N": {"add": "Nat.add", "sub": "Nat.sub", "mul": "Nat.mul", "div": None, "neg": None,
          "lt": lambda a, b: "(Nat.ltb %s %s)" % (a, b), "le": lambda a, b: "(Nat.leb %s %s)" % (a, b),
          "eq": lambda a, b: "(Nat.eqb %s %s)" % (a, b)},
}


@contextmanager
def _extra_sorts():
    for k in _EXTRA:
        if k in P._SORTS:
            raise P.Untranslatable("c18_kernel: sort %s already registered" % k)
    P._SORTS.update(_EXTRA)
    try:
        yield
    finally:
        for k in _EXTRA:
            P._SORTS.pop(k, None)


def U(msg, node=None):
    where = "" if node is None else " (line %d: %s)" % (getattr(node, "lineno", 0), ast.unparse(node)[:100].replace("\n", " "))
    return P.Untranslatable("c18_kernel: " + msg + where)


def src(e):
    return ast.unparse(e)


# ------------------------------------------------------------------------------------------------ small fail-closed helpers
def _no_unary(expr, sort):
    for n in ast.walk(expr):
        if isinstance(n, ast.UnaryOp) and isinstance(n.op, (ast.USub, ast.UAdd)):
            raise U("unary sign in sort %s" % sort, expr)
        if isinstance(n, ast.BinOp) and isinstance(n.op, ast.Div) and sort == "N":
            raise U("division in sort N", expr)


def nat(expr, env):
    """translate an index / count expression in sort N: small non-negative integer literals become nat literals"""
    _no_unary(expr, "N")
    e = copy.deepcopy(expr)
    env = dict(env)

    class L(ast.NodeTransformer):
        def visit_Constant(self, node):
            if isinstance(node.value, int) and not isinstance(node.value, bool) and 0 <= node.value <= 64:
                nm = "lit%d_" % node.value
                env[nm] = "%d%%nat" % node.value
                return ast.copy_location(ast.Name(id=nm, ctx=ast.Load()), node)
            raise U("constant %r in an index/count expression" % (node.value,), node)
    e = L().visit(e)
    return P.to_coq(e, P.Ctx("N", env))


def natb(expr, env):
    e = copy.deepcopy(expr)
    for n in ast.walk(e):
        if isinstance(n, ast.Constant):
            raise U("constant in a natural-number comparison", expr)
    _no_unary(e, "N")
    return P.to_coq(e, P.Ctx("N", env), "bool")


def elems(expr, arrays, ix_env):
    """replace every `A[index]` (A in `arrays`: python name -> coq list term, element default) by a fresh name bound to
    `(nth <index in sort N> A default)`; returns (expression, environment additions)"""
    add = {}
    e = copy.deepcopy(expr)

    class S(ast.NodeTransformer):
        def visit_Subscript(self, node):
            if isinstance(node.value, ast.Name) and node.value.id in arrays and not isinstance(node.slice, (ast.Slice, ast.Tuple)):
                lst, dflt = arrays[node.value.id]
                nm = "elem%d_" % len(add)
                add[nm] = "(nth %s %s %s)" % (nat(node.slice, ix_env), lst, dflt)
                return ast.copy_location(ast.Name(id=nm, ctx=ast.Load()), node)
            return self.generic_visit(node)
    return S().visit(e), add


def ops_num(expr, env):
    _no_unary(expr, "O")
    return P.to_coq(expr, P.Ctx("O", env))


def ops_bool(expr, env):
    _no_unary(expr, "O")
    return P.to_coq(expr, P.Ctx("O", env), "bool")


def pin(what, got, want):
    """a statement the model abstracts must keep its recorded text"""
    if got != want:
        raise U("%s is now `%s`, this translator describes `%s`" % (what, got, want))


def slice1(node, array, env):
    """`array[lo:hi]` -> (lo, hi) in sort N"""
    if not (isinstance(node, ast.Subscript) and src(node.value) == array and isinstance(node.slice, ast.Slice)
            and node.slice.lower is not None and node.slice.upper is not None and node.slice.step is None):
        raise U("expected %s[lo:hi]" % array, node)
    return nat(node.slice.lower, env), nat(node.slice.upper, env)


def call_names(expr, func, env):
    """`func(a, b, ...)` with plain names as arguments -> the coq terms of the arguments in source order"""
    if not (isinstance(expr, ast.Call) and src(expr.func) == func and not expr.keywords):
        raise U("expected a call of %s with positional arguments" % func, expr)
    out = []
    for a in expr.args:
        if not (isinstance(a, ast.Name) and a.id in env):
            raise U("argument of %s is not one of %s" % (func, sorted(env)), a)
        out.append(env[a.id])
    return out


def loops(fn):
    out = [n for n in ast.walk(fn) if isinstance(n, ast.For)]
    out.sort(key=lambda n: (n.lineno, n.col_offset))
    return out


def range_args(loop, nargs):
    it = loop.iter
    if not (isinstance(it, ast.Call) and src(it.func) == "range" and len(it.args) == nargs and not it.keywords):
        raise U("expected a loop over range() with %d argument(s)" % nargs, loop.iter)
    return it.args


def body_code(stmts):
    """statements without docstrings and comments-only expressions"""
    return [s for s in stmts if not (isinstance(s, ast.Expr) and isinstance(s.value, ast.Constant))]


SHAPES = {"haplomat.shape[0]": "Z.of_nat (length hm)", "self._haplomat.shape[0]": "Z.of_nat (length hm)"}


# ------------------------------------------------------------------------------------------------ the translation
def translate(repo, gen_dir):
    with _extra_sorts():
        text, n = _translate(repo)
    path = os.path.join(gen_dir, "C18_Kernel.v")
    P.write_if_changed(path, text)
    return {"file": "Gen/C18_Kernel.v", "definitions": n, "sha256": hashlib.sha256(text.encode()).hexdigest()[:16]}


GLUE = """From Coq Require Import ZArith QArith Bool List.
From PV Require Import Lib.Common Model.C18_Haplo.
Import ListNotations.

(* static glue (not generated): numpy/python primitives named by the generated definitions *)
Definition zmax3 (a b c : Z) : Z := Z.max (Z.max a b) c.                       (* python max(a, b, c) *)
Definition linspace_num {T} (O : ops T) (lo hi : T) (num : nat) : list T := linspace O lo hi (Nat.pred num).   (* numpy.linspace(lo, hi, num) *)
Definition triudix (ntaxa nparent : nat) : list (list nat) := xmap_from true nparent 0 ntaxa.    (* pybrops.core.util.array.triudix *)
Definition triuix (ntaxa nparent : nat) : list (list nat) := xmap_from false nparent 0 ntaxa.    (* pybrops.core.util.array.triuix *)

"""


def _translate(repo):
    defs = []
    TO = "{T : Type} (O : ops T)"

    def D(name, params, rtype, term, where):
        defs.append("(* src: %s *)\nDefinition %s %s : %s :=\n  %s.\n" % (where.replace("(*", "( *").replace("*)", "* )"), name, params, rtype, term))

    # =============================================================================== haplo.nhaploblk_chrom
    fn = P.find_function(repo, HAPLO, "nhaploblk_chrom")
    tests = P.if_tests(fn)
    if len(tests) != 1:
        raise U("nhaploblk_chrom: expected exactly one if statement, found %d" % len(tests))
    D("k_too_few", "(nhaploblk nchr : nat)", "bool", natb(tests[0], {"nhaploblk": "nhaploblk", "nchr": "nchr"}),
      "nhaploblk_chrom: if %s: raise" % src(tests[0]))
    pin("nhaploblk_chrom: nchr", src(P.the_assignment(fn, "nchr")), "len(chrgrp_stix)")
    e = P.the_assignment(fn, "genlen")
    e2, add = elems(e, {"genpos": ("gp", "(o_ofn O 0)")}, {"chrgrp_stix": "st", "chrgrp_spix": "sp"})
    D("k_genlen", TO + " (gp : list T) (st sp : nat)", "T", ops_num(e2, add), "nhaploblk_chrom: genlen = %s   (per chromosome)" % src(e))
    e = P.the_assignment(fn, "nhaploblk_ideal")
    D("k_ideal", TO + " (nhaploblk : nat) (total g : T)", "T",
      ops_num(bind(e, {"genlen.sum()": "total"}), {"nhaploblk": "(o_ofn O nhaploblk)", "total": "total", "genlen": "g"}),
      "nhaploblk_chrom: nhaploblk_ideal = %s   (genlen.sum() bound as total)" % src(e))
    e = P.the_assignment(fn, "nhaploblk_chrom")
    pin("nhaploblk_chrom: start of the apportionment", src(e), "numpy.ones(nchr, dtype='int')")
    D("k_start", "(nchr : nat)", "list nat", "repeat 1%nat nchr", "nhaploblk_chrom: nhaploblk_chrom = %s" % src(e))
    lp = loops(fn)
    if len(lp) != 1:
        raise U("nhaploblk_chrom: expected exactly one loop")
    (cnt,) = range_args(lp[0], 1)
    D("k_rounds", "(nhaploblk nchr : nat)", "nat", nat(cnt, {"nhaploblk": "nhaploblk", "nchr": "nchr"}),
      "nhaploblk_chrom: for i in %s" % src(lp[0].iter))
    body = body_code(lp[0].body)
    if not (len(body) == 3 and isinstance(body[0], ast.Assign) and src(body[0].targets[0]) == "diff"
            and isinstance(body[1], ast.Assign) and src(body[1].targets[0]) == "ix" and isinstance(body[2], ast.AugAssign)):
        raise U("nhaploblk_chrom: loop body is not `diff = ...; ix = ...; nhaploblk_chrom[ix] += ...`", lp[0])
    e = body[0].value
    D("k_diff", TO + " (count : nat) (ideal : T)", "T", ops_num(e, {"nhaploblk_chrom": "(o_ofn O count)", "nhaploblk_ideal": "ideal"}),
      "nhaploblk_chrom: diff = %s" % src(e))
    pin("nhaploblk_chrom: choice of the chromosome", src(body[1].value), "diff.argmin()")
    D("k_pick", TO + " (diff : list T)", "nat", "argmin O diff", "nhaploblk_chrom: ix = %s" % src(body[1].value))
    aug = body[2]
    if not (src(aug.target) == "nhaploblk_chrom[ix]" and isinstance(aug.op, ast.Add)):
        raise U("nhaploblk_chrom: expected nhaploblk_chrom[ix] += ...", aug)
    D("k_bump", "(x : nat)", "nat", "Nat.add x %s" % nat(aug.value, {}), "nhaploblk_chrom: %s" % src(aug))
    pin("nhaploblk_chrom: returned value", src(P.the_return(fn)), "nhaploblk_chrom")

    # =============================================================================== haplo.haplobin
    fn = P.find_function(repo, HAPLO, "haplobin")
    lp = loops(fn)
    if len(lp) != 3:
        raise U("haplobin: expected three loops (chromosomes, bins, markers), found %d" % len(lp))
    chrom_loop, bin_loop, mark_loop = lp
    pin("haplobin: chromosome loop", src(chrom_loop.iter), "range(nchr)")
    pin("haplobin: nchr", src(P.the_assignment(fn, "nchr")), "len(chrgrp_stix)")
    pin("haplobin: first label", src(P.the_assignment(fn, "k")), "0")
    if bin_loop not in ast.walk(chrom_loop) or mark_loop not in ast.walk(chrom_loop) or mark_loop in ast.walk(bin_loop):
        raise U("haplobin: the bin loop and the marker loop must both be directly inside the chromosome loop")
    # which array feeds nhap / stix / spix
    per = {}
    for nm in ("nhap", "stix", "spix"):
        e = P.the_assignment(fn, nm)
        if not (isinstance(e, ast.Subscript) and isinstance(e.value, ast.Name) and src(e.slice) == "i"
                and e.value.id in ("nhaploblk_chrom", "chrgrp_stix", "chrgrp_spix")):
            raise U("haplobin: %s is not <parameter>[i]" % nm, e)
        per[nm] = e.value.id
    D("k_chroms", "(nhaploblk_chrom chrgrp_stix chrgrp_spix : list nat)", "list (nat * (nat * nat))",
      "combine %s (combine %s %s)" % (per["nhap"], per["stix"], per["spix"]),
      "haplobin: nhap = %s[i]; stix = %s[i]; spix = %s[i]" % (per["nhap"], per["stix"], per["spix"]))
    e = P.the_assignment(fn, "hbound")
    if not (isinstance(e, ast.Call) and src(e.func) == "numpy.linspace" and len(e.args) == 3 and not e.keywords):
        raise U("haplobin: hbound is not numpy.linspace(lo, hi, num)", e)
    ixenv = {"stix": "stix", "spix": "spix", "nhap": "nhap"}
    a0, add0 = elems(e.args[0], {"genpos": ("gp", "(o_ofn O 0)")}, ixenv)
    a1, add1 = elems(e.args[1], {"genpos": ("gp", "(o_ofn O 0)")}, ixenv)
    D("k_hbound", TO + " (gp : list T) (stix spix nhap : nat)", "list T",
      "linspace_num O %s %s %s" % (ops_num(a0, add0), ops_num(a1, add1), nat(e.args[2], ixenv)), "haplobin: hbound = %s" % src(e))
    pin("haplobin: bin loop", src(bin_loop.iter), "range(nhap)")
    body = body_code(bin_loop.body)
    want = ["chrmap", "lmask", "umask", "mask", "haplobin[stix:spix][mask]"]
    if not (len(body) == 6 and all(isinstance(s, ast.Assign) and src(s.targets[0]) == w for s, w in zip(body, want))
            and isinstance(body[5], ast.AugAssign) and src(body[5]) == "k += 1"):
        raise U("haplobin: bin loop body is not `chrmap; lmask; umask; mask; haplobin[stix:spix][mask] = k; k += 1`", bin_loop)
    lo, hi = slice1(body[0].value, "genpos", ixenv)
    D("k_chrmap", "{A : Type} (genpos : list A) (stix spix : nat)", "list A", "slice %s %s genpos" % (lo, hi), "haplobin: chrmap = %s" % src(body[0].value))
    tgt = body[4].targets[0]
    if not (isinstance(tgt, ast.Subscript) and src(tgt.slice) == "mask"):
        raise U("haplobin: label assignment target", tgt)
    lo, hi = slice1(tgt.value, "haplobin", ixenv)
    pin("haplobin: label written by bin j", src(body[4].value), "k")
    D("k_bin_target", "{A : Type} (haplobin : list A) (stix spix : nat)", "list A", "slice %s %s haplobin" % (lo, hi),
      "haplobin: %s = k" % src(tgt))
    inl = {"lmask": src(body[1].value), "umask": src(body[2].value)}
    m = bind(body[3].value, {"lmask": "lmask", "umask": "umask"})          # both names must occur in `mask`

    class Inline(ast.NodeTransformer):
        def visit_Name(self, node):
            if node.id == "lmask": return copy.deepcopy(body[1].value)
            if node.id == "umask": return copy.deepcopy(body[2].value)
            return node
    m = elementwise_bool(Inline().visit(copy.deepcopy(body[3].value)))
    D("k_in_bin", TO + " (x lower upper : T)", "bool", ops_bool(m, {"chrmap": "x", "hbound[j]": "lower", "hbound[j + 1]": "upper"}),
      "haplobin: lmask = %s; umask = %s; mask = %s" % (inl["lmask"], inl["umask"], src(body[3].value)))
    zenv = {"k": "k", "nhap": "nhap", "prev": "prev", "spix": "spix", "m": "m", "haplobin[m]": "label"}
    e = P.the_assignment(fn, "prev", index=0, count=2)
    D("k_prev0", "(k nhap : Z)", "Z", P.to_coq(e, P.Ctx("Z", zenv)), "haplobin: prev = %s   (k = label after the chromosome's last bin)" % src(e))
    a, b = range_args(mark_loop, 2)
    pin("haplobin: marker loop variable", src(mark_loop.target), "m")
    D("k_spread_first", "(stix spix : nat)", "nat", nat(a, ixenv), "haplobin: for m in %s   (first marker)" % src(mark_loop.iter))
    D("k_spread_count", "(stix spix : nat)", "nat", "Nat.sub %s %s" % (nat(b, ixenv), nat(a, ixenv)), "haplobin: for m in %s   (number of markers)" % src(mark_loop.iter))
    body = body_code(mark_loop.body)
    if not (len(body) == 2 and src(body[0].targets[0]) == "prev" and src(body[1]) == "haplobin[m] = prev"):
        raise U("haplobin: marker loop body is not `prev = ...; haplobin[m] = prev`", mark_loop)
    e = body[0].value
    D("k_spread_step", "(label prev k spix m : Z)", "Z", P.to_coq(e, P.Ctx("Z", zenv, calls={"min": ("Z.min", 2), "max": ("zmax3", 3)})),
      "haplobin: prev = %s" % src(e))
    pin("haplobin: returned value", src(P.the_return(fn)), "haplobin")

    # =============================================================================== haplo.haplobin_bounds
    fn = P.find_function(repo, HAPLO, "haplobin_bounds")
    tests = P.if_tests(fn)
    lp = loops(fn)
    if len(tests) != 1 or len(lp) != 1:
        raise U("haplobin_bounds: expected one loop with one if statement")
    pin("haplobin_bounds: loop", src(lp[0].iter), "range(1, len(haplobin))")
    pin("haplobin_bounds: first label", src(P.the_assignment(fn, "prev", index=0, count=2)), "haplobin[0]")
    pin("haplobin_bounds: first start", src(P.the_assignment(fn, "hstix", index=0, count=2)), "[0]")
    pin("haplobin_bounds: stops", src(P.the_assignment(fn, "hspix", index=0, count=2)), "[]")
    D("k_break", "(label prev : nat)", "bool", natb(tests[0], {"haplobin[i]": "label", "prev": "prev"}), "haplobin_bounds: if %s" % src(tests[0]))
    ifnode = [n for n in ast.walk(fn) if isinstance(n, ast.If)][0]
    pin("haplobin_bounds: body of the if", "; ".join(src(s) for s in body_code(ifnode.body)), "hspix.append(i); prev = haplobin[i]; hstix.append(i)")
    after = [src(s) for s in body_code(fn.body)]
    if "hspix.append(len(haplobin))" not in after:
        raise U("haplobin_bounds: the last stop index len(haplobin) is no longer appended")
    e = P.the_assignment(fn, "hlen")
    D("k_hlen", "(hspix hstix : nat)", "nat", nat(e, {"hspix": "hspix", "hstix": "hstix"}), "haplobin_bounds: hlen = %s" % src(e))
    r = P.the_return(fn)
    if not (isinstance(r, ast.Tuple) and len(r.elts) == 3 and all(isinstance(x, ast.Name) and x.id in ("hstix", "hspix", "hlen") for x in r.elts)):
        raise U("haplobin_bounds: return is not a triple of hstix/hspix/hlen", r)
    D("k_bounds_result", "(hstix hspix hlen : list nat)", "list nat * list nat * list nat", "(%s, %s, %s)" % tuple(x.id for x in r.elts),
      "haplobin_bounds: return %s" % src(r))

    # =============================================================================== the four haplotype-matrix builders
    for tag, rel, qual, gname, uname in (
            ("h_", HAPLO, "haplomat", "genomemat", "u_a"),
            ("ohv_", OHV, "OptimalHaploidValueSelectionProblemMixin._calc_haplomat", "mat", "u"),
            ("opv_", OPV, "OptimalPopulationValueSelectionProblemMixin._calc_haplomat", "mat", "u"),
            ("gb_", GB, "GenotypeBuilderSelectionProblemMixin._calc_haplomat", "mat", "u")):
        fn = P.find_function(repo, rel, qual)
        tests = P.if_tests(fn)
        if len(tests) != 3:
            raise U("%s: expected three if statements (grouping, total, per-chromosome), found %d" % (qual, len(tests)))
        pin("%s: nchr" % qual, src(P.the_assignment(fn, "nchr")), "len(chrgrp_stix)")
        D("k_%stoo_few" % tag, "(nhaploblk nchr : nat)", "bool", natb(tests[1], {"nhaploblk": "nhaploblk", "nchr": "nchr"}),
          "%s: if %s: raise" % (qual, src(tests[1])))
        t = tests[2]
        if not (isinstance(t, ast.Call) and src(t.func) == "numpy.any" and len(t.args) == 1 and not t.keywords):
            raise U("%s: third test is not numpy.any(<comparison>)" % qual, t)
        D("k_%soverfull" % tag, "(nblk chrgrp_len : nat)", "bool", natb(t.args[0], {"nblk": "nblk", "chrgrp_len": "chrgrp_len"}),
          "%s: if %s: raise   (per chromosome)" % (qual, src(t)))
        names = {"nhaploblk": "nhaploblk", "genpos": "genpos", "chrgrp_stix": "chrgrp_stix", "chrgrp_spix": "chrgrp_spix", "nblk": "nblk"}
        e = P.the_assignment(fn, "nblk")
        D("k_%snblk" % tag, TO + " (nhaploblk : nat) (genpos : list T) (chrgrp_stix chrgrp_spix : list nat)", "res (list nat)",
          "nhaploblk_chrom O " + " ".join(call_names(e, "nhaploblk_chrom", names)), "%s: nblk = %s" % (qual, src(e)))
        e = P.the_assignment(fn, "hbin")
        D("k_%shbin" % tag, TO + " (nblk : list nat) (genpos : list T) (chrgrp_stix chrgrp_spix : list nat)", "list (option nat)",
          "haplobin O " + " ".join(call_names(e, "haplobin", names)), "%s: hbin = %s" % (qual, src(e)))
        e = P.the_assignment(fn, "s")
        if not (isinstance(e, ast.Tuple) and len(e.elts) == 4 and isinstance(e.elts[2], ast.Name) and e.elts[2].id == "nhaploblk"
                and src(e.elts[0]) == gname + ".shape[0]" and src(e.elts[1]) == gname + ".shape[1]" and src(e.elts[3]) == uname + ".shape[1]"):
            raise U("%s: shape is not (phases, individuals, nhaploblk, traits)" % qual, e)
        pin("%s: allocation" % qual, src(P.the_assignment(fn, "hmat")), "numpy.empty(s, dtype=%s.dtype)" % uname)
        D("k_%snblocks" % tag, "(nhaploblk : nat)", "nat", e.elts[2].id, "%s: s = %s   (third dimension)" % (qual, src(e)))
        pin("%s: boundaries" % qual, src(P.the_assignment(fn, "(hstix, hspix, hlen)")), "haplobin_bounds(hbin)")
        lp = loops(fn)
        if len(lp) != 2 or lp[1] not in ast.walk(lp[0]):
            raise U("%s: expected the trait loop with the block loop inside" % qual)
        pin("%s: trait loop" % qual, src(lp[0].iter), "range(hmat.shape[3])")
        pin("%s: block loop target" % qual, src(lp[1].target), "(j, (st, sp))")
        it = lp[1].iter
        if not (isinstance(it, ast.Call) and src(it.func) == "enumerate" and len(it.args) == 1 and isinstance(it.args[0], ast.Call)
                and src(it.args[0].func) == "zip"):
            raise U("%s: block loop is not over enumerate(zip(...))" % qual, it)
        za = call_names(it.args[0], "zip", {"hstix": "hstix", "hspix": "hspix"})
        if len(za) != 2:
            raise U("%s: zip of two arrays expected" % qual, it)
        D("k_%sruns" % tag, "(hstix hspix : list nat)", "list (nat * nat)", "combine %s %s" % tuple(za), "%s: for j, (st, sp) in %s" % (qual, src(it)))
        body = body_code(lp[1].body)
        if not (len(body) == 1 and isinstance(body[0], ast.Assign)):
            raise U("%s: block loop body is not one assignment" % qual, lp[1])
        pin("%s: entry written" % qual, src(body[0].targets[0]), "hmat[:, :, j, i]")
        v = body[0].value
        if not (isinstance(v, ast.Call) and isinstance(v.func, ast.Attribute) and v.func.attr == "dot" and len(v.args) == 1 and not v.keywords):
            raise U("%s: block value is not <genotypes>.dot(<effects>)" % qual, v)
        g, uu = v.func.value, v.args[0]
        if not (isinstance(g, ast.Subscript) and src(g.value) == gname and isinstance(g.slice, ast.Tuple) and len(g.slice.elts) == 3
                and src(g.slice.elts[0]) == ":" and src(g.slice.elts[1]) == ":" and isinstance(g.slice.elts[2], ast.Slice)):
            raise U("%s: genotype operand is not %s[:, :, lo:hi]" % (qual, gname), g)
        if not (isinstance(uu, ast.Subscript) and src(uu.value) == uname and isinstance(uu.slice, ast.Tuple) and len(uu.slice.elts) == 2
                and isinstance(uu.slice.elts[0], ast.Slice) and src(uu.slice.elts[1]) == "i"):
            raise U("%s: effect operand is not %s[lo:hi, i]" % (qual, uname), uu)
        senv = {"st": "st", "sp": "sp"}
        gs, us = g.slice.elts[2], uu.slice.elts[0]
        for s_ in (gs, us):
            if s_.lower is None or s_.upper is None or s_.step is not None:
                raise U("%s: open or strided slice in the block value" % qual, v)
        D("k_%sblock_val" % tag, "(g : list Z) (ucol : list Q) (st sp : nat)", "Q",
          "dotZQ (slice %s %s g) (slice %s %s ucol)" % (nat(gs.lower, senv), nat(gs.upper, senv), nat(us.lower, senv), nat(us.upper, senv)),
          "%s: hmat[:, :, j, i] = %s" % (qual, src(v)))
        pin("%s: returned value" % qual, src(P.the_return(fn)), "hmat")

    # =============================================================================== OHV: cross map, ohvmat, latent functions
    fn = P.find_function(repo, OHV, "OptimalHaploidValueSelectionProblemMixin._calc_xmap")
    ifs = [n for n in ast.walk(fn) if isinstance(n, ast.If)]
    if len(ifs) != 1 or src(ifs[0].test) != "unique_parents" or len(ifs[0].body) != 1 or len(ifs[0].orelse) != 1:
        raise U("_calc_xmap: expected `if unique_parents: return ... else: return ...`")
    br = []
    for st_ in (ifs[0].body[0], ifs[0].orelse[0]):
        if not (isinstance(st_, ast.Return) and isinstance(st_.value, ast.Call) and src(st_.value.func) == "numpy.array"
                and len(st_.value.args) == 1 and isinstance(st_.value.args[0], ast.Call) and src(st_.value.args[0].func) == "list"
                and len(st_.value.args[0].args) == 1):
            raise U("_calc_xmap: branch is not return numpy.array(list(<generator>(...)))", st_)
        gen = st_.value.args[0].args[0]
        if not (isinstance(gen, ast.Call) and src(gen.func) in ("triudix", "triuix")):
            raise U("_calc_xmap: unknown index generator", gen)
        br.append("%s %s" % (src(gen.func), " ".join(call_names(gen, src(gen.func), {"ntaxa": "ntaxa", "nparent": "nparent"}))))
    D("k_xmap", "(ntaxa nparent : nat) (unique_parents : bool)", "list (list nat)", "if unique_parents then %s else %s" % tuple(br),
      "_calc_xmap: if unique_parents: %s else: %s" % (src(ifs[0].body[0]), src(ifs[0].orelse[0])))

    fn = P.find_function(repo, OHV, "OptimalHaploidValueSelectionProblemMixin._calc_ohvmat")
    pin("_calc_ohvmat: nconfig", src(P.the_assignment(fn, "nconfig")), "xmap.shape[0]")
    pin("_calc_ohvmat: allocation", src(P.the_assignment(fn, "out")), "numpy.empty((nconfig, haplomat.shape[3]), dtype=haplomat.dtype)")
    pin("_calc_ohvmat: chunk step", src(P.the_assignment(fn, "step")), "nconfig if mem is None else mem")
    lp = loops(fn)
    if len(lp) != 1:
        raise U("_calc_ohvmat: expected one chunk loop")
    pin("_calc_ohvmat: chunk loop", src(lp[0].target) + " in " + src(lp[0].iter), "(rst, rsp) in zip(range(0, nconfig, step), srange(step, nconfig, step))")
    body = body_code(lp[0].body)
    if not (len(body) == 2 and src(body[0]) == "xconfig = xmap[rst:rsp, :]" and isinstance(body[1], ast.Assign) and src(body[1].targets[0]) == "out[rst:rsp, :]"):
        raise U("_calc_ohvmat: chunk body is not `xconfig = xmap[rst:rsp, :]; out[rst:rsp, :] = ...`", lp[0])
    e = body[1].value
    D("k_ohv_scale", "(ploidy best_sum : Q)", "Q",
      P.to_coq(bind(e, {"haplomat[:, xconfig, :, :].max((0, 2)).sum(1)": "best_sum"}), P.Ctx("Q", {"ploidy": "ploidy", "best_sum": "best_sum"})),
      "_calc_ohvmat: out[rst:rsp, :] = %s   (max over (phase, parent), sum over blocks bound as best_sum)" % src(e))
    pin("_calc_ohvmat: returned value", src(P.the_return(fn)), "out")

    for cls in ("Subset", "Real", "Integer", "Binary"):
        qual = "OptimalHaploidValue%sSelectionProblem" % cls
        fn = P.find_function(repo, OHV, qual + ".from_pgmat_gpmod")
        pin("%s.from_pgmat_gpmod: haplomat" % qual, src(P.the_assignment(fn, "haplomat")), "cls._calc_haplomat(pgmat, gpmod, nhaploblk)")
        pin("%s.from_pgmat_gpmod: xmap" % qual, src(P.the_assignment(fn, "xmap")), "cls._calc_xmap(pgmat.ntaxa, nparent, unique_parents)")
        e = P.the_assignment(fn, "ohvmat")
        if not (isinstance(e, ast.Call) and src(e.func) == "cls._calc_ohvmat" and not e.args):
            raise U("%s.from_pgmat_gpmod: ohvmat is not cls._calc_ohvmat(keywords)" % qual, e)
        kw = {k.arg: src(k.value) for k in e.keywords}
        if set(kw) != {"ploidy", "haplomat", "xmap", "mem"} or kw["haplomat"] != "haplomat" or kw["xmap"] != "xmap" or kw["ploidy"] not in SHAPES:
            raise U("%s.from_pgmat_gpmod: unexpected arguments of _calc_ohvmat: %r" % (qual, kw), e)
        D("k_ohv_%s_ploidy" % cls, "(hm : hmat_t)", "Z", SHAPES[kw["ploidy"]], "%s.from_pgmat_gpmod: ohvmat = %s" % (qual, src(e)))
        outc = P.the_assignment(fn, "out")
        okw = {k.arg: src(k.value) for k in outc.keywords if k.arg} if isinstance(outc, ast.Call) else {}
        if okw.get("ohvmat") != "ohvmat" or okw.get("decn_space_xmap") != "xmap":
            raise U("%s.from_pgmat_gpmod: the problem is not built from ohvmat / xmap" % qual, outc)
        fn = P.find_function(repo, OHV, qual + ".latentfn")
        if cls == "Subset":
            e = P.the_assignment(fn, "out")
            D("k_ohv_latent", "(n total : Q)", "Q",
              P.to_coq(bind(e, {"len(x)": "n", "self._ohvmat[x, :].sum(0)": "total"}), P.Ctx("Q", {"n": "n", "total": "total"})),
              "%s.latentfn: out = %s" % (qual, src(e)))
        else:
            e = P.the_assignment(fn, "contrib")
            D("k_ohvw_%s_contrib" % cls, "(xsum xi : Q)", "Q", P.to_coq(bind(e, {"x.sum()": "xsum"}), P.Ctx("Q", {"xsum": "xsum", "x": "xi"})),
              "%s.latentfn: contrib = %s" % (qual, src(e)))
            e = P.the_assignment(fn, "out")
            D("k_ohvw_%s_latent" % cls, "(dot : Q)", "Q", P.to_coq(bind(e, {"contrib.dot(self._ohvmat)": "dot"}), P.Ctx("Q", {"dot": "dot"})),
              "%s.latentfn: out = %s" % (qual, src(e)))
        pin("%s.latentfn: returned value" % qual, src(P.the_return(fn)), "out")

    # =============================================================================== OPV and genotype builder latent functions
    fn = P.find_function(repo, OPV, "OptimalPopulationValueSelectionProblemMixin.ploidy")
    r = src(P.the_return(fn))
    if r not in SHAPES:
        raise U("OPV ploidy property returns %s" % r)
    D("k_opv_ploidy", "(hm : hmat_t)", "Z", SHAPES[r], "OptimalPopulationValueSelectionProblemMixin.ploidy: return %s" % r)
    fn = P.find_function(repo, OPV, "OptimalPopulationValueSubsetSelectionProblem.latentfn")
    e = P.the_assignment(fn, "out")
    D("k_opv_latent", "(ploidy best_sum : Q)", "Q",
      P.to_coq(bind(e, {"self._haplomat[:, x, :, :].max((0, 1)).sum(0)": "best_sum"}), P.Ctx("Q", {"self.ploidy": "ploidy", "best_sum": "best_sum"})),
      "OptimalPopulationValueSubsetSelectionProblem.latentfn: out = %s" % src(e))
    pin("OPV latentfn: returned value", src(P.the_return(fn)), "out")
    fn = P.find_function(repo, OPV, "OptimalPopulationValueSubsetSelectionProblem.from_pgmat_gpmod")
    pin("OPV from_pgmat_gpmod: haplomat", src(P.the_assignment(fn, "haplomat")), "cls._calc_haplomat(pgmat, gpmod, nhaploblk)")

    fn = P.find_function(repo, GB, "GenotypeBuilderSelectionProblemMixin.ploidy")
    r = src(P.the_return(fn))
    if r not in SHAPES:
        raise U("GB ploidy property returns %s" % r)
    D("k_gb_ploidy", "(hm : hmat_t)", "Z", SHAPES[r], "GenotypeBuilderSelectionProblemMixin.ploidy: return %s" % r)
    fn = P.find_function(repo, GB, "GenotypeBuilderSubsetSelectionProblem.latentfn")
    pin("GB latentfn: best phase", src(P.the_assignment(fn, "bestphase")), "self._haplomat[:, x, :, :].max(0)")
    stm = [src(s) for s in body_code(fn.body)]
    if "bestphase.sort(0)" not in stm:
        raise U("GB latentfn: bestphase.sort(0) is gone")
    pin("GB latentfn: k", src(P.the_assignment(fn, "k")), "len(x)")
    pin("GB latentfn: sp", src(P.the_assignment(fn, "sp")), "k")
    e = P.the_assignment(fn, "st")
    D("k_gb_st", "(k nbestfndr : nat)", "nat", nat(e, {"k": "k", "self.nbestfndr": "nbestfndr"}), "GenotypeBuilderSubsetSelectionProblem.latentfn: st = %s" % src(e))
    e = P.the_assignment(fn, "out")
    D("k_gb_latent", "(ploidy nbestfndr top_sum : Q)", "Q",
      P.to_coq(bind(e, {"bestphase[st:sp, :, :].sum((0, 1))": "top_sum"}),
               P.Ctx("Q", {"self.ploidy": "ploidy", "self.nbestfndr": "nbestfndr", "top_sum": "top_sum"})),
      "GenotypeBuilderSubsetSelectionProblem.latentfn: out = %s" % src(e))
    pin("GB latentfn: returned value", src(P.the_return(fn)), "out")

    text = (P.HEADER % "harness/translate/c18_kernel.py") + GLUE + "\n".join(defs)
    return text, len(defs)
