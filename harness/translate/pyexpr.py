"""Shared, fail-closed translator of *kernel expressions* of the pybrops source into Gallina text.

Purpose (DESIGN 4 / 14): for the few expressions on which a property turns (a comparison at a boundary, a quotient versus a
rounded reciprocal, the body of a map function, a loop guard) the Coq model does not restate the expression by hand: a
property's translator locates the statement in the current source by (file, function qualname, selector), translates the
expression with `to_coq` and writes it into `coq/Gen/CXX_Kernel.v` as a `Definition`; the hand model *uses* that
definition and the theorems are proved about it.  A change of the expression changes the regenerated definition, so the
proof obligations are re-checked against what the code says now; an expression outside the supported fragment is an error
of the check (never silently skipped).

Supported fragment (everything else raises `Untranslatable`):
  numbers (int; float literals only if exactly representable as a short dyadic/decimal rational — emitted as an exact rational),
  names bound by the caller's environment `env` (python name or dotted attribute text -> coq term),
  unary -, not;  + - * /  (// and % only in sort "Z");  ** with a small non-negative integer literal exponent;
  comparisons < <= > >= == != (chains);  and / or;  conditional expressions;  calls listed in `calls`
  (python dotted name -> (coq function, arity)).
Sorts: "Q" (exact rationals: Qplus, Qle_bool ...), "R" (Coq reals: Rplus, exp ...; comparisons are propositions and are
refused in boolean position), "Z" (integers), "F" (PrimFloat binary64, operation order preserved).
"""
import ast, os
from fractions import Fraction


class Untranslatable(Exception):
    pass


# ---------------------------------------------------------------------------------------------- locating code
def parse_file(repo, rel):
    path = os.path.join(repo, rel)
    with open(path, "rb") as f:
        data = f.read()
    return ast.parse(data.decode("utf8").replace("\r\n", "\n"), filename=path)


def find_function(repo, rel, qualname):
    """qualname: 'func' or 'Class.method' (nested classes/functions by further dots). -> ast.FunctionDef"""
    node = parse_file(repo, rel)
    for part in qualname.split("."):
        found = None
        for child in getattr(node, "body", []):
            if isinstance(child, (ast.FunctionDef, ast.AsyncFunctionDef, ast.ClassDef)) and child.name == part:
                found = child
                break
        if found is None:
            raise Untranslatable("%s: no definition %r (looking for %s)" % (rel, part, qualname))
        node = found
    if not isinstance(node, ast.FunctionDef):
        raise Untranslatable("%s: %s is not a function" % (rel, qualname))
    return node


def _target_text(t):
    try:
        return ast.unparse(t)
    except Exception:          # pragma: no cover
        return None


def assignments_to(fn, target, include_aug=False):
    """all `target = expr` statements in fn (source order); target is the unparsed text of the left-hand side"""
    out = []
    for node in ast.walk(fn):
        if isinstance(node, ast.Assign):
            for t in node.targets:
                if _target_text(t) == target:
                    out.append(node)
        elif isinstance(node, ast.AnnAssign) and node.value is not None and _target_text(node.target) == target:
            out.append(node)
        elif include_aug and isinstance(node, ast.AugAssign) and _target_text(node.target) == target:
            out.append(node)
    out.sort(key=lambda n: (n.lineno, n.col_offset))
    return out


def the_assignment(fn, target, index=None, count=None):
    """the expression assigned to `target`; if index is None there must be exactly one assignment (or exactly `count`)"""
    a = assignments_to(fn, target)
    if count is not None and len(a) != count:
        raise Untranslatable("%s: expected %d assignments to %s, found %d" % (fn.name, count, target, len(a)))
    if index is None:
        if len(a) != 1:
            raise Untranslatable("%s: expected exactly one assignment to %s, found %d" % (fn.name, target, len(a)))
        return a[0].value
    if not (0 <= index < len(a)):
        raise Untranslatable("%s: no assignment #%d to %s (found %d)" % (fn.name, index, target, len(a)))
    return a[index].value


def loop_tests(fn, kind=ast.While):
    out = [n for n in ast.walk(fn) if isinstance(n, kind)]
    out.sort(key=lambda n: (n.lineno, n.col_offset))
    return out


def the_while_test(fn, index=None):
    w = loop_tests(fn, ast.While)
    if index is None:
        if len(w) != 1:
            raise Untranslatable("%s: expected exactly one while loop, found %d" % (fn.name, len(w)))
        return w[0].test
    if not (0 <= index < len(w)):
        raise Untranslatable("%s: no while loop #%d" % (fn.name, index))
    return w[index].test


def if_tests(fn):
    out = [n for n in ast.walk(fn) if isinstance(n, ast.If)]
    out.sort(key=lambda n: (n.lineno, n.col_offset))
    return [n.test for n in out]


def the_return(fn, index=None):
    r = [n for n in ast.walk(fn) if isinstance(n, ast.Return) and n.value is not None]
    r.sort(key=lambda n: (n.lineno, n.col_offset))
    if index is None:
        if len(r) != 1:
            raise Untranslatable("%s: expected exactly one return with a value, found %d" % (fn.name, len(r)))
        return r[0].value
    if not (0 <= index < len(r)):
        raise Untranslatable("%s: no return #%d" % (fn.name, index))
    return r[index].value


def names_in(expr):
    return sorted({ast.unparse(n) for n in ast.walk(expr) if isinstance(n, (ast.Name, ast.Attribute))})


# ---------------------------------------------------------------------------------------------- translation
_SORTS = {
    "Q": {"add": "Qplus", "sub": "Qminus", "mul": "Qmult", "div": "Qdiv", "neg": "Qopp",
          "lt": lambda a, b: "(negb (Qle_bool %s %s))" % (b, a), "le": lambda a, b: "(Qle_bool %s %s)" % (a, b),
          "eq": lambda a, b: "(Qeq_bool %s %s)" % (a, b)},
    "Z": {"add": "Z.add", "sub": "Z.sub", "mul": "Z.mul", "div": None, "neg": "Z.opp", "floordiv": "Z.div", "mod": "Z.modulo",
          "lt": lambda a, b: "(Z.ltb %s %s)" % (a, b), "le": lambda a, b: "(Z.leb %s %s)" % (a, b),
          "eq": lambda a, b: "(Z.eqb %s %s)" % (a, b)},
    "F": {"add": "PrimFloat.add", "sub": "PrimFloat.sub", "mul": "PrimFloat.mul", "div": "PrimFloat.div", "neg": "PrimFloat.opp",
          "lt": lambda a, b: "(PrimFloat.ltb %s %s)" % (a, b), "le": lambda a, b: "(PrimFloat.leb %s %s)" % (a, b),
          "eq": lambda a, b: "(PrimFloat.eqb %s %s)" % (a, b)},
    "R": {"add": "Rplus", "sub": "Rminus", "mul": "Rmult", "div": "Rdiv", "neg": "Ropp", "lt": None, "le": None, "eq": None},
}


def _num(v, sort):
    if isinstance(v, bool):
        raise Untranslatable("boolean constant in numeric position")
    if isinstance(v, int):
        fr = Fraction(v)
    elif isinstance(v, float):
        fr = Fraction(repr(v))                      # the decimal literal the programmer wrote (0.5, 2.0, 1e-10)
    else:
        raise Untranslatable("constant %r" % (v,))
    if sort == "Z":
        if fr.denominator != 1:
            raise Untranslatable("non-integer constant %r in an integer expression" % (v,))
        return "(%d)%%Z" % fr.numerator
    if sort == "Q":
        return "(%d # %d)%%Q" % (fr.numerator, fr.denominator)
    if sort == "R":
        if fr.denominator == 1:
            return "(IZR (%d)%%Z)" % fr.numerator
        return "(IZR (%d)%%Z / IZR (%d)%%Z)%%R" % (fr.numerator, fr.denominator)
    if sort == "F":
        import math
        x = float(v)
        if x != x or math.isinf(x):
            raise Untranslatable("non-finite float constant")
        return "(%s)%%float" % x.hex()            # the binary64 value the interpreter computes with (Coq parses C99 hex floats)
    raise Untranslatable("sort %s" % sort)


class Ctx:
    def __init__(self, sort, env, calls=None, bool_env=None):
        if sort not in _SORTS:
            raise Untranslatable("unknown sort " + sort)
        self.sort, self.env, self.calls, self.bool_env = sort, dict(env), dict(calls or {}), dict(bool_env or {})


def to_coq(expr, ctx, want="num"):
    """expr: ast expression; want: 'num' or 'bool'. Returns Gallina text (fully parenthesised)."""
    S = _SORTS[ctx.sort]
    if want == "bool":
        if isinstance(expr, ast.BoolOp):
            op = "andb" if isinstance(expr.op, ast.And) else "orb"
            parts = [to_coq(v, ctx, "bool") for v in expr.values]
            out = parts[-1]
            for p in reversed(parts[:-1]):
                out = "(%s %s %s)" % (op, p, out)
            return out
        if isinstance(expr, ast.UnaryOp) and isinstance(expr.op, ast.Not):
            return "(negb %s)" % to_coq(expr.operand, ctx, "bool")
        if isinstance(expr, ast.Compare):
            terms = [expr.left] + list(expr.comparators)
            parts = []
            for a, op, b in zip(terms, expr.ops, terms[1:]):
                ta, tb = to_coq(a, ctx, "num"), to_coq(b, ctx, "num")
                if isinstance(op, ast.Lt): f, x, y = S["lt"], ta, tb
                elif isinstance(op, ast.LtE): f, x, y = S["le"], ta, tb
                elif isinstance(op, ast.Gt): f, x, y = S["lt"], tb, ta
                elif isinstance(op, ast.GtE): f, x, y = S["le"], tb, ta
                elif isinstance(op, ast.Eq): f, x, y = S["eq"], ta, tb
                elif isinstance(op, ast.NotEq):
                    if S["eq"] is None: raise Untranslatable("comparison in sort " + ctx.sort)
                    parts.append("(negb %s)" % S["eq"](ta, tb)); continue
                else:
                    raise Untranslatable("comparison operator %s" % type(op).__name__)
                if f is None:
                    raise Untranslatable("boolean comparison in sort %s" % ctx.sort)
                parts.append(f(x, y))
            out = parts[-1]
            for p in reversed(parts[:-1]):
                out = "(andb %s %s)" % (p, out)
            return out
        if isinstance(expr, ast.Constant) and isinstance(expr.value, bool):
            return "true" if expr.value else "false"
        if isinstance(expr, (ast.Name, ast.Attribute)):
            key = ast.unparse(expr)
            if key in ctx.bool_env:
                return ctx.bool_env[key]
            raise Untranslatable("name %s in boolean position is not bound" % key)
        if isinstance(expr, ast.IfExp):
            return "(if %s then %s else %s)" % (to_coq(expr.test, ctx, "bool"), to_coq(expr.body, ctx, "bool"), to_coq(expr.orelse, ctx, "bool"))
        raise Untranslatable("boolean expression %s" % ast.dump(expr)[:80])
    # numeric
    if isinstance(expr, ast.Constant):
        return _num(expr.value, ctx.sort)
    if isinstance(expr, (ast.Name, ast.Attribute, ast.Subscript)):
        key = ast.unparse(expr)
        if key in ctx.env:
            return ctx.env[key]
        raise Untranslatable("name %s is not bound by the translator's environment" % key)
    if isinstance(expr, ast.UnaryOp):
        if isinstance(expr.op, ast.USub):
            if isinstance(expr.operand, ast.Constant) and isinstance(expr.operand.value, (int, float)) and not isinstance(expr.operand.value, bool):
                return _num(-expr.operand.value, ctx.sort)
            return "(%s %s)" % (S["neg"], to_coq(expr.operand, ctx))
        if isinstance(expr.op, ast.UAdd):
            return to_coq(expr.operand, ctx)
        raise Untranslatable("unary operator %s" % type(expr.op).__name__)
    if isinstance(expr, ast.BinOp):
        a, b = to_coq(expr.left, ctx), None
        if isinstance(expr.op, ast.Pow):
            if isinstance(expr.right, ast.Constant) and isinstance(expr.right.value, int) and 0 <= expr.right.value <= 8:
                n = expr.right.value
                if n == 0: return _num(1, ctx.sort)
                out = a
                for _ in range(n - 1):
                    out = "(%s %s %s)" % (S["mul"], out, a)
                return out
            raise Untranslatable("power with a non-literal exponent")
        b = to_coq(expr.right, ctx)
        if isinstance(expr.op, ast.Add): f = S["add"]
        elif isinstance(expr.op, ast.Sub): f = S["sub"]
        elif isinstance(expr.op, ast.Mult): f = S["mul"]
        elif isinstance(expr.op, ast.Div): f = S["div"]
        elif isinstance(expr.op, ast.FloorDiv): f = S.get("floordiv")
        elif isinstance(expr.op, ast.Mod): f = S.get("mod")
        else: raise Untranslatable("binary operator %s" % type(expr.op).__name__)
        if f is None:
            raise Untranslatable("operator %s in sort %s" % (type(expr.op).__name__, ctx.sort))
        return "(%s %s %s)" % (f, a, b)
    if isinstance(expr, ast.IfExp):
        return "(if %s then %s else %s)" % (to_coq(expr.test, ctx, "bool"), to_coq(expr.body, ctx), to_coq(expr.orelse, ctx))
    if isinstance(expr, ast.Call):
        key = ast.unparse(expr.func)
        if key in ctx.calls and not expr.keywords:
            fn, arity = ctx.calls[key]
            if len(expr.args) != arity:
                raise Untranslatable("call %s with %d arguments (expected %d)" % (key, len(expr.args), arity))
            return "(%s %s)" % (fn, " ".join(to_coq(a, ctx) for a in expr.args))
        raise Untranslatable("call %s is not in the translator's table" % key)
    raise Untranslatable("expression %s" % ast.dump(expr)[:80])


# ---------------------------------------------------------------------------------------------- output
HEADER = """(* GENERATED by %s from the pybrops source on every run - do not edit.
   Each definition is the translation of one expression of the current source; `src` comments quote it. *)
"""


def definition(name, params, rtype, term, src=None):
    """params: list of (name, type) -> `Definition name (a : T) ... : rtype := term.`"""
    ps = " ".join("(%s : %s)" % (n, t) for n, t in params)
    c = "" if src is None else "(* src: %s *)\n" % src.replace("(*", "( *").replace("*)", "* )")
    return "%sDefinition %s %s : %s :=\n  %s.\n" % (c, name, ps, rtype, term)


def write_if_changed(path, text):
    old = open(path).read() if os.path.exists(path) else None
    if old != text:
        with open(path, "w") as f:
            f.write(text)
    return old != text
