"""C11 kernel translator: regenerates `coq/Gen/C11_Kernel.v` from the current source of the genetic maps and map functions.

One Gallina `Definition` per kernel expression / call shape on which the C11 theorems turn (both map classes; prefix
`k_std_` = StandardGeneticMap, `k_ext_` = ExtendedGeneticMap):

  k_haldane, k_haldane_inv, k_kosambi, k_kosambi_inv   bodies of mapfn / invmapfn over R           (C11_mapfn_laws)
  k_cM2d, k_<c>_genpos_cM                              0.01 * x in binary64 (util.cM2d, vrnt_genpos setter, units cM)
  k_<c>_key_leb                                        the comparison induced by the default lexsort keys, last key primary
                                                       (C11_constructor_sorts, C11_row_order_independent)
  k_<c>_group_meta                                     group(): which result of numpy.unique goes to name/stix/len; spix = stix+len
  k_<c>_congr, k_<c>_congr_first                       congruence(): genpos[k-1] <= genpos[k]; first marker True
  k_<c>_spline_mask, k_<c>_spline_knot,                build_spline(): mask chrgrp == grp, x = phypos[mask], y = genpos[mask],
  k_<c>_spline_assume_sorted                           assume_sorted = False                 (C11_spline_independent_of_array_order)
  k_<c>_interp_pos                                     interp_genpos(): spline lookup, KeyError -> NaN  (C11_interp_off_map_missing)
  k_<c>_gdist1_q/_f, k_<c>_gdist1_start                gdist1g(): genpos[k] - genpos[k-1] (argument order), inf at a run start
  k_<c>_gdist2_q/_f, k_<c>_gdist2_across,              gdist2g(): |gi - gj|, mask mi != mj -> inf, which slice bounds address
  k_<c>_gdist2_rows/_cols                              rows / columns                           (C11_pairwise_distance_laws)
  k_<c>_gdist1p, k_<c>_gdist2p                         call shapes: interpolate ALL query markers, then gdist1g/gdist2g with the
                                                       slice bounds in this order               (C11_sequential_agrees_with_pairwise)
  k_<fn>_rprob1g/2g/1p/2p                              mapfn(gmap.gdist*(...)) call shapes of both map functions
  k_gmat_interp_xoprob                                 DenseGeneticMappableMatrix.interp_xoprob: positions = gmap.interp_genpos(chrgrp,
                                                       phypos); xoprob = gmapfn.rprob1g(gmap, chrgrp, genpos)   (C11_xoprob_is_mapfn_of_gaps)

`Proofs/C11_Kernel.v` proves `generated = hand model` for each (by `reflexivity` where the terms are convertible), and
`Props/C11.v` restates the laws about the generated definitions.  Fail closed: every selector demands exactly one match, every
name must be bound, every statement inspected structurally must have the recognised form; anything else raises
`pyexpr.Untranslatable`.
"""
import ast, os, copy
from translate import pyexpr as P
from translate.kernelkit import bind

STD = "pybrops/popgen/gmap/StandardGeneticMap.py"
EXT = "pybrops/popgen/gmap/ExtendedGeneticMap.py"
HAL = "pybrops/popgen/gmap/HaldaneMapFunction.py"
KOS = "pybrops/popgen/gmap/KosambiMapFunction.py"
UTIL = "pybrops/popgen/gmap/util.py"
DGM = "pybrops/popgen/gmap/DenseGeneticMappableMatrix.py"

U = P.Untranslatable


def src(e):
    return ast.unparse(e)


# ------------------------------------------------------------------------------------------------ locating helpers
def find_class(repo, rel, name):
    for node in P.parse_file(repo, rel).body:
        if isinstance(node, ast.ClassDef) and node.name == name:
            return node
    raise U("%s: no class %s" % (rel, name))


def find_setter(repo, rel, cls, prop):
    """the function decorated `@<prop>.setter` in class cls (exactly one)"""
    c = find_class(repo, rel, cls)
    hits = [n for n in c.body if isinstance(n, ast.FunctionDef) and n.name == prop
            and any(src(d) == prop + ".setter" for d in n.decorator_list)]
    if len(hits) != 1:
        raise U("%s.%s: expected exactly one setter, found %d" % (cls, prop, len(hits)))
    return hits[0]


def returned_value(fn):
    """the value of the single `return`; a plain name is resolved to its single assignment"""
    e = P.the_return(fn)
    if isinstance(e, ast.Name):
        return P.the_assignment(fn, e.id)
    return e


def body_statements(fn):
    """statements of a function body without the docstring"""
    b = list(fn.body)
    if b and isinstance(b[0], ast.Expr) and isinstance(b[0].value, ast.Constant) and isinstance(b[0].value.value, str):
        b = b[1:]
    return b


def is_check_call(st):
    return isinstance(st, ast.Expr) and isinstance(st.value, ast.Call) and src(st.value.func).startswith("check_")


def call_term(expr, funcs, env):
    """translate a nested call expression whose callees are listed in funcs {python dotted name: (coq name, arity)} and whose
    leaves are names/attributes bound by env; no keywords, no starred arguments; anything else is refused"""
    if isinstance(expr, ast.Call):
        key = src(expr.func)
        if key not in funcs or expr.keywords or any(isinstance(a, ast.Starred) for a in expr.args):
            raise U("call %s is not a recognised call shape" % src(expr))
        name, arity = funcs[key]
        if len(expr.args) != arity:
            raise U("call %s: %d arguments, expected %d" % (key, len(expr.args), arity))
        return "(%s %s)" % (name, " ".join(call_term(a, funcs, env) for a in expr.args))
    if isinstance(expr, (ast.Name, ast.Attribute)):
        key = src(expr)
        if key in env:
            return env[key]
        raise U("name %s is not bound in the call shape" % key)
    raise U("unsupported argument %s in a call shape" % src(expr))


def keyword_map(call, required):
    if call.args:
        raise U("%s: positional arguments where keywords are expected" % src(call.func))
    kw = {k.arg: k.value for k in call.keywords}
    if set(kw) != set(required):
        raise U("%s: keywords %s, expected %s" % (src(call.func), sorted(kw), sorted(required)))
    return kw


# ------------------------------------------------------------------------------------------------ per-class kernels
def map_class_kernels(repo, rel, cls, tag, defs):
    Q = lambda env, calls=None: P.Ctx("Q", env, calls=calls)
    F = lambda env, calls=None: P.Ctx("F", env, calls=calls)
    Z = lambda env: P.Ctx("Z", env)
    D = lambda name, params, rtype, term, what: defs.append(P.definition("k_%s_%s" % (tag, name), params, rtype, term, "%s.%s" % (cls, what)))

    # ---- vrnt_genpos setter: array = 0.01 * array in the centiMorgan branch
    fn = find_setter(repo, rel, cls, "vrnt_genpos")
    e = P.the_assignment(fn, "array", index=2, count=3)
    tests = [src(t) for t in P.if_tests(fn)]
    if "units in ('cM', 'centiMorgans')" not in tests or "units in ('M', 'Morgans')" not in tests:
        raise U("%s.vrnt_genpos setter: unit tests changed: %s" % (cls, tests))
    D("genpos_cM", [("array", "float")], "float", P.to_coq(e, F({"array": "array"})), "vrnt_genpos.setter (units cM): array = %s" % src(e))

    # ---- lexsort: default keys, last key is the primary one
    fn = P.find_function(repo, rel, cls + ".lexsort")
    e = P.the_assignment(fn, "keys", index=0, count=2)
    if not isinstance(e, ast.Tuple):
        raise U("%s.lexsort: default keys are not a tuple" % cls)
    kinds = {"self.vrnt_chrgrp": ("chr", "Z"), "self.vrnt_phypos": ("phy", "Z"), "self.vrnt_genpos": ("gen", "Q")}
    keys = []
    for k in e.elts:
        if src(k) not in kinds:
            raise U("%s.lexsort: unknown default key %s" % (cls, src(k)))
        keys.append(kinds[src(k)])
    if sorted(k[0] for k in keys) != ["chr", "gen", "phy"]:
        raise U("%s.lexsort: default keys are not chromosome, physical and genetic position once each" % cls)
    ret = P.the_return(fn)
    if src(P.the_assignment(fn, "indices")) != "numpy.lexsort(keys)" or src(ret) != "indices":
        raise U("%s.lexsort: indices are not numpy.lexsort(keys)" % cls)
    order = list(reversed(keys))                         # numpy.lexsort: the LAST key is the primary sort key
    def lt(s, a, b): return "(Z.ltb %s %s)" % (a, b) if s == "Z" else "(negb (Qle_bool %s %s))" % (b, a)
    def le(s, a, b): return "(Z.leb %s %s)" % (a, b) if s == "Z" else "(Qle_bool %s %s)" % (a, b)
    term = le(order[-1][1], order[-1][0] + "_a", order[-1][0] + "_b")
    for nm, s in reversed(order[:-1]):
        term = "(if %s then true else if %s then false else %s)" % (lt(s, nm + "_a", nm + "_b"), lt(s, nm + "_b", nm + "_a"), term)
    D("key_leb", [("chr_a", "Z"), ("phy_a", "Z"), ("gen_a", "Q"), ("chr_b", "Z"), ("phy_b", "Z"), ("gen_b", "Q")], "bool", term,
      "lexsort: keys = %s   (numpy.lexsort: last key primary)" % src(e))

    # ---- group: name, stix, len <- numpy.unique(chrgrp, return_index, return_counts); spix = stix + len
    fn = P.find_function(repo, rel, cls + ".group")
    stmts = body_statements(fn)
    if not (stmts and src(stmts[0]) == "self.sort()"):
        raise U("%s.group: does not start with self.sort()" % cls)
    e = P.the_assignment(fn, "uniq")
    if src(e) != "numpy.unique(self._vrnt_chrgrp, return_index=True, return_counts=True)":
        raise U("%s.group: uniq = %s" % (cls, src(e)))
    unpack = [a for a in ast.walk(fn) if isinstance(a, ast.Assign) and isinstance(a.targets[0], ast.Tuple) and src(a.value) == "uniq"]
    if len(unpack) != 1:
        raise U("%s.group: expected one unpacking of uniq" % cls)
    uniq_parts = ["uniq_values", "uniq_index", "uniq_counts"]          # numpy.unique returns (values, first indices, counts)
    fields = {}
    tg = unpack[0].targets[0].elts
    if len(tg) != 3:
        raise U("%s.group: uniq is unpacked into %d targets" % (cls, len(tg)))
    for t, part in zip(tg, uniq_parts):
        fields[src(t)] = part
    e = P.the_assignment(fn, "self._vrnt_chrgrp_spix")
    spix = P.to_coq(e, P.Ctx("Z", {"self._vrnt_chrgrp_stix": "a", "self._vrnt_chrgrp_len": "b"}))
    want = ["self._vrnt_chrgrp_name", "self._vrnt_chrgrp_stix", "self._vrnt_chrgrp_len"]
    if sorted(fields) != sorted(want):
        raise U("%s.group: unpack targets %s" % (cls, sorted(fields)))
    # spix is computed from the attributes as they are AFTER the unpacking
    spix_list = "(k_map2 (fun a b => %s) %s %s)" % (spix, fields["self._vrnt_chrgrp_stix"], fields["self._vrnt_chrgrp_len"])
    D("group_meta", [("uniq_values", "list Z"), ("uniq_index", "list Z"), ("uniq_counts", "list Z")], "list Z * list Z * list Z * list Z",
      "(%s, %s, %s, %s)" % (fields["self._vrnt_chrgrp_name"], fields["self._vrnt_chrgrp_stix"], spix_list, fields["self._vrnt_chrgrp_len"]),
      "group: %s = uniq ; spix = %s    (name, stix, spix, len)" % (src(unpack[0].targets[0]), src(e)))

    # ---- congruence: out[st] = True ; out[st+1:sp] = genpos[st:sp-1] <= genpos[st+1:sp]
    fn = P.find_function(repo, rel, cls + ".congruence")
    e = P.the_assignment(fn, "out[st]")
    if not (isinstance(e, ast.Constant) and isinstance(e.value, bool)):
        raise U("%s.congruence: out[st] = %s" % (cls, src(e)))
    D("congr_first", [], "bool", "true" if e.value else "false", "congruence: out[st] = %s" % src(e))
    e = P.the_assignment(fn, "out[st + 1:sp]")
    b = bind(e, {"self._vrnt_genpos[st:sp - 1]": "prev", "self._vrnt_genpos[st + 1:sp]": "cur"})
    D("congr", [("prev", "Q"), ("cur", "Q")], "bool", P.to_coq(b, Q({"prev": "prev", "cur": "cur"}), "bool"),
      "congruence: out[st + 1:sp] = %s" % src(e))
    loops = [n for n in ast.walk(fn) if isinstance(n, ast.For)]
    if len(loops) != 1 or src(loops[0].iter) != "zip(self._vrnt_chrgrp_stix, self._vrnt_chrgrp_spix)" or src(loops[0].target) != "(st, sp)":
        raise U("%s.congruence: the loop does not run over zip(stix, spix)" % cls)

    # ---- build_spline: mask = chrgrp == grp ; interp1d(x = phypos[mask], y = genpos[mask], ..., assume_sorted = False)
    fn = P.find_function(repo, rel, cls + ".build_spline")
    e = P.the_assignment(fn, "mask")
    D("spline_mask", [("chr", "Z"), ("grp", "Z")], "bool", P.to_coq(e, Z({"self._vrnt_chrgrp": "chr", "grp": "grp"}), "bool"),
      "build_spline: mask = %s" % src(e))
    e = P.the_assignment(fn, "self._spline[grp]")
    if not (isinstance(e, ast.Call) and src(e.func) == "interp1d"):
        raise U("%s.build_spline: the spline is not an interp1d" % cls)
    kw = keyword_map(e, ["x", "y", "kind", "fill_value", "assume_sorted"])
    attr = {"self._vrnt_phypos[mask]": "phypos", "self._vrnt_genpos[mask]": "genpos"}
    if src(kw["x"]) not in attr or src(kw["y"]) not in attr:
        raise U("%s.build_spline: x = %s, y = %s" % (cls, src(kw["x"]), src(kw["y"])))
    D("spline_knot", [("phypos", "Z"), ("genpos", "Q")], "Z * Q", "(%s, %s)" % (attr[src(kw["x"])], attr[src(kw["y"])]),
      "build_spline: interp1d(x = %s, y = %s)    a knot is (x, y)" % (src(kw["x"]), src(kw["y"])))
    if not (isinstance(kw["assume_sorted"], ast.Constant) and isinstance(kw["assume_sorted"].value, bool)):
        raise U("%s.build_spline: assume_sorted = %s" % (cls, src(kw["assume_sorted"])))
    D("spline_assume_sorted", [], "bool", "true" if kw["assume_sorted"].value else "false",
      "build_spline: interp1d(assume_sorted = %s)" % src(kw["assume_sorted"]))
    if src(kw["kind"]) != "kind" or src(kw["fill_value"]) != "fill_value":
        raise U("%s.build_spline: kind/fill_value are not handed through" % cls)
    loops = [n for n in ast.walk(fn) if isinstance(n, ast.For)]
    if len(loops) != 1 or src(loops[0].iter) != "uniq" or src(P.the_assignment(fn, "uniq")) != "numpy.unique(self._vrnt_chrgrp)":
        raise U("%s.build_spline: the loop does not run over numpy.unique(chrgrp)" % cls)

    # ---- interp_genpos: for i,(chrgrp,phypos) in enumerate(zip(...)): try: model = spline[chrgrp]; out[i] = model(phypos)
    #                                                                    except KeyError: out[i] = numpy.nan
    fn = P.find_function(repo, rel, cls + ".interp_genpos")
    loops = [n for n in ast.walk(fn) if isinstance(n, ast.For)]
    if len(loops) != 1 or src(loops[0].iter) != "enumerate(zip(vrnt_chrgrp, vrnt_phypos))" or src(loops[0].target) != "(i, (chrgrp, phypos))":
        raise U("%s.interp_genpos: the loop does not run over enumerate(zip(vrnt_chrgrp, vrnt_phypos))" % cls)
    body = loops[0].body
    if len(body) != 1 or not isinstance(body[0], ast.Try):
        raise U("%s.interp_genpos: loop body is not a single try statement" % cls)
    tr = body[0]
    if [src(s) for s in tr.body] != ["model = self._spline[chrgrp]", "out[i] = model(phypos)"] or tr.orelse or tr.finalbody:
        raise U("%s.interp_genpos: try body is %s" % (cls, [src(s) for s in tr.body]))
    if len(tr.handlers) != 1 or tr.handlers[0].type is None or src(tr.handlers[0].type) != "KeyError":
        raise U("%s.interp_genpos: expected one `except KeyError`" % cls)
    hb = tr.handlers[0].body
    if len(hb) != 1 or not isinstance(hb[0], ast.Assign) or src(hb[0].targets[0]) != "out[i]":
        raise U("%s.interp_genpos: the KeyError handler does not assign out[i]" % cls)
    missing = {"numpy.nan": "nan", "numpy.inf": "inf"}.get(src(hb[0].value))
    if missing is None:
        raise U("%s.interp_genpos: the KeyError handler assigns %s" % (cls, src(hb[0].value)))
    if src(P.the_return(fn)) != "out":
        raise U("%s.interp_genpos: does not return out" % cls)
    D("interp_pos", [("V", "Type"), ("spline", "Z -> option (Z -> V)"), ("nan", "V"), ("inf", "V"), ("chrgrp", "Z"), ("phypos", "Z")], "V",
      "match spline chrgrp with Some model => model phypos | None => %s end" % missing,
      "interp_genpos: try: model = self._spline[chrgrp]; out[i] = model(phypos)  except KeyError: out[i] = %s" % src(hb[0].value))

    # ---- gdist1g: out[st] = inf ; out[st+1:sp] = view_genpos[st+1:sp] - view_genpos[st:sp-1]
    fn = P.find_function(repo, rel, cls + ".gdist1g")
    e = P.the_assignment(fn, "out[st]")
    start = {"numpy.inf": "inf", "numpy.nan": "nan"}.get(src(e))
    if start is None:
        raise U("%s.gdist1g: out[st] = %s" % (cls, src(e)))
    D("gdist1_start", [("V", "Type"), ("inf", "V"), ("nan", "V")], "V", start, "gdist1g: out[st] = %s" % src(e))
    e = P.the_assignment(fn, "out[st + 1:sp]")
    b = bind(e, {"view_genpos[st + 1:sp]": "cur", "view_genpos[st:sp - 1]": "prev"})
    D("gdist1_q", [("cur", "Q"), ("prev", "Q")], "Q", P.to_coq(b, Q({"cur": "cur", "prev": "prev"})), "gdist1g: out[st + 1:sp] = %s" % src(e))
    D("gdist1_f", [("cur", "float"), ("prev", "float")], "float", P.to_coq(b, F({"cur": "cur", "prev": "prev"})), "gdist1g: out[st + 1:sp] = %s" % src(e))
    if src(P.the_assignment(fn, "view_chrgrp")) != "vrnt_chrgrp[ast:asp]" or src(P.the_assignment(fn, "view_genpos")) != "vrnt_genpos[ast:asp]":
        raise U("%s.gdist1g: the views are not [ast:asp] of both arrays" % cls)
    if src(P.the_assignment(fn, "stop")) != "start + counts":
        raise U("%s.gdist1g: stop is not start + counts" % cls)
    tgt = [a for a in ast.walk(fn) if isinstance(a, ast.Assign) and src(a.value) == "numpy.unique(view_chrgrp, return_index=True, return_counts=True)"]
    if len(tgt) != 1 or src(tgt[0].targets[0]) != "(uniq, start, counts)":
        raise U("%s.gdist1g: runs are not taken from numpy.unique(view_chrgrp, return_index, return_counts)" % cls)
    loops = [n for n in ast.walk(fn) if isinstance(n, ast.For)]
    if len(loops) != 1 or src(loops[0].iter) != "zip(start, stop)" or src(loops[0].target) != "(st, sp)":
        raise U("%s.gdist1g: the loop does not run over zip(start, stop)" % cls)

    # ---- gdist2g: out = abs(gi - gj) ; out[mi != mj] = inf ; rows <- [rst:rsp], columns <- [cst:csp]
    fn = P.find_function(repo, rel, cls + ".gdist2g")
    e = P.the_assignment(fn, "out")
    D("gdist2_q", [("gi", "Q"), ("gj", "Q")], "Q", P.to_coq(e, Q({"gi": "gi", "gj": "gj"}, {"numpy.abs": ("np_abs_q", 1)})), "gdist2g: out = %s" % src(e))
    D("gdist2_f", [("gi", "float"), ("gj", "float")], "float", P.to_coq(e, F({"gi": "gi", "gj": "gj"}, {"numpy.abs": ("PrimFloat.abs", 1)})), "gdist2g: out = %s" % src(e))
    masked = [a for a in ast.walk(fn) if isinstance(a, ast.Assign) and isinstance(a.targets[0], ast.Subscript) and src(a.targets[0].value) == "out"]
    if len(masked) != 1 or src(masked[0].value) != "numpy.inf":
        raise U("%s.gdist2g: expected exactly one masked assignment of numpy.inf" % cls)
    D("gdist2_across", [("mi", "Z"), ("mj", "Z")], "bool", P.to_coq(masked[0].targets[0].slice, Z({"mi": "mi", "mj": "mj"}), "bool"),
      "gdist2g: %s = numpy.inf" % src(masked[0].targets[0]))
    for names, arr in ((("mi", "mj"), "vrnt_chrgrp"), (("gi", "gj"), "vrnt_genpos")):
        a = [x for x in ast.walk(fn) if isinstance(x, ast.Assign) and src(x.targets[0]) == "(%s, %s)" % names]
        if len(a) != 1 or not isinstance(a[0].value, ast.Call) or src(a[0].value.func) != "numpy.meshgrid":
            raise U("%s.gdist2g: %s are not one numpy.meshgrid" % (cls, names))
        c = a[0].value
        kw = {k.arg: src(k.value) for k in c.keywords}
        if kw != {"indexing": "'ij'", "sparse": "True"} or len(c.args) != 2:
            raise U("%s.gdist2g: meshgrid arguments %s %s" % (cls, [src(x) for x in c.args], kw))
        got = []
        for x in c.args:
            if not (isinstance(x, ast.Subscript) and src(x.value) == arr and isinstance(x.slice, ast.Slice) and x.slice.step is None
                    and isinstance(x.slice.lower, ast.Name) and isinstance(x.slice.upper, ast.Name)):
                raise U("%s.gdist2g: meshgrid argument %s" % (cls, src(x)))
            got.append((x.slice.lower.id, x.slice.upper.id))
        if names == ("mi", "mj"):
            first = got
        elif got != first:
            raise U("%s.gdist2g: labels and positions are sliced differently" % cls)
    bounds = [("rst", "option Z"), ("rsp", "option Z"), ("cst", "option Z"), ("csp", "option Z")]
    for nm, (lo, hi) in zip(("rows", "cols"), first):
        if lo not in dict(bounds) or hi not in dict(bounds):
            raise U("%s.gdist2g: slice bounds %s:%s" % (cls, lo, hi))
        D("gdist2_" + nm, bounds, "option Z * option Z", "(%s, %s)" % (lo, hi),
          "gdist2g: meshgrid(..., indexing='ij'): %s are [%s:%s]" % ("rows (first axis)" if nm == "rows" else "columns (second axis)", lo, hi))
    if src(P.the_return(fn)) != "out":
        raise U("%s.gdist2g: does not return out" % cls)

    # ---- gdist1p / gdist2p: interpolate all query markers, then the genetic-position versions
    for meth, callee, extra in (("gdist1p", "gdist1g", ["ast", "asp"]), ("gdist2p", "gdist2g", ["rst", "rsp", "cst", "csp"])):
        fn = P.find_function(repo, rel, cls + "." + meth)
        stmts = [s for s in body_statements(fn) if not is_check_call(s)]
        if [type(s).__name__ for s in stmts] != ["Assign", "Assign", "Return"] or src(stmts[2].value) != "out" \
                or src(stmts[0].targets[0]) != "vrnt_genpos" or src(stmts[1].targets[0]) != "out":
            raise U("%s.%s: body is not `vrnt_genpos = ...; out = ...; return out`" % (cls, meth))
        funcs = {"self.interp_genpos": ("interp_genpos", 2), "self." + callee: (callee, 2 + len(extra))}
        env = {k: k for k in ["vrnt_chrgrp", "vrnt_phypos"] + extra}
        t1 = call_term(stmts[0].value, funcs, env)
        env2 = dict(env); env2["vrnt_genpos"] = "vrnt_genpos"
        t2 = call_term(stmts[1].value, funcs, env2)
        params = [("C", "Type"), ("X", "Type"), ("G", "Type"), ("Res", "Type"), ("interp_genpos", "C -> X -> G"),
                  (callee, "C -> G -> " + " -> ".join(["option Z"] * len(extra)) + " -> Res"),
                  ("vrnt_chrgrp", "C"), ("vrnt_phypos", "X")] + [(x, "option Z") for x in extra]
        D(meth, params, "Res", "let vrnt_genpos := %s in %s" % (t1, t2),
          "%s: vrnt_genpos = %s ; out = %s" % (meth, src(stmts[0].value), src(stmts[1].value)))


def mapfn_kernels(repo, rel, cls, tag, defs):
    R = lambda env, calls: P.Ctx("R", env, calls=calls)
    calls = {"numpy.exp": ("exp", 1), "numpy.log": ("ln", 1), "numpy.tanh": ("tanh", 1), "numpy.arctanh": ("np_arctanh", 1)}
    fn = P.find_function(repo, rel, cls + ".mapfn")
    e = returned_value(fn)
    defs.append(P.definition("k_" + tag, [("d", "R")], "R", P.to_coq(e, R({"d": "d"}, calls)), "%s.mapfn: r = %s" % (cls, src(e))))
    fn = P.find_function(repo, rel, cls + ".invmapfn")
    e = returned_value(fn)
    defs.append(P.definition("k_%s_inv" % tag, [("r", "R")], "R", P.to_coq(e, R({"r": "r"}, calls)), "%s.invmapfn: d = %s" % (cls, src(e))))
    # rprob*: the map function of the corresponding distance method of the map, arguments in the order received
    for meth, dist, second in (("rprob1g", "gdist1g", "vrnt_genpos"), ("rprob2g", "gdist2g", "vrnt_genpos"),
                               ("rprob1p", "gdist1p", "vrnt_phypos"), ("rprob2p", "gdist2p", "vrnt_phypos")):
        fn = P.find_function(repo, rel, cls + "." + meth)
        stmts = body_statements(fn)
        if len(stmts) != 1 or not isinstance(stmts[0], ast.Return):
            raise U("%s.%s: body is not a single return" % (cls, meth))
        funcs = {"self.mapfn": ("mapfn", 1), "gmap." + dist: ("gmap_" + dist, 2)}
        others = {"gmap." + d: ("gmap_" + d, 2) for d in ("gdist1g", "gdist2g", "gdist1p", "gdist2p")}
        others.update(funcs)
        t = call_term(stmts[0].value, others, {"vrnt_chrgrp": "vrnt_chrgrp", second: "second"})
        params = [("C", "Type"), ("X", "Type"), ("Dst", "Type"), ("Pr", "Type"), ("mapfn", "Dst -> Pr")] + \
                 [("gmap_" + d, "C -> X -> Dst") for d in ("gdist1g", "gdist2g", "gdist1p", "gdist2p")] + [("vrnt_chrgrp", "C"), ("second", "X")]
        defs.append(P.definition("k_%s_%s" % (tag, meth), params, "Pr", t, "%s.%s: return %s" % (cls, meth, src(stmts[0].value))))


def gmat_kernels(repo, defs):
    fn = P.find_function(repo, DGM, "DenseGeneticMappableMatrix.interp_xoprob")
    stmts = [s for s in body_statements(fn) if not is_check_call(s)]
    if len(stmts) != 3 or not isinstance(stmts[0], ast.If) or src(stmts[0].test) != "not self.is_grouped_vrnt()" \
            or not all(isinstance(s, ast.Raise) for s in stmts[0].body) or stmts[0].orelse:
        raise U("interp_xoprob: does not start with the is_grouped_vrnt() guard")
    a1, a2 = stmts[1], stmts[2]
    if not (isinstance(a1, ast.Assign) and src(a1.targets[0]) == "self.vrnt_genpos" and isinstance(a2, ast.Assign) and src(a2.targets[0]) == "self.vrnt_xoprob"):
        raise U("interp_xoprob: expected assignments to self.vrnt_genpos then self.vrnt_xoprob")
    funcs = {"gmap.interp_genpos": ("gmap_interp_genpos", 2), "gmapfn.rprob1g": ("gmapfn_rprob1g", 2)}
    # `gmap` handed to rprob1g as its first argument is the same map object: it is folded into gmapfn_rprob1g
    t1 = call_term(a1.value, funcs, {"self._vrnt_chrgrp": "chrgrp", "self._vrnt_phypos": "phypos"})
    c2 = a2.value
    if not (isinstance(c2, ast.Call) and src(c2.func) == "gmapfn.rprob1g" and len(c2.args) == 3 and src(c2.args[0]) == "gmap" and not c2.keywords):
        raise U("interp_xoprob: vrnt_xoprob = %s" % src(c2))
    c2b = ast.Call(func=c2.func, args=c2.args[1:], keywords=[])
    t2 = call_term(c2b, funcs, {"self._vrnt_chrgrp": "chrgrp", "self._vrnt_genpos": "vrnt_genpos"})
    params = [("C", "Type"), ("X", "Type"), ("G", "Type"), ("Pr", "Type"), ("gmap_interp_genpos", "C -> X -> G"), ("gmapfn_rprob1g", "C -> G -> Pr"),
              ("chrgrp", "C"), ("phypos", "X")]
    defs.append(P.definition("k_gmat_interp_xoprob", params, "G * Pr", "let vrnt_genpos := %s in (vrnt_genpos, %s)" % (t1, t2),
                             "DenseGeneticMappableMatrix.interp_xoprob: self.vrnt_genpos = %s ; self.vrnt_xoprob = %s" % (src(a1.value), src(a2.value))))
    fn = P.find_function(repo, DGM, "DenseGeneticMappableMatrix.interp_genpos")
    stmts = [s for s in body_statements(fn) if not is_check_call(s)]
    if len(stmts) != 1 or src(stmts[0]) != "self.vrnt_genpos = gmap.interp_genpos(self._vrnt_chrgrp, self._vrnt_phypos)":
        raise U("DenseGeneticMappableMatrix.interp_genpos: body changed")


PREAMBLE = """From Coq Require Import ZArith QArith Reals Bool List PrimFloat.
Import ListNotations.

(* fixed vocabulary (not generated): numpy.arctanh over R, numpy.abs over Q, element-wise application of a binary function *)
Definition np_arctanh (x : R) : R := (ln ((1 + x) / (1 - x)) / 2)%R.
Definition np_abs_q (x : Q) : Q := if Qle_bool 0 x then x else Qopp x.
Fixpoint k_map2 {A B C} (f : A -> B -> C) (l1 : list A) (l2 : list B) : list C :=
  match l1, l2 with x :: t1, y :: t2 => f x y :: k_map2 f t1 t2 | _, _ => [] end.

"""


def translate(repo, gen_dir):
    defs = []
    mapfn_kernels(repo, HAL, "HaldaneMapFunction", "haldane", defs)
    mapfn_kernels(repo, KOS, "KosambiMapFunction", "kosambi", defs)
    fn = P.find_function(repo, UTIL, "cM2d")
    e = returned_value(fn)
    defs.append(P.definition("k_cM2d", [("cM", "float")], "float", P.to_coq(e, P.Ctx("F", {"cM": "cM"})), "util.cM2d: d = %s" % src(e)))
    map_class_kernels(repo, STD, "StandardGeneticMap", "std", defs)
    map_class_kernels(repo, EXT, "ExtendedGeneticMap", "ext", defs)
    gmat_kernels(repo, defs)
    text = (P.HEADER % "harness/translate/c11_kernel.py") + PREAMBLE + "\n".join(defs)
    path = os.path.join(gen_dir, "C11_Kernel.v")
    P.write_if_changed(path, text)
    import hashlib
    return {"file": "Gen/C11_Kernel.v", "definitions": len(defs), "sha256": hashlib.sha256(text.encode()).hexdigest()[:16]}
