"""C08 translator: pybrops source  ->  coq/Gen/C08_Entropy.v  (entropy-source table + reference graph).

For every function / method / property accessor of the package (tests excluded) the table records

  * the set of entropy sources the body references *directly* (bit mask, see BITS), and
  * the set of package functions it references (call, attribute access, callback, constructor): the edges.

Sources
  PARAM    the function's own ``rng`` parameter; in a pymoo operator the generator pymoo hands over: a parameter
           ``random_state`` or ``random_state = kwargs["random_state"]`` / ``kwargs.get("random_state")``
           (pymoo 0.6.2 passes the algorithm's generator, which minimize(seed=...) seeds: see PYMOO_MINIMIZE)
  SELF     ``<obj>.rng`` / ``<obj>._rng``                       (a generator owned by an object)
  DEFAULT  ``global_prng`` used only as the value substituted for a missing generator
           (``if x is None: x = global_prng`` or a parameter default)
  NP       numpy's global legacy stream: ``numpy.random.<fn>``, ``global_prng`` in any other position,
           the module level wrappers of ``pybrops.core.random.prng``
  PY       Python's global stream: ``random.<fn>`` (and third-party code known to use it)
  OS       operating-system entropy: ``default_rng()`` / bit generators / ``seed()`` without argument,
           ``os.urandom``, ``secrets``, ``uuid``; third-party entry points known to seed from the OS
           (pymoo 0.6.2 ``minimize`` without ``seed=``  ->  ``numpy.random.default_rng(None)``)
  DROPS    an instance method of a class that owns a generator passes the literal ``rng = None`` on (or calls a package function /
           constructor that accepts ``rng`` without forwarding the generator); a pymoo operator that was handed ``random_state`` calls a
           package function, or a method of its own class, that has a ``random_state`` parameter without forwarding it
  IGNORED  a function accepts ``rng`` and never reads it (abstract stubs excepted)
  COPIES   the body takes a *snapshot* of a generator instead of sharing it: ``copy.copy`` / ``copy.deepcopy`` / ``pickle.dumps``
           applied to a generator reference (``rng``, ``random_state``, ``<obj>.rng``, ``<obj>._rng``, ``global_prng``), or an
           attribute of one that exposes its state (``get_state``, ``__getstate__``, ``__reduce__``, ``__reduce_ex__``,
           ``__copy__``, ``__deepcopy__``, ``bit_generator.state``).  A component holding such a private snapshot no longer
           follows the stream it was given (for rng=None: the global stream that seed() sets)

The translator fails closed: any reference to an entropy-bearing module that does not match one of the patterns
below raises TranslateError (the check then reports a violation instead of silently missing a source).
Edges over-approximate: an attribute access on an object of unknown class is linked to every class member of that
name in the package; ``self.x`` is linked to the member ``x`` of the class, its bases and its subclasses.
"""
import ast, os, re, hashlib

BITS = {"PARAM": 1, "SELF": 2, "DEFAULT": 4, "NP": 8, "PY": 16, "OS": 32, "DROPS": 64, "IGNORED": 128, "COPIES": 256}
COPY_FUNCS = {"copy.copy", "copy.deepcopy", "pickle.dumps", "pickle.dump", "copyreg.__reduce_ex__"}
SNAP_ATTRS = {"get_state", "__getstate__", "__reduce__", "__reduce_ex__", "__copy__", "__deepcopy__"}

class TranslateError(Exception):
    pass

NP_TYPES = {"Generator", "RandomState", "BitGenerator", "PCG64", "PCG64DXSM", "MT19937", "Philox", "SFC64", "SeedSequence"}
NP_CTORS_OS_WHEN_EMPTY = {"default_rng", "RandomState", "PCG64", "PCG64DXSM", "MT19937", "Philox", "SFC64", "SeedSequence"}
PRNG_MOD = "pybrops.core.random.prng"
# third-party names used by the package, entered by hand (trusted; cross-checked dynamically by the harness)
THIRD_PARTY = {
    "pymoo.optimize.minimize": "PYMOO_MINIMIZE",                  # OS unless seed= is given
    "pymoo.util.ref_dirs.get_reference_directions": "REFDIRS",    # deterministic for "das-dennis"/"uniform"
    "deap.tools.selTournamentDCD": "PY",                           # random.sample / random.random
    "deap.tools.selNSGA2": "", "deap.tools.initIterate": "", "deap.tools.initRepeat": "", "deap.tools.Statistics": "",
    "deap.tools.Logbook": "", "deap.base.Fitness": "", "deap.base.Toolbox": "", "deap.creator.create": "",
    "deap.creator.FitnessMax": "", "deap.creator.Individual": "", "deap.creator.FitnessMulti": "",
    "scipy.optimize.minimize": "", "scipy.optimize.Bounds": "", "scipy.interpolate.interp1d": "",
    "scipy.stats.norm.pdf": "", "scipy.stats.norm.ppf": "", "scipy.stats.norm.cdf": "",
}
THIRD_PARTY_PREFIX_OK = ("pymoo.core.", "pymoo.algorithms.", "pymoo.operators.", "pymoo.termination.", "pymoo.util.nds.",
                         "pymoo.util.dominator.", "pymoo.util.misc.", "pymoo.util.display.")
ENTROPY_MODULES = ("random", "numpy.random", "secrets", "uuid", "deap", "pymoo", "scipy.stats", "scipy.optimize", PRNG_MOD,
                   "pybrops.core.random")

def _modname(root, path):
    rel = os.path.relpath(path, os.path.dirname(root))[:-3].replace(os.sep, ".")
    return rel[:-9] if rel.endswith(".__init__") else rel

class Func:
    __slots__ = ("qn", "mod", "cls", "name", "node", "kind", "direct", "refs", "line", "file", "has_rng", "why", "rs_handed")
    def __init__(self, qn, mod, cls, name, node, kind, file):
        self.qn, self.mod, self.cls, self.name, self.node, self.kind, self.file = qn, mod, cls, name, node, kind, file
        self.direct = 0; self.refs = set(); self.line = node.lineno; self.why = []
        a = node.args
        self.has_rng = any(x.arg == "rng" for x in a.posonlyargs + a.args + a.kwonlyargs)
        # the generator a pymoo operator is handed: parameter random_state, or random_state = kwargs[...]/kwargs.get(...) of **kwargs
        self.rs_handed = any(x.arg == "random_state" for x in a.posonlyargs + a.args + a.kwonlyargs)
        if a.kwarg is not None:
            for n in ast.walk(node):
                if isinstance(n, ast.Assign) and len(n.targets) == 1 and isinstance(n.targets[0], ast.Name) and n.targets[0].id == "random_state":
                    v = n.value
                    key = None
                    if isinstance(v, ast.Subscript) and isinstance(v.value, ast.Name) and v.value.id == a.kwarg.arg and isinstance(v.slice, ast.Constant):
                        key = v.slice.value
                    elif isinstance(v, ast.Call) and isinstance(v.func, ast.Attribute) and v.func.attr == "get" and isinstance(v.func.value, ast.Name) \
                            and v.func.value.id == a.kwarg.arg and v.args and isinstance(v.args[0], ast.Constant) \
                            and (len(v.args) == 1 or (isinstance(v.args[1], ast.Constant) and v.args[1].value is None)) and not v.keywords:
                        key = v.args[0].value
                    if key == "random_state": self.rs_handed = True

class Cls:
    def __init__(self, qn, mod, node):
        self.qn, self.mod, self.node = qn, mod, node
        self.bases = []          # qualified names (package classes) or "ext:<dotted>"
        self.members = {}        # name -> [Func]
        self.subs = set()

def scan_package(repo):
    root = os.path.join(repo, "pybrops")
    mods = {}
    for dp, dn, fn in os.walk(root):
        dn[:] = sorted(d for d in dn if d != "__pycache__")
        for f in sorted(fn):
            if not f.endswith(".py"): continue
            p = os.path.join(dp, f)
            m = _modname(root, p)
            if m.startswith("pybrops.test"): continue
            src = open(p, "rb").read().decode("utf8")
            mods[m] = (p, ast.parse(src, filename=p))
    return mods

class Table:
    def __init__(self, repo):
        self.repo = repo
        self.mods = scan_package(repo)
        self.bind = {}      # module -> {local name: dotted identity}
        self.funcs = {}     # qn -> Func
        self.classes = {}   # qn -> Cls
        self.toplevel = {}  # module -> {name: qn of func or class}
        self.members_by_name = {}   # member name -> [Func]
        self._index()
        self._hierarchy()
        for f in list(self.funcs.values()):
            self._scan_function(f)

    # ---------------------------------------------------------------- indexing
    def _index(self):
        for m, (path, tree) in self.mods.items():
            b = {}
            top = {}
            for node in ast.walk(tree):                       # imports anywhere in the module (function-level imports too)
                if isinstance(node, ast.Import):
                    for a in node.names:
                        if a.asname: b[a.asname] = a.name
                        else: b[a.name.split(".")[0]] = a.name.split(".")[0]
                elif isinstance(node, ast.ImportFrom):
                    base = node.module or ""
                    if node.level:
                        pk = m.split(".")
                        is_pkg = path.endswith("__init__.py")
                        up = node.level - (1 if is_pkg else 0)
                        pk = pk[:len(pk) - up] if up else pk
                        if not is_pkg: pk = m.split(".")[:-node.level]
                        base = ".".join(pk + ([node.module] if node.module else []))
                    for a in node.names:
                        if a.name == "*":
                            if base.startswith(ENTROPY_MODULES) or base in ENTROPY_MODULES:
                                raise TranslateError("%s: star import from entropy module %s" % (m, base))
                            continue
                        b[a.asname or a.name] = base + "." + a.name
            for node in tree.body:
                if isinstance(node, (ast.FunctionDef, ast.AsyncFunctionDef)):
                    qn = m + "." + node.name
                    self.funcs[qn] = Func(qn, m, None, node.name, node, "func", path)
                    top[node.name] = qn
                elif isinstance(node, ast.ClassDef):
                    cqn = m + "." + node.name
                    c = Cls(cqn, m, node)
                    self.classes[cqn] = c
                    top[node.name] = cqn
                    for sub in node.body:
                        if isinstance(sub, (ast.FunctionDef, ast.AsyncFunctionDef)):
                            kind, suffix = "method", ""
                            for d in sub.decorator_list:
                                ds = ast.unparse(d)
                                if ds.endswith(".setter"): kind, suffix = "setter", ".setter"
                                elif ds.endswith(".deleter"): kind, suffix = "deleter", ".deleter"
                                elif ds == "property": kind = "getter"
                                elif ds in ("classmethod", "staticmethod"): kind = ds
                            qn = cqn + "." + sub.name + suffix
                            if qn in self.funcs: qn = qn + "@%d" % sub.lineno
                            f = Func(qn, m, cqn, sub.name, sub, kind, path)
                            self.funcs[qn] = f
                            c.members.setdefault(sub.name, []).append(f)
                            self.members_by_name.setdefault(sub.name, []).append(f)
            self.bind[m] = b
            self.toplevel[m] = top
        # module-level names of the package shadow imports of the same name
        for m in self.mods:
            for n, qn in self.toplevel[m].items():
                self.bind[m][n] = qn

    def _resolve_pkg(self, ident, depth=0):
        """follow re-exports: identity 'pybrops.x.y.Name' -> qn of a function/class, or None"""
        if ident in self.funcs or ident in self.classes: return ident
        if depth > 6 or "." not in ident: return None
        mod, name = ident.rsplit(".", 1)
        if mod in self.mods and name in self.bind[mod]:
            nxt = self.bind[mod][name]
            if nxt != ident: return self._resolve_pkg(nxt, depth + 1)
        return None

    def _hierarchy(self):
        for c in self.classes.values():
            for bexp in c.node.bases:
                ident = self._ident(bexp, c.mod)
                tgt = self._resolve_pkg(ident) if ident else None
                if tgt in self.classes:
                    c.bases.append(tgt)
                else:
                    c.bases.append("ext:" + (ident or ast.unparse(bexp)))
        for c in self.classes.values():
            for a in self.ancestors(c.qn):
                if a != c.qn: self.classes[a].subs.add(c.qn)

    def ancestors(self, cqn, seen=None):
        seen = seen if seen is not None else []
        if cqn in seen or cqn not in self.classes: return seen
        seen.append(cqn)
        for b in self.classes[cqn].bases:
            if not b.startswith("ext:"): self.ancestors(b, seen)
        return seen

    def has_external_base(self, cqn):
        for a in self.ancestors(cqn):
            for b in self.classes[a].bases:
                if b.startswith("ext:") and b[4:] not in ("object", "abc.ABCMeta", "abc.ABC", "ABC", "Exception", "ValueError", "TypeError"):
                    return True
        return False

    def cone(self, cqn):
        """the class, its ancestors and all subclasses of any of them that are subclasses of cqn"""
        out = list(self.ancestors(cqn))
        for s in sorted(self.classes[cqn].subs):
            if s not in out: out.append(s)
        return out

    # ---------------------------------------------------------------- expression identities
    def _ident(self, e, mod):
        """dotted identity of a Name/Attribute chain through the module's import bindings, or None"""
        parts = []
        while isinstance(e, ast.Attribute):
            parts.append(e.attr); e = e.value
        if not isinstance(e, ast.Name): return None
        base = self.bind[mod].get(e.id)
        if base is None: return None
        return ".".join([base] + parts[::-1])

    # ---------------------------------------------------------------- function scan
    def _scan_function(self, f):
        mod = f.mod
        body = f.node.body
        # parameter names of this function and of nested functions / lambdas called "rng"
        rng_params = f.has_rng or any(isinstance(n, (ast.FunctionDef, ast.Lambda)) and any(a.arg == "rng" for a in n.args.args + n.args.kwonlyargs)
                                      for n in ast.walk(f.node) if n is not f.node)
        shadow = set()           # local names that shadow module bindings (assigned in the function, or parameters)
        for n in ast.walk(f.node):
            if isinstance(n, ast.arg): shadow.add(n.arg)
            elif isinstance(n, ast.Name) and isinstance(n.ctx, ast.Store): shadow.add(n.id)
        # default-pattern positions:  if X is None: X = global_prng
        default_nodes = set()
        for n in ast.walk(f.node):
            if isinstance(n, ast.If) and isinstance(n.test, ast.Compare) and len(n.test.ops) == 1 and isinstance(n.test.ops[0], ast.Is) \
               and isinstance(n.test.comparators[0], ast.Constant) and n.test.comparators[0].value is None and isinstance(n.test.left, ast.Name) \
               and len(n.body) == 1 and isinstance(n.body[0], ast.Assign) and len(n.body[0].targets) == 1 \
               and isinstance(n.body[0].targets[0], ast.Name) and n.body[0].targets[0].id == n.test.left.id and not n.orelse:
                default_nodes.add(id(n.body[0].value))
        for d in f.node.args.defaults + [x for x in f.node.args.kw_defaults if x is not None]:
            default_nodes.add(id(d))
            self._expr(f, d, mod, shadow, default_nodes, rng_params, is_default=True)
        read_rng = False
        # walk statements, skipping annotations and the docstring
        stack = list(body)
        if stack and isinstance(stack[0], ast.Expr) and isinstance(stack[0].value, ast.Constant) and isinstance(stack[0].value.value, str):
            stack = stack[1:]
        self._walk(f, stack, mod, shadow, default_nodes, rng_params)
        # ignored rng parameter
        if f.has_rng:
            for n in ast.walk(f.node):
                if isinstance(n, ast.Name) and n.id == "rng" and isinstance(n.ctx, ast.Load): read_rng = True
            if not read_rng and not self._is_stub(f.node):
                f.direct |= BITS["IGNORED"]; f.why.append("IGNORED: parameter rng is never read")

    @staticmethod
    def _is_stub(fn):
        b = [s for s in fn.body if not (isinstance(s, ast.Expr) and isinstance(s.value, ast.Constant))]
        return all(isinstance(s, (ast.Raise, ast.Pass)) for s in b)

    def _walk(self, f, nodes, mod, shadow, default_nodes, rng_params):
        """visit every expression under the given statements except annotations"""
        for n in nodes:
            if isinstance(n, (ast.FunctionDef, ast.AsyncFunctionDef)):
                for d in n.args.defaults + [x for x in n.args.kw_defaults if x is not None] + n.decorator_list:
                    self._expr(f, d, mod, shadow, default_nodes, rng_params)
                self._walk(f, n.body, mod, shadow, default_nodes, rng_params)
            elif isinstance(n, ast.AnnAssign):
                if n.value is not None: self._expr(f, n.value, mod, shadow, default_nodes, rng_params)
                self._expr(f, n.target, mod, shadow, default_nodes, rng_params)
            elif isinstance(n, (ast.Import, ast.ImportFrom, ast.Global, ast.Nonlocal, ast.Pass, ast.Break, ast.Continue)):
                pass
            elif isinstance(n, ast.ClassDef):
                self._walk(f, n.body, mod, shadow, default_nodes, rng_params)
            elif isinstance(n, ast.stmt):
                for field, val in ast.iter_fields(n):
                    if isinstance(val, list):
                        stm = [v for v in val if isinstance(v, ast.stmt)]
                        self._walk(f, stm, mod, shadow, default_nodes, rng_params)
                        for v in val:
                            if isinstance(v, ast.expr): self._expr(f, v, mod, shadow, default_nodes, rng_params)
                            elif isinstance(v, (ast.excepthandler,)):
                                if v.type is not None: self._expr(f, v.type, mod, shadow, default_nodes, rng_params)
                                self._walk(f, v.body, mod, shadow, default_nodes, rng_params)
                            elif isinstance(v, ast.withitem):
                                self._expr(f, v.context_expr, mod, shadow, default_nodes, rng_params)
                                if v.optional_vars is not None: self._expr(f, v.optional_vars, mod, shadow, default_nodes, rng_params)
                            elif isinstance(v, ast.keyword):
                                self._expr(f, v.value, mod, shadow, default_nodes, rng_params)
                            elif hasattr(ast, "match_case") and isinstance(v, ast.match_case):
                                raise TranslateError("%s: match statement not supported" % f.qn)
                    elif isinstance(val, ast.expr):
                        self._expr(f, val, mod, shadow, default_nodes, rng_params)
            else:
                raise TranslateError("%s: unexpected node %s" % (f.qn, type(n).__name__))

    def _src(self, f, bit, why, node):
        f.direct |= BITS[bit]
        f.why.append("%s: %s (line %d)" % (bit, why, getattr(node, "lineno", 0)))

    def _expr(self, f, e, mod, shadow, default_nodes, rng_params, is_default=False, called=None):
        """classify one expression tree.  `called` = the ast.Call whose .func is e (or None)"""
        if e is None: return
        if isinstance(e, ast.Call):
            self._expr(f, e.func, mod, shadow, default_nodes, rng_params, called=e)
            for a in e.args: self._expr(f, a, mod, shadow, default_nodes, rng_params)
            self._copies_generator(f, e, mod, shadow)
            owns = f.has_rng or bool(f.cls and f.kind in ("method", "setter", "getter") and self.class_owns_rng(f.cls))
            for k in e.keywords:
                self._expr(f, k.value, mod, shadow, default_nodes, rng_params)
                if k.arg == "rng" and isinstance(k.value, ast.Constant) and k.value.value is None and owns:
                    self._src(f, "DROPS", "passes rng = None although a generator is at hand", e)
            if owns: self._forwarding(f, e, mod, shadow)
            if f.rs_handed: self._forwarding_rs(f, e, mod, shadow)
            return
        if isinstance(e, ast.Lambda):
            for d in e.args.defaults: self._expr(f, d, mod, shadow, default_nodes, rng_params)
            self._expr(f, e.body, mod, shadow, default_nodes, rng_params); return
        if isinstance(e, (ast.Attribute, ast.Name)):
            self._ref(f, e, mod, shadow, default_nodes, rng_params, called)
            return
        if isinstance(e, (ast.ListComp, ast.SetComp, ast.GeneratorExp, ast.DictComp)):
            for g in e.generators:
                self._expr(f, g.iter, mod, shadow, default_nodes, rng_params)
                self._expr(f, g.target, mod, shadow, default_nodes, rng_params)
                for c in g.ifs: self._expr(f, c, mod, shadow, default_nodes, rng_params)
            if isinstance(e, ast.DictComp):
                self._expr(f, e.key, mod, shadow, default_nodes, rng_params); self._expr(f, e.value, mod, shadow, default_nodes, rng_params)
            else:
                self._expr(f, e.elt, mod, shadow, default_nodes, rng_params)
            return
        for ch in ast.iter_child_nodes(e):
            if isinstance(ch, ast.expr): self._expr(f, ch, mod, shadow, default_nodes, rng_params)
            elif isinstance(ch, ast.keyword): self._expr(f, ch.value, mod, shadow, default_nodes, rng_params)
            elif isinstance(ch, (ast.comprehension,)):
                self._expr(f, ch.iter, mod, shadow, default_nodes, rng_params)

    def _is_generator_ref(self, x, mod, shadow):
        """rng / random_state / <obj>.rng / <obj>._rng / global_prng (through the module's bindings)"""
        if isinstance(x, ast.Name):
            if x.id in ("rng", "_rng", "random_state"): return True
            if x.id not in shadow or x.id in self.toplevel[mod]:
                return self.bind[mod].get(x.id) == PRNG_MOD + ".global_prng"
            return False
        if isinstance(x, ast.Attribute):
            if x.attr in ("rng", "_rng"): return True
            return self._ident(x, mod) == PRNG_MOD + ".global_prng"
        return False

    def _copies_generator(self, f, call, mod, shadow):
        """copy.copy(<generator>) / copy.deepcopy(<generator>, memo) / pickle.dumps(<generator>): a private snapshot"""
        fn = call.func
        x = fn
        while isinstance(x, ast.Attribute): x = x.value
        if not isinstance(x, ast.Name) or (x.id in shadow and x.id not in self.toplevel[mod]): return
        ident = self._ident(fn, mod)
        if ident not in COPY_FUNCS: return
        args = list(call.args) + [k.value for k in call.keywords]
        if args and self._is_generator_ref(args[0], mod, shadow):
            self._src(f, "COPIES", "%s(%s): snapshot of a generator" % (ident, ast.unparse(args[0])), call)

    def _snapshot_attrs(self, f, base, chain, e, mod, shadow):
        """<generator>.get_state / .__getstate__ / .__reduce__ / .__deepcopy__ / .bit_generator.state"""
        full = [base] + chain
        for i, nm in enumerate(full):
            gen = nm in ("rng", "_rng") or (i == 0 and (nm == "random_state" or
                  ((nm not in shadow or nm in self.toplevel[mod]) and self.bind[mod].get(nm) == PRNG_MOD + ".global_prng")))
            if not gen: continue
            rest = full[i + 1:]
            if rest and (rest[0] in SNAP_ATTRS or rest[:2] == ["bit_generator", "state"]):
                self._src(f, "COPIES", "%s: state of a generator read out" % ".".join(full), e)
                return

    def _forwarding(self, f, call, mod, shadow):
        """the callee (a package function or class) accepts rng, the caller has a generator and does not hand it on"""
        fn = call.func
        x = fn
        while isinstance(x, ast.Attribute): x = x.value
        if not isinstance(x, ast.Name) or (x.id in shadow and x.id not in self.toplevel[mod]): return
        ident = self._ident(fn, mod)
        tgt = self._resolve_pkg(ident) if ident and ident.startswith("pybrops.") else None
        if tgt is None: return
        cands = []
        if tgt in self.funcs: cands = [(self.funcs[tgt], 0)]
        elif tgt in self.classes:
            for a in self.ancestors(tgt):
                if "__init__" in self.classes[a].members:
                    cands = [(self.classes[a].members["__init__"][0], 1)]; break
        for g, skip in cands:
            if not g.has_rng: continue
            pos = [a.arg for a in g.node.args.posonlyargs + g.node.args.args][skip:]
            if any(k.arg == "rng" or k.arg is None for k in call.keywords): continue
            if any(isinstance(a, ast.Starred) for a in call.args): continue
            if "rng" in pos and len(call.args) > pos.index("rng"):
                a = call.args[pos.index("rng")]
                if isinstance(a, ast.Constant) and a.value is None:
                    self._src(f, "DROPS", "calls %s with the literal None in the rng position although a generator is at hand" % g.qn[len("pybrops."):], call)
                continue
            self._src(f, "DROPS", "calls %s without forwarding the generator" % g.qn[len("pybrops."):], call)

    def _forwarding_rs(self, f, call, mod, shadow):
        """the callee (a package function, or a method of the caller's own class reached through self) has a random_state parameter, the
        caller was handed a generator by pymoo and does not hand it on: the callee falls back on its default (the global stream)"""
        fn = call.func
        cands = []
        if isinstance(fn, ast.Attribute) and isinstance(fn.value, ast.Name) and fn.value.id in ("self", "cls") and fn.value.id in shadow and f.cls:
            for c in self.cone(f.cls):
                for g in self.classes[c].members.get(fn.attr, []):
                    if g.kind in ("method", "classmethod", "staticmethod"): cands.append((g, 0 if g.kind == "staticmethod" else 1))
        else:
            x = fn
            while isinstance(x, ast.Attribute): x = x.value
            if not isinstance(x, ast.Name) or (x.id in shadow and x.id not in self.toplevel[mod]): return
            ident = self._ident(fn, mod)
            tgt = self._resolve_pkg(ident) if ident and ident.startswith("pybrops.") else None
            if tgt in self.funcs: cands = [(self.funcs[tgt], 0)]
        for g, skip in cands:
            a = g.node.args
            if "random_state" not in [x.arg for x in a.posonlyargs + a.args + a.kwonlyargs]: continue
            if any(k.arg == "random_state" or k.arg is None for k in call.keywords): continue
            pos = [x.arg for x in a.posonlyargs + a.args][skip:]
            if "random_state" in pos:
                if any(isinstance(x, ast.Starred) for x in call.args): continue
                if len(call.args) > pos.index("random_state"):
                    v = call.args[pos.index("random_state")]
                    if isinstance(v, ast.Constant) and v.value is None:
                        self._src(f, "DROPS", "calls %s with the literal None in the random_state position although pymoo handed a generator over" % g.qn[len("pybrops."):], call)
                    continue
            self._src(f, "DROPS", "calls %s without forwarding the random_state pymoo handed over" % g.qn[len("pybrops."):], call)

    def class_owns_rng(self, cqn):
        return any("rng" in self.classes[a].members for a in self.ancestors(cqn))

    def _ref(self, f, e, mod, shadow, default_nodes, rng_params, called):
        """a maximal Name/Attribute chain"""
        chain = []
        x = e
        while isinstance(x, ast.Attribute):
            chain.append(x.attr); x = x.value
        chain = chain[::-1]
        if isinstance(x, ast.Name): self._snapshot_attrs(f, x.id, chain, e, mod, shadow)
        if not isinstance(x, ast.Name):
            # attribute of a computed object: resolve members by name, then classify the receiver expression
            if isinstance(x, ast.Call) and isinstance(x.func, ast.Name) and x.func.id == "super" and f.cls and chain:
                for a in self.ancestors(f.cls)[1:]:             # super().m : the bases only
                    for g in self.classes[a].members.get(chain[0], []): f.refs.add(g.qn)
                self._members_any(f, chain[1:])
                return
            self._members_any(f, chain)
            self._expr(f, x, mod, shadow, default_nodes, rng_params)
            return
        base = x.id
        # ---- explicit generators
        if base == "rng" and (rng_params or "rng" in shadow):
            if f.has_rng or rng_params: self._src(f, "PARAM", "rng", e) if not (f.direct & BITS["PARAM"]) else None
            return
        if base == "random_state" and f.rs_handed and isinstance(e.ctx, ast.Load):
            if not (f.direct & BITS["PARAM"]): self._src(f, "PARAM", "random_state handed over by pymoo", e)
            return
        if base in ("self", "cls") and f.cls and base in shadow:
            if chain and chain[0] in ("rng", "_rng"):
                if not (f.direct & BITS["SELF"]): self._src(f, "SELF", "self.%s" % chain[0], e)
                if chain[0] == "rng" and isinstance(e.ctx, ast.Store) and len(chain) == 1:
                    self._members_cone(f, f.cls, ["rng"], store=True)
                elif chain[0] == "rng":
                    self._members_cone(f, f.cls, ["rng"], store=False)
                return
            if chain:
                self._members_cone(f, f.cls, chain[:1], store=isinstance(e.ctx, ast.Store) and len(chain) == 1)
                self._members_any(f, chain[1:])
                if any(c in ("rng", "_rng") for c in chain[1:]) and not (f.direct & BITS["SELF"]):
                    self._src(f, "SELF", "self.%s" % ".".join(chain), e)
            return
        ident = None
        if base not in shadow or base in self.toplevel[mod]:
            b = self.bind[mod].get(base)
            if b is not None: ident = ".".join([b] + chain)
        if ident is None:
            # a local object: members by name; an attribute called rng on any object is an owned generator
            if any(c in ("rng", "_rng") for c in chain) and not (f.direct & BITS["SELF"]):
                self._src(f, "SELF", "%s.%s" % (base, ".".join(chain)), e)
            self._members_any(f, [c for c in chain if c not in ("rng", "_rng")] if not any(c in ("rng", "_rng") for c in chain) else chain[:chain.index("rng") if "rng" in chain else chain.index("_rng")])
            if base == "super" and f.cls:
                pass
            return
        self._identity(f, ident, e, called, id(e) in default_nodes, len(chain))

    def _members_cone(self, f, cqn, names, store):
        for nm in names:
            for c in self.cone(cqn):
                for g in self.classes[c].members.get(nm, []):
                    if store and g.kind != "setter" and any(h.kind == "setter" for h in self.classes[c].members.get(nm, [])): continue
                    f.refs.add(g.qn)

    def _members_any(self, f, names):
        for nm in names:
            if nm in ("__init__", "__new__") and f.cls:
                # an explicit obj.__init__(...) inside a method re-initialises an object of the method's own class
                # (the __copy__/__deepcopy__ idiom  out = cls.__new__(cls); out.__init__(...))
                self._members_cone(f, f.cls, [nm], store=False)
                continue
            for g in self.members_by_name.get(nm, []):
                f.refs.add(g.qn)

    def _construct(self, f, cqn):
        for a in self.ancestors(cqn):
            for g in self.classes[a].members.get("__init__", []): f.refs.add(g.qn)
            for g in self.classes[a].members.get("__new__", []): f.refs.add(g.qn)
        if self.has_external_base(cqn):            # a third-party framework may call any method back
            for a in self.ancestors(cqn):
                for gs in self.classes[a].members.values():
                    for g in gs: f.refs.add(g.qn)

    def _identity(self, f, ident, e, called, is_default, nattr):
        # ---- the package itself
        if ident.startswith("pybrops."):
            if ident == PRNG_MOD + ".global_prng" or ident.startswith(PRNG_MOD + ".global_prng."):
                if is_default and ident == PRNG_MOD + ".global_prng": self._src(f, "DEFAULT", "global_prng as default", e)
                else: self._src(f, "NP", ident, e)
                return
            # attribute chain below a package object: resolve the longest prefix
            parts = ident.split(".")
            for k in range(len(parts), 1, -1):
                pre = ".".join(parts[:k])
                tgt = self._resolve_pkg(pre)
                rest = parts[k:]
                if tgt in self.funcs:
                    f.refs.add(tgt); self._members_any(f, rest); return
                if tgt in self.classes:
                    if rest:
                        for a in self.ancestors(tgt):
                            for g in self.classes[a].members.get(rest[0], []): f.refs.add(g.qn)
                        self._members_any(f, rest[1:])
                    else:
                        self._construct(f, tgt)
                    return
                if pre in self.mods:
                    if pre in (PRNG_MOD,) and rest:
                        self._src(f, "NP", "module level wrapper %s" % ident, e); return
                    if pre == "pybrops.core.random" and rest and rest[0] != "prng":
                        raise TranslateError("%s: unclassified reference %s" % (f.qn, ident))
                    if rest:   # a module attribute that is neither function nor class (constant): fine unless entropy module
                        if pre.startswith("pybrops.core.random"):
                            raise TranslateError("%s: unclassified reference %s" % (f.qn, ident))
                    return
            if ident.startswith(PRNG_MOD + "."):
                self._src(f, "NP", "module level wrapper %s" % ident, e); return
            return
        # ---- python's random module
        if ident == "random" or ident.startswith("random."):
            name = ident[7:]
            if name == "": raise TranslateError("%s: bare reference to module random (line %d)" % (f.qn, e.lineno))
            head = name.split(".")[0]
            if head == "seed":
                if called is not None and (called.args or called.keywords): self._src(f, "PY", "random.seed(<arg>)", e)
                else: self._src(f, "OS", "random.seed() without argument", e)
            elif head == "SystemRandom": self._src(f, "OS", "random.SystemRandom", e)
            elif head == "Random": raise TranslateError("%s: random.Random instance not modelled (line %d)" % (f.qn, e.lineno))
            else: self._src(f, "PY", ident, e)
            return
        # ---- numpy.random
        if ident == "numpy.random" or ident.startswith("numpy.random."):
            name = ident[13:]
            if name == "": raise TranslateError("%s: bare reference to numpy.random (line %d)" % (f.qn, e.lineno))
            head = name.split(".")[0]
            if head in NP_CTORS_OS_WHEN_EMPTY and called is not None:
                a0 = called.args[0] if called.args else None
                kw = {k.arg: k.value for k in called.keywords}
                a0 = a0 if a0 is not None else kw.get("seed", kw.get("entropy"))
                if a0 is None or (isinstance(a0, ast.Constant) and a0.value is None):
                    self._src(f, "OS", "%s() without seed" % ident, e)
                return
            if head in NP_TYPES: return                       # type tests, annotations, Generator(<bit generator>)
            if head == "default_rng": raise TranslateError("%s: default_rng referenced but not called (line %d)" % (f.qn, e.lineno))
            if head == "seed":
                if called is not None and (called.args or called.keywords): self._src(f, "NP", "numpy.random.seed(<arg>)", e)
                else: self._src(f, "OS", "numpy.random.seed() without argument", e)
                return
            self._src(f, "NP", ident, e)
            return
        if ident == "numpy" and nattr == 0: return
        # ---- operating system
        if ident in ("os.urandom", "os.getrandom") or ident.startswith(("secrets.", "uuid.uuid1", "uuid.uuid4")):
            self._src(f, "OS", ident, e); return
        if ident in ("secrets", "uuid"): raise TranslateError("%s: bare reference to %s" % (f.qn, ident))
        # ---- third party
        for pre in ("pymoo", "deap", "scipy.stats", "scipy.optimize", "scipy.interpolate"):
            if ident == pre or ident.startswith(pre + "."):
                key = ident
                while key and key not in THIRD_PARTY: key = key.rsplit(".", 1)[0] if "." in key else ""
                if key:
                    tag = THIRD_PARTY[key]
                    if tag == "PYMOO_MINIMIZE":
                        # hand-entered fact (pymoo 0.6.2): Algorithm.setup does random_state = default_rng(seed); seed is None unless
                        # minimize() is given one  =>  OS entropy iff no seed argument reaches this call site.  The seed expression
                        # itself is scanned like any other expression (self.rng.uniform(...) -> SELF).
                        kws = {k.arg: k.value for k in called.keywords} if called is not None else {}
                        sv = kws.get("seed")
                        if called is None:
                            self._src(f, "OS", "pymoo.optimize.minimize referenced but not called here (seed cannot be checked)", e)
                        elif None in kws:
                            raise TranslateError("%s: pymoo minimize(**kwargs): cannot see whether a seed is passed (line %d)" % (f.qn, e.lineno))
                        elif sv is None or (isinstance(sv, ast.Constant) and sv.value is None):
                            self._src(f, "OS", "pymoo.optimize.minimize without seed= (pymoo 0.6.2: default_rng(None))", e)
                    elif tag == "REFDIRS":
                        a0 = called.args[0] if (called is not None and called.args) else None
                        if not (isinstance(a0, ast.Constant) and a0.value in ("das-dennis", "uniform")):
                            raise TranslateError("%s: get_reference_directions with a method that may be random (line %d)" % (f.qn, e.lineno))
                    elif tag: self._src(f, tag, ident, e)
                    return
                if ident.startswith(THIRD_PARTY_PREFIX_OK): return
                raise TranslateError("%s: third-party name %s is not in the hand-written table (line %d)" % (f.qn, ident, e.lineno))
        return

    # ---------------------------------------------------------------- output
    def components(self):
        """functions that accept rng, and members of classes that own a generator"""
        out = []
        for qn, f in sorted(self.funcs.items()):
            if f.has_rng: out.append(qn)
            elif f.cls and self.class_owns_rng(f.cls): out.append(qn)
        return out

def emit(tab, path, extra_names=()):
    qns = sorted(tab.funcs)
    ix = {qn: i + 1 for i, qn in enumerate(qns)}
    comps = tab.components()
    lines = []
    A = lines.append
    A("(* GENERATED by harness/translate/c08_entropy.py from the pybrops working tree — do not edit.")
    A("   node = (id, direct entropy-source mask, referenced nodes);  mask bits: PARAM 1, SELF 2, DEFAULT 4, NP 8, PY 16, OS 32, DROPS 64, IGNORED 128, COPIES 256 *)")
    A("From Coq Require Import List NArith PArith String.")
    A("Import ListNotations.")
    A("Local Open Scope positive_scope.")
    A("Definition node : Type := (positive * N * list positive)%type.")
    chunks = []
    CH = 400
    for k in range(0, len(qns), CH):
        nm = "nodes_%d" % (k // CH)
        chunks.append(nm)
        A("Definition %s : list node := [" % nm)
        rows = []
        for qn in qns[k:k + CH]:
            f = tab.funcs[qn]
            refs = sorted(ix[r] for r in f.refs if r != qn)
            rows.append(" (%d, %d%%N, [%s])" % (ix[qn], f.direct, ";".join(str(r) for r in refs)))
        A(";\n".join(rows))
        A("].")
    A("Definition nodes : list node := %s." % " ++ ".join(chunks))
    extra = {"pybrops." + x for x in extra_names}
    named = [qn for qn in qns if tab.funcs[qn].direct or tab.funcs[qn].has_rng or qn in extra]
    A("Definition names : list (string * positive) := [")
    A(";\n".join(' ("%s"%%string, %d)' % (qn[len("pybrops."):], ix[qn]) for qn in named))
    A("].")
    A("(* functions that accept an rng argument, and all members of classes that own a generator *)")
    A("Definition rng_components : list positive := [%s]." % ";".join(str(ix[q]) for q in comps))
    A("Definition rng_functions : list positive := [%s]." % ";".join(str(ix[q]) for q in qns if tab.funcs[q].has_rng))
    A("(* members invoked implicitly (operators, copy, len, iteration ...): not linked by the reference graph *)")
    dund = [q for q in qns if re.match(r"__\w+__$", tab.funcs[q].name) and tab.funcs[q].name not in ("__init__", "__new__")]
    A("Definition dunder_nodes : list positive := [%s]." % ";".join(str(ix[q]) for q in dund))
    A("Definition node_count : N := %d%%N." % len(qns))
    txt = "\n".join(lines) + "\n"
    old = open(path).read() if os.path.exists(path) else None
    if old != txt:
        os.makedirs(os.path.dirname(path), exist_ok=True)
        tmp = path + ".tmp%d" % os.getpid()
        open(tmp, "w").write(txt); os.replace(tmp, path)
    return {"file": os.path.relpath(path, os.path.dirname(os.path.dirname(path))), "nodes": len(qns),
            "edges": sum(len(f.refs) for f in tab.funcs.values()), "with_direct_source": sum(1 for f in tab.funcs.values() if f.direct),
            "rng_components": len(comps), "sha256": hashlib.sha256(txt.encode()).hexdigest()[:16]}

def translate(repo, gen_dir, extra_names=()):
    tab = Table(repo)
    info = emit(tab, os.path.join(gen_dir, "C08_Entropy.v"), extra_names)
    return tab, info

if __name__ == "__main__":
    import sys, json
    tab = Table(sys.argv[1] if len(sys.argv) > 1 else "/repo")
    for qn, f in sorted(tab.funcs.items()):
        if f.direct: print("%3d %s\n      %s" % (f.direct, qn, "\n      ".join(f.why)))

# ------------------------------------------------------------------------------------------------ self test
_SELFTEST_SRC = '''
import numpy, random, os, secrets, copy, pickle
from copy import deepcopy as dc
import numpy as np
import numpy.random as npr
from numpy.random import Generator, default_rng
from numpy.random import uniform as unif
from random import shuffle as pyshuffle
from pybrops.core.random.prng import global_prng
from pybrops.core.random import prng
from pymoo.optimize import minimize

def ok_param(x, rng=None):
    if rng is None:
        rng = global_prng
    return rng.uniform()
def bad_np_attr(): return numpy.random.uniform()
def bad_np_alias(): return np.random.choice(3)
def bad_npr(): return npr.random()
def bad_from(): return unif()
def bad_py(): return random.random()
def bad_py_from(x): pyshuffle(x)
def bad_os(): return default_rng().random()
def bad_os2(): return numpy.random.default_rng(None).random()
def bad_os3(): return numpy.random.Generator(numpy.random.PCG64())
def bad_os4(): random.seed()
def bad_os5(p, a): return minimize(p, a)
def bad_os6(p, a): return minimize(p, a, seed=None)
def bad_os7(p, a):
    f = minimize
    return f(p, a, seed=1)
def ok_seeded(p, a): return minimize(p, a, seed=3)
class G:
    def __init__(self, rng=None): self._rng = rng
    def run(self, p, a): return minimize(p, a, seed = int(self._rng.uniform(0.0, 1.0) * 4294967296))
    def run_unseeded(self, p, a): return minimize(p, a, copy_algorithm = False)
def ok_derived(s): return default_rng(s)
class Op:
    def _do(self, problem, X, **kwargs):
        random_state = kwargs.get("random_state")
        if random_state is None:
            random_state = global_prng
        return random_state.choice(X)
    def _do_sub(self, problem, X, **kwargs):
        random_state = kwargs["random_state"]
        return random_state.random()
    def _do_par(self, problem, X, random_state=None, **kwargs): return random_state.random()
    def _do_bad(self, problem, X, **kwargs):
        random_state = kwargs.get("random_state")
        return numpy.random.choice(X)
    def _do_other(self, problem, X, **kwargs):
        random_state = kwargs.get("seed")
        return X
    def _do_owndefault(self, problem, X, **kwargs):
        random_state = kwargs.get("random_state", default_rng())
        return random_state.random()
    def _helper(self, x, *args, random_state=None, **kwargs):
        if random_state is None:
            random_state = global_prng
        return random_state.random()
    def _do_fwd(self, problem, X, **kwargs):
        random_state = kwargs.get("random_state")
        return self._helper(X, random_state = random_state)
    def _do_fwdkw(self, problem, X, **kwargs):
        random_state = kwargs.get("random_state")
        return self._helper(X, **kwargs)
    def _do_drop(self, problem, X, **kwargs):
        random_state = kwargs.get("random_state")
        return self._helper(X)
    def _do_dropfn(self, problem, X, **kwargs):
        random_state = kwargs.get("random_state")
        return rs_helper(3)
    def _do_dropnone(self, problem, X, **kwargs):
        random_state = kwargs.get("random_state")
        return rs_helper(3, None), random_state.random()
    def _do_fwdfn(self, problem, X, **kwargs):
        random_state = kwargs.get("random_state")
        return rs_helper(3, random_state)
def rs_helper(a, random_state=None):
    if random_state is None:
        random_state = global_prng
    return random_state.random()
def ok_types(x: numpy.random.Generator) -> numpy.random.RandomState: return isinstance(x, Generator)
def bad_global(): return global_prng.normal()
def bad_global_cond(rng=None):
    if rng is not None:
        rng = global_prng
    return rng
def bad_wrapper(): return prng.uniform()
def bad_urandom(): return os.urandom(4)
def bad_secrets(): return secrets.token_bytes(4)
def ignored(x, rng=None): return x
def stub(x, rng=None):
    """doc"""
    raise NotImplementedError("abstract")
def calls_bad(): return bad_py()
def nested():
    def inner(): return numpy.random.random()
    return inner
class A:
    def __init__(self, rng=None): self.rng = rng
    @property
    def rng(self): return self._rng
    @rng.setter
    def rng(self, value):
        if value is None:
            value = global_prng
        self._rng = value
    def use(self): return self.rng.random()
    def drop(self): return ok_param(1)
    def drop2(self): return ok_param(1, rng=None)
    def fwd(self): return ok_param(1, rng=self.rng)
    def fwdpos(self): return ok_param(1, self.rng)
    def droppos(self): return ok_param(1, None)
class B(A):
    def use(self): return numpy.random.random()
def via_method(a): return a.use()
def via_ctor(): return B()
class C2(A):
    def __deepcopy__(self, memo): return C2(rng=copy.deepcopy(self.rng, memo))
    def __copy__(self): return C2(rng=self.rng)
    def snap(self): return self.rng.bit_generator.state
    def share(self): return numpy.random.Generator(self.rng.bit_generator)
    def deep_other(self, x): return copy.deepcopy(x), self.rng.random()
def bad_copy_param(rng): return dc(rng)
def bad_copy_global(): return copy.copy(global_prng)
def bad_pickle(rng): return pickle.dumps(rng)
def bad_getstate(rng): return rng.get_state()
def bad_reduce(obj): return obj._rng.__reduce__()
def bad_rs(problem, X, random_state=None): return copy.deepcopy(random_state).random()
def ok_copy_other(x, rng=None):
    y = copy.deepcopy(x)
    return rng.random()
def ok_shadowed_copy(x, copy, rng=None): return copy.copy(rng)
'''
_SELFTEST_EXPECT = {"ok_param": 5, "bad_np_attr": 8, "bad_np_alias": 8, "bad_npr": 8, "bad_from": 8, "bad_py": 16, "bad_py_from": 16,
                    "bad_os": 32, "bad_os2": 32, "bad_os3": 32, "bad_os4": 32, "bad_os5": 32, "bad_os6": 32, "bad_os7": 32, "ok_seeded": 0, "Op._do": 5, "Op._do_sub": 1, "Op._do_par": 1, "Op._do_bad": 8, "Op._do_other": 0, "Op._do_owndefault": 32, "Op._helper": 5, "Op._do_fwd": 1, "Op._do_fwdkw": 0, "Op._do_drop": 64, "Op._do_dropfn": 64, "Op._do_dropnone": 65, "Op._do_fwdfn": 1, "rs_helper": 5, "G.run": 2, "G.run_unseeded": 32, "ok_derived": 0, "ok_types": 0,
                    "bad_global": 8, "bad_global_cond": 9, "bad_wrapper": 8, "bad_urandom": 32, "bad_secrets": 32, "ignored": 128, "stub": 0,
                    "calls_bad": 0, "nested": 8, "A.__init__": 3, "A.rng": 2, "A.rng.setter": 6, "A.use": 2, "A.drop": 64, "A.drop2": 64,
                    "A.fwd": 2, "A.fwdpos": 2, "A.droppos": 64, "B.use": 8, "via_method": 0, "via_ctor": 0,
                    "C2.__deepcopy__": 258, "C2.__copy__": 2, "C2.snap": 258, "C2.share": 2, "C2.deep_other": 2, "bad_copy_param": 257,
                    "bad_copy_global": 264, "bad_pickle": 257, "bad_getstate": 257, "bad_reduce": 258, "bad_rs": 257, "ok_copy_other": 1,
                    "ok_shadowed_copy": 1}
_SELFTEST_REFS = {"calls_bad": {"bad_py"}, "via_method": {"A.use", "B.use"}, "via_ctor": {"A.__init__"}, "A.__init__": {"A.rng.setter"},
                  "A.fwd": {"ok_param", "A.rng"}}
_SELFTEST_RAISE = ["import numpy\ndef f():\n    r = numpy.random\n    return r.random()\n",
                   "from random import *\ndef f(): return random()\n",
                   "from numpy.random import *\n",
                   "import random\ndef f():\n    r = random.Random(3)\n    return r.random()\n",
                   "from deap import tools\ndef f(p): return tools.selRoulette(p, 3)\n",
                   "from pymoo.optimize import minimize\ndef f(p, a, **kw): return minimize(p, a, **kw)\n",
                   "from pymoo.util.ref_dirs import get_reference_directions\ndef f(): return get_reference_directions('energy', 3, 10)\n"]

def selftest(scratch):
    """the translator must flag every hidden-source idiom of a synthetic module, and refuse what it cannot classify"""
    import shutil
    def build(src):
        shutil.rmtree(scratch, ignore_errors=True)
        for d in ("pybrops", "pybrops/core", "pybrops/core/random"):
            os.makedirs(os.path.join(scratch, d)); open(os.path.join(scratch, d, "__init__.py"), "w").write("")
        open(os.path.join(scratch, "pybrops/core/random/prng.py"), "w").write(
            "import numpy\nimport random as py_random\nglobal_prng = numpy.random.random.__self__\nuniform = global_prng.uniform\n"
            "def seed(s=None):\n    py_random.seed(s)\n    numpy.random.seed(py_random.randint(0, 2**32-1))\n")
        open(os.path.join(scratch, "pybrops/m.py"), "w").write(src)
        return Table(scratch)
    tab = build(_SELFTEST_SRC)
    for k, want in _SELFTEST_EXPECT.items():
        got = tab.funcs["pybrops.m." + k].direct
        if got != want: raise TranslateError("translator self-test: %s classified %d, expected %d (%s)" % (k, got, want, tab.funcs["pybrops.m." + k].why))
    for k, want in _SELFTEST_REFS.items():
        got = {r[len("pybrops.m."):] for r in tab.funcs["pybrops.m." + k].refs}
        if not want <= got: raise TranslateError("translator self-test: %s references %s, expected at least %s" % (k, sorted(got), sorted(want)))
    if tab.funcs["pybrops.core.random.prng.seed"].direct != 24: raise TranslateError("translator self-test: prng.seed")
    for src in _SELFTEST_RAISE:
        try:
            build(src)
        except TranslateError:
            continue
        raise TranslateError("translator self-test: unclassifiable source was accepted: %r" % src[:60])
    shutil.rmtree(scratch, ignore_errors=True)
    return len(_SELFTEST_EXPECT) + len(_SELFTEST_REFS) + len(_SELFTEST_RAISE)
