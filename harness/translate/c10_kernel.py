"""C10 kernel translator: regenerates `coq/Gen/C10_Kernel.v` from the current source on every run (protocol: tools/PHASE2_BRIEF.md
section B; exemplar c09_kernel.py).  One Gallina `Definition` per expression on which the C10 theorems turn:

 DenseAdditiveLinearGenomicModel.usl_numpy / lsl_numpy            (X = usl | lsl)
  k_X_geno            numpy.where(self.u_a > 0.0, p > 0.0, p >= 1.0)     availability test: effect sign in Q, frequency in binary64
                                                                        (`>` / `>=` at the boundaries 0.0 and 1.0, which branch is which)
  k_X_term, k_X_sum_axis   (float(ploidy) * self.u_a * Xgeno).sum(0)    the summand and the axis summed over (loci)
  k_X_guard           if unscale:                                       the intercept is added only when asked for
  k_X_nfixed          self.beta.shape[0]                                number of fixed effects = rows of beta
  k_X_xstar0, k_X_xstar_rest   Xstar[0,0] = 1 ; Xstar[0,1:] = 1/nfixed  the contrast (must be the one gebv uses)
  k_X_location        Xstar @ self.beta                                 operand order of the product
  k_X_add_location    out += location.ravel()
 DenseAdditiveLinearGenomicModel.usl / lsl
  k_X_obj_ploidy      ploidy = gtobj.ploidy                             which attribute of the object is read
  k_X_default_ploidy  ploidy = 2
  k_X_arr_denom, k_X_arr_afreq   gtobj.sum(0) / (ploidy * gtobj.shape[0])   a quotient, not a product with a rounded reciprocal
  k_X_call            self.X_numpy(p, ploidy, unscale, **kwargs)        callee and argument order
 DenseAdditiveLinearGenomicModel.gebv_numpy / gebv
  k_gebv_matmul       Z @ self.u_a
  k_gebv_nfixed, k_gebv_xstar0, k_gebv_xstar_rest, k_gebv_location, k_gebv_add_location
 DenseGenotypeMatrix / DensePhasedGenotypeMatrix
  k_gmat_denom, k_gmat_afreq, k_pgmat_denom, k_pgmat_afreq             afreq(): count / (ploidy * ntaxa)
  k_pgmat_ploidy      self._mat.shape[self.phase_axis]                  ploidy of a phased matrix = number of phases
  k_gmat_select_ploidy   select_taxa(..., ploidy = self.ploidy, ...)    ploidy handed on by a selection step
 mate/util.py : mat_meiosis
  k_meiosis_shape     (len(sel), len(xoprob))                           one uniform per gamete and locus
  k_meiosis_xo        rnd[i] < xoprob                                   crossover test
  k_meiosis_phase0, k_meiosis_toggle, k_meiosis_stix0, k_meiosis_next_stix
  k_meiosis_seg, k_meiosis_tail   gamete[i,stix:spix] = geno[phase,s,stix:spix] ; gamete[i,stix:] = geno[phase,s,stix:]
                                                                        alleles are copied from the selected parent at the SAME loci

`Proofs/C10_Kernel.v` proves `generated = hand model` (by `reflexivity` wherever the two are convertible) and restates the boundary and
envelope theorems about the generated definitions; `Props/C10.v` exposes them, so a changed expression makes `Props/C10.vo` fail to build
whatever the random cases exercise.  Fail closed: every selector demands exactly one match, every name must be bound by the environment
given here, every statement shape is checked; anything else raises `pyexpr.Untranslatable`."""
import ast, os, hashlib
from translate import pyexpr as P
from translate.kernelkit import bind

GMOD = "pybrops/model/gmod/DenseAdditiveLinearGenomicModel.py"
UNPH = "pybrops/popgen/gmat/DenseGenotypeMatrix.py"
PHAS = "pybrops/popgen/gmat/DensePhasedGenotypeMatrix.py"
MATE = "pybrops/breed/prot/mate/util.py"
CLS = "DenseAdditiveLinearGenomicModel"


def src(e):
    return ast.unparse(e)


def U(msg):
    return P.Untranslatable(msg)


# ------------------------------------------------------------------ helpers local to this translator (pyexpr stays untouched)
def where3(expr, what):
    """numpy.where(cond, a, b) with exactly three positional arguments -> (cond, a, b)"""
    if not (isinstance(expr, ast.Call) and src(expr.func) == "numpy.where" and len(expr.args) == 3 and not expr.keywords):
        raise U("%s: expected numpy.where(cond, a, b), found %s" % (what, src(expr)))
    return expr.args


def sum_over_axis(expr, what):
    """(<array expression>).sum(<integer literal>) -> (array expression, axis)"""
    if not (isinstance(expr, ast.Call) and isinstance(expr.func, ast.Attribute) and expr.func.attr == "sum" and len(expr.args) == 1
            and not expr.keywords and isinstance(expr.args[0], ast.Constant) and isinstance(expr.args[0].value, int)
            and not isinstance(expr.args[0].value, bool)):
        raise U("%s: expected (<expression>).sum(<axis literal>), found %s" % (what, src(expr)))
    return expr.func.value, expr.args[0].value


def aug_assignments(fn, target):
    out = [n for n in ast.walk(fn) if isinstance(n, ast.AugAssign) and src(n.target) == target]
    out.sort(key=lambda n: (n.lineno, n.col_offset))
    return out


def the_aug_add(fn, target, what):
    """the single `target += expr` of fn, as the expression `target + expr`"""
    a = aug_assignments(fn, target)
    if len(a) != 1 or not isinstance(a[0].op, ast.Add):
        raise U("%s: expected exactly one `%s += ...`, found %d" % (what, target, len(a)))
    return ast.BinOp(left=ast.Name(id=target, ctx=ast.Load()), op=ast.Add(), right=a[0].value), a[0]


def apply_form(expr, fenv, env, what):
    """a product/call whose operands are opaque arrays: `A @ B` -> `(matmul a b)`; `f(x, y, z, **kwargs)` -> `(f' x y z)`.
    Every operand must be bound by `env`, the operator/callee by `fenv`; the ORDER of the operands is what is recorded."""
    def operand(e):
        k = src(e)
        if k not in env:
            raise U("%s: operand %s is not bound by the translator's environment" % (what, k))
        return env[k]
    if isinstance(expr, ast.BinOp) and isinstance(expr.op, ast.MatMult):
        if "@" not in fenv: raise U("%s: matrix product not expected" % what)
        return "(%s %s %s)" % (fenv["@"], operand(expr.left), operand(expr.right))
    if isinstance(expr, ast.Call):
        k = src(expr.func)
        if k not in fenv: raise U("%s: callee %s is not in the translator's table" % (what, k))
        kw = [w for w in expr.keywords if w.arg is not None]
        star = [w for w in expr.keywords if w.arg is None]
        if kw or any(src(w.value) != "kwargs" for w in star):
            raise U("%s: unexpected keyword arguments in %s" % (what, src(expr)))
        return "(%s %s)" % (fenv[k], " ".join(operand(a) for a in expr.args))
    raise U("%s: expected a product or a call, found %s" % (what, src(expr)))


def body_of_if(fn, test_text, what):
    ifs = [n for n in ast.walk(fn) if isinstance(n, ast.If) and src(n.test) == test_text]
    if len(ifs) != 1:
        raise U("%s: expected exactly one `if %s:`, found %d" % (what, test_text, len(ifs)))
    return ifs[0]


def inside(node, container):
    return any(n is node for n in ast.walk(container))


def slice_parts(sub, what, nidx):
    """`a[i, j, lo:hi]` -> ([i, j], lo, hi) (hi None for an open slice); exactly nidx scalar indices and then ONE slice without a step"""
    if not (isinstance(sub, ast.Subscript) and isinstance(sub.slice, ast.Tuple) and len(sub.slice.elts) == nidx + 1):
        raise U("%s: expected %d indices and a slice in %s" % (what, nidx, src(sub)))
    *idx, sl = sub.slice.elts
    if not isinstance(sl, ast.Slice) or sl.step is not None or sl.lower is None or any(isinstance(i, ast.Slice) for i in idx):
        raise U("%s: unexpected slice in %s" % (what, src(sub)))
    return idx, sl.lower, sl.upper


def stmt_assign(fn, target_text, what):
    a = P.assignments_to(fn, target_text)
    if len(a) != 1 or len(a[0].targets) != 1:
        raise U("%s: expected exactly one assignment to %s, found %d" % (what, target_text, len(a)))
    return a[0]


# ------------------------------------------------------------------ the translation
def contrast_block(fn, tag, out_name, ravel, defs, what):
    """nfixed = self.beta.shape[0]; Xstar[0,0] = 1; Xstar[0,1:] = 1/nfixed; location = Xstar @ self.beta; <out> += location[.ravel()]"""
    Zc = P.Ctx("Z", {"self.beta.shape[0]": "q", "self.beta.shape[1]": "t"})
    e = P.the_assignment(fn, "nfixed")
    defs.append(P.definition("k_%s_nfixed" % tag, [("q", "Z"), ("t", "Z")], "Z", P.to_coq(e, Zc), "%s: nfixed = %s" % (what, src(e))))
    Qc = P.Ctx("Q", {"nfixed": "(inject_Z nfixed)"})
    e = P.the_assignment(fn, "Xstar[0, 0]")
    defs.append(P.definition("k_%s_xstar0" % tag, [], "Q", P.to_coq(e, Qc), "%s: Xstar[0,0] = %s" % (what, src(e))))
    e = P.the_assignment(fn, "Xstar[0, 1:]")
    defs.append(P.definition("k_%s_xstar_rest" % tag, [("nfixed", "Z")], "Q", P.to_coq(e, Qc), "%s: Xstar[0,1:] = %s" % (what, src(e))))
    # Xstar itself must be a (1, nfixed) row that nothing else writes
    alloc = P.the_assignment(fn, "Xstar")
    if not (isinstance(alloc, ast.Call) and src(alloc.func) == "numpy.empty" and alloc.args and src(alloc.args[0]) == "(1, nfixed)"):
        raise U("%s: Xstar is not allocated as numpy.empty((1, nfixed), ...): %s" % (what, src(alloc)))
    others = [n for n in ast.walk(fn) if isinstance(n, (ast.Assign, ast.AugAssign))
              and any(src(t).startswith("Xstar[") and src(t) not in ("Xstar[0, 0]", "Xstar[0, 1:]")
                      for t in (n.targets if isinstance(n, ast.Assign) else [n.target]))]
    if others or aug_assignments(fn, "Xstar") or aug_assignments(fn, "Xstar[0, 0]") or aug_assignments(fn, "Xstar[0, 1:]"):
        raise U("%s: Xstar is written by statements this translator does not describe" % what)
    e = P.the_assignment(fn, "location")
    defs.append(P.definition("k_%s_location" % tag, [("X", "Type"), ("B", "Type"), ("T", "Type"), ("matmul", "X -> B -> T"), ("xstar", "X"), ("beta", "B")], "T",
                             apply_form(e, {"@": "matmul"}, {"Xstar": "xstar", "self.beta": "beta"}, what), "%s: location = %s" % (what, src(e))))
    e, stmt = the_aug_add(fn, out_name, what)
    loc_txt = "location.ravel()" if ravel else "location"
    defs.append(P.definition("k_%s_add_location" % tag, [("out", "Q"), ("loc", "Q")], "Q",
                             P.to_coq(bind(e, {loc_txt: "loc"}), P.Ctx("Q", {out_name: "out", "loc": "loc"})), "%s: %s += %s" % (what, out_name, src(stmt.value))))
    return stmt


def translate(repo, gen_dir):
    defs = []
    F = lambda env: P.Ctx("F", env)
    Zs = lambda env: P.Ctx("Z", env)

    # ---------------- selection limits
    for tag, other in (("usl", "lsl"), ("lsl", "usl")):
        what = "%s.%s_numpy" % (CLS, tag)
        fn = P.find_function(repo, GMOD, "%s.%s_numpy" % (CLS, tag))
        gname = "%sgeno" % tag
        # p is reshaped (p,) -> (p,1) and nothing else: the frequency tested is the one handed in
        e = P.the_assignment(fn, "p")
        if src(e) != "p[:, None]":
            raise U("%s: p is rebound to %s" % (what, src(e)))
        cond, a, b = where3(P.the_assignment(fn, gname), what)
        term = "(if %s then %s else %s)" % (P.to_coq(cond, P.Ctx("Q", {"self.u_a": "u"}), "bool"),
                                            P.to_coq(a, F({"p": "p"}), "bool"), P.to_coq(b, F({"p": "p"}), "bool"))
        defs.append(P.definition("k_%s_geno" % tag, [("u", "Q"), ("p", "float")], "bool", term, "%s: %s = %s" % (what, gname, src(P.the_assignment(fn, gname)))))
        e = P.the_assignment(fn, "out")
        inner, axis = sum_over_axis(e, what)
        defs.append(P.definition("k_%s_term" % tag, [("ploidy", "Z"), ("u", "Q"), ("g", "Q")], "Q",
                                 P.to_coq(inner, P.Ctx("Q", {"self.u_a": "u", gname: "g", "ploidy": "ploidy"}, calls={"float": ("inject_Z", 1)})),
                                 "%s: out = %s" % (what, src(e))))
        defs.append(P.definition("k_%s_sum_axis" % tag, [], "Z", "(%d)%%Z" % axis, "%s: out = (...).sum(%d)" % (what, axis)))
        # the intercept: only under `if unscale:`
        guard = body_of_if(fn, "unscale", what)
        if guard.orelse:
            raise U("%s: `if unscale:` has an else branch" % what)
        defs.append(P.definition("k_%s_guard" % tag, [("unscale", "bool")], "bool",
                                 P.to_coq(guard.test, P.Ctx("Q", {}, bool_env={"unscale": "unscale"}), "bool"), "%s: if %s:" % (what, src(guard.test))))
        stmt = contrast_block(fn, tag, "out", True, defs, what)
        if not inside(stmt, guard):
            raise U("%s: the intercept is added outside `if unscale:`" % what)
        r = P.the_return(fn)
        if src(r) != "out":
            raise U("%s: returns %s" % (what, src(r)))

        what = "%s.%s" % (CLS, tag)
        fn = P.find_function(repo, GMOD, "%s.%s" % (CLS, tag))
        # two assignments to ploidy: the object's attribute, then the default for raw arrays
        e = P.the_assignment(fn, "ploidy", index=0, count=2)
        defs.append(P.definition("k_%s_obj_ploidy" % tag, [("ploidy", "Z"), ("nphase", "Z")], "Z",
                                 P.to_coq(e, Zs({"gtobj.ploidy": "ploidy", "gtobj.nphase": "nphase"})), "%s: ploidy = %s" % (what, src(e))))
        e = P.the_assignment(fn, "ploidy", index=1, count=2)
        dflt = body_of_if(fn, "ploidy is None", what)
        if not inside(P.assignments_to(fn, "ploidy")[1], dflt) or dflt.orelse:
            raise U("%s: the default ploidy is not assigned under `if ploidy is None:`" % what)
        defs.append(P.definition("k_%s_default_ploidy" % tag, [], "Z", P.to_coq(e, Zs({})), "%s: if ploidy is None: ploidy = %s" % (what, src(e))))
        # two assignments to p: the object's afreq(), then the quotient for raw arrays
        e = P.the_assignment(fn, "p", index=0, count=2)
        if src(e) != "gtobj.afreq()":
            raise U("%s: the frequency of a genotype-matrix object is %s, not gtobj.afreq()" % (what, src(e)))
        e = P.the_assignment(fn, "p", index=1, count=2)
        # the denominator: the one product mentioning the number of rows of the array (wherever it stands: quotient or reciprocal form)
        dens = [n for n in ast.walk(e) if isinstance(n, ast.BinOp) and isinstance(n.op, ast.Mult) and "gtobj.shape" in src(n) and "gtobj.sum" not in src(n)]
        if not isinstance(e, ast.BinOp) or not dens:
            raise U("%s: p = %s" % (what, src(e)))
        den = dens[0]
        defs.append(P.definition("k_%s_arr_denom" % tag, [("ploidy", "Z"), ("ntaxa", "Z")], "Z",
                                 P.to_coq(den, Zs({"ploidy": "ploidy", "gtobj.shape[0]": "ntaxa"})), "%s: p = %s  (denominator)" % (what, src(e))))
        defs.append(P.definition("k_%s_arr_afreq" % tag, [("count", "float"), ("denom", "float")], "float",
                                 P.to_coq(bind(e, {"gtobj.sum(0)": "count", src(den): "denom"}), F({"count": "count", "denom": "denom"})),
                                 "%s: p = %s" % (what, src(e))))
        e = P.the_assignment(fn, "out")
        defs.append(P.definition("k_%s_call" % tag, [("P", "Type"), ("T", "Type"), ("usl_numpy", "P -> Z -> bool -> T"), ("lsl_numpy", "P -> Z -> bool -> T"),
                                                      ("p", "P"), ("ploidy", "Z"), ("unscale", "bool")], "T",
                                 apply_form(e, {"self.usl_numpy": "usl_numpy", "self.lsl_numpy": "lsl_numpy"}, {"p": "p", "ploidy": "ploidy", "unscale": "unscale"}, what),
                                 "%s: out = %s" % (what, src(e))))
        r = P.the_return(fn)
        if src(r) != "out":
            raise U("%s: returns %s" % (what, src(r)))

    # ---------------- breeding values
    what = CLS + ".gebv_numpy"
    fn = P.find_function(repo, GMOD, CLS + ".gebv_numpy")
    e = P.the_assignment(fn, "gebv_hat")
    defs.append(P.definition("k_gebv_matmul", [("A", "Type"), ("B", "Type"), ("T", "Type"), ("matmul", "A -> B -> T"), ("Z", "A"), ("u", "B")], "T",
                             apply_form(e, {"@": "matmul"}, {"Z": "Z", "self.u_a": "u"}, what), "%s: gebv_hat = %s" % (what, src(e))))
    if src(P.the_return(fn)) != "gebv_hat" or aug_assignments(fn, "gebv_hat"):
        raise U("%s: gebv_hat is modified or not returned" % what)
    what = CLS + ".gebv"
    fn = P.find_function(repo, GMOD, CLS + ".gebv")
    e = P.the_assignment(fn, "gebv_hat")
    if src(e) != "self.gebv_numpy(Z, **kwargs)":
        raise U("%s: gebv_hat = %s" % (what, src(e)))
    e = P.the_assignment(fn, "Z", index=0, count=2)
    if src(e) != "gtobj.mat_asformat('{0,1,2}')":
        raise U("%s: Z = %s" % (what, src(e)))
    contrast_block(fn, "gebv", "gebv_hat", False, defs, what)

    # ---------------- allele frequency of both genotype-matrix classes
    for tag, rel, cls, count_txt in (("gmat", UNPH, "DenseGenotypeMatrix", "self._mat.sum(self.taxa_axis)"),
                                     ("pgmat", PHAS, "DensePhasedGenotypeMatrix", "self._mat.sum((self.phase_axis, self.taxa_axis))")):
        what = cls + ".afreq"
        fn = P.find_function(repo, rel, cls + ".afreq")
        e = P.the_assignment(fn, "denom")
        defs.append(P.definition("k_%s_denom" % tag, [("ploidy", "Z"), ("ntaxa", "Z")], "Z",
                                 P.to_coq(e, Zs({"self.ploidy": "ploidy", "self.ntaxa": "ntaxa"})), "%s: denom = %s" % (what, src(e))))
        e = P.the_assignment(fn, "out", index=0)
        defs.append(P.definition("k_%s_afreq" % tag, [("count", "float"), ("denom", "float")], "float",
                                 P.to_coq(bind(e, {count_txt: "count"}), F({"count": "count", "denom": "denom"})), "%s: out = %s" % (what, src(e))))
    # ploidy of a phased matrix: the length of the phase axis
    fn = P.find_function(repo, PHAS, "DensePhasedGenotypeMatrix.ploidy")
    e = P.the_return(fn)
    defs.append(P.definition("k_pgmat_ploidy", [("nphase", "Z"), ("ntaxa", "Z"), ("nvrnt", "Z")], "Z",
                             P.to_coq(e, Zs({"self._mat.shape[self.phase_axis]": "nphase", "self._mat.shape[self.taxa_axis]": "ntaxa",
                                             "self._mat.shape[self.vrnt_axis]": "nvrnt"})), "DensePhasedGenotypeMatrix.ploidy: return %s" % src(e)))
    # a selection step hands the ploidy on
    what = "DenseGenotypeMatrix.select_taxa"
    fn = P.find_function(repo, UNPH, "DenseGenotypeMatrix.select_taxa")
    e = P.the_assignment(fn, "out")
    if not (isinstance(e, ast.Call) and src(e.func) == "super(DenseGenotypeMatrix, self).select_taxa"):
        raise U("%s: out = %s" % (what, src(e)))
    kws = {w.arg: w.value for w in e.keywords if w.arg is not None}
    if "ploidy" not in kws or "indices" not in kws or src(kws["indices"]) != "indices" or e.args:
        raise U("%s: the selection does not hand `indices`/`ploidy` on: %s" % (what, src(e)))
    defs.append(P.definition("k_gmat_select_ploidy", [("ploidy", "Z"), ("nphase", "Z")], "Z",
                             P.to_coq(kws["ploidy"], Zs({"self.ploidy": "ploidy", "self.nphase": "nphase"})), "%s: ploidy = %s" % (what, src(kws["ploidy"]))))
    if src(P.the_return(fn)) != "out":
        raise U("%s: does not return out" % what)

    # ---------------- meiosis
    what = "mat_meiosis"
    fn = P.find_function(repo, MATE, "mat_meiosis")
    e = P.the_assignment(fn, "gshape")
    if not (isinstance(e, ast.Tuple) and len(e.elts) == 2):
        raise U("%s: gshape = %s" % (what, src(e)))
    Zm = Zs({"nsel": "nsel", "nloci": "nloci"})
    e2 = bind(e, {"len(sel)": "nsel", "len(xoprob)": "nloci"})
    defs.append(P.definition("k_meiosis_shape", [("nsel", "Z"), ("nloci", "Z")], "(Z * Z)",
                             "(%s, %s)" % (P.to_coq(e2.elts[0], Zm), P.to_coq(e2.elts[1], Zm)), "%s: gshape = %s" % (what, src(e))))
    e = P.the_assignment(fn, "rnd")
    if src(e) != "rng.uniform(0, 1, gshape)":
        raise U("%s: rnd = %s" % (what, src(e)))
    e = P.the_assignment(fn, "gamete")
    if not src(e).startswith("numpy.empty(gshape,"):
        raise U("%s: gamete = %s" % (what, src(e)))
    loops = P.loop_tests(fn, ast.For)
    if len(loops) != 2 or src(loops[0].target) != "(i, s)" or src(loops[0].iter) != "enumerate(sel)" \
       or src(loops[1].target) != "spix" or src(loops[1].iter) != "xoix" or not inside(loops[1], loops[0]):
        raise U("%s: expected `for i, s in enumerate(sel): ... for spix in xoix:`" % what)
    e = P.the_assignment(fn, "xoix")
    if not (isinstance(e, ast.Call) and src(e.func) == "numpy.flatnonzero" and len(e.args) == 1 and not e.keywords):
        raise U("%s: xoix = %s" % (what, src(e)))
    defs.append(P.definition("k_meiosis_xo", [("r", "Q"), ("x", "Q")], "bool",
                             P.to_coq(e.args[0], P.Ctx("Q", {"rnd[i]": "r", "xoprob": "x"}), "bool"), "%s: xoix = %s" % (what, src(e))))
    Zp = Zs({"phase": "phase", "spix": "spix", "stix": "stix"})
    e = P.the_assignment(fn, "phase", index=0, count=2)
    defs.append(P.definition("k_meiosis_phase0", [], "Z", P.to_coq(e, Zp), "%s: phase = %s" % (what, src(e))))
    e = P.the_assignment(fn, "phase", index=1, count=2)
    if not inside(P.assignments_to(fn, "phase")[1], loops[1]) or inside(P.assignments_to(fn, "phase")[0], loops[1]):
        raise U("%s: the phase is not toggled inside (and only inside) the crossover loop" % what)
    defs.append(P.definition("k_meiosis_toggle", [("phase", "Z")], "Z", P.to_coq(e, Zp), "%s: phase = %s" % (what, src(e))))
    e = P.the_assignment(fn, "stix", index=0, count=2)
    defs.append(P.definition("k_meiosis_stix0", [], "Z", P.to_coq(e, Zp), "%s: stix = %s" % (what, src(e))))
    e = P.the_assignment(fn, "stix", index=1, count=2)
    defs.append(P.definition("k_meiosis_next_stix", [("spix", "Z")], "Z", P.to_coq(e, Zp), "%s: stix = %s" % (what, src(e))))
    Zi = Zs({"i": "i", "s": "s", "phase": "phase", "stix": "stix", "spix": "spix"})
    # the two copy statements: (destination row, lo, hi) <- (source phase, source taxon, lo, hi)
    copies = [n for n in ast.walk(fn) if isinstance(n, ast.Assign) and len(n.targets) == 1 and src(n.targets[0]).startswith("gamete[")]
    copies.sort(key=lambda n: n.lineno)
    if len(copies) != 2 or not inside(copies[0], loops[1]) or inside(copies[1], loops[1]) or not inside(copies[1], loops[0]):
        raise U("%s: expected one segment copy inside the crossover loop and one tail copy after it" % what)
    for nm, st, closed in (("k_meiosis_seg", copies[0], True), ("k_meiosis_tail", copies[1], False)):
        if not (isinstance(st.value, ast.Subscript) and src(st.value.value) == "geno" and src(st.targets[0].value) == "gamete"):
            raise U("%s: %s" % (what, src(st)))
        di, dlo, dhi = slice_parts(st.targets[0], what, 1)
        si, slo, shi = slice_parts(st.value, what, 2)
        if closed != (dhi is not None) or closed != (shi is not None):
            raise U("%s: unexpected slice bounds in %s" % (what, src(st)))
        parts = [di[0], dlo] + ([dhi] if closed else []) + [si[0], si[1], slo] + ([shi] if closed else [])
        defs.append(P.definition(nm, [("i", "Z"), ("s", "Z"), ("phase", "Z"), ("stix", "Z")] + ([("spix", "Z")] if closed else []),
                                 "(" + " * ".join(["Z"] * len(parts)) + ")", "(" + ", ".join(P.to_coq(x, Zi) for x in parts) + ")",
                                 "%s: %s" % (what, src(st))))
    if src(P.the_return(fn)) != "gamete":
        raise U("%s: does not return gamete" % what)

    text = (P.HEADER % "harness/translate/c10_kernel.py") + \
        "From Coq Require Import ZArith QArith Bool PrimFloat.\nLocal Open Scope Z_scope.\n\n" + "\n".join(defs)
    P.write_if_changed(os.path.join(gen_dir, "C10_Kernel.v"), text)
    return {"file": "Gen/C10_Kernel.v", "definitions": len(defs), "sha256": hashlib.sha256(text.encode()).hexdigest()[:16]}
