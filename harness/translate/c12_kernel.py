"""C12 kernel translator (protocol: tools/PHASE2_BRIEF.md section B; exemplar: c09_kernel.py).

Regenerates `coq/Gen/C12_Kernel.v` from the current source on every run: one Gallina `Definition` per *kernel expression*
of the progeny (co)variance computations, i.e. the expressions on which the C12 theorems turn.

  vmat/util.py
    k_two_r, k_rk_first, k_rk_factor, k_rprob_filial   rprob_filial: two_r = 2.0*r ; r_k = two_r/(1.0+two_r) ; the guard
                                                      `k < numpy.inf` ; r_k *= 1.0 - 0.5**k * (1.0-two_r)**k ; return r_k
    k_D1s_zero, k_D1s_pos, k_cov_D1s                   cov_D1s: the tests nself == 0 / nself > 0 and both returned formulas
    k_D2s_zero, k_D2s_four_r, k_D2s_pos, k_cov_D2s     cov_D2s: the same (with four_r = 4.0*r)
  core/util/subroutines.py
    k_srange                                           srange: range(start,stop,step) followed by stop
  for each of the eight from_algmod loop nests  (tags two three four di = genetic variance classes, twoc threec fourc dic =
  progeny covariance classes):
    k_<tag>_groups     zip(chrgrp_stix, chrgrp_spix)                        (argument order)
    k_<tag>_step       (lsp - lst) if mem is None else mem
    k_<tag>_rchunks / k_<tag>_cchunks   zip(range(lst,lsp,step), srange(lst+step,lsp,step))   (row loop / column loop)
    k_<tag>_D1 / _D2   cov_D1s(r, nself) / cov_D2s(r, nself)               (which helper feeds which table, argument order)
    k_<tag>_visit      the ranges of the taxa loops enclosing the accumulation (range(0,female+1) vs range(0,female) ...)
    k_<tag>_acc_ix     the index tuple of `M[...] += part`                  (which loop variable addresses which axis)
    k_<tag>_pXY        one per partial sum: which D table and which two haplotypes (phase, taxon) it combines - traced through
                       reffectXY = rdgenoXY * ru, rdgenoXY = geno[ph,a,rst:rsp] - geno[ph',b,rst:rsp] and the column twins
    k_<tag>_comb       the combination of the partial sums (2.0*(p21+p31)+p23 ; p21+...+p43)
    k_<tag>_scale      M *= 0.25                                            (absent in the two-way classes: refused if present)
    k_<tag>_mvisit / _mdst / _msrc / _maxes   the mirror loops and the assignment M[..male,female..] = M[..female,male..]
    k_<tag>_shape      shape tuple of numpy.zeros
    k_<tag>_ctor       keyword -> expression of the constructor call (which array is handed to which attribute)
    k_<tag>_epgc       the tuple returned by the class's epgc property
  the four genic variance classes (tags gtwo gthree gfour gdi):
    k_<tag>_epgc_local, k_<tag>_epgc, k_<tag>_visit, k_<tag>_freq_ix (tafreq[(...),:] parent order), k_<tag>_varcoef,
    k_<tag>_term ((varcoef * p * (1.0 - p))), k_<tag>_writes (the index tuples assigned), k_<tag>_ctor
  breed/prot/sel/prob/UsefulnessCriterionSelectionProblem.py
    k_uc_pmean (epgc.dot(bvmat[cconfig,:])), k_uc (pmean + selection_intensity * numpy.sqrt(pvar)), k_uc_var_ix

`Proofs/C12_Kernel.v` proves `generated = hand model` (reflexivity / case analysis only) and re-assembles every matrix entry
from the generated definitions alone; `Props/C12.v` states the exactness theorems about those assembled definitions.  A changed
expression (a D table exchanged, a parent exchanged, `range(0,female)`, a dropped `+ step`, `0.5` for `0.25`, ...) therefore
makes `Props/C12.vo` fail to build whatever the random cases exercise.  Integer expressions (indices, counts) are translated
over `nat`: every quantity is a non-negative index and the only subtraction is `lsp - lst` of a group's bounds (lst <= lsp).
Fail closed: every selector demands exactly one match, every statement whose shape is part of the kernel is compared with its
expected form, anything else raises `pyexpr.Untranslatable`.
"""
import ast, os, hashlib
from translate import pyexpr as P
from translate.kernelkit import bind

UTIL = "pybrops/model/vmat/util.py"
SUBR = "pybrops/core/util/subroutines.py"
UCP = "pybrops/breed/prot/sel/prob/UsefulnessCriterionSelectionProblem.py"
_N = {"two": "TwoWay", "three": "ThreeWay", "four": "FourWay", "di": "Dihybrid"}
# tag, file, class, number of trailing trait slices, has a scaling statement, number of partial sums
CLASSES = []
for _s in ("two", "three", "four", "di"):
    CLASSES.append((_s, "pybrops/model/vmat/Dense%sDHAdditiveGeneticVarianceMatrix.py" % _N[_s],
                    "Dense%sDHAdditiveGeneticVarianceMatrix" % _N[_s], 1))
for _s in ("two", "three", "four", "di"):
    CLASSES.append((_s + "c", "pybrops/model/pcvmat/Dense%sDHAdditiveProgenyGeneticCovarianceMatrix.py" % _N[_s],
                    "Dense%sDHAdditiveProgenyGeneticCovarianceMatrix" % _N[_s], 2))
GENIC = [("g" + _s, "pybrops/model/vmat/Dense%sDHAdditiveGenicVarianceMatrix.py" % _N[_s],
          "Dense%sDHAdditiveGenicVarianceMatrix" % _N[_s]) for _s in ("two", "three", "four", "di")]
HAS_SCALE = {"two": False, "three": True, "four": True, "di": True}
NPARTS = {"two": 1, "three": 3, "four": 6, "di": 6}


def U(msg):
    return P.Untranslatable(msg)


def src(e):
    return ast.unparse(e)


# ------------------------------------------------------------------------------------------------ small helpers
def parents(fn):
    par = {}
    for node in ast.walk(fn):
        for ch in ast.iter_child_nodes(node):
            par[ch] = node
    return par


def enclosing_fors(node, par):
    out = []
    while node in par:
        node = par[node]
        if isinstance(node, ast.For):
            out.append(node)
    return list(reversed(out))          # outermost first


def body_nodoc(fn):
    b = list(fn.body)
    if b and isinstance(b[0], ast.Expr) and isinstance(b[0].value, ast.Constant) and isinstance(b[0].value.value, str):
        b = b[1:]
    return b


def to_nat(e, env):
    """index arithmetic over nat (non-negative literals, bound names, + - *)"""
    if isinstance(e, ast.Constant) and isinstance(e.value, int) and not isinstance(e.value, bool) and e.value >= 0:
        return "%d" % e.value
    if isinstance(e, (ast.Name, ast.Attribute)):
        k = src(e)
        if k in env: return env[k]
        raise U("name %s is not bound in an index expression" % k)
    if isinstance(e, ast.BinOp) and isinstance(e.op, (ast.Add, ast.Sub, ast.Mult)):
        op = {ast.Add: "+", ast.Sub: "-", ast.Mult: "*"}[type(e.op)]
        return "(%s %s %s)" % (to_nat(e.left, env), op, to_nat(e.right, env))
    raise U("index expression %s" % src(e))


def range_args(call, what):
    if not (isinstance(call, ast.Call) and isinstance(call.func, ast.Name) and call.func.id == "range" and not call.keywords):
        raise U("%s: expected range(...), found %s" % (what, src(call)))
    if len(call.args) == 1: return [ast.Constant(0), call.args[0], None]
    if len(call.args) == 2: return [call.args[0], call.args[1], None]
    if len(call.args) == 3: return list(call.args)
    raise U("%s: range with %d arguments" % (what, len(call.args)))


def visit_term(loops, env, what):
    """loops: For nodes `for v in range(a,b)` -> conjunction (a <=? v) && (v <? b) ..."""
    parts = []
    for lp in loops:
        if not isinstance(lp.target, ast.Name): raise U("%s: loop target %s" % (what, src(lp.target)))
        a, b, c = range_args(lp.iter, what)
        if c is not None: raise U("%s: taxa loop with a step" % what)
        v = lp.target.id
        parts.append("(%s <=? %s)" % (to_nat(a, env), v)); parts.append("(%s <? %s)" % (v, to_nat(b, env)))
    out = parts[-1]
    for p in reversed(parts[:-1]): out = "(%s && %s)" % (p, out)
    return "(%s)%%nat" % out


def coq_str(s):
    return '"%s"%%string' % s.replace('"', '""')


def ctor_table(fn, what, M):
    """the keywords of `out = cls(...)`; `mat` must be handed the array M that the loops filled"""
    call = P.the_assignment(fn, "out")
    if not (isinstance(call, ast.Call) and src(call.func) == "cls" and not call.args):
        raise U("%s: out is not built by cls(keyword = ...)" % what)
    rows = []
    if [src(kw.value) for kw in call.keywords if kw.arg == "mat"] != [M]:
        raise U("%s: the constructor is not handed mat = %s" % (what, M))
    for kw in call.keywords:
        if kw.arg is None: raise U("%s: ** in the constructor call" % what)
        rows.append("(%s, %s)" % (coq_str(kw.arg), coq_str(src(kw.value))))
    return "[" + "; ".join(rows) + "]", src(call)


def epgc_tuple(repo, rel, cls):
    fn = P.find_function(repo, rel, cls + ".epgc")
    e = P.the_return(fn)
    return tuple_q(e, "%s.epgc" % cls), src(e)


def tuple_q(e, what):
    if not isinstance(e, ast.Tuple): raise U("%s: not a tuple: %s" % (what, src(e)))
    return "[" + "; ".join(P.to_coq(x, P.Ctx("Q", {})) for x in e.elts) + "]"


# ------------------------------------------------------------------------------------------------ vmat/util.py
def _rewrite_pow(e, natnames):
    """X ** k with k a bound nat name -> call __qpow(X, k)"""
    class T(ast.NodeTransformer):
        def visit_BinOp(self, node):
            self.generic_visit(node)
            if isinstance(node.op, ast.Pow) and isinstance(node.right, ast.Name) and node.right.id in natnames:
                return ast.Call(func=ast.Name(id="__qpow", ctx=ast.Load()), args=[node.left, node.right], keywords=[])
            return node
    import copy
    return ast.fix_missing_locations(T().visit(copy.deepcopy(e)))


def _depth_test(t, name):
    """tests on an int-or-inf quantity"""
    if isinstance(t, ast.Compare) and len(t.ops) == 1 and isinstance(t.left, ast.Name) and t.left.id == name:
        c = t.comparators[0]
        if isinstance(c, ast.Constant) and isinstance(c.value, int) and not isinstance(c.value, bool) and c.value >= 0:
            if isinstance(t.ops[0], ast.Eq): return "(d_eqb %s %d)" % (name, c.value)
            if isinstance(t.ops[0], ast.Gt): return "(d_gtb %s %d)" % (name, c.value)
    raise U("test %s on %s is outside the kernel fragment (expected `%s == n` or `%s > n`)" % (src(t), name, name, name))


def _depth_arg(e, name):
    if isinstance(e, ast.Name) and e.id == name: return name
    if isinstance(e, ast.BinOp) and isinstance(e.op, ast.Add) and isinstance(e.left, ast.Name) and e.left.id == name \
            and isinstance(e.right, ast.Constant) and isinstance(e.right.value, int) and e.right.value >= 0:
        return "(d_add %s %d)" % (name, e.right.value)
    raise U("generation argument %s" % src(e))


def _with_filial_calls(e, env):
    """replace rprob_filial(<q expr>, <depth expr>) by a fresh bound name"""
    import copy
    e = copy.deepcopy(e)
    env = dict(env)
    cnt = [0]

    class T(ast.NodeTransformer):
        def visit_Call(self, node):
            self.generic_visit(node)
            if isinstance(node.func, ast.Name) and node.func.id == "rprob_filial":
                if node.keywords or len(node.args) != 2: raise U("call " + src(node))
                a0 = P.to_coq(node.args[0], P.Ctx("Q", env))
                nm = "__filial%d" % cnt[0]; cnt[0] += 1
                env[nm] = "(k_rprob_filial %s %s)" % (a0, _depth_arg(node.args[1], "nself"))
                return ast.Name(id=nm, ctx=ast.Load())
            return node
    return T().visit(e), env


def util_defs(repo):
    defs = []
    Q = lambda env, calls=None: P.Ctx("Q", env, calls=calls)
    # ---- rprob_filial
    fn = P.find_function(repo, UTIL, "rprob_filial")
    if [a.arg for a in fn.args.args] != ["r", "k"]: raise U("rprob_filial: parameters " + src(fn.args))
    b = body_nodoc(fn)
    ok = (len(b) == 4 and isinstance(b[0], ast.Assign) and src(b[0].targets[0]) == "two_r"
          and isinstance(b[1], ast.Assign) and src(b[1].targets[0]) == "r_k"
          and isinstance(b[2], ast.If) and not b[2].orelse and len(b[2].body) == 1 and isinstance(b[2].body[0], ast.AugAssign)
          and isinstance(b[2].body[0].op, ast.Mult) and src(b[2].body[0].target) == "r_k"
          and isinstance(b[3], ast.Return) and src(b[3].value) == "r_k")
    if not ok: raise U("rprob_filial: the statement sequence is not `two_r = ..; r_k = ..; if ..: r_k *= ..; return r_k`")
    if src(b[2].test) != "k < numpy.inf":
        raise U("rprob_filial: guard `%s` (expected `k < numpy.inf`: finite depth = Some k, inf = None)" % src(b[2].test))
    defs.append(P.definition("k_two_r", [("r", "Q")], "Q", P.to_coq(b[0].value, Q({"r": "r"})), "rprob_filial: two_r = " + src(b[0].value)))
    defs.append(P.definition("k_rk_first", [("two_r", "Q")], "Q", P.to_coq(b[1].value, Q({"two_r": "two_r"})), "rprob_filial: r_k = " + src(b[1].value)))
    fac = _rewrite_pow(b[2].body[0].value, {"k"})
    defs.append(P.definition("k_rk_factor", [("two_r", "Q"), ("k", "nat")], "Q",
                             P.to_coq(fac, Q({"two_r": "two_r", "k": "k"}, {"__qpow": ("qpow", 2)})),
                             "rprob_filial: if k < numpy.inf: r_k *= " + src(b[2].body[0].value)))
    defs.append(P.definition("k_rprob_filial", [("r", "Q"), ("k", "depth")], "Q",
                             "let two_r := k_two_r r in let r_k := k_rk_first two_r in\n"
                             "  let r_k := match k with Some k => Qmult r_k (k_rk_factor two_r k) | None => r_k end in r_k",
                             "rprob_filial: the statement sequence (guard `k < numpy.inf`: Some k / None)"))
    # ---- cov_D1s / cov_D2s
    for name, tag in (("cov_D1s", "D1s"), ("cov_D2s", "D2s")):
        fn = P.find_function(repo, UTIL, name)
        if [a.arg for a in fn.args.args] != ["r", "nself"]: raise U("%s: parameters" % name)
        b = body_nodoc(fn)
        if not (len(b) == 1 and isinstance(b[0], ast.If) and len(b[0].orelse) == 1 and isinstance(b[0].orelse[0], ast.If)
                and len(b[0].orelse[0].orelse) == 1 and isinstance(b[0].orelse[0].orelse[0], ast.Raise)):
            raise U("%s: expected if/elif/else-raise" % name)
        t0 = _depth_test(b[0].test, "nself"); t1 = _depth_test(b[0].orelse[0].test, "nself")
        if not (len(b[0].body) == 1 and isinstance(b[0].body[0], ast.Return)): raise U("%s: first branch" % name)
        e0 = b[0].body[0].value
        defs.append(P.definition("k_%s_zero" % tag, [("r", "Q")], "Q", P.to_coq(e0, Q({"r": "r"})), "%s: if %s: return %s" % (name, src(b[0].test), src(e0))))
        body1 = b[0].orelse[0].body
        env = {"r": "r"}
        lets = ""
        for st in body1[:-1]:
            if not (isinstance(st, ast.Assign) and len(st.targets) == 1 and isinstance(st.targets[0], ast.Name)):
                raise U("%s: statement %s" % (name, src(st)))
            nm = st.targets[0].id
            defs.append(P.definition("k_%s_%s" % (tag, nm), [("r", "Q")], "Q", P.to_coq(st.value, Q({"r": "r"})), "%s: %s" % (name, src(st))))
            lets += "let %s := k_%s_%s r in " % (nm, tag, nm); env[nm] = nm
        if not isinstance(body1[-1], ast.Return): raise U("%s: second branch does not end with return" % name)
        e1, env1 = _with_filial_calls(body1[-1].value, env)
        defs.append(P.definition("k_%s_pos" % tag, [("r", "Q"), ("nself", "depth")], "Q", lets + P.to_coq(e1, Q(env1)),
                                 "%s: elif %s: ... return %s" % (name, src(b[0].orelse[0].test), src(body1[-1].value))))
        defs.append(P.definition("k_%s" % name, [("r", "Q"), ("nself", "depth")], "Q",
                                 "if %s then k_%s_zero r else if %s then k_%s_pos r nself else 0 (* raise ValueError *)" % (t0, tag, t1, tag),
                                 "%s: if %s / elif %s / else raise" % (name, src(b[0].test), src(b[0].orelse[0].test))))
    # ---- srange
    fn = P.find_function(repo, SUBR, "srange")
    if [a.arg for a in fn.args.args] != ["start", "stop", "step"]: raise U("srange: parameters")
    b = body_nodoc(fn)
    if not (len(b) == 2 and isinstance(b[0], ast.Expr) and isinstance(b[0].value, ast.YieldFrom)
            and isinstance(b[1], ast.Expr) and isinstance(b[1].value, ast.Yield) and b[1].value.value is not None):
        raise U("srange: expected `yield from range(...)` followed by `yield <name>`")
    ra = range_args(b[0].value.value, "srange")
    if ra[2] is None: raise U("srange: range without step")
    env = {"start": "start", "stop": "stop", "step": "step"}
    defs.append(P.definition("k_srange", [("start", "nat"), ("stop", "nat"), ("step", "nat")], "list nat",
                             "(range %s %s %s ++ [%s])%%nat" % (to_nat(ra[0], env), to_nat(ra[1], env), to_nat(ra[2], env), to_nat(b[1].value.value, env)),
                             "srange: yield from %s; yield %s" % (src(b[0].value.value), src(b[1].value.value))))
    return defs


# ------------------------------------------------------------------------------------------------ genetic (co)variance classes
def _zip_chunks(loop, what):
    it = loop.iter
    if not (isinstance(it, ast.Call) and src(it.func) == "zip" and len(it.args) == 2 and not it.keywords):
        raise U("%s: chunk loop iterates over %s" % (what, src(it)))
    a = range_args(it.args[0], what)
    s = it.args[1]
    if not (isinstance(s, ast.Call) and src(s.func) == "srange" and len(s.args) == 3 and not s.keywords):
        raise U("%s: second zip argument %s (expected srange(a,b,c))" % (what, src(s)))
    if a[2] is None: raise U("%s: chunk range without step" % what)
    env = {"lst": "lst", "lsp": "lsp", "step": "step"}
    return "(combine (range %s %s %s) (k_srange %s %s %s))%%nat" % tuple([to_nat(x, env) for x in a] + [to_nat(x, env) for x in s.args])


def _geno_ref(e, lo, hi, what):
    """geno[ph, taxon, lo:hi] -> (ph, taxon name)"""
    if not (isinstance(e, ast.Subscript) and src(e.value) == "geno" and isinstance(e.slice, ast.Tuple) and len(e.slice.elts) == 3):
        raise U("%s: %s is not geno[phase, taxon, a:b]" % (what, src(e)))
    ph, tx, sl = e.slice.elts
    if not (isinstance(ph, ast.Constant) and ph.value in (0, 1) and isinstance(tx, ast.Name) and isinstance(sl, ast.Slice)
            and sl.step is None and sl.lower is not None and sl.upper is not None and src(sl.lower) == lo and src(sl.upper) == hi):
        raise U("%s: %s is not geno[0|1, <taxon>, %s:%s]" % (what, src(e), lo, hi))
    return (ph.value, tx.id)


def _trace_effect(fn, name, uname, lo, hi, what):
    """name = <dg> * uname ; <dg> = geno[..] - geno[..] -> ((ph,tx),(ph,tx))"""
    e = P.the_assignment(fn, name)
    if not (isinstance(e, ast.BinOp) and isinstance(e.op, ast.Mult) and isinstance(e.left, ast.Name) and src(e.right) == uname):
        raise U("%s: %s = %s (expected <genotype difference> * %s)" % (what, name, src(e), uname))
    d = P.the_assignment(fn, e.left.id)
    if not (isinstance(d, ast.BinOp) and isinstance(d.op, ast.Sub)):
        raise U("%s: %s = %s is not a difference" % (what, e.left.id, src(d)))
    return (_geno_ref(d.left, lo, hi, what), _geno_ref(d.right, lo, hi, what))


def _part(fn, e, ntr, what):
    """(reffect @ D * ceffect).sum(1)  /  reffect @ D @ ceffect.T  -> (reffect name, D name, ceffect name)"""
    if ntr == 1:
        ok = (isinstance(e, ast.Call) and isinstance(e.func, ast.Attribute) and e.func.attr == "sum" and len(e.args) == 1 and not e.keywords
              and isinstance(e.args[0], ast.Constant) and e.args[0].value == 1)
        if ok:
            m = e.func.value
            ok = (isinstance(m, ast.BinOp) and isinstance(m.op, ast.Mult) and isinstance(m.right, ast.Name)
                  and isinstance(m.left, ast.BinOp) and isinstance(m.left.op, ast.MatMult)
                  and isinstance(m.left.left, ast.Name) and isinstance(m.left.right, ast.Name))
        if not ok: raise U("%s: partial sum %s is not (reffect @ D * ceffect).sum(1)" % (what, src(e)))
        return m.left.left.id, m.left.right.id, m.right.id
    ok = (isinstance(e, ast.BinOp) and isinstance(e.op, ast.MatMult) and isinstance(e.right, ast.Attribute) and e.right.attr == "T"
          and isinstance(e.right.value, ast.Name) and isinstance(e.left, ast.BinOp) and isinstance(e.left.op, ast.MatMult)
          and isinstance(e.left.left, ast.Name) and isinstance(e.left.right, ast.Name))
    if not ok: raise U("%s: partial sum %s is not reffect @ D @ ceffect.T" % (what, src(e)))
    return e.left.left.id, e.left.right.id, e.right.value.id


def class_defs(repo, tag, rel, cls, ntr):
    scheme = tag[:-1] if tag.endswith("c") else tag
    what = cls + ".from_algmod"
    fn = P.find_function(repo, rel, cls + ".from_algmod")
    par = parents(fn)
    defs = []
    D = lambda name, params, rtype, term, s: defs.append(P.definition("k_%s_%s" % (tag, name), params, rtype, term, "%s: %s" % (cls, s)))
    # ---- the result array
    zs = [n for n in ast.walk(fn) if isinstance(n, ast.Assign) and isinstance(n.value, ast.Call) and src(n.value.func) in ("numpy.zeros", "numpy.empty")]
    if len(zs) != 1 or src(zs[0].value.func) != "numpy.zeros" or not isinstance(zs[0].targets[0], ast.Name):
        raise U("%s: expected exactly one array allocated by numpy.zeros" % what)
    M = zs[0].targets[0].id
    shp = zs[0].value.args[0]
    if not isinstance(shp, ast.Tuple): raise U("%s: shape %s" % (what, src(shp)))
    env_sz = {"ntaxa": "ntaxa", "ntrait": "ntrait"}
    D("shape", [("ntaxa", "nat"), ("ntrait", "nat")], "list nat", "[" + "; ".join(to_nat(x, env_sz) for x in shp.elts) + "]",
      "%s = numpy.zeros(%s)" % (M, src(shp)))
    for nm, want in (("ntaxa", "pgmat.ntaxa"), ("ntrait", "algmod.ntrait"), ("geno", "pgmat.mat"), ("u", "algmod.u_a"),
                     ("chrgrp_stix", "pgmat.vrnt_chrgrp_stix"), ("chrgrp_spix", "pgmat.vrnt_chrgrp_spix"), ("genpos", "pgmat.vrnt_genpos"),
                     ("ru", "u[rst:rsp].T"), ("cu", "u[cst:csp].T"), ("r", "gmapfn.mapfn(numpy.abs(gi - gj))")):
        got = src(P.the_assignment(fn, nm))
        if got != want: raise U("%s: %s = %s (the kernel table assumes %s)" % (what, nm, got, want))
    mg = P.the_assignment(fn, "(gi, gj)")
    if "".join(src(mg).split()) != "numpy.meshgrid(genpos[rst:rsp],genpos[cst:csp],indexing='ij',sparse=True)":
        raise U("%s: gi, gj = %s" % (what, src(mg)))
    # ---- accumulation statement and its loops
    accs = [n for n in ast.walk(fn) if isinstance(n, ast.AugAssign) and isinstance(n.target, ast.Subscript) and src(n.target.value) == M]
    if len(accs) != 1 or not isinstance(accs[0].op, ast.Add) or not isinstance(accs[0].value, ast.Name):
        raise U("%s: expected exactly one statement `%s[...] += <name>`" % (what, M))
    acc = accs[0]
    loops = enclosing_fors(acc, par)
    if len(loops) < 4: raise U("%s: accumulation is not inside group / row / column / taxa loops" % what)
    gl, rl, cl, tl = loops[0], loops[1], loops[2], loops[3:]
    if src(gl.target) != "(lst, lsp)" or not (isinstance(gl.iter, ast.Call) and src(gl.iter.func) == "zip" and len(gl.iter.args) == 2):
        raise U("%s: group loop `for %s in %s`" % (what, src(gl.target), src(gl.iter)))
    D("groups", [("chrgrp_stix", "list nat"), ("chrgrp_spix", "list nat")], "list (nat * nat)",
      "combine %s %s" % tuple(to_nat(a, {"chrgrp_stix": "chrgrp_stix", "chrgrp_spix": "chrgrp_spix"}) for a in gl.iter.args),
      "for lst, lsp in " + src(gl.iter))
    st = P.the_assignment(fn, "step")
    if not (isinstance(st, ast.IfExp) and src(st.test) == "mem is None"): raise U("%s: step = %s" % (what, src(st)))
    env = {"lst": "lst", "lsp": "lsp", "mem": "mem"}
    D("step", [("mem", "option nat"), ("lst", "nat"), ("lsp", "nat")], "nat",
      "match mem with None => %s | Some mem => %s end%%nat" % (to_nat(st.body, env), to_nat(st.orelse, env)), "step = " + src(st))
    if src(rl.target) != "(rst, rsp)" or src(cl.target) != "(cst, csp)":
        raise U("%s: chunk loops bind %s / %s (expected rst,rsp / cst,csp)" % (what, src(rl.target), src(cl.target)))
    D("rchunks", [("lst", "nat"), ("lsp", "nat"), ("step", "nat")], "list (nat * nat)", _zip_chunks(rl, what), "for rst, rsp in " + src(rl.iter))
    D("cchunks", [("lst", "nat"), ("lsp", "nat"), ("step", "nat")], "list (nat * nat)", _zip_chunks(cl, what), "for cst, csp in " + src(cl.iter))
    # ---- D tables
    dnames = []
    for dn in ("D1", "D2"):
        a = P.assignments_to(fn, dn)
        if not a: continue
        e = P.the_assignment(fn, dn)
        if not (isinstance(e, ast.Call) and src(e.func) in ("cov_D1s", "cov_D2s") and len(e.args) == 2 and not e.keywords):
            raise U("%s: %s = %s" % (what, dn, src(e)))
        D(dn, [("r", "Q"), ("nself", "depth")], "Q",
          "k_%s %s %s" % (src(e.func), P.to_coq(e.args[0], P.Ctx("Q", {"r": "r"})), _depth_arg(e.args[1], "nself")), "%s = %s" % (dn, src(e)))
        dnames.append(dn)
    if dnames != (["D1"] if scheme == "two" else ["D1", "D2"]): raise U("%s: D tables %s" % (what, dnames))
    # ---- taxa loops, index tuple
    tvars = [lp.target.id if isinstance(lp.target, ast.Name) else None for lp in tl]
    if None in tvars: raise U("%s: taxa loop targets" % what)
    tparams = [(v, "nat") for v in tvars]
    D("visit", [("ntaxa", "nat")] + tparams, "bool", visit_term(tl, dict({v: v for v in tvars}, ntaxa="ntaxa"), what),
      "; ".join("for %s in %s" % (src(lp.target), src(lp.iter)) for lp in tl))
    ix = acc.target.slice.elts if isinstance(acc.target.slice, ast.Tuple) else [acc.target.slice]
    names = [x for x in ix if isinstance(x, ast.Name)]
    slices = [x for x in ix if isinstance(x, ast.Slice) and x.lower is None and x.upper is None and x.step is None]
    if len(names) + len(slices) != len(ix) or len(slices) != ntr or ix[len(names):] != slices:
        raise U("%s: accumulation index %s" % (what, src(acc.target)))
    if sorted(n.id for n in names) != sorted(tvars): raise U("%s: accumulation index %s does not use the taxa loop variables" % (what, src(acc.target)))
    D("acc_ix", tparams, "list nat", "[" + "; ".join(n.id for n in names) + "]", src(acc))
    # ---- partial sums and their combination
    comb = P.the_assignment(fn, acc.value.id)
    try:
        pr = _part(fn, comb, ntr, what); single = True
    except P.Untranslatable:
        single = False
    form_t = "(nat -> nat -> Q) -> list Z -> list Z -> T"
    pparams = [("form", form_t)] + [(d, "nat -> nat -> Q") for d in dnames] + [("geno", "nat -> nat -> list Z")] + tparams

    def part_def(pname, e):
        rn, dn, cn = _part(fn, e, ntr, what)
        if dn not in dnames: raise U("%s: partial sum %s uses %s" % (what, pname, dn))
        rp = _trace_effect(fn, rn, "ru", "rst", "rsp", what); cp = _trace_effect(fn, cn, "cu", "cst", "csp", what)
        if rp != cp: raise U("%s: partial sum %s pairs rows %s with columns %s" % (what, pname, rp, cp))
        for (_, tx) in rp:
            if tx not in tvars: raise U("%s: taxon %s is not a loop variable" % (what, tx))
        lp_ = enclosing_fors([n for n in ast.walk(fn) if isinstance(n, ast.Assign) and n.value is e][0], par)
        if lp_[:3] != [gl, rl, cl] or any(l not in tl for l in lp_[3:]): raise U("%s: partial sum %s is computed outside the loop nest" % (what, pname))
        inner = {l.target.id for l in lp_[3:]}
        for (_, tx) in rp:
            if tx not in inner: raise U("%s: partial sum %s uses %s outside its loop" % (what, pname, tx))
        return "form %s (geno %d%%nat %s) (geno %d%%nat %s)" % (dn, rp[0][0], rp[0][1], rp[1][0], rp[1][1])
    if single:
        pnames = ["p"]
        defs.append(P.definition("k_%s_p" % tag, pparams, "T", part_def(acc.value.id, comb), "%s: %s = %s" % (cls, acc.value.id, src(comb))).replace(
            "Definition k_%s_p " % tag, "Definition k_%s_p {T : Type} " % tag))
        D("comb", [("p", "Q")], "Q", "p", "%s[...] += %s" % (M, acc.value.id))
    else:
        pn = []
        for n in ast.walk(comb):
            if isinstance(n, ast.Name) and n.id not in pn: pn.append(n.id)
        pn.sort(key=lambda s: [(x.lineno, x.col_offset) for x in ast.walk(comb) if isinstance(x, ast.Name) and x.id == s][0])
        short = {}
        for n in pn:
            suffix = n[len("varA_part"):] if n.startswith("varA_part") else None
            if not suffix or not suffix.isdigit(): raise U("%s: name %s in %s" % (what, n, src(comb)))
            short[n] = "p" + suffix
            defs.append(P.definition("k_%s_p%s" % (tag, suffix), pparams, "T", part_def(n, P.the_assignment(fn, n)),
                                     "%s: %s = %s" % (cls, n, src(P.the_assignment(fn, n)))).replace(
                "Definition k_%s_p%s " % (tag, suffix), "Definition k_%s_p%s {T : Type} " % (tag, suffix)))
        pnames = [short[n] for n in pn]
        D("comb", [(short[n], "Q") for n in pn], "Q", P.to_coq(comb, P.Ctx("Q", short)), "%s = %s" % (acc.value.id, src(comb)))
    if len(pnames) != NPARTS[scheme]: raise U("%s: %d partial sums (expected %d)" % (what, len(pnames), NPARTS[scheme]))
    # ---- scaling
    sc = [n for n in ast.walk(fn) if isinstance(n, ast.AugAssign) and src(n.target) == M]
    if HAS_SCALE[scheme]:
        if len(sc) != 1 or not isinstance(sc[0].op, ast.Mult) or enclosing_fors(sc[0], par):
            raise U("%s: expected exactly one statement `%s *= c` outside the loops" % (what, M))
        D("scale", [], "Q", P.to_coq(sc[0].value, P.Ctx("Q", {})), src(sc[0]))
    elif sc:
        raise U("%s: unexpected in-place operation on the whole array: %s" % (what, src(sc[0])))
    # ---- mirror
    ms = [n for n in ast.walk(fn) if isinstance(n, ast.Assign) and isinstance(n.targets[0], ast.Subscript) and src(n.targets[0].value) == M]
    if len(ms) != 1 or not (isinstance(ms[0].value, ast.Subscript) and src(ms[0].value.value) == M):
        raise U("%s: expected exactly one assignment %s[...] = %s[...]" % (what, M, M))
    ml = enclosing_fors(ms[0], par)
    if len(ml) != 2 or any(l in loops for l in ml): raise U("%s: the mirror assignment is not inside its own two loops" % what)
    mv = [l.target.id for l in ml]
    dst = ms[0].targets[0].slice.elts; s_ = ms[0].value.slice.elts
    def split(ixs):
        pos = [i for i, x in enumerate(ixs) if isinstance(x, ast.Name)]
        for i, x in enumerate(ixs):
            if i not in pos and not (isinstance(x, ast.Slice) and x.lower is None and x.upper is None and x.step is None):
                raise U("%s: mirror index %s" % (what, src(x)))
        return pos, [ixs[i].id for i in pos]
    dpos, dn_ = split(dst); spos, sn_ = split(s_)
    if dpos != spos or len(dst) != len(s_) or len(dst) != len(ix) or len(dpos) != 2: raise U("%s: mirror assignment %s" % (what, src(ms[0])))
    if sorted(dn_) != sorted(mv) or sorted(sn_) != sorted(mv): raise U("%s: mirror assignment uses %s / %s" % (what, dn_, sn_))
    mparams = [(v, "nat") for v in mv]
    D("mvisit", [("ntaxa", "nat")] + mparams, "bool", visit_term(ml, dict({v: v for v in mv}, ntaxa="ntaxa"), what),
      "; ".join("for %s in %s" % (src(lp.target), src(lp.iter)) for lp in ml))
    D("mdst", mparams, "nat * nat", "(%s, %s)" % tuple(dn_), src(ms[0]))
    D("msrc", mparams, "nat * nat", "(%s, %s)" % tuple(sn_), src(ms[0]))
    D("maxes", [], "list nat", "[%d; %d]%%nat" % tuple(dpos), "axes addressed by the mirror assignment " + src(ms[0].targets[0]))
    # ---- constructor call, epgc
    tab, s = ctor_table(fn, what, M)
    D("ctor", [], "list (string * string)", tab, "out = " + s)
    tq, s = epgc_tuple(repo, rel, cls)
    D("epgc", [], "list Q", tq, "epgc: return " + s)
    return defs


# ------------------------------------------------------------------------------------------------ genic variance classes
def genic_defs(repo, tag, rel, cls):
    what = cls + ".from_algmod"
    fn = P.find_function(repo, rel, cls + ".from_algmod")
    par = parents(fn)
    defs = []
    D = lambda name, params, rtype, term, s: defs.append(P.definition("k_%s_%s" % (tag, name), params, rtype, term, "%s: %s" % (cls, s)))
    for nm, want in (("ntaxa", "pgmat.ntaxa"), ("ploidy", "pgmat.ploidy"), ("tafreq", "pgmat.tafreq()"), ("u", "algmod.u_a")):
        got = src(P.the_assignment(fn, nm))
        if got != want: raise U("%s: %s = %s (the kernel table assumes %s)" % (what, nm, got, want))
    e = P.the_assignment(fn, "epgc")
    D("epgc_local", [], "list Q", tuple_q(e, what), "epgc = " + src(e))
    tq, s = epgc_tuple(repo, rel, cls)
    D("epgc", [], "list Q", tq, "epgc: return " + s)
    e = P.the_assignment(fn, "varcoef")
    D("varcoef", [("ploidy", "Q"), ("u", "Q")], "Q", P.to_coq(e, P.Ctx("Q", {"ploidy": "ploidy", "u": "u"})), "varcoef = " + src(e))
    pe = P.the_assignment(fn, "p")
    if not (isinstance(pe, ast.Call) and src(pe.func) == "numpy.dot" and len(pe.args) == 2 and src(pe.args[0]) == "epgc"
            and isinstance(pe.args[1], ast.Subscript) and src(pe.args[1].value) == "tafreq" and isinstance(pe.args[1].slice, ast.Tuple)
            and len(pe.args[1].slice.elts) == 2 and isinstance(pe.args[1].slice.elts[0], ast.Tuple) and src(pe.args[1].slice.elts[1]) == ":"):
        raise U("%s: p = %s" % (what, src(pe)))
    fr = [x.id if isinstance(x, ast.Name) else None for x in pe.args[1].slice.elts[0].elts]
    if None in fr: raise U("%s: p = %s" % (what, src(pe)))
    ve = P.the_assignment(fn, "v")
    if not (isinstance(ve, ast.Call) and isinstance(ve.func, ast.Attribute) and ve.func.attr == "sum" and len(ve.args) == 1
            and isinstance(ve.args[0], ast.Constant) and ve.args[0].value == 0 and not ve.keywords):
        raise U("%s: v = %s" % (what, src(ve)))
    D("term", [("varcoef", "Q"), ("p", "Q")], "Q", P.to_coq(bind(ve.func.value, {"p[:, None]": "p"}), P.Ctx("Q", {"varcoef": "varcoef", "p": "p"})),
      "v = " + src(ve))
    ws = [n for n in ast.walk(fn) if isinstance(n, ast.Assign) and isinstance(n.targets[0], ast.Subscript) and src(n.targets[0].value) == "var_a"]
    if not ws or any(src(w.value) != "v" for w in ws): raise U("%s: writes into var_a" % what)
    loops = enclosing_fors(ws[0], par)
    if any(enclosing_fors(w, par) != loops for w in ws): raise U("%s: writes in different loops" % what)
    tvars = [l.target.id for l in loops]
    tparams = [(v, "nat") for v in tvars]
    D("visit", [("ntaxa", "nat")] + tparams, "bool", visit_term(loops, dict({v: v for v in tvars}, ntaxa="ntaxa"), what),
      "; ".join("for %s in %s" % (src(lp.target), src(lp.iter)) for lp in loops))
    if sorted(fr) != sorted(tvars): raise U("%s: tafreq rows %s" % (what, fr))
    D("freq_ix", tparams, "list nat", "[" + "; ".join(fr) + "]", "p = " + src(pe))
    rows = []
    for w in ws:
        ix = w.targets[0].slice.elts
        if not (all(isinstance(x, ast.Name) for x in ix[:-1]) and src(ix[-1]) == ":" and sorted(x.id for x in ix[:-1]) == sorted(tvars)):
            raise U("%s: write %s" % (what, src(w)))
        rows.append("[" + "; ".join(x.id for x in ix[:-1]) + "]")
    D("writes", tparams, "list (list nat)", "[" + "; ".join(rows) + "]", "; ".join(src(w) for w in ws))
    tab, s = ctor_table(fn, what, "var_a")
    D("ctor", [], "list (string * string)", tab, "out = " + s)
    return defs


# ------------------------------------------------------------------------------------------------ usefulness criterion
def uc_defs(repo):
    what = "UsefulnessCriterionSelectionProblemMixin._calc_uc"
    tree = P.parse_file(repo, UCP)
    owners = [c.name for c in tree.body if isinstance(c, ast.ClassDef) and any(isinstance(f, ast.FunctionDef) and f.name == "_calc_uc" for f in c.body)]
    if len(owners) != 1: raise U("_calc_uc is defined in %s" % owners)
    fn = P.find_function(repo, UCP, owners[0] + "._calc_uc")
    defs = []
    for nm, want in (("epgc", "numpy.array(vmat_obj.epgc)"), ("bvmat", "bvmat_obj.unscale()"), ("vmat", "vmat_obj.mat"),
                     ("bvmat_obj", "gmod.gebv(pgmat)"), ("pvar", "vmat[tuple(cconfig) + (slice(None),)]"),
                     ("vmat_obj", "vmatfcty.from_gmod(gmod=gmod, pgmat=pgmat, ncross=ncross, nprogeny=nprogeny, nself=nself, gmapfn=gmapfn)")):
        got = src(P.the_assignment(fn, nm))
        if got != want: raise U("%s: %s = %s (the kernel table assumes %s)" % (what, nm, got, want))
    loops = [n for n in ast.walk(fn) if isinstance(n, ast.For)]
    if len(loops) != 1 or src(loops[0].target) != "(i, cconfig)" or src(loops[0].iter) != "enumerate(xmap)":
        raise U("%s: loop" % what)
    e = P.the_assignment(fn, "pmean")
    if src(e) != "epgc.dot(bvmat[cconfig, :])": raise U("%s: pmean = %s" % (what, src(e)))
    defs.append(P.definition("k_uc_pmean", [("epgc", "list Q"), ("bvmat", "nat -> Q"), ("cconfig", "list nat")], "Q",
                             "qsum (map2 Qmult epgc (map bvmat cconfig))", "%s: pmean = %s" % (what, src(e))))
    e = P.the_assignment(fn, "uc[i, :]")
    defs.append(P.definition("k_uc", [("pmean", "Q"), ("selection_intensity", "Q"), ("sqrt_pvar", "Q")], "Q",
                             P.to_coq(bind(e, {"numpy.sqrt(pvar)": "sqrt_pvar"}),
                                      P.Ctx("Q", {"pmean": "pmean", "selection_intensity": "selection_intensity", "sqrt_pvar": "sqrt_pvar"})),
                             "%s: uc[i, :] = %s" % (what, src(e))))
    return defs


# ------------------------------------------------------------------------------------------------ entry point
PRELUDE = ("From Coq Require Import String.\nFrom PV Require Import Lib.Common Model.C12_Var Model.C12_KernelBase.\n"
           "Local Open Scope Q_scope.\n\n")


def translate(repo, gen_dir):
    defs = util_defs(repo)
    for tag, rel, cls, ntr in CLASSES:
        defs += class_defs(repo, tag, rel, cls, ntr)
    for tag, rel, cls in GENIC:
        defs += genic_defs(repo, tag, rel, cls)
    defs += uc_defs(repo)
    text = (P.HEADER % "harness/translate/c12_kernel.py") + PRELUDE + "\n".join(defs)
    P.write_if_changed(os.path.join(gen_dir, "C12_Kernel.v"), text)
    return {"file": "Gen/C12_Kernel.v", "definitions": len(defs), "sha256": hashlib.sha256(text.encode()).hexdigest()[:16]}
