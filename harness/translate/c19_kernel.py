"""C19 kernel translator: regenerates `coq/Gen/C19_Kernel.v` from the current source on every run (protocol: tools/PHASE2_BRIEF.md
section B; exemplar: c09_kernel.py).  One Gallina `Definition` (exact rationals / integers) per *kernel expression* of

  pybrops/core/util/pareto.py is_pareto_efficient
    k_par_weight   fmat * wt.flatten()[None,:]                      objective times weight
    k_par_start    pt_ix = 0                                         first pivot
    k_par_guard    pt_ix < len(fmat)                                 the while test
    k_par_better   fmat > fmat[pt_ix]   (inside numpy.any(.., axis=1))   a point survives the pivot iff strictly better somewhere
    k_par_next     numpy.sum(ndpt_mask[:pt_ix]) + 1                  next pivot = survivors before the pivot, plus one
  pybrops/opt/algo/pymoo_addon.py dominates
    k_dom_feasible cv1 <= 0.0 and cv2 <= 0.0                         the if test
    k_dom_pareto   np.all(obj1 <= obj2) and np.any(obj1 < obj2)      returned when both are feasible
    k_dom_violation  cv1 < cv2                                       returned otherwise
    k_dominates    the function body: if <feasible>: return <pareto>; return <violation>
  the three distance transformations (tag = core | prob | fn):
    k_<tag>_signed  mat * obj_wt          k_<tag>_shift  mat - mat.min(0)        k_<tag>_range  mat.max(0)
    k_<tag>_guard   maximum == 0.0        k_<tag>_fill   maximum[mask] = 1.0     k_<tag>_recip  1.0 / maximum
    k_<tag>_zero    scale[mask] = 0.0     k_<tag>_scaled scale * mat             k_<tag>_linv   1.0 / vec_wt.dot(vec_wt)
    k_<tag>_coef    mat.dot(vec_wt) * vdvinv   k_<tag>_proj  numpy.outer(scale, vec_wt)   k_<tag>_resid  mat - P
    k_core_assert_nonneg / _pos / _norm   the three input assertions of core/util/trans.py

`Proofs/C19_Kernel.v` proves each equal to the hand model's operation (reflexivity, or `==` by ring where only the order of a product
differs), assembles the three bodies from the generated kernels in the statement order of the source and proves them equal to the
model's `trans_body`; `Props/C19.v` states the guard, scaling, dominance and pivot laws about the *generated* definitions.  A changed
expression (`numpy.isclose(maximum, 0.0)`, `>=` for `>`, `pt_ix += 1`, `vec_wt` for `obj_wt`, swapped operands of a subtraction) either
leaves the supported fragment / the expected statement shape (the translator raises: the check reports the correspondence as broken)
or changes a generated definition so that `Proofs/C19_Kernel.vo`, hence `Props/C19.vo`, no longer builds.
"""
import ast, os, hashlib
from translate import pyexpr as P
from translate.kernelkit import bind

PARETO = "pybrops/core/util/pareto.py"
ADDON = "pybrops/opt/algo/pymoo_addon.py"
TRANS = (   # tag, file, function, matrix variable, sign vector, line vector
    ("core", "pybrops/core/util/trans.py", "trans_ndpt_pseudo_dist", "ndptmat", "objfn_minmax", "objfn_pseudoweight"),
    ("prob", "pybrops/breed/prot/sel/prob/trans.py", "trans_ndpt_to_vec_dist", "mat", "obj_wt", "vec_wt"),
    ("fn", "pybrops/breed/prot/sel/transfn.py", "trans_ndpt_to_vec_dist", "mat", "objfn_wt", "wt"),
)


def _src(e):
    return ast.unparse(e)


def _body(fn):
    """statements of a function without its docstring"""
    b = list(fn.body)
    if b and isinstance(b[0], ast.Expr) and isinstance(b[0].value, ast.Constant) and isinstance(b[0].value.value, str):
        b = b[1:]
    return b


def _stmts_are(where, stmts, expected):
    """the statement list has exactly this shape: each entry is the verbatim text of a statement, or `target = ...` (only the
    target is fixed, the value is a kernel expression translated separately)"""
    got = [ast.unparse(s) for s in stmts]
    ok = len(got) == len(expected)
    if ok:
        for g, e in zip(got, expected):
            if e.endswith(" = ..."):
                ok = ok and g.startswith(e[:-3]) and "\n" not in g
            else:
                ok = ok and g == e
    if not ok:
        raise P.Untranslatable("%s: the statement sequence is no longer the one this translator describes:\n  found    %s\n  expected %s"
                               % (where, got, expected))


def _reduce_over(expr, names, axis=None):
    """`numpy.any(X, axis=1)` / `np.all(X)` -> X (the call must be exactly one of `names`, with exactly that axis keyword)"""
    if not (isinstance(expr, ast.Call) and ast.unparse(expr.func) in names and len(expr.args) == 1):
        raise P.Untranslatable("expected a call of %s: %s" % (names, ast.unparse(expr)))
    kws = {k.arg: ast.unparse(k.value) for k in expr.keywords}
    want = {} if axis is None else {"axis": str(axis)}
    if kws != want:
        raise P.Untranslatable("expected keywords %s in %s" % (want, ast.unparse(expr)))
    return expr.args[0]


def _outer_as_product(expr):
    """entry (i, k) of numpy.outer(a, b) is a[i] * b[k]"""
    if not (isinstance(expr, ast.Call) and ast.unparse(expr.func) == "numpy.outer" and len(expr.args) == 2 and not expr.keywords):
        raise P.Untranslatable("expected numpy.outer(a, b): " + ast.unparse(expr))
    return ast.BinOp(left=expr.args[0], op=ast.Mult(), right=expr.args[1])


def _pareto(repo, defs):
    Q = lambda env: P.Ctx("Q", env)
    Z = lambda env: P.Ctx("Z", env)
    fn = P.find_function(repo, PARETO, "is_pareto_efficient")
    body = _body(fn)
    loops = [s for s in body if isinstance(s, ast.While)]
    if len(loops) != 1 or loops[0].orelse:
        raise P.Untranslatable("is_pareto_efficient: expected exactly one while loop at the top level")
    loop = loops[0]
    _stmts_are("is_pareto_efficient (before the loop)", body[:body.index(loop)],
               ["fmat = ...", "npt = fmat.shape[0]", "is_efficient = numpy.arange(npt)", "pt_ix = ..."])
    _stmts_are("is_pareto_efficient (loop body)", loop.body,
               ["ndpt_mask = ...", "ndpt_mask[pt_ix] = True", "is_efficient = is_efficient[ndpt_mask]", "fmat = fmat[ndpt_mask]", "pt_ix = ..."])
    tail = body[body.index(loop) + 1:]
    if len(tail) != 1 or not isinstance(tail[0], ast.If) or ast.unparse(tail[0].test) != "return_mask":
        raise P.Untranslatable("is_pareto_efficient: expected `if return_mask: ... else: ...` after the loop")
    _stmts_are("is_pareto_efficient (mask form)", tail[0].body,
               ["is_efficient_mask = numpy.zeros(npt, dtype=bool)", "is_efficient_mask[is_efficient] = True", "return is_efficient_mask"])
    _stmts_are("is_pareto_efficient (index form)", tail[0].orelse, ["return is_efficient"])
    if [a.arg for a in fn.args.args] != ["fmat", "wt", "return_mask"] or [ast.unparse(d) for d in fn.args.defaults] != ["True"]:
        raise P.Untranslatable("is_pareto_efficient: signature changed")

    e = P.the_assignment(fn, "fmat", index=0, count=2)
    defs.append(P.definition("k_par_weight", [("f", "Q"), ("w", "Q")], "Q",
                             P.to_coq(bind(e, {"wt.flatten()[None, :]": "w"}), Q({"fmat": "f", "w": "w"})),
                             "is_pareto_efficient: fmat = %s" % _src(e)))
    e = P.the_assignment(fn, "pt_ix", index=0, count=2)
    defs.append(P.definition("k_par_start", [], "Z", P.to_coq(e, Z({})), "is_pareto_efficient: pt_ix = %s" % _src(e)))
    e = P.the_while_test(fn)
    defs.append(P.definition("k_par_guard", [("pt_ix", "Z"), ("n", "Z")], "bool",
                             P.to_coq(bind(e, {"len(fmat)": "n"}), Z({"pt_ix": "pt_ix", "n": "n"}), "bool"),
                             "is_pareto_efficient: while %s" % _src(e)))
    e = P.the_assignment(fn, "ndpt_mask")
    inner = _reduce_over(e, ("numpy.any",), axis=1)
    defs.append(P.definition("k_par_better", [("q", "Q"), ("p", "Q")], "bool",
                             P.to_coq(inner, Q({"fmat": "q", "fmat[pt_ix]": "p"}), "bool"),
                             "is_pareto_efficient: ndpt_mask = %s   (q: an entry of a row, p: the pivot's entry)" % _src(e)))
    e = P.the_assignment(fn, "pt_ix", index=1, count=2)
    defs.append(P.definition("k_par_next", [("nkept", "Z")], "Z",
                             P.to_coq(bind(e, {"numpy.sum(ndpt_mask[:pt_ix])": "nkept"}), Z({"nkept": "nkept"})),
                             "is_pareto_efficient: pt_ix = %s   (nkept: survivors before the pivot)" % _src(e)))


def _dominates(repo, defs):
    Q = lambda env: P.Ctx("Q", env)
    fn = P.find_function(repo, ADDON, "dominates")
    if [a.arg for a in fn.args.args] != ["obj1", "cv1", "obj2", "cv2"]:
        raise P.Untranslatable("dominates: signature changed")
    body = _body(fn)
    if not (len(body) == 2 and isinstance(body[0], ast.If) and not body[0].orelse and len(body[0].body) == 1
            and isinstance(body[0].body[0], ast.Return) and isinstance(body[1], ast.Return)):
        raise P.Untranslatable("dominates: the body is no longer `if <test>: return <a>` followed by `return <b>`: %s"
                               % [ast.unparse(s)[:60] for s in body])
    test, feas, viol = body[0].test, body[0].body[0].value, body[1].value
    cv = {"cv1": "cv1", "cv2": "cv2"}
    defs.append(P.definition("k_dom_feasible", [("cv1", "Q"), ("cv2", "Q")], "bool", P.to_coq(test, Q(cv), "bool"),
                             "dominates: if %s" % _src(test)))
    # np.all(<elementwise comparison>) and np.any(<elementwise comparison>)
    if not (isinstance(feas, ast.BoolOp) and isinstance(feas.op, ast.And) and len(feas.values) == 2):
        raise P.Untranslatable("dominates: expected `np.all(..) and np.any(..)`: " + _src(feas))
    c_all = _reduce_over(feas.values[0], ("np.all", "numpy.all"))
    c_any = _reduce_over(feas.values[1], ("np.any", "numpy.any"))
    env = Q({"obj1": "a", "obj2": "b"})
    defs.append(P.definition("k_dom_pareto", [("obj1", "list Q"), ("obj2", "list Q")], "bool",
                             "(andb (forallb (fun x : bool => x) (map2 (fun a b : Q => %s) obj1 obj2))\n        (existsb (fun x : bool => x) (map2 (fun a b : Q => %s) obj1 obj2)))"
                             % (P.to_coq(c_all, env, "bool"), P.to_coq(c_any, env, "bool")),
                             "dominates: return %s" % _src(feas)))
    defs.append(P.definition("k_dom_violation", [("cv1", "Q"), ("cv2", "Q")], "bool", P.to_coq(viol, Q(cv), "bool"),
                             "dominates: return %s" % _src(viol)))
    defs.append(P.definition("k_dominates", [("obj1", "list Q"), ("cv1", "Q"), ("obj2", "list Q"), ("cv2", "Q")], "bool",
                             "(if k_dom_feasible cv1 cv2 then k_dom_pareto obj1 obj2 else k_dom_violation cv1 cv2)",
                             "dominates: if <k_dom_feasible>: return <k_dom_pareto>;  return <k_dom_violation>"))


def _trans(repo, defs, tag, rel, fname, M, S, L):
    Q = lambda env: P.Ctx("Q", env)
    fn = P.find_function(repo, rel, fname)
    if [a.arg for a in fn.args.args] != [M, S, L] or fn.args.kwarg is None:
        raise P.Untranslatable("%s: signature changed" % fname)
    body = _body(fn)
    n_assert = 3 if tag == "core" else 0
    asserts, rest = body[:n_assert], body[n_assert:]
    if any(not isinstance(s, ast.Assert) for s in asserts) or any(isinstance(s, ast.Assert) for s in rest):
        raise P.Untranslatable("%s (%s): expected exactly %d leading assert statements" % (fname, tag, n_assert))
    if tag == "core":
        _stmts_are(rel + ":" + fname, rest,
                   [M + " = ...", M + " = ...", "maximum = ...", "mask = ...", "maximum[mask] = ...", "scale = ...", "scale[mask] = ...",
                    M + " = ...", "LdotLinv = ...", "PdotL = %s.dot(%s)" % (M, L), "scale = ...", "projL_P = ...", "oprojL_P = ...",
                    "dist = numpy.linalg.norm(oprojL_P, axis=1)", "return dist"])
        names = dict(linv="LdotLinv", proj="projL_P", resid="oprojL_P")
    else:
        _stmts_are(rel + ":" + fname, rest,
                   [M + " = ...", M + " = ...", "maximum = ...", "mask = ...", "maximum[mask] = ...", "scale = ...", "scale[mask] = ...",
                    M + " = ...", "vdvinv = ...", "scale = ...", "P = ...", "diff = ...",
                    "d = numpy.linalg.norm(diff, axis=1)", "return d"])
        names = dict(linv="vdvinv", proj="P", resid="diff")
    k = lambda nm: "k_%s_%s" % (tag, nm)
    where = "%s %s: " % (rel.replace("pybrops/", ""), fname)

    def add(nm, params, rtype, term, target, e):
        defs.append(P.definition(k(nm), params, rtype, term, "%s%s = %s" % (where, target, _src(e))))

    e = P.the_assignment(fn, M, index=0, count=3)
    add("signed", [("x", "Q"), ("s", "Q")], "Q", P.to_coq(e, Q({M: "x", S: "s"})), M, e)
    e = P.the_assignment(fn, M, index=1, count=3)
    add("shift", [("x", "Q"), ("mn", "Q")], "Q", P.to_coq(bind(e, {M + ".min(0)": "mn"}), Q({M: "x", "mn": "mn"})), M, e)
    e = P.the_assignment(fn, "maximum")
    add("range", [("colmax", "Q")], "Q", P.to_coq(bind(e, {M + ".max(0)": "colmax"}), Q({"colmax": "colmax"})), "maximum", e)
    e = P.the_assignment(fn, "mask")
    add("guard", [("maximum", "Q")], "bool", P.to_coq(e, Q({"maximum": "maximum"}), "bool"), "mask", e)
    e = P.the_assignment(fn, "maximum[mask]")
    add("fill", [], "Q", P.to_coq(e, Q({})), "maximum[mask]", e)
    e = P.the_assignment(fn, "scale", index=0, count=2)
    add("recip", [("maximum", "Q")], "Q", P.to_coq(e, Q({"maximum": "maximum"})), "scale", e)
    e = P.the_assignment(fn, "scale[mask]")
    add("zero", [], "Q", P.to_coq(e, Q({})), "scale[mask]", e)
    e = P.the_assignment(fn, M, index=2, count=3)
    add("scaled", [("sc", "Q"), ("x", "Q")], "Q", P.to_coq(e, Q({"scale": "sc", M: "x"})), M, e)
    e = P.the_assignment(fn, names["linv"])
    add("linv", [("LL", "Q")], "Q", P.to_coq(bind(e, {"%s.dot(%s)" % (L, L): "LL"}), Q({"LL": "LL"})), names["linv"], e)
    e = P.the_assignment(fn, "scale", index=1, count=2)
    if tag == "core":
        term = P.to_coq(e, Q({"LdotLinv": "linv", "PdotL": "PL"}))
    else:
        term = P.to_coq(bind(e, {"%s.dot(%s)" % (M, L): "PL"}), Q({"PL": "PL", "vdvinv": "linv"}))
    add("coef", [("PL", "Q"), ("linv", "Q")], "Q", term, "scale", e)
    e = P.the_assignment(fn, names["proj"])
    if tag == "core":
        term = P.to_coq(bind(e, {"scale[:, None]": "a"}), Q({"a": "a", L: "l"}))
    else:
        term = P.to_coq(_outer_as_product(e), Q({"scale": "a", L: "l"}))
    add("proj", [("a", "Q"), ("l", "Q")], "Q", term, names["proj"], e)
    e = P.the_assignment(fn, names["resid"])
    add("resid", [("p", "Q"), ("pr", "Q")], "Q", P.to_coq(e, Q({M: "p", names["proj"]: "pr"})), names["resid"], e)
    if tag == "core":
        a1 = _reduce_over(asserts[0].test, ("numpy.all",))
        a2 = _reduce_over(asserts[1].test, ("numpy.any",))
        a3 = asserts[2].test
        defs.append(P.definition("k_core_assert_nonneg", [("w", "Q")], "bool", P.to_coq(a1, Q({L: "w"}), "bool"),
                                 where + "assert " + _src(asserts[0].test)))
        defs.append(P.definition("k_core_assert_pos", [("w", "Q")], "bool", P.to_coq(a2, Q({L: "w"}), "bool"),
                                 where + "assert " + _src(asserts[1].test)))
        defs.append(P.definition("k_core_assert_norm", [("LL", "Q")], "bool",
                                 P.to_coq(bind(a3, {"%s.dot(%s)" % (L, L): "LL"}), Q({"LL": "LL"}), "bool"),
                                 where + "assert " + _src(asserts[2].test)))


def translate(repo, gen_dir):
    defs = []
    _pareto(repo, defs)
    _dominates(repo, defs)
    for row in TRANS:
        _trans(repo, defs, *row)
    text = (P.HEADER % "harness/translate/c19_kernel.py") + \
        "From Coq Require Import ZArith QArith Bool List.\nFrom PV Require Import Lib.Common.\n\n" + "\n".join(defs)
    P.write_if_changed(os.path.join(gen_dir, "C19_Kernel.v"), text)
    return {"file": "Gen/C19_Kernel.v", "definitions": len(defs), "sha256": hashlib.sha256(text.encode()).hexdigest()[:16]}
