#!/venv/bin/python
"""MANIFEST.setup_cmd: full .vo build of the whole Coq development (no -vos), offline."""
import os, sys, subprocess
sys.path.insert(0, os.path.dirname(os.path.abspath(__file__)))
import check
check.ensure_makefile()
rc = subprocess.call("flock .buildlock timeout 3000 make -k -f Makefile.coq -j%d 2>&1 | grep -v '^COQC\\|^COQDEP\\|^CAMLDEP' | tail -n 40" % check.NPROC, shell=True, cwd=check.COQ)
print("setup: coq build finished")
sys.exit(0)
