"""Bootstrap for every harness process: make /repo's *current working tree* importable.

- PYTHONPATH is forced to the repository (VERIF_REPO, default /repo) so that the checks always run
  the code that is on disk now, never an installed copy;
- the installed numpy (2.x) no longer has ``numpy.float_`` / ``numpy.in1d`` which pybrops uses at
  import time; both are aliased here, in the harness process only (nothing in /repo is touched).
"""
import os, sys
REPO = os.environ.get("VERIF_REPO", "/repo")
VERIF = os.path.dirname(os.path.dirname(os.path.abspath(__file__)))
if sys.path[0:1] != [REPO]:
    sys.path.insert(0, REPO)
os.environ.setdefault("PYTHONHASHSEED", "0")
os.environ["PYBROPS_VERIF"] = "1"
import numpy
if not hasattr(numpy, "float_"):
    numpy.float_ = numpy.float64
if not hasattr(numpy, "in1d"):
    numpy.in1d = lambda a, b, **k: numpy.isin(numpy.asarray(a).ravel(), b, **k)

def check_repo_is_source():
    import pybrops
    p = os.path.realpath(os.path.dirname(pybrops.__file__))
    want = os.path.realpath(os.path.join(REPO, "pybrops"))
    if p != want:
        raise RuntimeError("pybrops imported from %s, expected %s" % (p, want))
