"""C08 — seeded runs are reproducible, explicit generators are isolated.

Static side : harness/translate/c08_entropy.py regenerates coq/Gen/C08_Entropy.v (entropy sources + reference graph of every
              function of the package); Model/C08_World.v computes the footprints, Proofs/C08_World.v proves the table
              obligations and the world-model theorems.
Dynamic side: three kinds of experiments on the implementation,
  seedmodel : prng.seed(s) / prng.spawn(n)  compared bit for bit with the MT19937 model evaluated inside Coq;
  repro     : [history h1; seed s; program]  versus  [history h2; seed s; program]  (outputs and final global states);
  isolated  : program handed its own generator: global python/numpy streams untouched, outcome a function of the generator.
The observations (which streams moved, reproducible or not) are compared inside Coq with the static footprints.
"""
import hashlib, random, math, copy, warnings
from fractions import Fraction
import numpy
import coqemit as E

ID = "C08"
PROPS = "Props/C08.v"
IMPORTS = ("From Coq Require Import NArith.\nFrom PV Require Import Lib.Common Gen.C08_Entropy Model.C08_World Gen.C08_Kernel Model.C08_SeedK.\n"
           "Import String.StringSyntax.\nDelimit Scope string_scope with string.")
SHARD = 16
LEVEL_TEXT = ("Coq theorems over (a) a world model {python stream, numpy stream, OS, explicit generators}: any program of calls whose "
              "footprints avoid the OS is reproducible after seed(s) whatever the prior world, a call with an explicit-generator "
              "footprint leaves both global streams untouched and depends on that generator only; (b) the reference graph of the "
              "whole package regenerated from the source on every run: every anchored stochastic component reaches only its own "
              "generator (this now includes the subset and the memetic optimisers built on pymoo_addon's sampling/crossover/mutation operators, the 8 selection "
              "protocols' select() and default-optimiser setters, the rng setters of the selection protocols, the random-selection problem constructors, "
              "Generalized1NormGenomicSelection.select and the legacy set GA, all repaired: their former root causes are proved explicit-only without exception, "
              "with regression witnesses about the former code), no function of the package reaches OS entropy, every function that accepts rng is explicit-only "
              "up to the named root causes of the findings that remain known (helpers without an rng parameter, deap's "
              "selTournamentDCD), no function snapshots a generator (copy/deepcopy/pickle/get_state of a generator reference), the deep-copy routes of the "
              "stochastic classes exist and share; (c) a bit-exact MT19937 "
              "model of prng.seed/spawn whose argument, bounds, count, guard and default expressions are REGENERATED from prng.py (Gen/C08_Kernel.v) and "
              "proved equal to the hand model, with range theorems about the generated expressions (numpy's seed <= 2^32-1, spawn seeds <= 2^sbits-1, "
              "exactly the negative counts are refused, the pymoo seed of all 13 minimize() sites is an unsigned 32-bit function of the optimiser's draw); "
              "(d) an object/copy world model: reproducibility after seeding and isolation of explicit generators survive programs with copies of "
              "components (copies, shallow and deep, share the generator; a copy is observationally its source), after `prot.rng = g` every call on the protocol "
              "and on the default optimiser it built draws from g only; the former snapshot deep copy and the former setter that left the optimiser on the old "
              "generator are kept as refuted regression witnesses (old_ definitions). The model is tied "
              "to the code by evaluating it inside Coq against the implementation (seed/spawn states bit for bit; observed stream "
              "movements and reproducibility of every stochastic API against the static footprints; components obtained through copy.copy / copy.deepcopy / "
              ".copy() / .deepcopy() / the rng setter, before or after the seeding, compared with the same program without copies - no copy route and no setter "
              "is excused any more; the pymoo operators of pymoo_addon and the meiosis / random-problem helpers are also driven directly with a caller-owned Generator, "
              "RandomState and None on inputs that reach every draw site, so that a draw site misbehaving for one generator kind or on one branch has a concrete witness)")
LEVEL_NOTE = ("trusted: Coq kernel + vm_compute; the ast translator (over-approximating reference graph: attribute access on objects of "
              "unknown class is linked to every member of that name; methods invoked implicitly by operators are checked separately "
              "to be source-free); hand-entered third-party facts (pymoo 0.6.2 minimize() seeds default_rng(seed), None without a seed argument, "
              "and hands that generator to every operator as random_state (the translator flags an operator that does not pass it on to a helper taking random_state); deap selTournamentDCD uses python's random); numpy/CPython generators themselves; theorems are about the Gallina "
              "model, the tie to the code is the regenerated table plus differential runs on generated inputs")
TECHNIQUE = "Coq proof over a regenerated footprint table + bit-exact MT19937 seed model; in-Coq vm_compute correspondence with dynamic runs"
RULE = ("case kinds from one PRNG: seedmodel (seed in boundary set {0,1,2^32-1,2^32,2^64,negative,multi-word} or random up to 2^96; spawn "
        "requests incl. None/0/several, sbits 32/64/128) ; repro (program of 1-3 stochastic components with rng=None, two different prior "
        "histories of python/numpy draws, reseeding, other components) ; isolated (component handed a Generator or RandomState, global "
        "streams perturbed between two runs from equal generator states); every mating protocol, G_E_Phenotyping, sampling.py, all 8 "
        "configuration classes, spawn, apply_jitter, EMBV, every optimiser, selection protocols of all four decision-space kinds (deterministic and "
        "default optimisers, 1 and 2 objectives, mate protocols with the optimisation stubbed), the four random selection protocols, "
        "Generalized1NormGenomicSelection, OptimalContribution problem construction on a singular relationship matrix; non-trivial = the component consumed randomness "
        "(some stream moved); distinct by SHA-256 of the case. "
        "Object lifecycle: every object component (mating, phenotyping, selection protocols/configurations, optimisers) is also obtained through a copy route "
        "(all of __copy__/__deepcopy__/copy()/deepcopy() with and without memo, chains, for classes that define them; python's default shallow copy for the others; "
        "the rng property setter) and/or constructed BEFORE the seeding / stream perturbation, then used; a third reference run executes the same program without "
        "copies from the same seed / generator state: outputs, final global streams and final generator state must coincide. Deep copies (the __deepcopy__ "
        "inherited from the six base classes: deepcopy with and without memo, chains, after the setter) of every object component and the rng setter of every "
        "protocol with default optimisers (incl. the legacy Generalized1NormGenomicSelection) are ordinary cases that must agree. Seed model: spawn requests incl. negative counts (refused), "
        "sbits omitted (default). Fail-closed audit by introspection: all 117 classes/functions/methods accepting rng are executed by a component, inherit "
        "select() from an executed family base (checked), or are skipped with a reason; copy methods of stochastic classes must match the lifecycle table: "
        "every class accepting rng must inherit the generator-sharing __deepcopy__ of one of the six base classes and define no other copy method, or be "
        "listed with all its routes (G_E_Phenotyping). "
        "Operators and helpers handed the caller's generator DIRECTLY (minimize() only ever hands a Generator): every function / method of pymoo_addon that is handed "
        "random_state (sampling, exchange crossover and mutation - also through pymoo's Crossover.do / Mutation.do -, the integer SBX / PM wrappers, the memetic mutations' "
        "_do / do and their hillclimb / reduced_exchange / tiled_choice helpers; MutatorF cannot be constructed: skipped, checked) and the helpers that were reached with one "
        "generator kind only (breed.prot.mate.util.mat_*, core.util.mate.dense_*, the four Random*SelectionProblem.from_object) are components of their own, run as "
        "isolated cases with a caller-owned Generator, RandomState and MT19937 Generator and as repro cases with None (global stream after prng.seed), alone, in programs "
        "and in prior histories, on inputs where every draw site is reached (parents differing in >= 2 / exactly 2 / 1 / 0 elements, individuals with >= 2 loci outside the "
        "operator's set space so that the exchange mutation fires, hill-climb probability 1 / 0 / 0.5, a hill climb with non-dominated neighbours and one started on the "
        "optimum which falls back on the exchange mutation, whole tiles and a remainder); the predicate additionally demands that the source handed over was consumed and "
        "that the operator changed its input; fail-closed audit by introspection of pymoo_addon (a new function handed random_state must be driven or skipped with a reason)")
TRUSTED = ["harness/translate/c08_entropy.py (ast translator, fail closed on unclassified references to entropy-bearing modules)",
           "harness/translate/c08_kernel.py (kernel expressions of prng.seed / prng.spawn / minimize(seed=...) located by statement shape, fail closed; python int() on a non-negative rational = floor)",
           "pymoo 0.6.2 Algorithm.setup: random_state = default_rng(seed), seed None unless passed to minimize(): OS entropy iff a minimize() call site passes no seed (entered by hand, checked syntactically at every call site, cross-checked dynamically)",
           "pymoo 0.6.2 operators receive random_state = the algorithm's generator (Operator.do / Mating.do): a pybrops operator that reads random_state from its "
           "keyword arguments draws from the generator seeded by minimize(seed=...) (entered by hand, cross-checked dynamically by the isolation runs of the subset optimisers)",
           "deap.tools.selTournamentDCD draws from python's global random (entered by hand)",
           "CPython random.seed(int)/getrandbits/_randbelow and numpy legacy seeding are modelled (MT19937), not verified; "
           "distributions of numpy generators are opaque (only state movement and output equality are observed)"]
ASSUMPTIONS = ["seeds are Python ints (seed(None) deliberately takes OS entropy)",
               "explicit generators are numpy Generator/RandomState objects not shared with the global stream",
               "objects passed to a component (problems, genomic models) do not themselves draw random numbers"]

# pymoo-based optimisers.  Since /repo commit 0de6ee80 every minimize() seeds pymoo's generator from self.rng.
GA_PYMOO_OPS = ("BinaryGA", "IntegerGA", "RealGA", "NSGA2BinaryGA", "NSGA2IntegerGA", "NSGA2RealGA")     # pymoo's own operators only: clean
GA_SUBSET_OPS = ("SubsetGA", "NSGA2SubsetGA", "NSGA3SubsetGA")      # + the subset operators of pymoo_addon: draw from pymoo's random_state since 892609c5
GA_MEMETIC = ("MemeticA", "MemeticB", "MemeticSteepest", "MemeticStochastic")  # + memetic mutation operators of pymoo_addon: draw from pymoo's random_state since 116e97ae
GA_COMPS = GA_PYMOO_OPS + GA_SUBSET_OPS + GA_MEMETIC
# selection protocols handed their own generator (repaired 92407149): deterministic optimiser / default optimisers (1 and 2 objectives) / mate protocols
SELPROT_COMPS = ("SelProtSubset", "SelProtSubsetGA", "SelProtSubsetMO", "SelProtReal", "SelProtRealMO", "SelProtBinary", "SelProtBinaryMO",
                 "SelProtInteger", "SelProtIntegerMO", "MateSelProtSubset", "MateSelProtSubsetMO", "MateSelProtBinary", "MateSelProtBinaryMO",
                 "MateSelProtInteger", "MateSelProtIntegerMO", "MateSelProtReal", "MateSelProtRealMO")
HELPER_COMPS = ("RandomSelProt", "RandomSelProtBinary", "RandomSelProtInteger", "RandomSelProtReal", "G1NormSel")   # repaired a09637f1 / 395af6d0
NO_RNG_HELPER_COMPS = ("OCSProblem",)          # apply_jitter has no rng parameter: known finding C08-helpers-no-rng-param
DEAP_COMPS = ("UnconNSGA2SetGA",)              # deap.tools.selTournamentDCD: known finding;  UnconSetGA was repaired (a53c4b75)

# ---------------------------------------------------------------------------------------------- fixtures
def _lrng(seed):
    """a local generator for building test data (never touches a global stream)"""
    return numpy.random.Generator(numpy.random.PCG64(int(seed)))

def _pgmat(par):
    from pybrops.popgen.gmat.DensePhasedGenotypeMatrix import DensePhasedGenotypeMatrix
    g = _lrng(par.get("dseed", 1))
    n, p = par.get("ntaxa", 6), par.get("nvrnt", 8)
    mat = g.integers(0, 2, size=(2, n, p)).astype("int8")
    xo = numpy.full(p, par.get("xo", 0.25)); xo[0] = 0.5
    if p > 4: xo[p // 2] = 0.5
    chrgrp = numpy.array([1] * (p // 2) + [2] * (p - p // 2), dtype="int64")
    phypos = numpy.arange(p, dtype="int64") + 1
    genpos = numpy.arange(p, dtype=float) / 10
    taxa = numpy.array(["t%02d" % i for i in range(n)], dtype=object)
    return DensePhasedGenotypeMatrix(mat, taxa=taxa, taxa_grp=numpy.arange(n, dtype="int64") % 2, vrnt_chrgrp=chrgrp, vrnt_phypos=phypos,
                                     vrnt_genpos=genpos, vrnt_xoprob=xo)

def _gmod(par, ntrait=2):
    from pybrops.model.gmod.DenseAdditiveLinearGenomicModel import DenseAdditiveLinearGenomicModel
    g = _lrng(par.get("dseed", 1) + 77)
    p = par.get("nvrnt", 8)
    beta = numpy.array([[1.0] * ntrait])
    u_a = numpy.round(g.normal(size=(p, ntrait)) * 8) / 8
    return DenseAdditiveLinearGenomicModel(beta=beta, u_misc=None, u_a=u_a, trait=numpy.array(["tr%d" % i for i in range(ntrait)], dtype=object))

def _h(a):
    a = numpy.ascontiguousarray(numpy.asarray(a))
    return hashlib.sha256(str(a.dtype).encode() + str(a.shape).encode() + a.tobytes()).hexdigest()[:20]

def _arr(a):
    """small arrays in full (bit exact), large ones as digest"""
    a = numpy.asarray(a)
    if a.dtype == object: return [str(x) for x in a.ravel().tolist()]
    if a.size <= 64:
        if a.dtype.kind == "f": return [float(x).hex() for x in a.ravel().tolist()]
        return [int(x) for x in a.ravel().tolist()]
    return _h(a)

def _dummy_problem(kind, nobj, par):
    from pymoo.core.problem import ElementwiseEvaluationFunction, LoopedElementwiseEvaluation
    from pybrops.opt.prob.BinaryProblem import BinaryProblem
    from pybrops.opt.prob.IntegerProblem import IntegerProblem
    from pybrops.opt.prob.RealProblem import RealProblem
    from pybrops.opt.prob.SubsetProblem import SubsetProblem
    base = {"subset": SubsetProblem, "binary": BinaryProblem, "integer": IntegerProblem, "real": RealProblem}[kind]
    ndecn = par.get("ndecn", 24 if kind == "binary" else 5); nsup = par.get("nsup", 30)
    w = (numpy.arange(nsup if kind == "subset" else ndecn) * 37 % 101 + 1) / 8.0
    if kind == "binary": w = w * numpy.where(numpy.arange(ndecn) % 3 == 0, -1.0, 1.0)
    class Dummy(base):
        def __init__(self, *a, **k):
            super(Dummy, self).__init__(*a, **k)
        def evalfn(self, x, *args, **kwargs):
            x = numpy.asarray(x)
            s = float(w[x.astype(int)].sum()) if kind == "subset" else float((w * x).sum())
            t = float(((w[::-1][:len(x)]) * x).sum()) if kind != "subset" else float(w[(nsup - 1 - x).astype(int)].sum())
            obj = self.obj_wt * (numpy.array([s]) if nobj == 1 else numpy.array([s, -t]))
            return obj, numpy.zeros(0), numpy.zeros(0)
        def latentfn(self, x, *args, **kwargs):
            return self.evalfn(x)[0]
        def _evaluate(self, x, out, *args, **kwargs):
            vals = self.evalfn(x, *args, **kwargs)
            out.update({key: val for key, val in zip(["F", "G", "H"], vals) if len(val) > 0})
    if kind == "subset":
        space = numpy.arange(nsup); lo = numpy.repeat(0, ndecn); up = numpy.repeat(nsup - 1, ndecn)
    elif kind == "binary":
        lo = numpy.repeat(0, ndecn); up = numpy.repeat(1, ndecn); space = numpy.stack([lo, up])
    elif kind == "integer":
        lo = numpy.repeat(0, ndecn); up = numpy.repeat(9, ndecn); space = numpy.stack([lo, up])
    else:
        lo = numpy.repeat(0.0, ndecn); up = numpy.repeat(1.0, ndecn); space = numpy.stack([lo, up])
    return Dummy(ndecn=ndecn, decn_space=space, decn_space_lower=lo, decn_space_upper=up, nobj=nobj,
                 obj_wt=numpy.ones(nobj), nineqcv=0, ineqcv_wt=numpy.array([], dtype=float), neqcv=0, eqcv_wt=numpy.array([], dtype=float),
                 vtype=None, vars=None, elementwise=True, elementwise_func=ElementwiseEvaluationFunction,
                 elementwise_runner=LoopedElementwiseEvaluation(), replace_nan_values_by=None, exclude_from_serialization=None,
                 callback=None, strict=True)

def _soln(s):
    return {"decn": _arr(s.soln_decn), "obj": _arr(s.soln_obj)}

# ---------------------------------------------------------------------------------------------- components
# name -> (static table names, accepts_rng, runner(par, rng) -> JSON-able output)
def _obj(st, accepts, build, use):
    """a component that is an OBJECT holding a generator: build(par, rng) -> object, use(object, par) -> JSON-able output.
    The plain runner constructs and uses; the lifecycle steps put a copy route (and a re-seeding) between the two."""
    return (st, accepts, (lambda par, rng: use(build(par, rng), par)), build, use)

def _mate(clsname, nparent, static_extra=()):
    def build(par, rng):
        mod = __import__("pybrops.breed.prot.mate." + clsname, fromlist=[clsname])
        P = getattr(mod, clsname)
        return P(progeny_counter=par.get("pc", 0), family_counter=0, rng=rng)
    def use(prot, par):
        pg = _pgmat(par)
        g = _lrng(par.get("dseed", 1) + 5)
        ncross = par.get("ncross", 3)
        xconfig = g.integers(0, pg.ntaxa, size=(ncross, nparent))
        out = prot.mate(pg, xconfig, par.get("nmating", 1), par.get("nprogeny", 2), nself=par.get("nself", 0))
        return {"mat": _arr(out.mat), "taxa": _h(numpy.array([str(x) for x in out.taxa])), "grp": _arr(out.taxa_grp), "pc": int(prot.progeny_counter)}
    st = ["breed.prot.mate.%s.%s.mate" % (clsname, clsname), "breed.prot.mate.%s.%s.__init__" % (clsname, clsname)]
    return _obj(st, True, build, use)

def _phenotype_build(par, rng):
    from pybrops.breed.prot.pt.G_E_Phenotyping import G_E_Phenotyping
    return G_E_Phenotyping(_gmod(par), nenv=par.get("nenv", 2), nrep=par.get("nrep", 2), var_env=0.5, var_rep=0.25, var_err=1.0, rng=rng)
def _phenotype_use(pt, par):
    df = pt.phenotype(_pgmat(par))
    return {"vals": _h(df[["tr0", "tr1"]].to_numpy(dtype=float)), "head": _arr(df[["tr0", "tr1"]].to_numpy(dtype=float)[:4]), "n": int(len(df))}

def _sus(par, rng):
    from pybrops.core.random.sampling import stochastic_universal_sampling
    g = _lrng(par.get("dseed", 1)); n = par.get("n", 6)
    p = numpy.round(g.random(n) * 16) / 16 + 1 / 16
    return {"out": _arr(stochastic_universal_sampling(numpy.arange(n), p, par.get("size", 4), rng))}
def _sus2(par, rng):
    from pybrops.core.random.sampling import stochastic_universal_sampling
    g = _lrng(par.get("dseed", 1)); n = par.get("n", 6)
    p = numpy.round(g.random(n) * 16) / 16 + 1 / 16
    return {"out": _arr(stochastic_universal_sampling(numpy.arange(n), p, (par.get("size", 4), 2), rng))}
def _tiled(replace):
    def run(par, rng):
        from pybrops.core.random.sampling import tiled_choice
        n = par.get("n", 5)
        return {"out": _arr(tiled_choice(numpy.arange(n) * 3, (par.get("size", 4), 2), replace, None, rng))}
    return run
def _axis(par, rng):
    from pybrops.core.random.sampling import axis_shuffle
    a = numpy.arange(par.get("n", 5) * 3).reshape(par.get("n", 5), 3)
    axis_shuffle(a, par.get("axis", 0), rng)
    return {"out": _arr(a)}
def _outcross(par, rng):
    from pybrops.core.random.sampling import outcross_shuffle
    g = _lrng(par.get("dseed", 1))
    x = g.integers(0, 3, size=(par.get("n", 4), 2))
    outcross_shuffle(x, rng)
    return {"out": _arr(x)}

def _cfg(clsname, mate=False):
    def build(par, rng):
        mod = __import__("pybrops.breed.prot.sel.cfg." + clsname, fromlist=[clsname])
        C = getattr(mod, clsname)
        pg = _pgmat(par)
        ncross, nparent = par.get("ncross", 3), 2
        if clsname.startswith("Subset"):
            decn = numpy.array([0, 2, 3, 5][:par.get("k", 4)]) if not mate else numpy.array([0, 2, 4][:par.get("k", 3)])
        elif clsname.startswith("Binary"):
            decn = numpy.array([1, 0, 1, 1, 0, 1]) if not mate else numpy.array([1, 0, 1, 1, 0, 1])
        elif clsname.startswith("Integer"):
            decn = numpy.array([2, 0, 1, 3, 0, 1]) if not mate else numpy.array([2, 0, 1, 1, 0, 1])
        else:
            decn = numpy.array([0.25, 0.0, 0.125, 0.375, 0.0, 0.25])
        kw = dict(ncross=ncross, nparent=nparent, nmating=1, nprogeny=2, pgmat=pg, xconfig_decn=decn, rng=rng)
        if mate:
            g = _lrng(par.get("dseed", 1) + 9)
            kw["xconfig_xmap"] = g.integers(0, pg.ntaxa, size=(6, nparent))
        return C(**kw)                      # the constructor samples a first cross configuration
    def use(c, par):
        out = {}
        if not par.get("_pre"):             # (an object made before the seeding sampled its first configuration from the unseeded stream)
            out["first"] = _arr(numpy.array(c.xconfig).copy())
        out["second"] = _arr(c.sample_xconfig(return_xconfig=True))
        return out
    st = ["breed.prot.sel.cfg.%s.%s.sample_xconfig" % (clsname, clsname), "breed.prot.sel.cfg.%s.%s.__init__" % (clsname, clsname)]
    return _obj(st, True, build, use)

def _spawn(par, rng):
    from pybrops.core.random import prng
    out = []
    for n in par.get("reqs", [None, 2]):
        g = prng.spawn(n)
        gs = [g] if n is None else g
        out.append([str(x.bit_generator.seed_seq.entropy) for x in gs])
        out.append([x.random().hex() for x in gs])
    return {"streams": out}

def _jitter(par, rng):
    from pybrops.popgen.cmat.DenseMolecularCoancestryMatrix import DenseMolecularCoancestryMatrix
    n = par.get("n", 3)
    m = DenseMolecularCoancestryMatrix(numpy.ones((n, n)))
    with warnings.catch_warnings():
        warnings.simplefilter("ignore")
        ok = m.apply_jitter()
    return {"ok": bool(ok), "diag": _arr(numpy.diag(m.mat))}

def _embv(par, rng):
    from pybrops.model.embvmat.DenseExpectedMaximumBreedingValueMatrix import DenseExpectedMaximumBreedingValueMatrix
    pg = _pgmat(par); gm = _gmod(par)
    e = DenseExpectedMaximumBreedingValueMatrix.from_gmod(gm, pg, par.get("nprogeny", 3), par.get("nrep", 2))
    return {"mat": _arr(e.mat)}

def _algo(modname, clsname, kind, nobj, extra=None):
    def build(par, rng):
        mod = __import__("pybrops.opt.algo." + modname, fromlist=[clsname])
        A = getattr(mod, clsname)
        kw = dict(ngen=par.get("ngen", 3), pop_size=par.get("pop", 8), rng=rng)
        kw.update(extra or {})
        return A(**kw)
    def use(algo, par):
        return _soln(algo.minimize(_dummy_problem(kind, nobj, par)))
    st = ["opt.algo.%s.%s.minimize" % (modname, clsname), "opt.algo.%s.%s.__init__" % (modname, clsname)]
    return _obj(st, True, build, use)

def _hill_build(par, rng):
    from pybrops.opt.algo.SteepestDescentSubsetHillClimber import SteepestDescentSubsetHillClimber
    return SteepestDescentSubsetHillClimber(rng=rng)
def _hill_use(algo, par):
    par = dict(par); par.setdefault("nsup", 10); par.setdefault("ndecn", 3)
    # a flat objective keeps the random starting subset as the answer
    prob = _dummy_problem("subset", 1, par)
    prob.obj_wt = numpy.zeros(1)
    return _soln(algo.minimize(prob))

def _sorthill(par, rng):
    from pybrops.opt.algo.SortingSteepestDescentSubsetHillClimber import SortingSteepestDescentSubsetHillClimber
    par = dict(par); par.setdefault("nsup", 10); par.setdefault("ndecn", 3)
    return _soln(SortingSteepestDescentSubsetHillClimber().minimize(_dummy_problem("subset", 1, par)))

def _sorting(par, rng):
    from pybrops.opt.algo.SortingSubsetOptimizationAlgorithm import SortingSubsetOptimizationAlgorithm
    par = dict(par); par.setdefault("nsup", 10); par.setdefault("ndecn", 3)
    return _soln(SortingSubsetOptimizationAlgorithm().minimize(_dummy_problem("subset", 1, par)))

def _uncon(modname, clsname, nobj):
    def build(par, rng):
        mod = __import__("pybrops.opt.algo." + modname, fromlist=[clsname])
        A = getattr(mod, clsname)
        warnings.filterwarnings("ignore", message="A class named")
        from pybrops.core.random.prng import global_prng
        return A(ngen=par.get("ngen", 3), mu=8, lamb=8, M=1.5, rng=(rng if rng is not None else global_prng))
    def use(algo, par):
        w = numpy.arange(12) * 37 % 101 / 8.0
        if nobj == 1:
            f = lambda x: float(w[numpy.asarray(x, dtype=int)].sum())
            soln, decn, misc = algo.optimize(f, 3, numpy.arange(12), 1.0)
            return {"decn": _arr(numpy.sort(decn)), "obj": _arr(soln)}
        f = lambda x: (float(w[numpy.asarray(x, dtype=int)].sum()), float(w[11 - numpy.asarray(x, dtype=int)].sum()))
        front, decn, misc = algo.optimize(f, 3, numpy.arange(12), numpy.array([1.0, 1.0]))
        return {"decn": _h(numpy.asarray(decn)), "obj": _h(numpy.asarray(front))}
    st = ["opt.algo.%s.%s.optimize" % (modname, clsname), "opt.algo.%s.%s.__init__" % (modname, clsname)]
    return _obj(st, True, build, use)

def _unconhill_build(par, rng):
    from pybrops.opt.algo.UnconstrainedSteepestAscentSetHillClimber import UnconstrainedSteepestAscentSetHillClimber
    from pybrops.core.random.prng import global_prng
    return UnconstrainedSteepestAscentSetHillClimber(rng=(rng if rng is not None else global_prng))
def _unconhill_use(algo, par):
    score, soln, misc = algo.optimize(lambda x: 0.0, 3, numpy.arange(9), 1.0)
    return {"decn": _arr(soln)}

def _selprot(kind, nobj=1, default_algo=True):
    """a selection protocol handed its own generator: the configuration is sampled from it, and so do the default optimisers
    (kind subset, default_algo False: a deterministic optimiser, so that the only draws are those of the configuration)"""
    def build(par, rng):
        import pybrops.breed.prot.sel.EstimatedBreedingValueSelection as E
        from pybrops.opt.algo.SortingSubsetOptimizationAlgorithm import SortingSubsetOptimizationAlgorithm
        P = getattr(E, "EstimatedBreedingValue%sSelection" % kind.capitalize())
        kw = dict(ntrait=nobj, unscale=True, ncross=par.get("ncross", 2), nparent=2, nmating=1, nprogeny=2, nobj=nobj, ndset_wt=1.0, rng=rng)
        if not default_algo: kw["soalgo"] = SortingSubsetOptimizationAlgorithm()
        prot = P(**kw)
        if default_algo:           # the default optimisers (built by the protocol), shortened
            for a in (prot.soalgo, prot.moalgo): a.ngen = par.get("ngen", 3); a.pop_size = par.get("pop", 8)
        return prot
    def use(prot, par):
        pg = _pgmat(par); gm = _gmod(par, nobj)
        gm.beta = numpy.full((1, nobj), 64.0)       # positive breeding values: the optimum never is the empty selection
        bv = gm.gebv(pg)
        cfg = prot.select(pgmat=pg, gmat=None, ptdf=None, bvmat=bv, gpmod=None, t_cur=0, t_max=1)
        out = {"xconfig": _arr(cfg.xconfig)}
        if par.get("resample"): out["second"] = _arr(cfg.sample_xconfig(return_xconfig=True))
        return out
    K = kind.capitalize()
    st = ["breed.prot.sel.%sSelectionProtocol.%sSelectionProtocol.select" % (K, K)]
    if default_algo:
        st += ["breed.prot.sel.%sSelectionProtocol.%sSelectionProtocol.soalgo.setter" % (K, K), "breed.prot.sel.%sSelectionProtocol.%sSelectionProtocol.moalgo.setter" % (K, K)]
    return _obj(st, True, build, use)

def _mateselprot(kind, nobj=1):
    """the (semi-abstract) mate selection protocols: select() with the optimisation stubbed out, so that the configuration
    sampling from the protocol's generator is what is exercised"""
    def run(par, rng):
        import types
        K = kind.capitalize()
        mod = __import__("pybrops.breed.prot.sel.%sMateSelectionProtocol" % K, fromlist=["x"])
        Base = getattr(mod, "%sMateSelectionProtocol" % K)
        pg = _pgmat(par)
        g = _lrng(par.get("dseed", 1) + 9)
        xmap = g.integers(0, pg.ntaxa, size=(6, 2))
        decn = {"subset": numpy.array([0, 2, 4]), "binary": numpy.array([1, 0, 1, 1, 0, 1]), "integer": numpy.array([2, 0, 1, 1, 0, 1]),
                "real": numpy.array([0.25, 0.0, 0.125, 0.375, 0.0, 0.25])}[kind]
        decn2 = decn[::-1].copy() if kind != "subset" else numpy.array([1, 3, 5])
        class Stub(Base):
            def problem(self, *a, **k): raise NotImplementedError
            def sosolve(self, **k): return types.SimpleNamespace(soln_decn=numpy.stack([decn]), decn_space_xmap=xmap)
            def mosolve(self, **k):
                return types.SimpleNamespace(soln_decn=numpy.stack([decn, decn2]), soln_obj=numpy.array([[1.0, 2.0], [2.0, 1.5]]), decn_space_xmap=xmap)
        Stub.__abstractmethods__ = frozenset()
        prot = Stub(ncross=par.get("ncross", 3), nparent=2, nmating=1, nprogeny=2, nobj=nobj, ndset_wt=1.0, rng=rng)
        cfg = prot.select(pgmat=pg, gmat=None, ptdf=None, bvmat=None, gpmod=None, t_cur=0, t_max=1)
        return {"xconfig": _arr(cfg.xconfig), "second": _arr(cfg.sample_xconfig(return_xconfig=True))}
    K = kind.capitalize()
    return (["breed.prot.sel.%sMateSelectionProtocol.%sMateSelectionProtocol.select" % (K, K)], True, run)

def _randsel(kind):
    def build(par, rng):
        import pybrops.breed.prot.sel.RandomSelection as R
        from pybrops.opt.algo.SortingSubsetOptimizationAlgorithm import SortingSubsetOptimizationAlgorithm
        P = getattr(R, "Random%sSelection" % kind.capitalize())
        kw = dict(ntrait=par.get("ntrait", 1), ncross=2, nparent=2, nmating=1, nprogeny=2, nobj=par.get("ntrait", 1), ndset_wt=1.0, rng=rng)
        if kind == "subset": kw["soalgo"] = SortingSubsetOptimizationAlgorithm()
        return P(**kw)
    def use(prot, par):
        prob = prot.problem(pgmat=_pgmat(par), gmat=None, ptdf=None, bvmat=None, gpmod=None, t_cur=0, t_max=1)
        return {"rbv": _arr(prob.rbv)}
    return _obj(["breed.prot.sel.RandomSelection.Random%sSelection.problem" % kind.capitalize()], True, build, use)

def _g1norm_build(par, rng):
    """legacy protocol: hill climber (draws from the protocol's generator), then the selected parents are shuffled"""
    from pybrops.breed.prot.sel.UnconstrainedGeneralized1NormGenomicSelection import Generalized1NormGenomicSelection
    from pybrops.core.random.prng import global_prng
    with warnings.catch_warnings():
        warnings.simplefilter("ignore")
        return Generalized1NormGenomicSelection(nparent=par.get("nparent", 3), ncross=1, nprogeny=2, rng=(rng if rng is not None else global_prng))
def _g1norm_use(prot, par):
    pg = _pgmat(par); gm = _gmod(par, 1)
    with warnings.catch_warnings():
        warnings.simplefilter("ignore")
        out = prot.select(pgmat=pg, gmat=pg, ptdf=None, bvmat=None, gpmod=gm, t_cur=0, t_max=1)
    return {"sel": _arr(out[1])}

def _ocs_problem(par, rng):
    """OptimalContributionSubsetSelection.problem on a singular relationship matrix: apply_jitter (no rng parameter) draws"""
    from pybrops.breed.prot.sel.OptimalContributionSelection import OptimalContributionSubsetSelection
    from pybrops.popgen.cmat.fcty.DenseMolecularCoancestryMatrixFactory import DenseMolecularCoancestryMatrixFactory
    par = dict(par); par["ntaxa"] = 6
    pg = _pgmat(par)
    pg.mat[:, 1, :] = pg.mat[:, 0, :]; pg.mat[:, 3, :] = pg.mat[:, 2, :]          # duplicated taxa
    gm = _gmod(par, 1); bv = gm.gebv(pg)
    with warnings.catch_warnings():
        warnings.simplefilter("ignore")
        prot = OptimalContributionSubsetSelection(ntrait=1, cmatfcty=DenseMolecularCoancestryMatrixFactory(), unscale=True, ncross=2, nparent=2,
                                                  nmating=1, nprogeny=2, nobj=2, rng=rng)
        prob = prot.problem(pgmat=pg, gmat=pg, ptdf=None, bvmat=bv, gpmod=None, t_cur=0, t_max=1)
    return {"C": _arr(numpy.asarray(prob.C))}


# ---------------------------------------------------------------------------------------------- pymoo operators driven DIRECTLY
# minimize() always hands its operators a numpy Generator, so a draw site of pymoo_addon that misbehaves only for a RandomState, only for
# random_state=None (global stream), or only on a branch the short optimiser runs rarely reach is invisible through the optimisers.  Every
# operator method / helper of pymoo_addon that is handed random_state is therefore also a component of its own: called with the caller's
# generator as it is (Generator, RandomState, None) on inputs built so that EVERY draw site is reached - parents that differ in >= 2
# elements (the integer draw and the choice of the exchange crossover), individuals with >= 2 loci outside the operator's set space (the
# exchange mutations only touch such loci), both sides of the hill-climb coin (phc 1 / 0 / 0.5), a hill climb that finds non-dominated
# neighbours and one started on the optimum (falls back on the exchange mutation).  The output carries "consumed" (the source handed over -
# the global numpy stream for None - moved during the call) and "fired" (the operator changed its input): pred demands both.
def _src_state(rng):
    return _rstate(rng if rng is not None else numpy.random.mtrand._rand)

def _op_fixture(par, nobj=2):
    nsup = 14; nvar = par.get("nvar", 4)
    w = (numpy.arange(nsup) * 37 % 101 + 1) / 8.0                 # the weights of _dummy_problem
    order = numpy.argsort(w, kind="stable")
    opt = numpy.sort(order[:nvar])                                 # the optimum of the 1-objective problem
    foreign = numpy.sort(numpy.concatenate([order[:2], order[-2:]]))     # elements of the problem's space that are NOT in the operator's set space
    setspace = numpy.setdiff1d(numpy.arange(nsup), foreign)
    g = _lrng(par.get("dseed", 1) + 31)
    n = par.get("nind", 6)
    X = numpy.empty((n, nvar), dtype=int)
    for i in range(n):
        X[i, :2] = g.choice(foreign, 2, replace=False)             # >= 2 loci outside the set space in every individual
        X[i, 2:] = g.choice(setspace, nvar - 2, replace=False)
        g.shuffle(X[i])
    prob = _dummy_problem("subset", nobj, {"ndecn": nvar, "nsup": nsup})
    return prob, setspace, X, opt

def _quiet(f, *a, **k):
    import io, contextlib
    with contextlib.redirect_stdout(io.StringIO()):               # (one operator prints its progress)
        return f(*a, **k)

def _opcall(rng, f):
    """f(random_state) -> (list of result arrays, list of input arrays or None): result, whether the source moved, whether anything changed"""
    s0 = _src_state(rng)
    res, ref = _quiet(f, rng)
    s1 = _src_state(rng)
    out = {"res": [_arr(numpy.asarray(r)) for r in res], "consumed": s0 != s1}
    if ref is not None:
        out["fired"] = bool(any(numpy.asarray(a).shape != numpy.asarray(b).shape or numpy.any(numpy.asarray(a) != numpy.asarray(b)) for a, b in zip(res, ref)))
    return out

def _pmo():
    import pybrops.opt.algo.pymoo_addon as M
    return M

def _op_tiled(par, rng):
    a, size = par.get("a", 4), par.get("size", 10)               # whole tiles and a remainder
    return _opcall(rng, lambda rs: ([_pmo().tiled_choice(a, size, rs), _pmo().tiled_choice(a, a - 1, rs)], None))

def _op_sampling(par, rng):
    prob, setspace, X, opt = _op_fixture(par)
    M = _pmo()
    def f(rs):
        return [M.SubsetRandomSampling(setspace, False)._do(prob, par.get("nsamp", 5), random_state=rs),
                M.SubsetRandomSampling(setspace, True)._do(prob, 3, random_state=rs)], None
    return _opcall(rng, f)

def _xover_parents(par):
    g = _lrng(par.get("dseed", 1) + 32); nvar = par.get("nvar", 5)
    pairs = []
    a = numpy.arange(nvar); b = numpy.arange(nvar) + nvar; pairs.append((a, b))                    # disjoint: nvar candidates
    c = g.permutation(3 * nvar)
    pairs.append((c[:nvar].copy(), numpy.concatenate([c[:nvar - 3], c[nvar:nvar + 3]])))               # three differ
    pairs.append((c[:nvar].copy(), g.permutation(c[:nvar])))                                        # same subset: nothing to exchange
    pairs.append((c[:nvar].copy(), numpy.concatenate([c[:nvar - 2], c[nvar:nvar + 2]])))               # exactly two differ: the smallest integer range
    pairs.append((c[:nvar].copy(), numpy.concatenate([c[:nvar - 1], c[nvar:nvar + 1]])))               # one differs: no draw of a count
    return numpy.stack([numpy.stack([p[0] for p in pairs]), numpy.stack([p[1] for p in pairs])])    # (2, n_matings, n_var)

def _op_xover(par, rng):
    X = _xover_parents(par)
    prob = _dummy_problem("subset", 1, {"ndecn": X.shape[2], "nsup": 3 * X.shape[2]})
    return _opcall(rng, lambda rs: ([_pmo().ReducedExchangeCrossover()._do(prob, X.copy(), random_state=rs)], [X]))

def _op_xover_do(par, rng):
    """through pymoo's Crossover.do (which itself requires a generator: not run with None)"""
    from pymoo.core.population import Population
    X = _xover_parents(par)
    prob = _dummy_problem("subset", 1, {"ndecn": X.shape[2], "nsup": 3 * X.shape[2]})
    pop = [[Population.new("X", X[k, i][None, :])[0] for k in range(2)] for i in range(X.shape[1])]
    def f(rs):
        if rs is None: rs = numpy.random.mtrand._rand
        return [_pmo().ReducedExchangeCrossover().do(prob, pop, random_state=rs).get("X")], None
    return _opcall(rng, f)

def _op_mut(clsname, how):
    """how: '_do' (three calls: every individual hill-climbed, none, a coin), 'do' (pybrops' own do / pymoo's Mutation.do), 'hillclimb', 'reduced_exchange'"""
    def run(par, rng):
        from pymoo.core.population import Population
        M = _pmo(); C = getattr(M, clsname)
        prob, setspace, X, opt = _op_fixture(par)
        prob1 = _op_fixture(par, 1)[0]
        if clsname == "MultiObjectiveStochasticHillClimberMutation":
            # this operator calls problem._evaluate on a (1, n_var) matrix itself: a vectorised (not elementwise) problem with the same two objectives
            from pymoo.core.problem import Problem
            w = (numpy.arange(14) * 37 % 101 + 1) / 8.0
            class Vec(Problem):
                def _evaluate(self, x, out, *a, **k):
                    x = numpy.atleast_2d(numpy.asarray(x)).astype(int)
                    out["F"] = numpy.column_stack([w[x].sum(1), -w[13 - x].sum(1)])
            prob = Vec(n_var=X.shape[1], n_obj=2, xl=0, xu=13)
        def mk(phc):
            if clsname == "ReducedExchangeMutation": return C(setspace, prob_var=0.75)
            if clsname in ("MultiObjectiveStochasticHillClimberMutation", "MultiObjectiveSteepestDescentHillClimberMutation"): return C(setspace, phc, prob_var=0.75)
            if clsname == "MultiObjectiveStochasticDescentHillClimberMutation": return C(setspace, phc, par.get("nhc", 6), prob_var=0.75)
            return C(setspace, phc, par.get("nhc", 6), prob_var=0.75)          # StochasticHillClimberMutation, MutatorA, MutatorB: (setspace, phc, nhcstep)
        def f(rs):
            if how == "_do":
                if clsname == "ReducedExchangeMutation": ops = [mk(None)]
                else: ops = [mk(1.0), mk(0.0), mk(0.5)]
                return [op._do(prob, X.copy(), random_state=rs) for op in ops], [X] * len(ops)
            if how == "do":          # population in, population out (the two descent mutations define their own do)
                res = []
                for phc in (1.0, 0.5):
                    out = mk(phc).do(prob, Population.new("X", X.copy()), random_state=rs)
                    res.append(out.get("X"))
                return res, [X, X]
            if how == "pymoo_do":    # pymoo's Mutation.do around the operator's _do (requires a generator: the global one stands in for None)
                r2 = rs if rs is not None else numpy.random.mtrand._rand
                return [mk(0.5).do(prob, Population.new("X", X.copy()), random_state=r2).get("X")], [X]
            if how == "reduced_exchange":
                op = mk(0.5)
                return [op.reduced_exchange(prob, X[i].copy(), random_state=rs) for i in range(len(X))], [X[i] for i in range(len(X))]
            if how == "hillclimb":
                op = mk(0.5)
                pop = Population.new("X", X.copy())
                indiv = clsname in ("MultiObjectiveSteepestDescentHillClimberMutation", "MultiObjectiveStochasticDescentHillClimberMutation")
                res = []
                for i in range(len(X)):
                    r = op.hillclimb(prob, pop[i] if indiv else X[i].copy(), random_state=rs)
                    res.append(r.get("X") if indiv else r)
                if not indiv and clsname != "MultiObjectiveStochasticHillClimberMutation":
                    # started on the optimum of a 1-objective problem: no neighbour survives, falls back on the exchange mutation
                    # (whose draws need loci outside the set space: two of the optimum's elements are)
                    res.append(op.hillclimb(prob1, opt.copy(), random_state=rs))
                return res, None
            raise ValueError(how)
        return _opcall(rng, f)
    return run

def _op_intop(which):
    """IntegerSimulatedBinaryCrossover / IntegerPolynomialMutation: pymoo's operators followed by a rounding; pymoo's _do needs a generator
    (with None it would take OS entropy by pymoo's own default): the global one stands in for None"""
    def run(par, rng):
        M = _pmo()
        prob = _dummy_problem("integer", 1, {"ndecn": 5})
        g = _lrng(par.get("dseed", 1) + 33)
        def f(rs):
            r2 = rs if rs is not None else numpy.random.mtrand._rand
            if which == "sbx":
                X = g.integers(0, 10, size=(2, 6, 5)).astype(float)
                return [M.IntegerSimulatedBinaryCrossover(prob_var=0.9)._do(prob, X.copy(), random_state=r2)], None
            X = g.integers(0, 10, size=(6, 5)).astype(float)
            return [M.IntegerPolynomialMutation(prob_var=0.9)._do(prob, X.copy(), random_state=r2)], None
        return _opcall(rng, f)
    return run

_PA = "opt.algo.pymoo_addon."
OPERATOR_COMPS = {
    "op:tiled_choice": ([_PA + "tiled_choice"], _op_tiled),
    "op:SubsetRandomSampling._do": ([_PA + "SubsetRandomSampling._do"], _op_sampling),
    "op:ReducedExchangeCrossover._do": ([_PA + "ReducedExchangeCrossover._do"], _op_xover),
    "op:ReducedExchangeCrossover.do": ([_PA + "ReducedExchangeCrossover._do"], _op_xover_do),
    "op:ReducedExchangeMutation._do": ([_PA + "ReducedExchangeMutation._do"], _op_mut("ReducedExchangeMutation", "_do")),
    "op:ReducedExchangeMutation.do": ([_PA + "ReducedExchangeMutation._do"], _op_mut("ReducedExchangeMutation", "pymoo_do")),
    "op:IntegerSimulatedBinaryCrossover._do": ([_PA + "IntegerSimulatedBinaryCrossover._do"], _op_intop("sbx")),
    "op:IntegerPolynomialMutation._do": ([_PA + "IntegerPolynomialMutation._do"], _op_intop("pm")),
}
for _c, _hows in (("MultiObjectiveStochasticHillClimberMutation", ("_do", "hillclimb", "pymoo_do")),
                  ("MultiObjectiveSteepestDescentHillClimberMutation", ("_do", "hillclimb", "do")),
                  ("MultiObjectiveStochasticDescentHillClimberMutation", ("_do", "hillclimb", "do")),
                  ("StochasticHillClimberMutation", ("_do", "hillclimb", "reduced_exchange", "pymoo_do")),
                  ("MutatorA", ("_do", "hillclimb", "reduced_exchange", "pymoo_do")),
                  ("MutatorB", ("_do", "hillclimb", "reduced_exchange", "pymoo_do"))):
    for _how in _hows:
        _m = "_do" if _how == "pymoo_do" else _how
        _st = [_PA + "%s.%s" % (_c, _m)]
        if _m in ("_do", "do") and not (_c.startswith("MultiObjectiveS") and _c != "MultiObjectiveStochasticHillClimberMutation" and _m == "_do"):
            _st.append(_PA + _c + ".hillclimb")
        if _m == "do": _st.append(_PA + _c + "._do")
        if _c in ("StochasticHillClimberMutation", "MutatorA", "MutatorB") and _m in ("_do", "hillclimb"): _st.append(_PA + _c + ".reduced_exchange")
        if _c in ("MutatorA", "MutatorB") and _m in ("_do", "hillclimb"): _st.append(_PA + "tiled_choice")
        OPERATOR_COMPS["op:%s.%s" % (_c, "do" if _how == "pymoo_do" else _how)] = (_st, _op_mut(_c, _how))
# operator methods of pymoo_addon that are NOT driven directly, with the reason (the audit checks the reason where it can)
OPERATOR_SKIPPED = {
    "MutatorF._do": "MutatorF cannot be constructed (its __init__ calls super(StochasticHillClimberMutation, self) on a class that is not a subclass: TypeError, "
                    "checked by the audit on every run); covered statically only",
    "MutatorF.hillclimb": "see MutatorF._do", "MutatorF.reduced_exchange": "see MutatorF._do",
}

# ---------------------------------------------------------------------------------------------- rng-accepting helpers called DIRECTLY
# The meiosis helpers are reached by the mating protocols with self.rng (never None, and core.util.mate only ever with the global
# generator from the EMBV matrix), the random-selection problem factories by the protocols (never None): here they are handed the
# caller's generator themselves, every kind.
def _meiosis_args(par):
    pg = _pgmat(dict(par, ntaxa=par.get("ntaxa", 5), nvrnt=par.get("nvrnt", 8)))
    g = _lrng(par.get("dseed", 1) + 41)
    return pg.mat, g.integers(0, pg.ntaxa, size=par.get("nsel", 4)), g.integers(0, pg.ntaxa, size=par.get("nsel", 4)), pg.vrnt_xoprob

def _matefn(modname, fname):
    def run(par, rng):
        from pybrops.core.random.prng import global_prng
        f = getattr(__import__(modname, fromlist=[fname]), fname)
        geno, fsel, msel, xo = _meiosis_args(par)
        def call(rs):
            r = rs if rs is not None else global_prng            # (the helpers have no default: None is not accepted)
            if fname.endswith("meiosis") or fname.endswith("dh"): return [f(geno, fsel, xo, r)], None
            return [f(geno, geno, fsel, msel, xo, r)], None
        return _opcall(rng, call)
    return run

def _from_object(kind):
    def run(par, rng):
        import pybrops.breed.prot.sel.prob.RandomSelectionProblem as R
        C = getattr(R, "Random%sSelectionProblem" % kind)
        ntaxa, ntrait = par.get("ntaxa", 5), par.get("ntrait", 2)
        if kind == "Subset":
            ndecn = 2; space = numpy.arange(ntaxa); lo = numpy.repeat(0, ndecn); up = numpy.repeat(ntaxa - 1, ndecn)
        else:
            ndecn = ntaxa; lo = numpy.repeat(0.0 if kind == "Real" else 0, ndecn); up = numpy.repeat(1.0 if kind == "Real" else 1, ndecn); space = numpy.stack([lo, up])
        def call(rs):
            prob = C.from_object(ntaxa=ntaxa, ntrait=ntrait, ndecn=ndecn, decn_space=space, decn_space_lower=lo, decn_space_upper=up, nobj=ntrait, rng=rs)
            return [prob.rbv], None
        return _opcall(rng, call)
    return run

DIRECT_FN_COMPS = {}
for _f in ("mat_meiosis", "mat_dh", "mat_mate"):
    DIRECT_FN_COMPS["fn:" + _f] = (["breed.prot.mate.util." + _f], _matefn("pybrops.breed.prot.mate.util", _f))
for _f in ("dense_meiosis", "dense_dh", "dense_cross"):
    DIRECT_FN_COMPS["fn:" + _f] = (["core.util.mate." + _f], _matefn("pybrops.core.util.mate", _f))
for _k in ("Subset", "Binary", "Integer", "Real"):
    DIRECT_FN_COMPS["fn:Random%sSelectionProblem.from_object" % _k] = (["breed.prot.sel.prob.RandomSelectionProblem.Random%sSelectionProblem.from_object" % _k], _from_object(_k))
DRAW_CHECKED = tuple(OPERATOR_COMPS) + tuple(DIRECT_FN_COMPS)      # components whose output says whether the source was consumed / the operator fired

COMPONENTS = {
    "TwoWayCross": _mate("TwoWayCross", 2), "TwoWayDHCross": _mate("TwoWayDHCross", 2),
    "ThreeWayCross": _mate("ThreeWayCross", 3), "ThreeWayDHCross": _mate("ThreeWayDHCross", 3),
    "FourWayCross": _mate("FourWayCross", 4), "FourWayDHCross": _mate("FourWayDHCross", 4),
    "SelfCross": _mate("SelfCross", 1),
    "G_E_Phenotyping": _obj(["breed.prot.pt.G_E_Phenotyping.G_E_Phenotyping.phenotype", "breed.prot.pt.G_E_Phenotyping.G_E_Phenotyping.__init__"], True,
                            _phenotype_build, _phenotype_use),
    "sus": (["core.random.sampling.stochastic_universal_sampling"], True, _sus),
    "sus2d": (["core.random.sampling.stochastic_universal_sampling"], True, _sus2),
    "tiled_choice_norepl": (["core.random.sampling.tiled_choice"], True, _tiled(False)),
    "tiled_choice_repl": (["core.random.sampling.tiled_choice"], True, _tiled(True)),
    "axis_shuffle": (["core.random.sampling.axis_shuffle"], True, _axis),
    "outcross_shuffle": (["core.random.sampling.outcross_shuffle"], True, _outcross),
    "SubsetCfg": _cfg("SubsetSelectionConfiguration"), "BinaryCfg": _cfg("BinarySelectionConfiguration"),
    "IntegerCfg": _cfg("IntegerSelectionConfiguration"), "RealCfg": _cfg("RealSelectionConfiguration"),
    "SubsetMateCfg": _cfg("SubsetMateSelectionConfiguration", True), "BinaryMateCfg": _cfg("BinaryMateSelectionConfiguration", True),
    "IntegerMateCfg": _cfg("IntegerMateSelectionConfiguration", True), "RealMateCfg": _cfg("RealMateSelectionConfiguration", True),
    "spawn": (["core.random.prng.spawn"], False, _spawn),
    "apply_jitter": (["popgen.cmat.DenseCoancestryMatrix.DenseCoancestryMatrix.apply_jitter"], False, _jitter),
    "EMBV": (["model.embvmat.DenseExpectedMaximumBreedingValueMatrix.DenseExpectedMaximumBreedingValueMatrix.from_gmod"], False, _embv),
    "HillClimber": _obj(["opt.algo.SteepestDescentSubsetHillClimber.SteepestDescentSubsetHillClimber.minimize",
                         "opt.algo.SteepestDescentSubsetHillClimber.SteepestDescentSubsetHillClimber.__init__"], True, _hill_build, _hill_use),
    "SortingHillClimber": (["opt.algo.SortingSteepestDescentSubsetHillClimber.SortingSteepestDescentSubsetHillClimber.minimize"], False, _sorthill),
    "SortingAlgo": (["opt.algo.SortingSubsetOptimizationAlgorithm.SortingSubsetOptimizationAlgorithm.minimize"], False, _sorting),
    "UnconHill": _obj(["opt.algo.UnconstrainedSteepestAscentSetHillClimber.UnconstrainedSteepestAscentSetHillClimber.optimize",
                       "opt.algo.UnconstrainedSteepestAscentSetHillClimber.UnconstrainedSteepestAscentSetHillClimber.__init__"], True,
                      _unconhill_build, _unconhill_use),
    "SubsetGA": _algo("SubsetGeneticAlgorithm", "SubsetGeneticAlgorithm", "subset", 1),
    "BinaryGA": _algo("BinaryGeneticAlgorithm", "BinaryGeneticAlgorithm", "binary", 1),
    "IntegerGA": _algo("IntegerGeneticAlgorithm", "IntegerGeneticAlgorithm", "integer", 1),
    "RealGA": _algo("RealGeneticAlgorithm", "RealGeneticAlgorithm", "real", 1),
    "NSGA2SubsetGA": _algo("NSGA2SubsetGeneticAlgorithm", "NSGA2SubsetGeneticAlgorithm", "subset", 2),
    "NSGA2BinaryGA": _algo("NSGA2BinaryGeneticAlgorithm", "NSGA2BinaryGeneticAlgorithm", "binary", 2),
    "NSGA2IntegerGA": _algo("NSGA2IntegerGeneticAlgorithm", "NSGA2IntegerGeneticAlgorithm", "integer", 2),
    "NSGA2RealGA": _algo("NSGA2RealGeneticAlgorithm", "NSGA2RealGeneticAlgorithm", "real", 2),
    "NSGA3SubsetGA": _algo("NSGA3SubsetGeneticAlgorithm", "NSGA3SubsetGeneticAlgorithm", "subset", 2),
    "MemeticA": _algo("NSGA2MemeticSubsetGeneticAlgorithm", "NSGA2MutatorASubsetGeneticAlgorithm", "subset", 2),
    "MemeticB": _algo("NSGA2MemeticSubsetGeneticAlgorithm", "NSGA2MutatorBSubsetGeneticAlgorithm", "subset", 2),
    "MemeticSteepest": _algo("NSGA2MemeticSubsetGeneticAlgorithm", "NSGA2SteepestDescentSubsetGeneticAlgorithm", "subset", 2),
    "MemeticStochastic": _algo("NSGA2MemeticSubsetGeneticAlgorithm", "NSGA2StochasticDescentSubsetGeneticAlgorithm", "subset", 2),
    "UnconSetGA": _uncon("UnconstrainedSetGeneticAlgorithm", "UnconstrainedSetGeneticAlgorithm", 1),
    "UnconNSGA2SetGA": _uncon("UnconstrainedNSGA2SetGeneticAlgorithm", "UnconstrainedNSGA2SetGeneticAlgorithm", 2),
    "SelProtSubset": _selprot("subset", 1, False),
    "SelProtSubsetGA": _selprot("subset", 1), "SelProtSubsetMO": _selprot("subset", 2),
    "SelProtReal": _selprot("real", 1), "SelProtRealMO": _selprot("real", 2),
    "SelProtBinary": _selprot("binary", 1), "SelProtBinaryMO": _selprot("binary", 2),
    "SelProtInteger": _selprot("integer", 1), "SelProtIntegerMO": _selprot("integer", 2),
    "MateSelProtSubset": _mateselprot("subset"), "MateSelProtSubsetMO": _mateselprot("subset", 2),
    "MateSelProtBinary": _mateselprot("binary"), "MateSelProtBinaryMO": _mateselprot("binary", 2),
    "MateSelProtInteger": _mateselprot("integer"), "MateSelProtIntegerMO": _mateselprot("integer", 2),
    "MateSelProtReal": _mateselprot("real"), "MateSelProtRealMO": _mateselprot("real", 2),
    "RandomSelProt": _randsel("subset"), "RandomSelProtBinary": _randsel("binary"), "RandomSelProtInteger": _randsel("integer"),
    "RandomSelProtReal": _randsel("real"),
    "G1NormSel": _obj(["breed.prot.sel.UnconstrainedGeneralized1NormGenomicSelection.Generalized1NormGenomicSelection.select"], True, _g1norm_build, _g1norm_use),
    "OCSProblem": (["breed.prot.sel.OptimalContributionSelection.OptimalContributionSubsetSelection.problem"], True, _ocs_problem),
}
for _n, (_st, _run) in list(OPERATOR_COMPS.items()) + list(DIRECT_FN_COMPS.items()):
    COMPONENTS[_n] = (_st, True, _run)

# ---------------------------------------------------------------------------------------------- object lifecycle (copies)
# Stochastic components are objects holding a generator.  A step of a program may obtain its object through a copy route
# ("life") instead of straight from the constructor, and may obtain it BEFORE the seeding / before the streams are perturbed
# ("pre": the object, and the copy, belong to the prior history).  Required: the copy behaves as its source - on the global
# stream it stays on the global stream (same function of the seed), with an explicit generator it consumes that generator.
OBJ_COMPS = [c for c, v in COMPONENTS.items() if len(v) == 5]
ROUTES = {"copy": copy.copy, "deepcopy": copy.deepcopy, "mcopy": lambda o: o.copy(), "mdeepcopy": lambda o: o.deepcopy(),
          "deepcopy_memo": lambda o: copy.deepcopy(o, {}), "mdeepcopy_memo": lambda o: o.deepcopy({})}
LIFE = {"ctor": [], "copy": ["copy"], "deepcopy": ["deepcopy"], "mcopy": ["mcopy"], "mdeepcopy": ["mdeepcopy"], "deepcopy_memo": ["deepcopy_memo"],
        "mdeepcopy_memo": ["mdeepcopy_memo"], "deepcopy+copy": ["deepcopy", "copy"], "mcopy+mdeepcopy": ["mcopy", "mdeepcopy"],
        "copy+copy": ["copy", "copy"],
        # the generator arrives through the property setter: constructed on a throw-away generator, then `obj.rng = <the generator>`
        # (None = the global stream); must behave as if constructed with it
        "setter": ["setter"], "setter+copy": ["setter", "copy"], "setter+mdeepcopy": ["setter", "mdeepcopy"], "setter+deepcopy": ["setter", "deepcopy"],
        "deepcopy+deepcopy_memo": ["deepcopy", "deepcopy_memo"]}
# classes that define copy routes of their own (the library says what a copy is): component -> (class path, routes, table names).
# Verified by introspection in audit_entry_points(): a stochastic class that gains / loses a copy method must be reclassified here.
OWN_COPY = {"G_E_Phenotyping": ("pybrops.breed.prot.pt.G_E_Phenotyping.G_E_Phenotyping", ("__copy__", "__deepcopy__", "copy", "deepcopy"),
                                ["breed.prot.pt.G_E_Phenotyping.G_E_Phenotyping.__copy__", "breed.prot.pt.G_E_Phenotyping.G_E_Phenotyping.__deepcopy__"])}
LIFE_OWN = [k for k in LIFE if k != "ctor"]                      # every route
# every other stochastic class inherits __deepcopy__ from one of six base classes (the copy SHARES the generator, as G_E_Phenotyping's does; /repo 02111a60):
# base class -> table name of its __deepcopy__.  Verified by introspection in audit_entry_points(): a class accepting rng whose deep copy is not one of these
# (python's default deep copy would duplicate the generator), or that gains another copy method, must be reclassified.
BASE_DEEPCOPY = {"pybrops.breed.prot.mate.MatingProtocol.MatingProtocol": "breed.prot.mate.MatingProtocol.MatingProtocol.__deepcopy__",
                 "pybrops.breed.prot.sel.SelectionProtocol.SelectionProtocol": "breed.prot.sel.SelectionProtocol.SelectionProtocol.__deepcopy__",
                 "pybrops.breed.prot.sel.UnconstrainedSelectionProtocol.UnconstrainedSelectionProtocol": "breed.prot.sel.UnconstrainedSelectionProtocol.UnconstrainedSelectionProtocol.__deepcopy__",
                 "pybrops.breed.prot.sel.cfg.SampledSelectionConfigurationMixin.SampledSelectionConfigurationMixin":
                     "breed.prot.sel.cfg.SampledSelectionConfigurationMixin.SampledSelectionConfigurationMixin.__deepcopy__",
                 "pybrops.opt.algo.OptimizationAlgorithm.OptimizationAlgorithm": "opt.algo.OptimizationAlgorithm.OptimizationAlgorithm.__deepcopy__",
                 "pybrops.opt.algo.UnconstrainedOptimizationAlgorithm.UnconstrainedOptimizationAlgorithm": "opt.algo.UnconstrainedOptimizationAlgorithm.UnconstrainedOptimizationAlgorithm.__deepcopy__"}
def _deep_names(comp):
    """table names of the __deepcopy__ methods a deep copy of the component runs (a protocol's deep copy deep-copies its optimisers)"""
    B = BASE_DEEPCOPY; P = "pybrops."
    if comp.endswith("Cross"): return [B[P + "breed.prot.mate.MatingProtocol.MatingProtocol"]]
    if comp.endswith("Cfg"): return [B[P + "breed.prot.sel.cfg.SampledSelectionConfigurationMixin.SampledSelectionConfigurationMixin"]]
    if comp.startswith(("SelProt", "RandomSelProt")):
        return [B[P + "breed.prot.sel.SelectionProtocol.SelectionProtocol"], B[P + "opt.algo.OptimizationAlgorithm.OptimizationAlgorithm"]]
    if comp == "G1NormSel":
        return [B[P + "breed.prot.sel.UnconstrainedSelectionProtocol.UnconstrainedSelectionProtocol"], B[P + "opt.algo.UnconstrainedOptimizationAlgorithm.UnconstrainedOptimizationAlgorithm"]]
    if comp.startswith("Uncon"): return [B[P + "opt.algo.UnconstrainedOptimizationAlgorithm.UnconstrainedOptimizationAlgorithm"]]
    return [B[P + "opt.algo.OptimizationAlgorithm.OptimizationAlgorithm"]]
# python's default shallow copy shares the attributes, the inherited deep copy shares the generator: must behave as the source
LIFE_DEFAULT_OK = ["copy", "copy+copy", "setter", "setter+copy", "deepcopy", "deepcopy_memo", "deepcopy+copy", "deepcopy+deepcopy_memo", "setter+deepcopy"]
# the constructor of a selection configuration samples a first configuration: an object that received its generator later is at another
# position of the stream than one constructed with it - no reference behaviour to compare the setter route with
NO_SETTER = lambda c: c.endswith("Cfg")
# selection protocols that build default optimisers from the constructor's generator: `prot.rng = g` re-points them too (repaired 4041b1cb / 38415901:
# formerly they stayed on the OLD generator, C08-selprot-rng-setter-stale-optimiser); ordinary cases now, generated for every one of them
SETTER_DEFAULT_ALGO = ("SelProtSubsetGA", "SelProtSubsetMO", "SelProtReal", "SelProtRealMO", "SelProtBinary", "SelProtBinaryMO", "SelProtInteger", "SelProtIntegerMO",
                       "G1NormSel")
LIFE_DEEP = ["deepcopy", "deepcopy_memo", "deepcopy+copy", "deepcopy+deepcopy_memo", "setter+deepcopy"]     # the inherited deep copy (formerly python's default: C08-default-deepcopy-snapshots-rng)

SELPROT_RNG_SETTER = "breed.prot.sel.SelectionProtocol.SelectionProtocol.rng.setter"
LEGACY_RNG_SETTERS = ("breed.prot.sel.UnconstrainedGeneralized1NormGenomicSelection.Generalized1NormGenomicSelection.rng.setter",
                      "breed.prot.sel.UnconstrainedMultiObjectiveGenomicMating.MultiObjectiveGenomicMating.rng.setter")
def _life_kind(step):
    """None (constructor) | 'own' (the class defines all four routes) | 'shallow' (python's default) | 'deep' (the __deepcopy__ inherited from the base class)"""
    life = step.get("life", "ctor")
    if life == "ctor": return None
    if step["comp"] in OWN_COPY: return "own"
    return "deep" if any(r.startswith("deepcopy") for r in LIFE[life]) else "shallow"

_SALT = [0]          # distinguishes the executions of one case: the throw-away generator of the setter route differs between them
def _obtain(step, rng):
    comp = step["comp"]
    routes = list(LIFE[step.get("life", "ctor")])
    if routes[:1] == ["setter"]:
        # constructed on a throw-away generator that is DIFFERENT in every execution (it is prior history: nothing may depend on it)
        obj = COMPONENTS[comp][3](step.get("par", {}), numpy.random.Generator(numpy.random.PCG64(987654321 + _SALT[0])))
        obj.rng = rng
        routes = routes[1:]
    else:
        obj = COMPONENTS[comp][3](step.get("par", {}), rng)
    for r in routes: obj = ROUTES[r](obj)
    return obj

def _obtain_pre(prog, rng):
    """objects (and copies) that exist before the seeding / the perturbation of the streams: index of the step -> object"""
    return {i: _obtain(s, rng) for i, s in enumerate(prog) if s.get("pre")}

def _has_life(prog):
    """is there a reference program without copies to compare with?  (not for the setter route on a component whose constructor
    draws: there the requirement is only that nothing depends on the throw-away generator)"""
    if any(s.get("life", "ctor").startswith("setter") and NO_SETTER(s["comp"]) for s in prog): return False
    return any(s.get("life", "ctor") != "ctor" for s in prog)

def _ref_prog(prog):
    """the same program with every object straight from its constructor (made at the same time as in the program)"""
    out = []
    for s in prog:
        s = dict(s)
        if s.pop("life", "ctor").startswith("setter"): s["par"] = dict(s.get("par", {}), _pre=True)     # (same observables as the setter step)
        out.append(s)
    return out

# ---------------------------------------------------------------------------------------------- driver
def _gstate():
    p = random.getstate(); n = numpy.random.get_state()
    pd = hashlib.sha256(repr(p).encode()).hexdigest()[:20]
    nd = hashlib.sha256(repr((n[0], n[1].tolist(), n[2], n[3], n[4])).encode()).hexdigest()[:20]
    return pd, nd

def _rstate(rng):
    if isinstance(rng, numpy.random.RandomState):
        n = rng.get_state()
        return hashlib.sha256(repr((n[0], n[1].tolist(), n[2], n[3], n[4])).encode()).hexdigest()[:20]
    return hashlib.sha256(repr(rng.bit_generator.state).encode()).hexdigest()[:20]

def _mkrng(kind, seed):
    if kind == "RandomState": return numpy.random.RandomState(int(seed))
    if kind == "MT": return numpy.random.Generator(numpy.random.MT19937(int(seed)))
    return numpy.random.Generator(numpy.random.PCG64(int(seed)))

def _history(h):
    """arbitrary prior use of the interpreter's global streams"""
    from pybrops.core.random import prng
    for op in h:
        k, v = op[0], op[1]
        if k == "py": [random.random() for _ in range(v)]
        elif k == "pyg": [random.gauss(0.0, 1.0) for _ in range(v)]          # leaves gauss_next behind
        elif k == "np": numpy.random.random(v)
        elif k == "npn": numpy.random.standard_normal(v)                      # odd v leaves a cached gaussian behind
        elif k == "seed": prng.seed(v)
        elif k == "npseed": numpy.random.seed(v)
        elif k == "pyseed": random.seed(v)
        elif k == "comp": COMPONENTS[v][2](op[2] if len(op) > 2 else {}, None)
        elif k == "life": _run_prog([{"comp": v, "par": op[2], "life": op[3]}], None)       # a component obtained through a copy route, used, dropped
        else: raise ValueError(op)

def _run_prog(prog, rng, pre=None):
    outs = []
    for i, step in enumerate(prog):
        par = step.get("par", {})
        if "life" in step or step.get("pre") or par.get("_pre"):
            obj = pre[i] if (pre is not None and i in pre) else _obtain(step, rng)
            if step.get("pre") or step.get("life", "ctor").startswith("setter"): par = dict(par, _pre=True)
            outs.append(COMPONENTS[step["comp"]][4](obj, par))
        else:
            outs.append(COMPONENTS[step["comp"]][2](par, rng))
    return outs

def _single_run(case, tag):
    """ONE execution of a case.  repro: tag A / B = [history h1 / h2; objects made before the seeding; seed; program], R = the program
    without copies after an empty history.  isolated: tag 1 / 2 = [history h1 / h2; the generator; objects; program], 3 = without copies."""
    from pybrops.core.random import prng
    _SALT[0] = {"A": 1, "B": 2, "R": 3, "1": 1, "2": 2, "3": 3}[tag] + (10 if _IN_FRESH[0] else 0)
    if case["kind"] == "repro":
        h = {"A": case["h1"], "B": case["h2"], "R": []}[tag]
        prog = _ref_prog(case["prog"]) if tag == "R" else case["prog"]
        _history(h)
        pre = _obtain_pre(prog, None)            # objects and copies made BEFORE the seeding
        prng.seed(case["seed"])
        g0 = _gstate()
        outs = _run_prog(prog, None, pre)
        g1 = _gstate()
        return {"outs": outs, "py_end": g1[0], "np_end": g1[1], "py_moved": g0[0] != g1[0], "np_moved": g0[1] != g1[1]}
    h = {"1": case.get("h1", []), "2": case.get("h2", []), "3": []}[tag]
    prog = _ref_prog(case["prog"]) if tag == "3" else case["prog"]
    _history(h)
    rng = _mkrng(case["rngkind"], case["rseed"])
    for _ in range(case.get("skip", 0)): rng.random()
    g0 = _gstate(); r0 = _rstate(rng)
    pre = _obtain_pre(prog, rng)
    outs = _run_prog(prog, rng, pre)
    g1 = _gstate(); r1 = _rstate(rng)
    return {"outs": outs, "py_moved": g0[0] != g1[0], "np_moved": g0[1] != g1[1], "ex_moved": r0 != r1, "r_end": r1}

# ---- a process that has executed nothing: state cached inside the interpreter (memoised draws, lru_cache'd helpers, class-level
# caches) is the same in two executions made one after the other in ONE process, so comparing those cannot see it.  Every worker
# therefore forks, before it executes its first case, a "zygote" that never runs library code itself and only forks a child per job;
# the child executes one `_single_run` from the pristine state and pipes the result back.
_ZYG = None
_IN_FRESH = [False]
def _zygote():
    global _ZYG
    import os, json, signal
    if _ZYG is not None and _ZYG[0] == os.getpid(): return _ZYG
    c2z_r, c2z_w = os.pipe(); z2c_r, z2c_w = os.pipe()
    pid = os.fork()
    if pid == 0:
        try:
            os.close(c2z_w); os.close(z2c_r)
            signal.alarm(0)
            for s in (signal.SIGALRM, signal.SIGTERM, signal.SIGINT): signal.signal(s, signal.SIG_DFL)
            fin = os.fdopen(c2z_r, "r"); fout = os.fdopen(z2c_w, "w")
            while True:
                line = fin.readline()
                if not line: break
                r, w = os.pipe()
                k = os.fork()
                if k == 0:
                    os.close(r)
                    try:
                        signal.alarm(170)                      # default action: the child dies, the parent reports it
                        job = json.loads(line)
                        _IN_FRESH[0] = True
                        res = _single_run(job["case"], job["tag"])
                    except BaseException as e:
                        res = {"exc": type(e).__name__, "msg": str(e)[:300]}
                    try: res["job"] = json.loads(line)["job"]
                    except Exception: pass
                    try:
                        data = json.dumps(res).encode()
                        while data: data = data[os.write(w, data):]
                    finally:
                        os._exit(0)
                os.close(w)
                chunks = []
                while True:
                    c = os.read(r, 1 << 16)
                    if not c: break
                    chunks.append(c)
                os.close(r); os.waitpid(k, 0)
                data = b"".join(chunks).decode() or json.dumps({"exc": "FreshProcessDied", "msg": "no result (killed or timed out)", "job": json.loads(line).get("job")})
                fout.write(data.replace("\n", " ") + "\n"); fout.flush()
        finally:
            os._exit(0)
    os.close(c2z_r); os.close(z2c_w)
    _ZYG = (os.getpid(), os.fdopen(c2z_w, "w"), os.fdopen(z2c_r, "r"), pid)
    return _ZYG

_JOB = [0]
def _fresh_submit(job):
    """hand one execution to a fresh process; returns a ticket for _fresh_collect (answers are matched by job number: an answer
    that was never collected because the caller raised in between is skipped, not handed to the next case)"""
    import json
    try:
        z = _zygote()
        _JOB[0] += 1
        z[1].write(json.dumps(dict(job, job=_JOB[0])) + "\n"); z[1].flush()
        return (z, _JOB[0])
    except Exception as e:
        return {"exc": type(e).__name__, "msg": "zygote: %s" % e}

def _fresh_collect(ticket):
    import json
    if isinstance(ticket, dict): return ticket
    z, job = ticket
    try:
        while True:
            line = z[2].readline()
            if not line: return {"exc": "FreshProcessDied", "msg": "zygote closed the pipe"}
            res = json.loads(line)
            if res.get("job") == job:
                res.pop("job", None); return res
            if not isinstance(res.get("job"), int) or res["job"] > job: return {"exc": "FreshProcessDied", "msg": "answers out of order"}
    except Exception as e:
        return {"exc": type(e).__name__, "msg": "zygote: %s" % e}

def run_impl(case):
    from pybrops.core.random import prng
    kind = case["kind"]
    if kind == "seedmodel":
        _history(case.get("h", []))
        prng.seed(case["seed"])
        ps = random.getstate(); ns = numpy.random.get_state()
        out = {"py_key": [int(x) for x in ps[1][:624]], "py_pos": int(ps[1][624]), "py_gauss": ps[2] is None, "py_ver": ps[0],
               "np_key": [int(x) for x in ns[1]], "np_pos": int(ns[2]), "np_gauss": int(ns[3]), "np_kind": str(ns[0])}
        ents = []
        for n in case["reqs"]:
            try:
                g = prng.spawn(n) if case.get("sbits") is None else prng.spawn(n, sbits=case["sbits"])
            except ValueError:
                if not (isinstance(n, int) and n < 0): raise
                ents.append(["rejected"]); continue          # a negative count: refused, observable
            gs = [g] if n is None else g
            ents.append([str(x.bit_generator.seed_seq.entropy) for x in gs])
            if n is None and isinstance(g, list): ents[-1] = ["list"]
        ps2 = random.getstate(); ns2 = numpy.random.get_state()
        out.update({"ents": ents, "py_key2": [int(x) for x in ps2[1][:624]], "py_pos2": int(ps2[1][624]),
                    "np_unmoved_by_spawn": bool(numpy.array_equal(ns[1], ns2[1]) and ns[2] == ns2[2])})
        return out
    if kind == "repro":
        res = {}
        fresh = _fresh_submit({"case": case, "tag": "B"})      # the B execution once more, in a process that has executed nothing yet
        try:
            tags = ["A", "B"] + (["R"] if _has_life(case["prog"]) else [])        # R = reference: no copies anywhere
            for tag in tags: res[tag] = _single_run(case, tag)
        finally:
            res["F"] = _fresh_collect(fresh)
        return res
    if kind == "isolated":
        fresh = _fresh_submit({"case": case, "tag": "2"})
        try:
            one = _single_run(case, "1"); two = _single_run(case, "2")
        except BaseException:
            _fresh_collect(fresh); raise
        res = {"py_moved": one["py_moved"], "np_moved": one["np_moved"], "ex_moved": one["ex_moved"], "out1": one["outs"], "out2": two["outs"],
               "r1": one["r_end"], "r2": two["r_end"]}
        if _has_life(case["prog"]):                  # reference: the same program without copies, from an equal generator state
            three = _single_run(case, "3")
            res["out3"] = three["outs"]; res["r3"] = three["r_end"]
        f = _fresh_collect(fresh)
        if "exc" in f: res["fresh_exc"] = f
        else: res["outF"] = f["outs"]; res["rF"] = f["r_end"]; res["F_moved"] = bool(f["py_moved"] or f["np_moved"])
        return res
    raise ValueError(kind)

# ---------------------------------------------------------------------------------------------- generator
SEED_EDGE = [0, 1, 2, 2 ** 31, 2 ** 32 - 1, 2 ** 32, 2 ** 32 + 1, 2 ** 63, 2 ** 64 - 1, 2 ** 64, -1, -12345, 2 ** 96 + 7, 19650218, 5489, 42]
CLEAN_RNG = ["TwoWayCross", "TwoWayDHCross", "ThreeWayCross", "ThreeWayDHCross", "FourWayCross", "FourWayDHCross", "SelfCross",
             "G_E_Phenotyping", "sus", "sus2d", "tiled_choice_norepl", "tiled_choice_repl", "axis_shuffle", "outcross_shuffle",
             "SubsetCfg", "BinaryCfg", "IntegerCfg", "RealCfg", "SubsetMateCfg", "BinaryMateCfg", "IntegerMateCfg", "RealMateCfg",
             "HillClimber", "UnconHill"] + list(GA_PYMOO_OPS) \
            + list(GA_SUBSET_OPS) + list(GA_MEMETIC) + list(SELPROT_COMPS) + list(HELPER_COMPS) + ["UnconSetGA"]          # the repaired components are ordinary cases now
# pymoo's own SBX / PM followed by a rounding: no generator reference in pybrops code (empty footprint): predicate only, single-step programs
PRED_ONLY_COMPS = ("op:IntegerSimulatedBinaryCrossover._do", "op:IntegerPolynomialMutation._do")
DIRECT_COMPS = [c for c in DRAW_CHECKED if c not in PRED_ONLY_COMPS]      # operators / helpers handed the caller's generator directly
CLEAN_RNG = CLEAN_RNG + DIRECT_COMPS
GLOBAL_ONLY = ["spawn", "apply_jitter", "EMBV", "SortingHillClimber", "SortingAlgo"]
FINDING_COMPS = list(DEAP_COMPS) + list(NO_RNG_HELPER_COMPS)
LIFE_COMPS = [c for c in CLEAN_RNG if c in OBJ_COMPS]              # object components that take part in the copy lifecycle

def _rand_hist(rng, heavy=False):
    h = []
    for _ in range(rng.randint(0, 4)):
        k = rng.choice(["py", "pyg", "np", "npn", "seed", "npseed", "pyseed", "comp", "life"])
        if k in ("py", "np"): h.append([k, rng.randint(1, 700 if heavy else 40)])
        elif k in ("pyg", "npn"): h.append([k, rng.choice([1, 3, 5])])
        elif k in ("seed", "npseed", "pyseed"): h.append([k, rng.randint(0, 2 ** 32 - 1)])
        elif k == "life":
            c = rng.choice(LIFE_COMPS)
            h.append([k, c, {}, rng.choice(LIFE_OWN if c in OWN_COPY else ["copy", "copy+copy", "deepcopy", "deepcopy_memo"])])
        else: h.append([k, rng.choice(CLEAN_RNG + GLOBAL_ONLY)])
    return h

def _rand_par(rng, comp):
    par = {"dseed": rng.randint(1, 50)}
    if comp.endswith("Cross"):
        par.update({"ncross": rng.choice([1, 2, 3]), "nprogeny": rng.choice([1, 2, 3]), "nmating": rng.choice([1, 2]),
                    "nself": rng.choice([0, 1, 1, 2]), "ntaxa": rng.choice([1, 4, 6]), "nvrnt": rng.choice([1, 5, 8]), "pc": rng.choice([0, 7])})
    elif comp == "G_E_Phenotyping":
        par.update({"nenv": rng.choice([1, 2, 3]), "nrep": rng.choice([1, 2])})
    elif comp in ("sus", "sus2d"): par.update({"n": rng.choice([1, 3, 6]), "size": rng.choice([1, 4, 7])})
    elif comp.startswith("tiled_choice"): par.update({"n": rng.choice([1, 3, 5]), "size": rng.choice([1, 2, 4])})
    elif comp == "axis_shuffle": par.update({"n": rng.choice([1, 2, 5]), "axis": rng.choice([0, 1])})
    elif comp == "outcross_shuffle": par.update({"n": rng.choice([1, 3, 4])})
    elif comp.endswith("Cfg"): par.update({"ncross": rng.choice([1, 2, 3, 5])})
    elif comp.startswith("SelProt"): par.update({"ncross": rng.choice([1, 2, 3]), "resample": rng.choice([0, 1])})
    elif comp.startswith("MateSelProt"): par.update({"ncross": rng.choice([1, 2, 3, 5])})
    elif comp.startswith("RandomSelProt"): par.update({"ntrait": rng.choice([1, 2]), "ntaxa": rng.choice([2, 4, 6])})
    elif comp == "G1NormSel": par.update({"nparent": rng.choice([1, 2, 3])})
    elif comp == "spawn": par.update({"reqs": rng.choice([[None], [1], [0, 2], [None, 3]])})
    elif comp == "apply_jitter": par.update({"n": rng.choice([2, 3, 4])})
    elif comp == "EMBV": par.update({"nprogeny": rng.choice([1, 3]), "nrep": rng.choice([1, 2])})
    elif comp == "op:tiled_choice": par.update({"a": rng.choice([2, 4, 5]), "size": rng.choice([5, 10, 13])})
    elif comp.startswith("op:ReducedExchangeCrossover"): par.update({"nvar": rng.choice([4, 5, 8])})
    elif comp.startswith("op:"): par.update({"nvar": rng.choice([4, 5]), "nind": rng.choice([6, 8]), "nhc": rng.choice([3, 6, 9]), "nsamp": rng.choice([1, 5])})
    elif comp.startswith("fn:Random"): par.update({"ntaxa": rng.choice([3, 5]), "ntrait": rng.choice([1, 2])})
    elif comp.startswith("fn:"): par.update({"ntaxa": rng.choice([2, 5]), "nvrnt": rng.choice([5, 8]), "nsel": rng.choice([2, 4])})
    return par

def gen_cases(rng, tier):
    quick = tier == "quick"
    cases = []
    # --- seed model
    seeds = list(SEED_EDGE) if not quick else SEED_EDGE[:12]
    for _ in range(24 if quick else 1000):
        b = rng.choice([8, 16, 31, 32, 33, 48, 64, 65, 96])
        s = rng.getrandbits(b)
        seeds.append(-s if rng.random() < 0.1 else s)
    for s in seeds:
        reqs = rng.choice([[None], [1], [0], [2, None], [None, 3, 1], [], [0, -1, 1], [-3, None]])
        c = {"kind": "seedmodel", "seed": s, "reqs": reqs, "sbits": rng.choice([None, None, 64, 32, 128, 33, 1])}
        if rng.random() < 0.5: c["h"] = _rand_hist(rng)
        cases.append(c)
    # boundary of the spawn range: with 1-2 seed bits an off-by-one in randint(0, 2**sbits-1) shows within a few draws
    for i in range(6 if quick else 40):
        cases.append({"kind": "seedmodel", "seed": rng.getrandbits(20), "reqs": [None, None, None, None, 8, None, 5], "sbits": 1 + i % 2})
    # --- reproducibility after seeding (rng = None everywhere): every component alone, then programs
    singles = CLEAN_RNG + GLOBAL_ONLY + FINDING_COMPS
    for rep in range(2 if quick else 6):
        for comp in singles:
            cases.append({"kind": "repro", "seed": rng.choice(SEED_EDGE + [rng.getrandbits(40)]), "h1": _rand_hist(rng, rep > 0), "h2": _rand_hist(rng, True),
                          "prog": [{"comp": comp, "par": _rand_par(rng, comp)}]})
    for _ in range(50 if quick else 400):
        k = rng.choice([2, 3])
        pool = CLEAN_RNG + GLOBAL_ONLY if rng.random() < 0.85 else singles
        prog = [{"comp": c, "par": _rand_par(rng, c)} for c in (rng.choice(pool) for _ in range(k))]
        cases.append({"kind": "repro", "seed": rng.getrandbits(rng.choice([8, 32, 64])), "h1": _rand_hist(rng), "h2": _rand_hist(rng, True), "prog": prog})
    # --- isolation with an explicit generator
    accept = [c for c in CLEAN_RNG + FINDING_COMPS if COMPONENTS[c][1]]
    for rep in range(3 if quick else 6):
        for comp in accept:
            for rk in (["Generator", "RandomState"] if rep == 0 else [rng.choice(["Generator", "RandomState", "MT"])]):
                cases.append({"kind": "isolated", "rngkind": rk, "rseed": rng.getrandbits(31), "skip": rng.choice([0, 0, 3]),
                              "h1": _rand_hist(rng), "h2": [["py", rng.randint(1, 30)], ["np", rng.randint(1, 30)]] + _rand_hist(rng),
                              "prog": [{"comp": comp, "par": _rand_par(rng, comp)}]})
    for _ in range(40 if quick else 300):
        k = rng.choice([2, 3])
        prog = [{"comp": c, "par": _rand_par(rng, c)} for c in (rng.choice(CLEAN_RNG) for _ in range(k))]
        cases.append({"kind": "isolated", "rngkind": rng.choice(["Generator", "RandomState", "MT"]), "rseed": rng.getrandbits(31), "skip": 0,
                      "h1": _rand_hist(rng), "h2": [["py", 3], ["np", 5]] + _rand_hist(rng), "prog": prog})
    # --- the operators / helpers handed the caller's generator DIRECTLY: once more each with a Generator, a RandomState and None (the
    # loops above already run each of them with both kinds and seeded with rng=None); the two predicate-only operators likewise
    for comp in list(DIRECT_COMPS) + list(PRED_ONLY_COMPS):
        kinds = ["Generator", "RandomState"] + ([] if (quick and comp not in PRED_ONLY_COMPS) else ["MT"])
        if comp in PRED_ONLY_COMPS or not quick or rng.random() < 0.5:
            for rk in kinds:
                cases.append({"kind": "isolated", "rngkind": rk, "rseed": rng.getrandbits(31), "skip": rng.choice([0, 0, 3]),
                              "h1": _rand_hist(rng), "h2": [["py", rng.randint(1, 30)], ["np", rng.randint(1, 30)]] + _rand_hist(rng),
                              "prog": [{"comp": comp, "par": _rand_par(rng, comp)}]})
        if comp in PRED_ONLY_COMPS or not quick:
            cases.append({"kind": "repro", "seed": rng.choice(SEED_EDGE[:6] + [rng.getrandbits(40)]), "h1": _rand_hist(rng), "h2": [["np", rng.randint(1, 9)]] + _rand_hist(rng, True),
                          "prog": [{"comp": comp, "par": _rand_par(rng, comp)}]})
    # --- object lifecycle: the component is obtained through a copy route, possibly BEFORE the seeding / perturbation (pre)
    def life_step(comp, life, pre):
        return {"comp": comp, "par": _rand_par(rng, comp), "life": life, "pre": bool(pre)}
    def repro_case(prog, heavy=True):
        return {"kind": "repro", "seed": rng.choice(SEED_EDGE[:6] + [rng.getrandbits(40)]), "h1": _rand_hist(rng), "h2": [["np", rng.randint(1, 9)]] + _rand_hist(rng, heavy), "prog": prog}
    def iso_case(prog):
        return {"kind": "isolated", "rngkind": rng.choice(["Generator", "RandomState", "MT"]), "rseed": rng.getrandbits(31), "skip": rng.choice([0, 0, 3]),
                "h1": _rand_hist(rng), "h2": [["py", rng.randint(1, 30)], ["np", rng.randint(1, 30)]] + _rand_hist(rng), "prog": prog}
    def ok_lives(c):
        return LIFE_OWN if c in OWN_COPY else [l for l in LIFE_DEFAULT_OK if not (l.startswith("setter") and NO_SETTER(c))]
    for comp in LIFE_COMPS:           # constructed BEFORE the seeding (rng = None), used after it
        cases.append(repro_case([{"comp": comp, "par": _rand_par(rng, comp), "pre": True}]))
    for comp in LIFE_COMPS:
        lives = ok_lives(comp)
        for rep in range((1 if quick else 3) if comp not in OWN_COPY else 1):
            for life in (lives if comp in OWN_COPY else [rng.choice(lives)]):
                for pre in ((True, False) if comp in OWN_COPY else (rng.choice([True, False]),)):
                    cases.append(repro_case([life_step(comp, life, pre)]))
                    cases.append(iso_case([life_step(comp, life, pre)]))
    for _ in range(16 if quick else 150):          # programs: copies next to their sources and to other components, copies of every own route
        k = rng.choice([2, 3])
        prog = []
        for _ in range(k):
            c = rng.choice(list(OWN_COPY) * 3 + LIFE_COMPS)
            if rng.random() < 0.75: prog.append(life_step(c, rng.choice(ok_lives(c)), rng.random() < 0.5))
            else: prog.append({"comp": c, "par": _rand_par(rng, c)})
        cases.append(repro_case(prog) if rng.random() < 0.6 else iso_case(prog))
    # deep copies (formerly python's default deep copy, which duplicated the generator): every object component, made before the seeding / with its own generator
    deepable = [x for x in LIFE_COMPS if x not in OWN_COPY]
    for c in (rng.sample(deepable, 14) if quick else deepable * 2):
        lives = [l for l in LIFE_DEEP if not (l.startswith("setter") and NO_SETTER(c))]
        prog = [life_step(c, rng.choice(lives), True)]
        cases.append(repro_case(prog, False)); cases.append(iso_case([life_step(c, rng.choice(lives), rng.random() < 0.5)]))
    # the rng setter of the selection configurations (their constructor draws: no reference program; nothing may depend on the
    # throw-away generator the object was constructed with)
    for c in [x for x in LIFE_COMPS if NO_SETTER(x)]:
        for rep in range(1 if quick else 3):
            cases.append(iso_case([life_step(c, rng.choice(["setter", "setter+copy"]), False)]))
            cases.append(repro_case([life_step(c, rng.choice(["setter", "setter+copy"]), rng.random() < 0.5)], False))
    # the rng setter of a protocol with default optimisers (formerly left on the old generator): every one of them, also followed by copies
    for c in (rng.sample(SETTER_DEFAULT_ALGO, 5) if quick else SETTER_DEFAULT_ALGO * 2):
        cases.append(iso_case([life_step(c, rng.choice(["setter", "setter", "setter+copy", "setter+deepcopy"]), False)]))
        cases.append(repro_case([life_step(c, "setter", rng.random() < 0.5)], False))
    rng.shuffle(cases)          # spread the heavy seed-model cases over the shards
    return cases

# ---------------------------------------------------------------------------------------------- Coq side
def _static_names(prog):
    names = []
    for st in prog:
        extra = OWN_COPY[st["comp"]][2] if (st.get("life", "ctor") != "ctor" and st["comp"] in OWN_COPY) else []
        if _life_kind(st) == "deep": extra = _deep_names(st["comp"])
        if st.get("life", "ctor").startswith("setter") and st["comp"].startswith("SelProt"): extra = list(extra) + [SELPROT_RNG_SETTER]
        for n in list(COMPONENTS[st["comp"]][0]) + list(extra):
            if n not in names: names.append(n)
    return names

def all_static_names():
    out = []
    for v in COMPONENTS.values():
        for n in v[0]:
            if n not in out: out.append(n)
    for v in OWN_COPY.values():
        for n in v[2]:
            if n not in out: out.append(n)
    for n in list(BASE_DEEPCOPY.values()) + [SELPROT_RNG_SETTER] + list(LEGACY_RNG_SETTERS):
        if n not in out: out.append(n)
    return out

def emit_case(case, out):
    if "exc" in out: return "false"
    k = case["kind"]
    if k == "seedmodel":
        # the kernel-built model (MK, assembled from the expressions regenerated from prng.py) is what is evaluated; requests the
        # implementation refused must be refused by the generated guard, the others are answered by the model (which refuses itself
        # where the generated guard says so: a disagreement either way is a failed case)
        if any(e == ["list"] for e in out["ents"]): return "false"
        rej = [n for n, e in zip(case["reqs"], out["ents"]) if e == ["rejected"]]
        reqs = [n for n, e in zip(case["reqs"], out["ents"]) if e != ["rejected"]]
        ents = [e for e in out["ents"] if e != ["rejected"]]
        ok_meta = out["py_gauss"] and out["py_ver"] == 3 and out["np_gauss"] == 0 and out["np_kind"] == "MT19937" and out["np_unmoved_by_spawn"]
        k2 = "pk" if out["py_key2"] == out["py_key"] else E.lst(out["py_key2"], E.z)
        return "(let pk := %s in %s && forallb MK.spawn_rejected %s && MK.seed_scenario_agree %s %s %s pk %d%%nat %s %d%%nat %s %s %d%%nat)" % (
            E.lst(out["py_key"], E.z), E.b(ok_meta), E.lst(rej, E.z), E.z(case["seed"]), E.lst(reqs, lambda n: E.opt(n, E.z)), E.opt(case.get("sbits"), E.z),
            out["py_pos"], E.lst(out["np_key"], E.z), out["np_pos"],
            E.lst2([[int(x) for x in l] for l in ents], E.z), k2, out["py_pos2"])
    if any(st["comp"] in PRED_ONLY_COMPS for st in case["prog"]): return None        # no pybrops generator reference to compare with: predicate only
    names = E.lst(_static_names(case["prog"]), E.s)
    if k == "repro":
        A, B = out["A"], out["B"]
        same = A["outs"] == B["outs"] and A["py_end"] == B["py_end"] and A["np_end"] == B["np_end"]
        F = out["F"]
        if "exc" in F: return "false"
        same = same and B["outs"] == F["outs"] and B["py_end"] == F["py_end"] and B["np_end"] == F["np_end"]      # fresh interpreter state
        if "R" in out:            # a program with copies must be the same function of the seed as the program without
            R = out["R"]
            same = same and A["outs"] == R["outs"] and A["py_end"] == R["py_end"] and A["np_end"] == R["np_end"]
        return "(FP.obs_agree false %s (FP.mkobs %s %s false %s))" % (names, E.b(A["py_moved"] or B["py_moved"]), E.b(A["np_moved"] or B["np_moved"]), E.b(same))
    if "fresh_exc" in out: return "false"
    same = out["out1"] == out["out2"] and out["r1"] == out["r2"] and out["out2"] == out["outF"] and out["r2"] == out["rF"]
    if "out3" in out: same = same and out["out1"] == out["out3"] and out["r1"] == out["r3"]
    return "(FP.obs_agree true %s (FP.mkobs %s %s %s %s))" % (names, E.b(out["py_moved"]), E.b(out["np_moved"]), E.b(out["ex_moved"]), E.b(same))

# ---------------------------------------------------------------------------------------------- independent predicate
def _draw_clauses(prog, outs, what):
    """operators / helpers driven directly say whether the source they were handed moved and whether they changed their input"""
    bad = []
    for i, (st, o) in enumerate(zip(prog, outs)):
        if st["comp"] in DRAW_CHECKED and isinstance(o, dict):
            if o.get("consumed") is False:
                bad.append("step %d (%s): %s was not consumed although every draw site of the call is reached on this input" % (i, st["comp"], what)); break
            if o.get("fired") is False:
                bad.append("step %d (%s): the operator returned its input unchanged on an input where an exchange / mutation must fire" % (i, st["comp"])); break
    return bad

def pred(case, out):
    if "exc" in out:
        return ["implementation raised %s: %s" % (out["exc"], out["msg"])]
    bad = []
    k = case["kind"]
    if k == "seedmodel":
        # reference: a private random.Random / RandomState driven the way the documentation of seed()/spawn() says
        r = random.Random(case["seed"])
        x = r.randint(0, 2 ** 32 - 1)
        st = r.getstate()
        if list(st[1][:624]) != out["py_key"] or st[1][624] != out["py_pos"] or not out["py_gauss"]:
            bad.append("python stream after seed(%d) is not random.seed(s) followed by one randint(0,2^32-1)" % case["seed"])
        ns = numpy.random.RandomState(x).get_state()
        if [int(v) for v in ns[1]] != out["np_key"] or int(ns[2]) != out["np_pos"] or out["np_gauss"] != 0:
            bad.append("numpy stream after seed(%d) is not numpy.random.seed(randint(0,2^32-1))" % case["seed"])
        want = []
        sb = 64 if case.get("sbits") is None else case["sbits"]          # documented default: 64 bits
        for n in case["reqs"]:
            if n is not None and n < 0: want.append(["rejected"]); continue          # documented: n must be positive or zero
            want.append([str(r.randint(0, 2 ** sb - 1)) for _ in range(1 if n is None else n)])
        if want != out["ents"]: bad.append("spawn(): stream seeds are not successive randint(0, 2^sbits-1) draws of the python stream")
        st2 = r.getstate()
        if list(st2[1][:624]) != out["py_key2"] or st2[1][624] != out["py_pos2"]: bad.append("python stream after spawn() differs from the reference")
        if not out["np_unmoved_by_spawn"]: bad.append("spawn() moved the numpy stream")
        return bad
    if k == "repro":
        A, B = out["A"], out["B"]
        for i, (a, b) in enumerate(zip(A["outs"], B["outs"])):
            if a != b:
                bad.append("step %d (%s): outputs differ after the same seed with different prior histories" % (i, case["prog"][i]["comp"])); break
        if not bad:
            if A["py_end"] != B["py_end"]: bad.append("python stream differs at the end of the seeded program")
            if A["np_end"] != B["np_end"]: bad.append("numpy stream differs at the end of the seeded program")
        F = out["F"]
        if "exc" in F: bad.append("the execution in a fresh process raised %s: %s" % (F["exc"], F["msg"]))
        elif not bad:
            for i, (a, b) in enumerate(zip(B["outs"], F["outs"])):
                if a != b:
                    bad.append("step %d (%s): outputs after the same seed differ between a process that executed other calls before and a fresh one "
                               "(state kept inside the interpreter survives the re-seeding)" % (i, case["prog"][i]["comp"])); break
            else:
                if B["np_end"] != F["np_end"] or B["py_end"] != F["py_end"]:
                    bad.append("global streams at the end of the seeded program differ between a used process and a fresh one")
        bad += _draw_clauses(case["prog"], A["outs"], "the global numpy stream (random_state / rng = None after seeding)")
        if "R" in out:
            R = out["R"]
            for i, (a, b) in enumerate(zip(A["outs"], R["outs"])):
                if a != b:
                    bad.append("step %d (%s): a copy (%s) does not behave as its source: output differs from the same seeded program without copies"
                               % (i, case["prog"][i]["comp"], case["prog"][i].get("life", "ctor"))); break
            else:
                if A["np_end"] != R["np_end"] or A["py_end"] != R["py_end"]:
                    bad.append("a copy does not behave as its source: the global streams end elsewhere than after the same seeded program without copies")
        return bad
    if out["py_moved"]: bad.append("explicit rng: python's global stream was advanced")
    if out["np_moved"]: bad.append("explicit rng: numpy's global stream was advanced")
    for i, (a, b) in enumerate(zip(out["out1"], out["out2"])):
        if a != b:
            bad.append("step %d (%s): result is not a function of the supplied generator's state" % (i, case["prog"][i]["comp"])); break
    if not bad and out["r1"] != out["r2"]: bad.append("supplied generator ends in different states")
    bad += _draw_clauses(case["prog"], out["out1"], "the supplied %s" % case["rngkind"])
    if "fresh_exc" in out: bad.append("the execution in a fresh process raised %s: %s" % (out["fresh_exc"]["exc"], out["fresh_exc"]["msg"]))
    elif not bad:
        for i, (a, b) in enumerate(zip(out["out2"], out["outF"])):
            if a != b:
                bad.append("step %d (%s): result from equal generator states differs between a process that executed other calls before and a fresh one "
                           "(state kept inside the interpreter)" % (i, case["prog"][i]["comp"])); break
        else:
            if out["r2"] != out["rF"]: bad.append("supplied generator ends in different states in a used process and in a fresh one")
    if "out3" in out:
        for i, (a, b) in enumerate(zip(out["out1"], out["out3"])):
            if a != b:
                bad.append("step %d (%s): a copy (%s) does not behave as its source: output differs from the same program without copies"
                           % (i, case["prog"][i]["comp"], case["prog"][i].get("life", "ctor"))); break
        else:
            if out["r1"] != out["r3"]:
                bad.append("a copy does not consume the supplied generator as its source does (generator ends elsewhere than after the same program without copies)")
    return bad

def classify(case, out, clauses):
    """known findings, matched on the component that the failing clause points at"""
    if case.get("kind") not in ("repro", "isolated") or "exc" in out: return None
    comps = [s["comp"] for s in case["prog"]]
    def first(pool):
        ix = [i for i, c in enumerate(comps) if c in pool]
        return ix[0] if ix else None
    steps = [int(c.split()[1].rstrip(":")) for c in clauses if c.startswith("step ")]
    # (copies - shallow, deep, own routes - and the rng setter are ordinary cases: C08-default-deepcopy-snapshots-rng and
    #  C08-selprot-rng-setter-stale-optimiser are repaired, nothing about the object lifecycle is excused)
    if case["kind"] == "repro":
        return None                     # after seeding everything must be reproducible (C08-ga-os-entropy is fixed)
    # isolated: exactly one kind of culprit in the program
    kinds = set()
    for c in comps:
        if c in DEAP_COMPS: kinds.add("C08-deap-python-random")
        elif c in NO_RNG_HELPER_COMPS: kinds.add("C08-helpers-no-rng-param")
    if len(kinds) != 1: return None
    fid = kinds.pop()
    culprit = first(DEAP_COMPS + NO_RNG_HELPER_COMPS)
    if steps and min(steps) < culprit: return None
    if fid == "C08-deap-python-random" and any("numpy's global" in c for c in clauses): return None
    if fid == "C08-helpers-no-rng-param" and (any("python's global" in c for c in clauses) or not any("numpy's global" in c for c in clauses)): return None
    return fid

def nontrivial(case, out):
    if "exc" in out: return False
    if case["kind"] == "seedmodel": return True
    if case["kind"] == "repro": return bool(out["A"]["py_moved"] or out["A"]["np_moved"])
    return bool(out["ex_moved"] or out["np_moved"] or out["py_moved"])

def describe(case, out):
    d = {"kind": case["kind"], "raised": "exc" in out}
    if case["kind"] == "seedmodel":
        s = abs(case["seed"])
        d["seed_words"] = max(1, (s.bit_length() + 31) // 32); d["sbits"] = case.get("sbits") or "default"; d["negative"] = case["seed"] < 0
        d["rejected_requests"] = sum(1 for n in case["reqs"] if n is not None and n < 0)
        if "py_pos" in out: d["seed_rejections"] = (out["py_pos"] - 2) // 2
    else:
        d["len"] = len(case["prog"]); d["first_comp"] = case["prog"][0]["comp"]
        if case["kind"] == "isolated": d["rngkind"] = case["rngkind"]
        lives = sorted({s.get("life", "ctor") for s in case["prog"]})
        d["life"] = "+".join(lives) if lives != ["ctor"] else "ctor"; d["pre"] = any(s.get("pre") for s in case["prog"])
    return d

def shrink(case, fails):
    cur = copy.deepcopy(case)
    if cur.get("kind") in ("repro", "isolated"):
        while len(cur["prog"]) > 1:
            for i in range(len(cur["prog"])):
                t = copy.deepcopy(cur); del t["prog"][i]
                if fails(t): cur = t; break
            else: break
        for key in ("h1", "h2"):
            t = copy.deepcopy(cur)
            t[key] = [["py", 1], ["np", 1]] if key == "h2" else []
            if fails(t): cur = t
        t = copy.deepcopy(cur)
        for s in t["prog"]: s["par"] = {}
        if fails(t): cur = t
        for i in range(len(cur["prog"])):           # drop copy routes that are not needed for the failure
            t = copy.deepcopy(cur); t["prog"][i].pop("life", None); t["prog"][i].pop("pre", None)
            if fails(t): cur = t
    elif cur.get("kind") == "seedmodel":
        for key, val in (("h", []), ("reqs", [1]), ("sbits", None)):
            t = copy.deepcopy(cur); t[key] = val
            if fails(t): cur = t
    return cur

# ---------------------------------------------------------------------------------------------- entry-point audit (fail closed)
# Every class whose constructor accepts rng and every function / method with an rng parameter, found by introspection of the
# imported package on every run, must be classified: executed by a component of this module (ENTRY_COVERED), skipped with a
# reason (ENTRY_SKIPPED), or - for the concrete selection protocols - verified to inherit select()/sosolve()/mosolve()/rng from one
# of the eight family bases (which ARE executed) and to add only a deterministic problem() factory (covered statically by
# C08_rng_components_explicit_partial).  A new entry point makes the check fail until it is classified here.
_P = "pybrops."
ENTRY_COVERED = {}
for _c in ("TwoWayCross", "TwoWayDHCross", "ThreeWayCross", "ThreeWayDHCross", "FourWayCross", "FourWayDHCross", "SelfCross"):
    ENTRY_COVERED["breed.prot.mate.%s.%s" % (_c, _c)] = [_c]
for _f in ("mat_dh", "mat_mate", "mat_meiosis"):
    ENTRY_COVERED["breed.prot.mate.util." + _f] = ["TwoWayCross", "TwoWayDHCross", "SelfCross"]
for _f in ("dense_cross", "dense_dh", "dense_meiosis"):
    ENTRY_COVERED["core.util.mate." + _f] = ["TwoWayCross", "TwoWayDHCross", "SelfCross"]
ENTRY_COVERED["breed.prot.pt.G_E_Phenotyping.G_E_Phenotyping"] = ["G_E_Phenotyping"]
ENTRY_COVERED.update({"core.random.sampling.axis_shuffle": ["axis_shuffle"], "core.random.sampling.outcross_shuffle": ["outcross_shuffle"],
                      "core.random.sampling.stochastic_universal_sampling": ["sus", "sus2d"],
                      "core.random.sampling.tiled_choice": ["tiled_choice_norepl", "tiled_choice_repl"]})
for _k in ("Subset", "Binary", "Integer", "Real"):
    ENTRY_COVERED["breed.prot.sel.cfg.%sSelectionConfiguration.%sSelectionConfiguration" % (_k, _k)] = [_k + "Cfg"]
    ENTRY_COVERED["breed.prot.sel.cfg.%sMateSelectionConfiguration.%sMateSelectionConfiguration" % (_k, _k)] = [_k + "MateCfg"]
    ENTRY_COVERED["breed.prot.sel.%sSelectionProtocol.%sSelectionProtocol" % (_k, _k)] = ["SelProt" + _k, "SelProt%sMO" % _k]
    ENTRY_COVERED["breed.prot.sel.%sMateSelectionProtocol.%sMateSelectionProtocol" % (_k, _k)] = ["MateSelProt" + _k, "MateSelProt%sMO" % _k]
    ENTRY_COVERED["breed.prot.sel.EstimatedBreedingValueSelection.EstimatedBreedingValue%sSelection" % _k] = ["SelProt" + _k]
    ENTRY_COVERED["breed.prot.sel.RandomSelection.Random%sSelection" % _k] = ["RandomSelProt" + ("" if _k == "Subset" else _k)]
    ENTRY_COVERED["breed.prot.sel.prob.RandomSelectionProblem.Random%sSelectionProblem.from_object" % _k] = ["RandomSelProt" + ("" if _k == "Subset" else _k)]
ENTRY_COVERED["breed.prot.sel.prob.RandomSelectionProblem.RandomSelectionProblemMixin.from_object"] = ["RandomSelProt"]
for _q, _cs in ENTRY_COVERED.items():          # ... and handed the caller's generator directly
    _f = _q.rsplit(".", 1)[1]
    if _q.startswith(("breed.prot.mate.util.", "core.util.mate.")): _cs.append("fn:" + _f)
    elif _q.endswith(".from_object") and "Mixin" not in _q: _cs.append("fn:%s.from_object" % _q.split(".")[-2])
ENTRY_COVERED["breed.prot.sel.SelectionProtocol.SelectionProtocol"] = ["SelProtSubset"]
ENTRY_COVERED["breed.prot.sel.MateSelectionProtocol.MateSelectionProtocol"] = ["MateSelProtSubset"]
ENTRY_COVERED["breed.prot.sel.OptimalContributionSelection.OptimalContributionSubsetSelection"] = ["OCSProblem"]
ENTRY_COVERED["breed.prot.sel.UnconstrainedGeneralized1NormGenomicSelection.Generalized1NormGenomicSelection"] = ["G1NormSel"]
for _comp, _v in (("SubsetGA", "SubsetGeneticAlgorithm"), ("BinaryGA", "BinaryGeneticAlgorithm"), ("IntegerGA", "IntegerGeneticAlgorithm"),
                  ("RealGA", "RealGeneticAlgorithm"), ("NSGA2SubsetGA", "NSGA2SubsetGeneticAlgorithm"), ("NSGA2BinaryGA", "NSGA2BinaryGeneticAlgorithm"),
                  ("NSGA2IntegerGA", "NSGA2IntegerGeneticAlgorithm"), ("NSGA2RealGA", "NSGA2RealGeneticAlgorithm"),
                  ("NSGA3SubsetGA", "NSGA3SubsetGeneticAlgorithm"), ("HillClimber", "SteepestDescentSubsetHillClimber"),
                  ("UnconSetGA", "UnconstrainedSetGeneticAlgorithm"), ("UnconNSGA2SetGA", "UnconstrainedNSGA2SetGeneticAlgorithm"),
                  ("UnconHill", "UnconstrainedSteepestAscentSetHillClimber")):
    ENTRY_COVERED["opt.algo.%s.%s" % (_v, _v)] = [_comp]
for _comp, _v in (("MemeticA", "NSGA2MutatorASubsetGeneticAlgorithm"), ("MemeticB", "NSGA2MutatorBSubsetGeneticAlgorithm"),
                  ("MemeticSteepest", "NSGA2SteepestDescentSubsetGeneticAlgorithm"), ("MemeticStochastic", "NSGA2StochasticDescentSubsetGeneticAlgorithm")):
    ENTRY_COVERED["opt.algo.NSGA2MemeticSubsetGeneticAlgorithm." + _v] = [_comp]
ENTRY_SKIPPED = {
    "breed.prot.sel.UnconstrainedMultiObjectiveGenomicMating.MultiObjectiveGenomicMating":
        "legacy unconstrained protocol (needs a variance-matrix factory and a genetic map function); its only use of the generator is to hand "
        "self.rng to its default optimisers (constructor and rng setter, which re-points them as Generalized1NormGenomicSelection's does: executed as "
        "G1NormSel with the setter route), which are executed as UnconHill / UnconNSGA2SetGA; covered statically (C08_rng_components_explicit_partial, "
        "C08_repaired_sites_explicit lists its rng setter)",
}
FAMILY_BASES = tuple("%s%sSelectionProtocol" % (k, m) for k in ("Subset", "Binary", "Integer", "Real") for m in ("", "Mate"))
UNIMPORTABLE_OK = ("pybrops.model.pmebvmat",)        # inconsistent MRO under this interpreter (no stochastic code; listed in DESIGN)
COPY_METHODS = ("__copy__", "__deepcopy__", "copy", "deepcopy")

def audit_entry_points():
    import pkgutil, importlib, inspect, pybrops
    found, classes, problems, unimportable = {}, {}, [], []
    with warnings.catch_warnings():
        warnings.simplefilter("ignore")
        for m in pkgutil.walk_packages(pybrops.__path__, _P, onerror=lambda n: unimportable.append(n)):
            if m.name.startswith("pybrops.test"): continue
            try: mod = importlib.import_module(m.name)
            except Exception: unimportable.append(m.name); continue
            for nm, ob in list(vars(mod).items()):
                if getattr(ob, "__module__", None) != m.name: continue
                q = (m.name + "." + nm)[len(_P):]
                if inspect.isclass(ob):
                    try: has = "rng" in inspect.signature(ob.__init__).parameters
                    except (TypeError, ValueError): has = False
                    if has: found[q] = "class"; classes[q] = ob
                    for mn, mo in list(vars(ob).items()):
                        f = mo.__func__ if isinstance(mo, (classmethod, staticmethod)) else mo
                        if inspect.isfunction(f) and mn != "__init__":
                            try:
                                if "rng" in inspect.signature(f).parameters: found[q + "." + mn] = "method"
                            except (TypeError, ValueError): pass
                elif inspect.isfunction(ob):
                    try:
                        if "rng" in inspect.signature(ob).parameters: found[q] = "function"
                    except (TypeError, ValueError): pass
    for n in unimportable:
        if not n.startswith(UNIMPORTABLE_OK): problems.append("module %s cannot be imported: its entry points cannot be enumerated" % n)
    inherited = []
    for q, kind in sorted(found.items()):
        if q in ENTRY_COVERED:
            missing = [c for c in ENTRY_COVERED[q] if c not in COMPONENTS]
            if missing: problems.append("%s: covering component(s) %s do not exist" % (q, missing))
            continue
        if q in ENTRY_SKIPPED: continue
        ob = classes.get(q)
        if ob is not None and q.startswith("breed.prot.sel.") and not inspect.isabstract(ob):
            mro = list(ob.__mro__)
            fam = [i for i, c in enumerate(mro) if c.__name__ in FAMILY_BASES and c.__module__.startswith("pybrops.breed.prot.sel.")]
            if fam:
                over = sorted({k for c in mro[:fam[0]] for k in ("select", "sosolve", "mosolve", "rng", "soalgo", "moalgo") if k in vars(c)})
                if not over:
                    inherited.append(q); continue
                problems.append("%s overrides %s of its family base %s: not covered by the family's experiments - add a component or a reason" % (q, over, mro[fam[0]].__name__))
                continue
        problems.append("%s (%s accepting rng) is not classified: add a component (ENTRY_COVERED) or a reason (ENTRY_SKIPPED)" % (q, kind))
    for q in list(ENTRY_COVERED) + list(ENTRY_SKIPPED):
        if q not in found: problems.append("%s is classified but no longer exists / no longer accepts rng (stale entry)" % q)
    # copy routes: which copy methods the stochastic classes have (anywhere in their pybrops MRO).  Either the class is listed in OWN_COPY
    # with exactly its routes, or its ONLY route is the __deepcopy__ it inherits from one of the six base classes of BASE_DEEPCOPY (which
    # shares the generator).  A class accepting rng WITHOUT a __deepcopy__ would fall back on python's default deep copy, which duplicates
    # the generator: refused.
    own, base_deep = {}, {}
    for q, ob in classes.items():
        r = tuple(k for k in COPY_METHODS if any(k in vars(c) for c in ob.__mro__ if c.__module__.startswith("pybrops")))
        own[_P + q] = r
        definer = next((c for c in ob.__mro__ if "__deepcopy__" in vars(c)), None)
        if definer is not None: base_deep[_P + q] = definer.__module__ + "." + definer.__name__
    want = {v[0]: tuple(v[1]) for v in OWN_COPY.values()}
    for q in sorted(set(own) | set(want)):
        if q in want:
            if own.get(q) != want[q]:
                problems.append("copy routes of %s are %s, the lifecycle table OWN_COPY says %s: reclassify (every route of a stochastic class must be exercised)"
                                % (q, own.get(q), want.get(q)))
        elif own[q] != ("__deepcopy__",) or base_deep.get(q) not in BASE_DEEPCOPY:
            problems.append("copy routes of %s are %s (deep copy defined by %s): a class accepting rng must inherit the generator-sharing __deepcopy__ of one of %s "
                            "and define no other copy method, or be listed in OWN_COPY" % (q, own[q], base_deep.get(q), sorted(x.rsplit(".", 1)[1] for x in BASE_DEEPCOPY)))
    used_bases = set(base_deep.values())
    for b in BASE_DEEPCOPY:
        if b not in used_bases: problems.append("BASE_DEEPCOPY lists %s but no class accepting rng inherits its __deepcopy__ (stale entry)" % b)
    for c in OWN_COPY:
        if c not in OBJ_COMPS: problems.append("OWN_COPY component %s is not an object component" % c)
    if problems:
        raise RuntimeError("entry-point audit: " + " || ".join(problems[:8]) + (" || ... %d more" % (len(problems) - 8) if len(problems) > 8 else ""))
    return {"audit": "entry points accepting rng", "found": len(found), "executed_by_components": sum(1 for q in found if q in ENTRY_COVERED),
            "inherit_family_select": len(inherited), "skipped_with_reason": sorted(ENTRY_SKIPPED), "classes_with_own_copy_routes": sorted(want),
            "classes_inheriting_sharing_deepcopy": sum(1 for q in own if q not in want),
            "unimportable_modules": sorted(set(unimportable))}

def audit_operators():
    """every function / method of pymoo_addon that is handed random_state (a parameter of that name, a read of kwargs, or - for the operator
    entry points _do / do - simply **kwargs passed on) must be driven directly by an operator component or skipped with a reason; fail closed"""
    import inspect, pybrops.opt.algo.pymoo_addon as M
    found = {}
    for nm, ob in vars(M).items():
        if getattr(ob, "__module__", None) != M.__name__: continue
        if inspect.isfunction(ob):
            if "random_state" in inspect.getsource(ob): found[nm] = ob
        elif inspect.isclass(ob):
            for mn, mo in vars(ob).items():
                f = mo.__func__ if isinstance(mo, (classmethod, staticmethod)) else mo
                if inspect.isfunction(f) and (mn in ("_do", "do") or "random_state" in inspect.getsource(f)): found["%s.%s" % (nm, mn)] = f
    driven = {}
    for comp, (st, _run) in OPERATOR_COMPS.items():
        for n in st: driven.setdefault(n[len(_PA):], []).append(comp)
    problems = []
    for q in sorted(found):
        if q in OPERATOR_SKIPPED: continue
        own = [c for c in driven.get(q, []) if c[3:] == q or (q.endswith("._do") and c[3:] == q[:-4] + ".do")]
        if not own: problems.append("pymoo_addon.%s is handed random_state but no operator component drives it directly: add one (OPERATOR_COMPS) or a reason (OPERATOR_SKIPPED)" % q)
    for q in list(OPERATOR_SKIPPED) + sorted(driven):
        if q not in found: problems.append("pymoo_addon.%s is classified but does not exist / is not handed random_state any more (stale entry)" % q)
    if any(q.startswith("MutatorF.") for q in OPERATOR_SKIPPED):
        try: M.MutatorF(numpy.arange(4), 0.5)
        except TypeError: pass
        else: problems.append("pymoo_addon.MutatorF can be constructed now: drive it directly (remove it from OPERATOR_SKIPPED)")
    if problems: raise RuntimeError("operator audit: " + " || ".join(problems[:8]))
    return {"audit": "pymoo_addon functions handed random_state", "found": len(found), "driven_directly": sum(1 for q in found if q not in OPERATOR_SKIPPED),
            "skipped_with_reason": sorted(OPERATOR_SKIPPED), "components": len(OPERATOR_COMPS) + len(DIRECT_FN_COMPS)}

def translate(repo, gen_dir):
    import os
    import translate.c08_entropy as T
    scratch = os.path.join(os.path.dirname(os.path.dirname(gen_dir)), "build", "C08", "selftest")
    n = T.selftest(scratch)                      # the translator must flag every hidden-source idiom of a synthetic module
    tab, info = T.translate(repo, gen_dir, all_static_names())
    info["translator_selftest_assertions"] = n
    # kernel expressions of prng.seed / prng.spawn / the pymoo seeds (Gen/C08_Kernel.v); fail closed
    from translate import c08_kernel
    return [info, c08_kernel.translate(repo, gen_dir), audit_entry_points(), audit_operators()]
