"""C20 — the recurrent-selection loop: correspondence between Model/C20_Loop.v and
RecurrentSelectionBreedingProgram.{initialize,is_initialized,reset,advance,evolve} driven through the public
constructor with instrumented subclasses of the abstract operator / logbook classes, plus the independent predicate.

A case is a little heap (leaf lists, dicts key -> leaf, possibly shared), the five start_* containers (or None),
what the initialisation operator returns, a list of evolve(nrep, ngen, loginit) calls and one *program* per operator
and per logbook method.  A program is a list of actions of a tiny language interpreted here on real Python dicts/lists
(in-place mutation, aliasing, fresh containers, private operator memory, miscout, wrong return type, raising) and in
Model/C20_Loop.v on an explicit heap.  Object identities are observed as first-occurrence numbers."""
import copy
import coqemit as E

ID = "C20"
PROPS = "Props/C20.v"
IMPORTS = "From PV Require Import Lib.Common Model.C20_Loop."
SHARD = 12
LEVEL_TEXT = ("Coq theorems over an executable heap model (locations, dicts key->leaf, sharing, copy.deepcopy with memo) of "
              "RecurrentSelectionBreedingProgram.evolve/advance/reset/initialize with operators and logbook as ARBITRARY heap "
              "transformers: for all replicate/generation counts, all states and all operators the call trace is a prefix of - and, "
              "when operators return five dicts and nothing raises, exactly - the per-replicate shape reset, evaluate@0, log_initialize?, "
              "then per generation g=1..ngen pselect,log,mate,log,evaluate,log,sselect,log @g with rep0+r in every log; every call "
              "receives the containers / mating configuration / miscout its predecessor left and the heap nobody touched in between; "
              "for all operators that only touch what they can reach from their arguments and private memory (in-place mutation, "
              "aliasing, fresh containers, remembering containers across replicates all allowed) no cell of the start state is ever "
              "written, and every replicate's first evaluation sees containers on locations that did not exist when the replicate was "
              "entered, with contents equal to - and inner sharing identical to - the initial start state; every program of the action "
              "language used by the correspondence is proved to be such an operator.  The model is tied to the code by evaluating it "
              "inside Coq against traces (operator, t_cur, t_max, rep, identities and contents of every argument, miscout) recorded by "
              "instrumented operator/logbook subclasses passed through the public constructor, incl. error paths (wrong return type, "
              "raising operator/logbook, miscout keys colliding with parameter names, missing start containers).")
LEVEL_NOTE = ("trusted: Coq kernel + vm_compute; the action-language interpreter in this module (Python side of the operator "
              "programs) and its Gallina twin; copy.deepcopy modelled for dict -> list-of-int containers (two levels, memo per call); "
              "theorems are about the Gallina model, the tie to the code is differential on generated (heap, programs, calls) cases")
TECHNIQUE = "Coq proof over an executable heap/trace model of the loop; in-Coq vm_compute correspondence with instrumented runs"
RULE = ("case = (leaf lists, dicts with possibly shared leaves, start_* slots or None, initop result, t_max, rep0, "
        "[evolve(nrep, ngen, loginit)...], action program per operator and per logbook method); one PRNG: ~170 systematic corners "
        "(each start slot missing, each initop slot missing, in-place mutation of each container across two replicates, wrong return "
        "type in every slot of every operator, raising operator/logbook method, every miscout key colliding with a parameter name, "
        "mating configuration aliased/remembered), a sweep of nrep,ngen in -1..3 x loginit with random programs, and random cases incl. "
        "uninitialised/partially initialised programmes, the same dict in several start slots, two evolve calls, error-raising programs; "
        "non-trivial = some call with nrep >= 2 and ngen >= 1, at least one in-place-mutating action, no error; distinct by SHA-256")
TRUSTED = ["the Python interpreter of the action language (harness/props/c20.py:_run_prog) is the twin of Model/C20_Loop.v:act",
           "copy.deepcopy on dict-of-list containers: fresh dict, fresh leaves, sharing inside one container preserved (memo), "
           "sharing across the five containers lost (five separate deepcopy calls) - mirrored by the model",
           "object identity observed through id() of objects kept alive for the whole run, canonicalised to first-occurrence numbers"]
ASSUMPTIONS = ["state containers are dicts whose values are mutable lists of ints (two-level heap); deeper object graphs are not modelled",
               "operators reach the programme state only through their arguments and their own private memory, which is disjoint "
               "from the start containers when evolve is entered (an operator holding a reference to start_* can of course modify it)"]

NSLOT = 5
NSTASH = 3
MISC_NAMES = ["m0", "m1", "t_cur", "mcfg", "genome"]
TAGS = {"initialize": 0, "evaluate": 1, "pselect": 2, "mate": 3, "sselect": 4,
        "log_initialize": 10, "log_evaluate": 11, "log_pselect": 12, "log_mate": 13, "log_sselect": 14}
TAGNAME = {v: k for k, v in TAGS.items()}
OPS = ["psel", "mate", "eval", "ssel"]
LOGS = ["init", "psel", "mate", "eval", "ssel"]
MUTATING = ("set", "sett", "app", "appt", "del", "share")

def _key(k): return "k%d" % k

# ------------------------------------------------------------------ implementation driver
class _Bad(list):
    """a non-dict value returned in place of a container"""

class _Ctx:
    def __init__(self):
        self.ids = {}; self.keep = []; self.trace = []; self.stash = [None] * NSTASH
    def num(self, o):
        if not isinstance(o, (dict, list)) or isinstance(o, _Bad): return -1
        i = self.ids.get(id(o))
        if i is None:
            i = len(self.keep); self.ids[id(o)] = i; self.keep.append(o)
        return i
    def snap(self, roots):
        """identities and contents of a list of containers, at this instant"""
        rs, dat = [], []
        for d in roots:
            rs.append(self.num(d))
            row = []
            if isinstance(d, dict):
                for k, v in d.items():
                    kk = int(k[1:]) if isinstance(k, str) and k[:1] == "k" and k[1:].isdigit() else -1
                    row.append([kk, self.num(v), [int(x) for x in v] if isinstance(v, list) else [-999]])
            dat.append(row)
        return rs, dat

def _run_prog(ctx, prog, env, t_cur, misc):
    """the action language on real Python objects; env = list of 6 slots (dict | None | _Bad)"""
    isd = lambda x: isinstance(x, dict)
    for a in prog:
        op = a[0]
        if op == "set":
            if isd(env[a[1]]): env[a[1]][_key(a[2])] = list(a[3])
        elif op == "sett":
            if isd(env[a[1]]): env[a[1]][_key(a[2])] = [t_cur]
        elif op == "app":
            if isd(env[a[1]]) and _key(a[2]) in env[a[1]]: env[a[1]][_key(a[2])].append(a[3])
        elif op == "appt":
            if isd(env[a[1]]) and _key(a[2]) in env[a[1]]: env[a[1]][_key(a[2])].append(t_cur)
        elif op == "del":
            if isd(env[a[1]]): env[a[1]].pop(_key(a[2]), None)
        elif op == "share":
            if isd(env[a[1]]) and isd(env[a[3]]) and _key(a[4]) in env[a[3]]:
                env[a[1]][_key(a[2])] = env[a[3]][_key(a[4])]
        elif op == "new":
            if isd(env[a[1]]): env[a[1]] = dict(env[a[1]])
        elif op == "deep":
            if isd(env[a[1]]): env[a[1]] = copy.deepcopy(env[a[1]])
        elif op == "move":
            if isd(env[a[2]]): env[a[1]] = env[a[2]]
        elif op == "stash":
            if isd(env[a[1]]): ctx.stash[a[2]] = env[a[1]]
        elif op == "unstash":
            if ctx.stash[a[2]] is not None: env[a[1]] = ctx.stash[a[2]]
        elif op == "misc":
            if misc is not None: misc[MISC_NAMES[a[1]]] = a[2]
        elif op == "bad":
            if a[1] < NSLOT: env[a[1]] = _Bad([0])
        elif op == "raise":
            raise RuntimeError("operator program raised")
        else:
            raise ValueError("unknown action %r" % (a,))

_CLASSES = None
_MISSING = object()
def _classes():
    global _CLASSES
    if _CLASSES is not None: return _CLASSES
    from pybrops.breed.op.init.InitializationOperator import InitializationOperator
    from pybrops.breed.op.psel.ParentSelectionOperator import ParentSelectionOperator
    from pybrops.breed.op.mate.MatingOperator import MatingOperator
    from pybrops.breed.op.eval.EvaluationOperator import EvaluationOperator
    from pybrops.breed.op.ssel.SurvivorSelectionOperator import SurvivorSelectionOperator
    from pybrops.breed.op.log.Logbook import Logbook

    def opcall(self, tag, roots, t_cur, t_max, miscout, with_mcfg_in, with_mcfg_out):
        ctx = self.ctx
        rs, dat = ctx.snap(roots)
        ev = {"tag": tag, "t": t_cur, "tm": t_max, "rep": None, "roots": rs, "dat": dat,
              "misc": [[-2, 0]] if not isinstance(miscout, dict) else
                      [[MISC_NAMES.index(k) if k in MISC_NAMES else -1, v] for k, v in miscout.items()]}   # must arrive empty
        ctx.trace.append(ev)
        env = list(roots[:NSLOT]) + [roots[NSLOT] if with_mcfg_in else ({} if with_mcfg_out else None)]
        _run_prog(ctx, self.prog, env, t_cur, miscout)
        ret = env[:NSLOT]
        rr, rd = ctx.snap(ret + ([env[NSLOT]] if with_mcfg_out else []))
        ev["ret"] = {"roots": rr, "dat": rd, "misc": [[MISC_NAMES.index(k) if k in MISC_NAMES else -1, v] for k, v in (miscout or {}).items()]}
        return (env[NSLOT],) + tuple(ret) if with_mcfg_out else tuple(ret)

    def initcall(self, miscout):
        # what the programme passes for the interface's `miscout` parameter: None -> [], nothing at all -> [[-3, 0]]
        got = [] if miscout is None else ([[-3, 0]] if miscout is _MISSING else [[-2, 0]])
        self.ctx.trace.append({"tag": TAGS["initialize"], "t": 0, "tm": 0, "rep": None, "roots": [], "dat": [], "misc": got,
                               "ret": {"roots": [], "dat": [], "misc": []}})
        return tuple(self.result)
    class Init(InitializationOperator):
        """gives miscout a default (so it also works when the argument is omitted; the omission is recorded)"""
        def __init__(self, ctx, result): self.ctx = ctx; self.result = result
        def initialize(self, miscout=_MISSING, **kwargs): return initcall(self, miscout)
    class InitStrict(InitializationOperator):
        """follows the abstract signature literally: miscout is a required parameter"""
        def __init__(self, ctx, result): self.ctx = ctx; self.result = result
        def initialize(self, miscout, **kwargs): return initcall(self, miscout)
    class PSel(ParentSelectionOperator):
        def __init__(self, ctx, prog): self.ctx = ctx; self.prog = prog
        def pselect(self, genome, geno, pheno, bval, gmod, t_cur, t_max, miscout, **kwargs):
            return opcall(self, TAGS["pselect"], [genome, geno, pheno, bval, gmod], t_cur, t_max, miscout, False, True)
    class Mate(MatingOperator):
        def __init__(self, ctx, prog): self.ctx = ctx; self.prog = prog
        def mate(self, mcfg, genome, geno, pheno, bval, gmod, t_cur, t_max, miscout, **kwargs):
            return opcall(self, TAGS["mate"], [genome, geno, pheno, bval, gmod, mcfg], t_cur, t_max, miscout, True, False)
    class Eval(EvaluationOperator):
        def __init__(self, ctx, prog): self.ctx = ctx; self.prog = prog
        def evaluate(self, genome, geno, pheno, bval, gmod, t_cur, t_max, miscout, **kwargs):
            return opcall(self, TAGS["evaluate"], [genome, geno, pheno, bval, gmod], t_cur, t_max, miscout, False, False)
    class SSel(SurvivorSelectionOperator):
        def __init__(self, ctx, prog): self.ctx = ctx; self.prog = prog
        def sselect(self, genome, geno, pheno, bval, gmod, t_cur, t_max, miscout, **kwargs):
            return opcall(self, TAGS["sselect"], [genome, geno, pheno, bval, gmod], t_cur, t_max, miscout, False, False)

    class Book(Logbook):
        def __init__(self, ctx, progs, rep0): self.ctx = ctx; self.progs = progs; self._rep = rep0; self._data = {}
        @property
        def data(self): return self._data
        @data.setter
        def data(self, value): self._data = value
        @property
        def rep(self): return self._rep
        @rep.setter
        def rep(self, value): self._rep = value
        def _log(self, name, roots, t_cur, t_max, kwargs):
            ctx = self.ctx
            rs, dat = ctx.snap(roots)
            ctx.trace.append({"tag": TAGS["log_" + {"init": "initialize", "psel": "pselect", "mate": "mate", "eval": "evaluate", "ssel": "sselect"}[name]],
                              "t": t_cur, "tm": t_max, "rep": self._rep, "roots": rs, "dat": dat,
                              "misc": [[MISC_NAMES.index(k) if k in MISC_NAMES else -1, v] for k, v in kwargs.items()]})
            ev = ctx.trace[-1]
            env = list(roots[:NSLOT]) + [roots[NSLOT] if len(roots) > NSLOT else None]
            try:
                _run_prog(ctx, self.progs[name], env, t_cur, None)
            finally:
                rr, rd = ctx.snap(roots)
                ev["ret"] = {"roots": rr, "dat": rd, "misc": []}
        def log_initialize(self, genome, geno, pheno, bval, gmod, t_cur, t_max, **kwargs):
            self._log("init", [genome, geno, pheno, bval, gmod], t_cur, t_max, kwargs)
        def log_pselect(self, mcfg, genome, geno, pheno, bval, gmod, t_cur, t_max, **kwargs):
            self._log("psel", [genome, geno, pheno, bval, gmod, mcfg], t_cur, t_max, kwargs)
        def log_mate(self, mcfg, genome, geno, pheno, bval, gmod, t_cur, t_max, **kwargs):
            self._log("mate", [genome, geno, pheno, bval, gmod, mcfg], t_cur, t_max, kwargs)
        def log_evaluate(self, genome, geno, pheno, bval, gmod, t_cur, t_max, **kwargs):
            self._log("eval", [genome, geno, pheno, bval, gmod], t_cur, t_max, kwargs)
        def log_sselect(self, genome, geno, pheno, bval, gmod, t_cur, t_max, **kwargs):
            self._log("ssel", [genome, geno, pheno, bval, gmod], t_cur, t_max, kwargs)
        def reset(self): self._data = {}; self._rep = 0
        def write(self, filename): pass
    _CLASSES = (Init, InitStrict, PSel, Mate, Eval, SSel, Book)
    return _CLASSES

def _build_heap(case, ctx):
    leaves = [list(x) for x in case["leaves"]]
    dicts = [{_key(k): leaves[li] for k, li in d} for d in case["dicts"]]
    for o in leaves: ctx.num(o)
    for o in dicts: ctx.num(o)
    return leaves, dicts

def run_impl(case):
    from pybrops.breed.arch.RecurrentSelectionBreedingProgram import RecurrentSelectionBreedingProgram
    Init, InitStrict, PSel, Mate, Eval, SSel, Book = _classes()
    ctx = _Ctx()
    leaves, dicts = _build_heap(case, ctx)
    pick = lambda i: None if i is None else dicts[i]
    start = [pick(i) for i in case["start"]]
    initres = [pick(i) for i in case["init"]]
    snapshot0 = copy.deepcopy(dicts)
    initop = (InitStrict if case.get("init_strict") else Init)(ctx, initres)
    prog = RecurrentSelectionBreedingProgram(
        initop=initop, pselop=PSel(ctx, case["ops"]["psel"]), mateop=Mate(ctx, case["ops"]["mate"]),
        evalop=Eval(ctx, case["ops"]["eval"]), sselop=SSel(ctx, case["ops"]["ssel"]), t_max=case["t_max"],
        start_genome=start[0], start_geno=start[1], start_pheno=start[2], start_bval=start[3], start_gmod=start[4])
    book = Book(ctx, case["logs"], case["rep0"])
    err = None
    ncalls_done = 0
    try:
        for nrep, ngen, loginit in case["calls"]:
            prog.evolve(nrep, ngen, book, loginit=bool(loginit))
            ncalls_done += 1
    except Exception as e:                                   # an escaping exception is an observable; the trace so far is kept
        err = {"type": type(e).__name__, "msg": str(e)[:200]}
    st = [prog.start_genome, prog.start_geno, prog.start_pheno, prog.start_bval, prog.start_gmod]
    wk = [getattr(prog, "_" + n, None) for n in ("genome", "geno", "pheno", "bval", "gmod")]
    s_present = [x is not None for x in st]
    w_present = [x is not None for x in wk]
    s_roots, s_dat = ctx.snap([x for x in st if x is not None])
    w_roots, w_dat = ctx.snap([x for x in wk if x is not None])
    # the objects the caller handed over, re-inspected after the run
    same = [bool(dicts[i] == snapshot0[i]) for i in range(len(dicts))]
    return {"trace": ctx.trace, "err": err, "calls_done": ncalls_done,
            "start": {"present": s_present, "roots": s_roots, "dat": s_dat},
            "work": {"present": w_present, "roots": w_roots, "dat": w_dat},
            "t_cur": prog.t_cur, "rep": book.rep, "t_max": prog.t_max,
            "given_unchanged": same, "n_initial_objects": len(leaves) + len(dicts)}

# ------------------------------------------------------------------ Coq emission
def _act(a):
    Z, N = E.z, E.nat
    op = a[0]
    if op == "set": return "ASet %s %s %s" % (N(a[1]), Z(a[2]), E.lst(a[3], Z))
    if op == "sett": return "ASetT %s %s" % (N(a[1]), Z(a[2]))
    if op == "app": return "AApp %s %s %s" % (N(a[1]), Z(a[2]), Z(a[3]))
    if op == "appt": return "AAppT %s %s" % (N(a[1]), Z(a[2]))
    if op == "del": return "ADel %s %s" % (N(a[1]), Z(a[2]))
    if op == "share": return "AShare %s %s %s %s" % (N(a[1]), Z(a[2]), N(a[3]), Z(a[4]))
    if op == "new": return "ANew %s" % N(a[1])
    if op == "deep": return "ADeep %s" % N(a[1])
    if op == "move": return "AMove %s %s" % (N(a[1]), N(a[2]))
    if op == "stash": return "AStash %s %s" % (N(a[1]), N(a[2]))
    if op == "unstash": return "AUnstash %s %s" % (N(a[1]), N(a[2]))
    if op == "misc": return "AMisc %s %s" % (Z(a[1]), Z(a[2]))
    if op == "bad": return "ABad %s" % N(a[1])
    if op == "raise": return "ARaise"
    raise ValueError(a)

def _oev(tag, ints, roots, dat, misc):
    locs = list(roots) + [x[1] for d in dat for x in d]
    return E.tup(E.z(tag), E.lst(ints, E.z), E.lst(locs, E.nat),
                 E.lst(dat, lambda d: E.lst(d, lambda x: E.pair(E.z(x[0]), E.lst(x[2], E.z)))),
                 E.lst(misc, lambda kv: E.pair(E.z(kv[0]), E.z(kv[1]))))

def emit_case(case, out):
    if "exc" in out:
        return "false"
    prog = lambda p: E.lst(p, _act)
    g = "(mkProgs %s)" % " ".join(["\n      " + prog(case["ops"][k]) for k in OPS] + ["\n      " + prog(case["logs"][k]) for k in LOGS])
    calls = E.lst(case["calls"], lambda c: E.tup(E.z(c[0]), E.z(c[1]), E.b(c[2])))
    model = "(run_case %s %s %s %s %s %s %s %s\n    %s)" % (
        E.lst2(case["leaves"], E.z), E.lst(case["dicts"], lambda d: E.lst(d, lambda kv: E.pair(E.z(kv[0]), E.nat(kv[1])))),
        E.lst(case["start"], lambda x: E.opt(x, E.nat)), E.lst(case["init"], lambda x: E.opt(x, E.nat)),
        E.b(case.get("init_strict", False)), E.z(case["t_max"]), E.z(case["rep0"]), calls, g)
    evs = E.lst(out["trace"], lambda e: "\n    " + _oev(e["tag"], [e["t"], e["tm"], e["rep"] if e["rep"] is not None else 0],
                                                        e["roots"], e["dat"], e["misc"]))
    fin = lambda tag, f: _oev(tag, [1 if b else 0 for b in f["present"]], f["roots"], f["dat"], [])
    return "agree %s\n   %s %s\n   %s\n   %s\n   %s %s %s" % (
        model, E.nat(out["n_initial_objects"]), evs, fin(100, out["start"]), fin(101, out["work"]),
        E.b(out["err"] is not None), E.z(out["t_cur"]), E.z(out["rep"]))

# ------------------------------------------------------------------ the property, directly on the recorded run
def _actions(case):
    for k in OPS:
        for a in case["ops"][k]: yield ("op", k, a)
    for k in LOGS:
        for a in case["logs"][k]: yield ("log", k, a)

def _uninitialised(case):
    return any(x is None for x in case["start"])

def _clean(case):
    """no feature that is *supposed* to make the run fail: operators return dicts and do not raise, miscout keys are not
    parameter names of the log calls, the programme can be initialised"""
    for kind, k, a in _actions(case):
        if a[0] in ("bad", "raise"): return False
        if kind == "op" and a[0] == "misc" and MISC_NAMES[a[1]] in ("t_cur", "mcfg", "genome"): return False
    if _uninitialised(case) and any(x is None for x in case["init"]): return False
    return True

def _expected_sig(case):
    """the ideal call sequence (tag, t_cur, rep or None) of the whole case"""
    exp = []
    rep = case["rep0"]
    inited = not _uninitialised(case)
    for nrep, ngen, li in case["calls"]:
        if not inited:
            exp.append((TAGS["initialize"], 0, None))
            inited = all(x is not None for x in case["init"])
        for _ in range(max(nrep, 0)):
            rep += 1
            exp.append((TAGS["evaluate"], 0, None))
            if li: exp.append((TAGS["log_initialize"], 0, rep))
            for g in range(1, max(ngen, 0) + 1):
                for nm in ("pselect", "mate", "evaluate", "sselect"):
                    exp.append((TAGS[nm], g, None)); exp.append((TAGS["log_" + nm], g, rep))
    return exp, rep

def _contents(case, di):
    return [[k, list(case["leaves"][li])] for k, li in case["dicts"][di]]

def pred(case, out):
    if "exc" in out:
        return ["harness/implementation raised outside evolve: %s: %s" % (out["exc"], out["msg"])]
    bad = []
    tr = out["trace"]
    nl = len(case["leaves"])
    clean = _clean(case)
    # ---- call order, time index, replicate counter
    exp, rep_end = _expected_sig(case)
    got = [(e["tag"], e["t"], e["rep"]) for e in tr if e["tag"] != TAGS["initialize"]] if False else \
          [(e["tag"], 0 if e["tag"] == TAGS["initialize"] else e["t"], e["rep"]) for e in tr]
    for i, g in enumerate(got):
        if i >= len(exp):
            bad.append("call %d: %s@%s is beyond the expected %d calls" % (i, TAGNAME.get(g[0], g[0]), g[1], len(exp))); break
        if g != exp[i]:
            bad.append("call %d is %s(t_cur=%s, rep=%s), expected %s(t_cur=%s, rep=%s)" % (
                i, TAGNAME.get(g[0], g[0]), g[1], g[2], TAGNAME[exp[i][0]], exp[i][1], exp[i][2])); break
    if out["err"] is None and len(got) < len(exp):
        bad.append("run ended after %d calls, expected %d (next expected: %s@%s)" % (len(got), len(exp), TAGNAME[exp[len(got)][0]], exp[len(got)][1]))
    if out["err"] is not None and clean:
        bad.append("evolve raised %s: %s" % (out["err"]["type"], out["err"]["msg"]))
    for e in tr:
        if e["tag"] != TAGS["initialize"] and e["tm"] != case["t_max"]:
            bad.append("t_max passed as %r, constructor got %r" % (e["tm"], case["t_max"])); break
    # ---- every call receives what its predecessor returned; replicates start fresh and equal to the start state
    src = case["start"] if not _uninitialised(case) else case["init"]
    seen = set(range(out["n_initial_objects"]))
    last = None; mc = None; lastmisc = []
    for i, e in enumerate(tr):
        name = TAGNAME.get(e["tag"], "?")
        if name == "initialize":
            if e["misc"] != []:
                bad.append("call %d: initialize() was not handed miscout = None (interface parameter %s)" % (i, "omitted" if e["misc"] == [[-3, 0]] else "is not None"))
            continue
        ids_here = set(e["roots"]) | {x[1] for d in e["dat"] for x in d}
        if name == "evaluate" and e["t"] == 0:
            if len(e["roots"]) != NSLOT or any(r < 0 for r in e["roots"]):
                bad.append("call %d: replicate start received %r" % (i, e["roots"]))
            else:
                stale = sorted(ids_here & seen)
                if stale:
                    bad.append("call %d: replicate starts on objects already seen elsewhere (ids %s): not a fresh copy" % (i, stale[:4]))
                for c in range(NSLOT):
                    if src[c] is None: continue
                    want = _contents(case, src[c])
                    if [[x[0], x[2]] for x in e["dat"][c]] != want:
                        bad.append("call %d: replicate starts with container %d = %r, initial state is %r" % (
                            i, c, [[x[0], x[2]] for x in e["dat"][c]], want)); break
                    sl = [li for _, li in case["dicts"][src[c]]]
                    gl = [x[1] for x in e["dat"][c]]
                    if len(sl) == len(gl) and any((sl[a] == sl[b]) != (gl[a] == gl[b]) for a in range(len(sl)) for b in range(a)):
                        bad.append("call %d: sharing inside container %d differs from the start state" % (i, c))
        elif last is not None:
            if e["roots"][:NSLOT] != last["roots"][:NSLOT]:
                bad.append("call %d (%s): receives containers %r, predecessor returned %r" % (i, name, e["roots"][:NSLOT], last["roots"][:NSLOT]))
            elif e["dat"][:NSLOT] != last["dat"][:NSLOT]:
                bad.append("call %d (%s): container contents changed between the calls" % (i, name))
        if name in ("mate", "log_pselect", "log_mate"):
            if len(e["roots"]) != NSLOT + 1 or mc is None or e["roots"][NSLOT] != mc:
                bad.append("call %d (%s): mating configuration %r is not the one pselect returned (%r)" % (i, name, e["roots"][NSLOT:], mc))
        if not name.startswith("log_") and e["misc"] != []:
            bad.append("call %d (%s): miscout handed over is not a fresh empty dict: %r" % (i, name, e["misc"]))
        if name.startswith("log_") and e["misc"] != lastmisc:
            bad.append("call %d (%s): keyword arguments %r, operator's miscout was %r" % (i, name, e["misc"], lastmisc))
        seen |= ids_here
        r = e.get("ret")
        if r is not None:
            seen |= set(x for x in r["roots"] if x >= 0) | {x[1] for d in r["dat"] for x in d}
            last = r
            if name == "pselect" and len(r["roots"]) > NSLOT: mc = r["roots"][NSLOT]
            if not name.startswith("log_"): lastmisc = r["misc"]
        if len(bad) >= 6: break
    # ---- the stored initial state
    given = case["start"] if not _uninitialised(case) else (case["init"] if any(e["tag"] == TAGS["initialize"] for e in tr) else case["start"])
    if out["start"]["present"] != [x is not None for x in given]:
        bad.append("start_* presence %r, expected %r" % (out["start"]["present"], [x is not None for x in given]))
    else:
        gi = [x for x in given if x is not None]
        if out["start"]["roots"] != [nl + x for x in gi]:
            bad.append("start_* containers were replaced: ids %r, handed over %r" % (out["start"]["roots"], [nl + x for x in gi]))
        for j, di in enumerate(gi):
            if [[x[0], x[2]] for x in out["start"]["dat"][j]] != _contents(case, di):
                bad.append("stored start container %d was modified: %r, initially %r" % (j, [[x[0], x[2]] for x in out["start"]["dat"][j]], _contents(case, di)))
                break
    if out["err"] is None and last is not None and all(out["work"]["present"]) and out["work"]["roots"] != last["roots"][:NSLOT]:
        bad.append("programme ends holding containers %r, the last operator returned %r" % (out["work"]["roots"], last["roots"][:NSLOT]))
    if not all(out["given_unchanged"]):
        bad.append("an object handed to the constructor/initialiser was modified in place")
    if out["t_max"] != case["t_max"]: bad.append("t_max changed")
    if out["err"] is None:
        if out["rep"] != rep_end: bad.append("logbook rep ends at %r, expected %r" % (out["rep"], rep_end))
        lastc = [c for c in case["calls"] if c[0] > 0]
        if lastc and out["t_cur"] != 1 + max(lastc[-1][1], 0):
            bad.append("t_cur ends at %r, expected %r" % (out["t_cur"], 1 + max(lastc[-1][1], 0)))
    seen_b = []
    for b in bad:
        if b not in seen_b: seen_b.append(b)
    return seen_b[:8]

def classify(case, out, clauses):
    return None            # no open finding: C20-initialize-miscout was repaired in /repo (b17284d4) and is re-executed as a fixed entry

def nontrivial(case, out):
    if "exc" in out or out["err"] is not None: return False
    big = any(c[0] >= 2 and c[1] >= 1 for c in case["calls"])
    mut = any(a[0] in MUTATING for _, _, a in _actions(case))
    return big and mut

def describe(case, out):
    kinds = sorted({a[0] for _, _, a in _actions(case)})
    return {"nrep": str([c[0] for c in case["calls"]]), "ngen": str([c[1] for c in case["calls"]]),
            "loginit": str([c[2] for c in case["calls"]]), "ncalls": len(case["calls"]),
            "initialised": "given" if not _uninitialised(case) else ("strict-initop" if case.get("init_strict") else
                           ("initop" if all(x is not None for x in case["init"]) else "initop-incomplete")),
            "aliased_start": len(set(x for x in case["start"] if x is not None)) < sum(x is not None for x in case["start"]),
            "mutating": any(k in MUTATING for k in kinds), "stash": "unstash" in kinds, "error_feature": not _clean(case),
            "raised": None if "exc" in out else (out["err"] or {}).get("type"),
            "events": "exc" if "exc" in out else min(len(out["trace"]) // 10 * 10, 100)}

def shrink(case, fails):
    """drop evolve calls, then actions, then shorten counts while the predicate still fails"""
    cur = copy.deepcopy(case)
    while len(cur["calls"]) > 1:
        t = copy.deepcopy(cur); t["calls"] = t["calls"][:-1]
        if fails(t): cur = t
        else: break
    for grp, names in (("ops", OPS), ("logs", LOGS)):
        for k in names:
            j = 0
            while j < len(cur[grp][k]):
                t = copy.deepcopy(cur); del t[grp][k][j]
                if fails(t): cur = t
                else: j += 1
    for ci in range(len(cur["calls"])):
        for pos in (0, 1):
            while cur["calls"][ci][pos] > 0:
                t = copy.deepcopy(cur); t["calls"][ci][pos] -= 1
                if fails(t): cur = t
                else: break
    return cur

# ------------------------------------------------------------------ generator
def _rand_action(rng, is_log, err_ok):
    c = rng.choice([0, 0, 1, 1, 2, 3, 4, 5])
    k = rng.randrange(3)
    r = rng.random()
    if r < 0.14: return ["set", c, k, [rng.randint(-3, 9) for _ in range(rng.randint(0, 2))]]
    if r < 0.22: return ["sett", c, k]
    if r < 0.38: return ["app", c, k, rng.randint(-3, 9)]
    if r < 0.48: return ["appt", c, k]
    if r < 0.54: return ["del", c, k]
    if r < 0.62: return ["share", c, k, rng.choice([0, 1, 2, 3, 4, 5]), rng.randrange(3)]
    if r < 0.68: return ["new", c]
    if r < 0.72: return ["deep", c]
    if r < 0.78: return ["move", c, rng.choice([0, 1, 2, 3, 4, 5])]
    if r < 0.85: return ["stash", c, rng.randrange(NSTASH)]
    if r < 0.92: return ["unstash", c, rng.randrange(NSTASH)]
    if r < 0.97 or not err_ok:
        return ["misc", rng.choice([0, 0, 1, 1] + ([2, 3, 4] if err_ok else [])), rng.randint(0, 9)]
    return rng.choice([["bad", rng.randrange(NSLOT)], ["raise"]])

def _rand_prog(rng, is_log, err_ok, maxlen=4):
    return [_rand_action(rng, is_log, err_ok) for _ in range(rng.choice([0, 1, 1, 2, 2, 3, maxlen]))]

def _rand_heap(rng, rich=True):
    nleaf = rng.randint(1, 5) if rich else rng.randint(0, 2)
    leaves = [[rng.randint(-3, 9) for _ in range(rng.randint(0, 3))] for _ in range(nleaf)]
    ndict = rng.choice([5, 5, 6, 7])
    dicts = []
    for _ in range(ndict):
        keys = rng.sample([0, 1, 2], rng.randint(0, 3) if nleaf else 0)
        dicts.append([[k, rng.randrange(nleaf)] for k in keys])
    return leaves, dicts

def _rand_case(rng, calls, err_ok, init_mode=None):
    leaves, dicts = _rand_heap(rng)
    nd = len(dicts)
    def five():
        r = rng.random()
        if r < 0.7: return rng.sample(range(nd), 5)
        return [rng.randrange(nd) for _ in range(5)]          # the same dict object in several slots
    start = five(); init = five()
    mode = init_mode or rng.choices(["given", "none", "partial", "init_hole", "strict"], [60, 18, 10, 6 if err_ok else 0, 6])[0]
    strict = False
    if mode == "none": start = [None] * 5
    elif mode == "partial":
        for j in rng.sample(range(5), rng.randint(1, 4)): start[j] = None
    elif mode == "init_hole":
        start = [None] * 5 if rng.random() < 0.5 else [None if rng.random() < 0.5 else x for x in start]
        if all(x is not None for x in start): start[rng.randrange(5)] = None
        init[rng.randrange(5)] = None
    elif mode == "strict":
        strict = True
        if rng.random() < 0.7: start = [None if rng.random() < 0.6 else x for x in start]
        if rng.random() < 0.3: start = [None] * 5
    case = {"leaves": leaves, "dicts": dicts, "start": start, "init": init, "init_strict": strict,
            "t_max": rng.randint(0, 9), "rep0": rng.choice([0, 0, 0, 3, -2]), "calls": calls,
            "ops": {k: _rand_prog(rng, False, err_ok) for k in OPS},
            "logs": {k: _rand_prog(rng, True, err_ok, 3) if rng.random() < 0.5 else [] for k in LOGS}}
    return case

def _base():
    return {"leaves": [[1, 2], [3], [], [4]], "dicts": [[[0, 0], [1, 1]], [[0, 1], [1, 0]], [[0, 2], [1, 3]], [[0, 3], [1, 3]], [[0, 0], [1, 2]], [[0, 1]]],
            "start": [0, 1, 2, 3, 4], "init": [1, 2, 3, 4, 5], "init_strict": False, "t_max": 4, "rep0": 0, "calls": [[1, 1, 1]],
            "ops": {k: [] for k in OPS}, "logs": {k: [] for k in LOGS}}

def _systematic():
    """corners named in the property's quantifier, one by one"""
    out = []
    for j in range(NSLOT):                      # every conjunct of is_initialized; every slot of initialize's result
        c = _base(); c["start"][j] = None; out.append(c)
        c = _base(); c["start"] = [None] * NSLOT; c["init"][j] = None; out.append(c)
        c = _base(); c["start"] = [None] * NSLOT; c["init"][j] = None; c["calls"] = [[0, 1, 1], [1, 0, 0]]; out.append(c)
    c = _base(); c["init_strict"] = True; out.append(c)                         # initialised: initop never called
    for st in ([None] * NSLOT, [0, None, 2, 3, 4]):                             # interface-conforming initop (required miscout)
        c = _base(); c["init_strict"] = True; c["start"] = list(st); c["calls"] = [[2, 1, 1]]; out.append(c)
    c = _base(); c["start"] = [None] * NSLOT; c["calls"] = [[0, 0, 1], [2, 1, 1]]; out.append(c)   # initialised by the first call only
    for j in range(NSLOT):                      # each container separately: in-place leaf / dict mutation across replicates
        for act in (["app", j, 0, 9], ["set", j, 2, [5]], ["del", j, 1], ["appt", j, 1]):
            for where in ("eval", "ssel"):
                c = _base(); c["calls"] = [[2, 1, 0]]; c["ops"][where] = [act]; out.append(c)
        c = _base(); c["calls"] = [[2, 0, 1]]; c["logs"]["init"] = [["app", j, 1, 6]]; out.append(c)
    for k in OPS:                               # wrong return type in every slot, raising operator / logbook
        for j in range(NSLOT):
            c = _base(); c["calls"] = [[2, 2, 1]]; c["ops"][k] = [["app", 0, 0, 1], ["bad", j]]; out.append(c)
        c = _base(); c["calls"] = [[1, 2, 1]]; c["ops"][k] = [["app", 1, 0, 1], ["raise"], ["app", 1, 0, 2]]; out.append(c)
        for mk in (2, 3, 4):                    # miscout keys that are parameter names of the log call
            for li in (0, 1):
                c = _base(); c["calls"] = [[1, 1, li]]; c["ops"][k] = [["misc", 0, 7], ["misc", mk, 1]]; out.append(c)
    for k in LOGS:
        c = _base(); c["calls"] = [[1, 2, 1]]; c["logs"][k] = [["app", 2, 0, 1], ["raise"]]; out.append(c)
    # the mating configuration: built by pselect, mutated by log_pselect and mate, remembered, aliased with a container
    c = _base(); c["calls"] = [[2, 2, 1]]
    c["ops"]["psel"] = [["set", 5, 0, [1]], ["share", 5, 1, 0, 0], ["stash", 5, 0], ["misc", 0, 3], ["misc", 1, 4], ["misc", 0, 5]]
    c["logs"]["psel"] = [["app", 5, 0, 2]]; c["ops"]["mate"] = [["app", 5, 1, 8], ["move", 1, 5], ["misc", 1, 1]]
    c["ops"]["ssel"] = [["unstash", 3, 0], ["sett", 3, 2]]; out.append(c)
    return out

def gen_cases(rng, tier):
    cases = _systematic()
    # sweep of the loop counts with clean (error-free) programs
    for nrep in (-1, 0, 1, 2, 3):
        for ngen in (-1, 0, 1, 2, 3):
            for li in (0, 1):
                if tier == "quick" and (nrep, ngen) in ((-1, -1), (-1, 2), (-1, 3), (0, -1), (0, 3), (3, 3)) and li == 0: continue
                cases.append(_rand_case(rng, [[nrep, ngen, li]], False, init_mode=rng.choice(["given", "given", "none", "partial"])))
    # fixed corner: pure operators, shared leaves inside and across start containers, same dict in two slots
    pure = {"leaves": [[1, 2], [3], []], "dicts": [[[0, 0], [1, 0], [2, 1]], [[0, 0]], [[1, 2]], [], [[2, 1]]],
            "start": [0, 1, 0, 3, 4], "init": [0, 1, 2, 3, 4], "init_strict": False, "t_max": 5, "rep0": 0, "calls": [[2, 2, 1]],
            "ops": {k: [] for k in OPS}, "logs": {k: [] for k in LOGS}}
    cases.append(pure)
    mut = copy.deepcopy(pure)
    mut["ops"] = {"psel": [["app", 0, 0, 7], ["set", 5, 0, [1]], ["misc", 0, 1]], "mate": [["appt", 1, 0], ["del", 0, 2], ["app", 5, 0, 2]],
                  "eval": [["sett", 3, 1], ["app", 2, 1, 5], ["stash", 0, 0]], "ssel": [["new", 0], ["share", 4, 0, 0, 0], ["unstash", 2, 0]]}
    mut["logs"] = {"init": [["app", 0, 1, 8]], "psel": [["app", 5, 0, 3]], "mate": [], "eval": [["appt", 4, 2]], "ssel": [["del", 1, 0]]}
    cases.append(mut)
    n_rand = 110 if tier == "quick" else 3000
    for _ in range(n_rand):
        ncalls = rng.choice([1, 1, 1, 2])
        calls = [[rng.choice([0, 1, 2, 2, 3]), rng.choice([0, 1, 1, 2, 3]), rng.randint(0, 1)] for _ in range(ncalls)]
        cases.append(_rand_case(rng, calls, rng.random() < 0.35))
    return cases


def translate(repo, gen_dir):
    """regenerate Gen/C20_Program.v: the bodies of reset/is_initialized/initialize/advance/evolve translated statement by
    statement into the model's combinators (fail closed); Proofs/C20_Program.v ties it to the hand model by reflexivity"""
    from translate import c20_program
    return [c20_program.translate(repo, gen_dir)]
