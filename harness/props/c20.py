"""C20 — the recurrent-selection loop: correspondence between Model/C20_Loop.v and
RecurrentSelectionBreedingProgram.{initialize,is_initialized,reset,advance,evolve} driven through the public
constructor with instrumented subclasses of the abstract operator / logbook classes, plus the independent predicate.

A case is a little heap (leaf lists, dicts key -> leaf, possibly shared), the five start_* containers (or None),
what the initialisation operator returns, a list of evolve(nrep, ngen, loginit) calls and one *program* per operator
and per logbook method.  A program is a list of actions of a tiny language interpreted here on real Python dicts/lists
(in-place mutation, aliasing, fresh containers, private operator memory, miscout, wrong return type, raising) and in
Model/C20_Loop.v on an explicit heap.  Object identities are observed as first-occurrence numbers."""
import copy
import coqemit as E

ID = "C20"
PROPS = "Props/C20.v"
IMPORTS = "From PV Require Import Lib.Common Model.C20_Loop Model.C20_Session."
SHARD = 12
LEVEL_TEXT = ("Coq theorems over an executable heap model (locations, dicts key->leaf, sharing, copy.deepcopy with memo) of "
              "RecurrentSelectionBreedingProgram.evolve/advance/reset/initialize with operators and logbook as ARBITRARY heap "
              "transformers: for all replicate/generation counts, all states and all operators the call trace is a prefix of - and, "
              "when operators return five dicts and nothing raises, exactly - the per-replicate shape reset, evaluate@0, log_initialize?, "
              "then per generation g=1..ngen pselect,log,mate,log,evaluate,log,sselect,log @g with rep0+r in every log; every call "
              "receives the containers / mating configuration / miscout its predecessor left and the heap nobody touched in between; "
              "for all operators that only touch what they can reach from their arguments and private memory (in-place mutation, "
              "aliasing, fresh containers, remembering containers across replicates all allowed) no cell of the start state is ever "
              "written, and every replicate's first evaluation sees containers on locations that did not exist when the replicate was "
              "entered, with contents equal to - and inner sharing identical to - the initial start state; every program of the action "
              "language used by the correspondence is proved to be such an operator.  The model is tied to the code by evaluating it "
              "inside Coq against traces (operator, t_cur, t_max, rep, identities and contents of every argument, miscout) recorded by "
              "instrumented operator/logbook subclasses passed through the public constructor, incl. error paths (wrong return type, "
              "raising operator/logbook, miscout keys colliding with parameter names, missing start containers).  "
              "Phase 2: SESSIONS - one programme object driven by sequences of evolve / advance / reset / initialize / is_initialized, "
              "every property setter (start_*, working containers, t_cur, t_max, the four operators, the initialisation operator), a new "
              "logbook, copy.copy and copy.deepcopy of the programme, continuing on the state a raising command left - are modelled "
              "(Model/C20_Session.v) and compared in Coq event by event with a marker (succeeded?, t_cur, rep) after every command; "
              "theorems: across any such session of evolve calls / clock and t_max setters / operator and logbook replacement / shallow "
              "copies the start state is never written and every replicate starts fresh and equal to it, advance from any clock value "
              "makes the eight calls per generation at t, t+1, .., sessions compose.  The ATTRIBUTE LAYER (getter, setter and type check of "
              "each of the 17 properties, the constructor's assignments, the operator type guards) is regenerated from the source on every "
              "run (Gen/C20_Kernel.v) next to the method bodies (Gen/C20_Program.v), proved equal to the model's tables by reflexivity, "
              "with theorems about the generated tables: what the constructor establishes and that it accepts nothing else, set/get laws, "
              "agreement of the session model's setter commands with the generated setters.")
LEVEL_NOTE = ("trusted: Coq kernel + vm_compute; the action-language interpreter in this module (Python side of the operator "
              "programs) and its Gallina twin; copy.deepcopy modelled for dict -> list-of-int containers (two levels, memo per call); "
              "theorems are about the Gallina model, the tie to the code is differential on generated (heap, programs, calls / sessions) "
              "cases plus the two translators (method bodies, attribute layer) whose output is proved equal to the model; the translators' "
              "name tables (property / attribute / parameter numbering) and check_is_dict / check_is_int (core/error, not anchored) are trusted; "
              "copy.deepcopy(programme) is modelled as one memo over the ten container slots with the instrumented operators shared")
TECHNIQUE = "Coq proof over an executable heap/trace model of the loop; in-Coq vm_compute correspondence with instrumented runs"
RULE = ("case = (leaf lists, dicts with possibly shared leaves, start_* slots or None, initop result, t_max, rep0, "
        "[evolve(nrep, ngen, loginit)...], action program per operator and per logbook method); one PRNG: ~170 systematic corners "
        "(each start slot missing, each initop slot missing, in-place mutation of each container across two replicates, wrong return "
        "type in every slot of every operator, raising operator/logbook method, every miscout key colliding with a parameter name, "
        "mating configuration aliased/remembered), a sweep of nrep,ngen in -1..3 x loginit with random programs, and random cases incl. "
        "uninitialised/partially initialised programmes, the same dict in several start slots, two evolve calls, error-raising programs; "
        "phase 2: ~90 systematic sessions (each start slot replaced / cleared / given a non-dict through its setter between two runs, "
        "working containers handed in through their setters, start state given through setters only, explicit initialize, replaced "
        "initialisation operator, advance and reset as public calls incl. before any reset and after a failed reset, clock and t_max "
        "setters incl. negative and non-int values, each operator replaced after a clean / raising / wrong-return run, each logbook "
        "method raising then a new logbook, operators remembering containers across runs and across a replaced start state, copy.copy "
        "and copy.deepcopy of the programme incl. aliased slots, verbose runs, extra keyword arguments, default loginit) and random "
        "sessions of 2-7 commands; entry points of the anchored modules are enumerated at run time (a new public member, a changed "
        "parameter list, a copy/attribute hook fails the check until classified in COVERED/SKIPPED); after construction and after every "
        "command every getter is compared with its private attribute, every accepted setter with its getter, and the check_is_* guards "
        "of the eight anchored modules are exercised; events carry the serial number of the operator / logbook instance that received them; "
        "non-trivial = some evolve with nrep >= 2 and ngen >= 1, at least one in-place-mutating action, no error; distinct by SHA-256")
TRUSTED = ["the Python interpreter of the action language (harness/props/c20.py:_run_prog) is the twin of Model/C20_Loop.v:act",
           "copy.deepcopy on dict-of-list containers: fresh dict, fresh leaves, sharing inside one container preserved (memo), "
           "sharing across the five containers lost (five separate deepcopy calls) - mirrored by the model",
           "object identity observed through id() of objects kept alive for the whole run, canonicalised to first-occurrence numbers",
           "harness/translate/c20_kernel.py: the numbering of properties, private attributes and constructor parameters; check_is_dict / "
           "check_is_int are isinstance tests (pybrops/core/error, not anchored)",
           "copy.copy / copy.deepcopy of the programme follow Python's generic protocol (the audit rejects __copy__/__deepcopy__/__reduce__/"
           "__getstate__/__setattr__ hooks on the class); the instrumented operators are shared by deepcopy (__deepcopy__ = identity)"]
ASSUMPTIONS = ["state containers are dicts whose values are mutable lists of ints (two-level heap); deeper object graphs are not modelled",
               "operators reach the programme state only through their arguments and their own private memory, which is disjoint "
               "from the start containers when evolve is entered (an operator holding a reference to start_* can of course modify it)"]

NSLOT = 5
NSTASH = 3
MISC_NAMES = ["m0", "m1", "t_cur", "mcfg", "genome"]
TAGS = {"initialize": 0, "evaluate": 1, "pselect": 2, "mate": 3, "sselect": 4,
        "log_initialize": 10, "log_evaluate": 11, "log_pselect": 12, "log_mate": 13, "log_sselect": 14}
TAGNAME = {v: k for k, v in TAGS.items()}
OPS = ["psel", "mate", "eval", "ssel"]
LOGS = ["init", "psel", "mate", "eval", "ssel"]
MUTATING = ("set", "sett", "app", "appt", "del", "share")

def _key(k): return "k%d" % k

# ------------------------------------------------------------------ implementation driver
class _Bad(list):
    """a non-dict value returned in place of a container"""

class _Ctx:
    def __init__(self):
        self.ids = {}; self.keep = []; self.trace = []; self.stash = [None] * NSTASH
    def num(self, o):
        if not isinstance(o, (dict, list)) or isinstance(o, _Bad): return -1
        i = self.ids.get(id(o))
        if i is None:
            i = len(self.keep); self.ids[id(o)] = i; self.keep.append(o)
        return i
    def snap(self, roots):
        """identities and contents of a list of containers, at this instant"""
        rs, dat = [], []
        for d in roots:
            rs.append(self.num(d))
            row = []
            if isinstance(d, dict):
                for k, v in d.items():
                    kk = int(k[1:]) if isinstance(k, str) and k[:1] == "k" and k[1:].isdigit() else -1
                    row.append([kk, self.num(v), [int(x) for x in v] if isinstance(v, list) else [-999]])
            dat.append(row)
        return rs, dat

def _run_prog(ctx, prog, env, t_cur, misc):
    """the action language on real Python objects; env = list of 6 slots (dict | None | _Bad)"""
    isd = lambda x: isinstance(x, dict)
    for a in prog:
        op = a[0]
        if op == "set":
            if isd(env[a[1]]): env[a[1]][_key(a[2])] = list(a[3])
        elif op == "sett":
            if isd(env[a[1]]): env[a[1]][_key(a[2])] = [t_cur]
        elif op == "app":
            if isd(env[a[1]]) and _key(a[2]) in env[a[1]]: env[a[1]][_key(a[2])].append(a[3])
        elif op == "appt":
            if isd(env[a[1]]) and _key(a[2]) in env[a[1]]: env[a[1]][_key(a[2])].append(t_cur)
        elif op == "del":
            if isd(env[a[1]]): env[a[1]].pop(_key(a[2]), None)
        elif op == "share":
            if isd(env[a[1]]) and isd(env[a[3]]) and _key(a[4]) in env[a[3]]:
                env[a[1]][_key(a[2])] = env[a[3]][_key(a[4])]
        elif op == "new":
            if isd(env[a[1]]): env[a[1]] = dict(env[a[1]])
        elif op == "deep":
            if isd(env[a[1]]): env[a[1]] = copy.deepcopy(env[a[1]])
        elif op == "move":
            if isd(env[a[2]]): env[a[1]] = env[a[2]]
        elif op == "stash":
            if isd(env[a[1]]): ctx.stash[a[2]] = env[a[1]]
        elif op == "unstash":
            if ctx.stash[a[2]] is not None: env[a[1]] = ctx.stash[a[2]]
        elif op == "misc":
            if misc is not None: misc[MISC_NAMES[a[1]]] = a[2]
        elif op == "bad":
            if a[1] < NSLOT: env[a[1]] = _Bad([0])
        elif op == "raise":
            raise RuntimeError("operator program raised")
        else:
            raise ValueError("unknown action %r" % (a,))

_CLASSES = None
_MISSING = object()
def _classes():
    global _CLASSES
    if _CLASSES is not None: return _CLASSES
    from pybrops.breed.op.init.InitializationOperator import InitializationOperator
    from pybrops.breed.op.psel.ParentSelectionOperator import ParentSelectionOperator
    from pybrops.breed.op.mate.MatingOperator import MatingOperator
    from pybrops.breed.op.eval.EvaluationOperator import EvaluationOperator
    from pybrops.breed.op.ssel.SurvivorSelectionOperator import SurvivorSelectionOperator
    from pybrops.breed.op.log.Logbook import Logbook

    def opcall(self, tag, roots, t_cur, t_max, miscout, with_mcfg_in, with_mcfg_out):
        ctx = self.ctx
        rs, dat = ctx.snap(roots)
        ev = {"tag": tag, "t": t_cur, "tm": t_max, "rep": None, "roots": rs, "dat": dat, "who": getattr(self, "serial", 0),
              "misc": [[-2, 0]] if not isinstance(miscout, dict) else
                      [[MISC_NAMES.index(k) if k in MISC_NAMES else -1, v] for k, v in miscout.items()]}   # must arrive empty
        ctx.trace.append(ev)
        env = list(roots[:NSLOT]) + [roots[NSLOT] if with_mcfg_in else ({} if with_mcfg_out else None)]
        _run_prog(ctx, self.prog, env, t_cur, miscout)
        ret = env[:NSLOT]
        rr, rd = ctx.snap(ret + ([env[NSLOT]] if with_mcfg_out else []))
        ev["ret"] = {"roots": rr, "dat": rd, "misc": [[MISC_NAMES.index(k) if k in MISC_NAMES else -1, v] for k, v in (miscout or {}).items()]}
        return (env[NSLOT],) + tuple(ret) if with_mcfg_out else tuple(ret)

    def initcall(self, miscout):
        # what the programme passes for the interface's `miscout` parameter: None -> [], nothing at all -> [[-3, 0]]
        got = [] if miscout is None else ([[-3, 0]] if miscout is _MISSING else [[-2, 0]])
        self.ctx.trace.append({"tag": TAGS["initialize"], "t": 0, "tm": 0, "rep": None, "roots": [], "dat": [], "misc": got, "who": getattr(self, "serial", 0),
                               "ret": {"roots": [], "dat": [], "misc": []}})
        return tuple(self.result)
    class _Shared:
        """copy.deepcopy(programme) shares the instrumented operators (they hold the recorder)"""
        def __deepcopy__(self, memo): return self
    class Init(_Shared, InitializationOperator):
        """gives miscout a default (so it also works when the argument is omitted; the omission is recorded)"""
        def __init__(self, ctx, result): self.ctx = ctx; self.result = result
        def initialize(self, miscout=_MISSING, **kwargs): return initcall(self, miscout)
    class InitStrict(_Shared, InitializationOperator):
        """follows the abstract signature literally: miscout is a required parameter"""
        def __init__(self, ctx, result): self.ctx = ctx; self.result = result
        def initialize(self, miscout, **kwargs): return initcall(self, miscout)
    class PSel(_Shared, ParentSelectionOperator):
        def __init__(self, ctx, prog): self.ctx = ctx; self.prog = prog
        def pselect(self, genome, geno, pheno, bval, gmod, t_cur, t_max, miscout, **kwargs):
            return opcall(self, TAGS["pselect"], [genome, geno, pheno, bval, gmod], t_cur, t_max, miscout, False, True)
    class Mate(_Shared, MatingOperator):
        def __init__(self, ctx, prog): self.ctx = ctx; self.prog = prog
        def mate(self, mcfg, genome, geno, pheno, bval, gmod, t_cur, t_max, miscout, **kwargs):
            return opcall(self, TAGS["mate"], [genome, geno, pheno, bval, gmod, mcfg], t_cur, t_max, miscout, True, False)
    class Eval(_Shared, EvaluationOperator):
        def __init__(self, ctx, prog): self.ctx = ctx; self.prog = prog
        def evaluate(self, genome, geno, pheno, bval, gmod, t_cur, t_max, miscout, **kwargs):
            return opcall(self, TAGS["evaluate"], [genome, geno, pheno, bval, gmod], t_cur, t_max, miscout, False, False)
    class SSel(_Shared, SurvivorSelectionOperator):
        def __init__(self, ctx, prog): self.ctx = ctx; self.prog = prog
        def sselect(self, genome, geno, pheno, bval, gmod, t_cur, t_max, miscout, **kwargs):
            return opcall(self, TAGS["sselect"], [genome, geno, pheno, bval, gmod], t_cur, t_max, miscout, False, False)

    class Book(Logbook):
        def __init__(self, ctx, progs, rep0): self.ctx = ctx; self.progs = progs; self._rep = rep0; self._data = {}
        @property
        def data(self): return self._data
        @data.setter
        def data(self, value): self._data = value
        @property
        def rep(self): return self._rep
        @rep.setter
        def rep(self, value): self._rep = value
        def _log(self, name, roots, t_cur, t_max, kwargs):
            ctx = self.ctx
            rs, dat = ctx.snap(roots)
            ctx.trace.append({"tag": TAGS["log_" + {"init": "initialize", "psel": "pselect", "mate": "mate", "eval": "evaluate", "ssel": "sselect"}[name]],
                              "t": t_cur, "tm": t_max, "rep": self._rep, "roots": rs, "dat": dat, "who": getattr(self, "serial", 0),
                              "misc": [[MISC_NAMES.index(k) if k in MISC_NAMES else -1, v] for k, v in kwargs.items()]})
            ev = ctx.trace[-1]
            env = list(roots[:NSLOT]) + [roots[NSLOT] if len(roots) > NSLOT else None]
            try:
                _run_prog(ctx, self.progs[name], env, t_cur, None)
            finally:
                rr, rd = ctx.snap(roots)
                ev["ret"] = {"roots": rr, "dat": rd, "misc": []}
        def log_initialize(self, genome, geno, pheno, bval, gmod, t_cur, t_max, **kwargs):
            self._log("init", [genome, geno, pheno, bval, gmod], t_cur, t_max, kwargs)
        def log_pselect(self, mcfg, genome, geno, pheno, bval, gmod, t_cur, t_max, **kwargs):
            self._log("psel", [genome, geno, pheno, bval, gmod, mcfg], t_cur, t_max, kwargs)
        def log_mate(self, mcfg, genome, geno, pheno, bval, gmod, t_cur, t_max, **kwargs):
            self._log("mate", [genome, geno, pheno, bval, gmod, mcfg], t_cur, t_max, kwargs)
        def log_evaluate(self, genome, geno, pheno, bval, gmod, t_cur, t_max, **kwargs):
            self._log("eval", [genome, geno, pheno, bval, gmod], t_cur, t_max, kwargs)
        def log_sselect(self, genome, geno, pheno, bval, gmod, t_cur, t_max, **kwargs):
            self._log("ssel", [genome, geno, pheno, bval, gmod], t_cur, t_max, kwargs)
        def reset(self): self._data = {}; self._rep = 0
        def write(self, filename): pass
    _CLASSES = (Init, InitStrict, PSel, Mate, Eval, SSel, Book)
    return _CLASSES

def _build_heap(case, ctx):
    leaves = [list(x) for x in case["leaves"]]
    dicts = [{_key(k): leaves[li] for k, li in d} for d in case["dicts"]]
    for o in leaves: ctx.num(o)
    for o in dicts: ctx.num(o)
    return leaves, dicts

PROP_NAMES = ["start_genome", "start_geno", "start_pheno", "start_bval", "start_gmod", "genome", "geno", "pheno", "bval", "gmod",
              "initop", "pselop", "mateop", "evalop", "sselop", "t_cur", "t_max"]
S_NAMES = ["genome", "geno", "pheno", "bval", "gmod"]

def _getter_faults(prog):
    """every public property must read the private attribute of its own name (where that exists)"""
    bad = []
    for n in PROP_NAMES:
        if "_" + n in prog.__dict__:
            try:
                v = getattr(prog, n)
            except Exception as e:
                bad.append("%s getter raised %s" % (n, type(e).__name__)); continue
            w = prog.__dict__["_" + n]
            if not (v is w): bad.append("getter %s does not return attribute _%s" % (n, n))
    return bad

def _type_guard_faults(prog, ops, book):
    """the check_is_* functions of the anchored modules accept the right objects and reject another one with TypeError"""
    import importlib
    bad = []
    table = [("pybrops.breed.arch.RecurrentSelectionBreedingProgram", "check_is_RecurrentSelectionBreedingProgram", prog),
             ("pybrops.breed.arch.BreedingProgram", "check_is_BreedingProgram", prog),
             ("pybrops.breed.op.log.Logbook", "check_is_Logbook", book),
             ("pybrops.breed.op.init.InitializationOperator", "check_is_InitializationOperator", ops[0]),
             ("pybrops.breed.op.psel.ParentSelectionOperator", "check_is_ParentSelectionOperator", ops[1]),
             ("pybrops.breed.op.mate.MatingOperator", "check_is_MatingOperator", ops[2]),
             ("pybrops.breed.op.eval.EvaluationOperator", "check_is_EvaluationOperator", ops[3]),
             ("pybrops.breed.op.ssel.SurvivorSelectionOperator", "check_is_SurvivorSelectionOperator", ops[4])]
    for mn, fn, good in table:
        f = getattr(importlib.import_module(mn), fn)
        try: f(good, "x")
        except Exception as e: bad.append("%s rejects a valid object (%s)" % (fn, type(e).__name__))
        for other in (object(), ops[0] if good is not ops[0] else ops[1], None):
            try:
                f(other, "x"); bad.append("%s accepts %s" % (fn, type(other).__name__))
            except TypeError: pass
            except Exception as e: bad.append("%s raises %s, not TypeError" % (fn, type(e).__name__))
    return bad

def run_impl(case):
    import contextlib, io
    from pybrops.breed.arch.RecurrentSelectionBreedingProgram import RecurrentSelectionBreedingProgram
    Init, InitStrict, PSel, Mate, Eval, SSel, Book = _classes()
    ctx = _Ctx()
    leaves, dicts = _build_heap(case, ctx)
    pick = lambda i: None if i is None else dicts[i]
    start = [pick(i) for i in case["start"]]
    initres = [pick(i) for i in case["init"]]
    snapshot0 = copy.deepcopy(dicts)
    initop = (InitStrict if case.get("init_strict") else Init)(ctx, initres)
    ops0 = [initop, PSel(ctx, case["ops"]["psel"]), Mate(ctx, case["ops"]["mate"]), Eval(ctx, case["ops"]["eval"]), SSel(ctx, case["ops"]["ssel"])]
    prog = RecurrentSelectionBreedingProgram(
        initop=ops0[0], pselop=ops0[1], mateop=ops0[2], evalop=ops0[3], sselop=ops0[4], t_max=case["t_max"],
        start_genome=start[0], start_geno=start[1], start_pheno=start[2], start_bval=start[3], start_gmod=start[4])
    book = Book(ctx, case["logs"], case["rep0"])
    # ---- the constructor stores every argument under its own name; getters read their own attribute; type guards
    faults = []
    for n, want in zip(PROP_NAMES[10:15], ops0):
        if getattr(prog, n) is not want: faults.append("constructor: %s is not the operator handed over" % n)
    for j, n in enumerate(PROP_NAMES[:5]):
        if getattr(prog, n) is not start[j]: faults.append("constructor: %s is not the container handed over" % n)
    if prog.t_cur != 0: faults.append("constructor: t_cur = %r" % (prog.t_cur,))
    if prog.t_max != case["t_max"]: faults.append("constructor: t_max = %r" % (prog.t_max,))
    for n in PROP_NAMES[5:10]:
        if hasattr(prog, "_" + n): faults.append("constructor: working container _%s exists before any reset" % n)
    faults += _getter_faults(prog) + _type_guard_faults(prog, ops0, book)
    err = None
    ncalls_done = 0
    session = case.get("session")
    sink = io.StringIO()
    if session is None:
        try:
            for nrep, ngen, loginit in case["calls"]:
                prog.evolve(nrep, ngen, book, loginit=bool(loginit))
                ncalls_done += 1
        except Exception as e:                                   # an escaping exception is an observable; the trace so far is kept
            err = {"type": type(e).__name__, "msg": str(e)[:200]}
    else:
        opcls = {"psel": PSel, "mate": Mate, "eval": Eval, "ssel": SSel}
        def val(v): return None if v is None else (_Bad([0]) if v == "bad" else dicts[v])
        def setget(name, v):
            """the set/get law, on the implementation: an accepting setter makes its own getter return the very object handed over"""
            setattr(prog, name, v)
            got = getattr(prog, name)
            if not (got is v or (isinstance(v, int) and got == v)):
                f = "after prog.%s = x the getter does not return x" % name
                if f not in faults: faults.append(f)
        for ci, c in enumerate(session):
            ok = True
            try:
                k = c[0]
                if k == "evolve":
                    extra = {"tag": "x"} if (len(c) > 4 and c[4] == 2) else {}
                    with contextlib.redirect_stdout(sink):
                        if len(c) > 4 and c[4]: prog.evolve(c[1], c[2], book, loginit=bool(c[3]), verbose=True, **extra)
                        elif c[3]: prog.evolve(c[1], c[2], book)                  # loginit left at its default (True)
                        else: prog.evolve(c[1], c[2], book, loginit=False)
                elif k == "advance":
                    with contextlib.redirect_stdout(sink):
                        if len(c) > 2 and c[2]: prog.advance(c[1], book, verbose=True)
                        else: prog.advance(c[1], book)
                elif k == "reset": prog.reset()
                elif k == "initialize": prog.initialize()
                elif k == "is_init":
                    r = prog.is_initialized()
                    ctx.trace.append({"tag": 30, "t": 1 if r is True else (0 if r is False else 2), "tm": 0, "rep": 0, "roots": [], "dat": [], "misc": []})
                elif k == "set_start": setget("start_" + S_NAMES[c[1]], val(c[2]))
                elif k == "set_work": setget(S_NAMES[c[1]], val(c[2]))
                elif k == "set_t": setget("t_cur", 1.5 if c[1] == "bad" else c[1])
                elif k == "set_tmax": setget("t_max", "7" if c[1] == "bad" else c[1])
                elif k == "set_op":
                    o = opcls[c[1]](ctx, c[2]); o.serial = ci + 1; setget(c[1] + "op", o)
                elif k == "set_initop":
                    o = (InitStrict if c[1] else Init)(ctx, [pick(i) for i in c[2]]); o.serial = ci + 1; setget("initop", o)
                elif k == "book":
                    book = Book(ctx, c[2], c[1]); book.serial = ci + 1
                elif k == "copy":
                    ctx.keep.append(prog); prog = copy.copy(prog)
                elif k == "deepcopy":
                    ctx.keep.append(prog); prog = copy.deepcopy(prog)
                else: raise ValueError("unknown session command %r" % (c,))
                ncalls_done += 1
            except ValueError:
                raise
            except Exception as e:
                ok = False
                if err is None: err = {"type": type(e).__name__, "msg": str(e)[:200], "cmd": ncalls_done}
            ctx.trace.append({"tag": 31, "t": 1 if ok else 0, "tm": prog.t_cur, "rep": book.rep, "roots": [], "dat": [], "misc": []})
            faults += [f for f in _getter_faults(prog) if f not in faults]
    st = [prog.start_genome, prog.start_geno, prog.start_pheno, prog.start_bval, prog.start_gmod]
    wk = [getattr(prog, "_" + n, None) for n in ("genome", "geno", "pheno", "bval", "gmod")]
    s_present = [x is not None for x in st]
    w_present = [x is not None for x in wk]
    s_roots, s_dat = ctx.snap([x for x in st if x is not None])
    w_roots, w_dat = ctx.snap([x for x in wk if x is not None])
    # the objects the caller handed over, re-inspected after the run
    same = [bool(dicts[i] == snapshot0[i]) for i in range(len(dicts))]
    return {"trace": ctx.trace, "err": err, "calls_done": ncalls_done,
            "start": {"present": s_present, "roots": s_roots, "dat": s_dat},
            "work": {"present": w_present, "roots": w_roots, "dat": w_dat},
            "t_cur": prog.t_cur, "rep": book.rep, "t_max": prog.t_max, "faults": faults[:6], "audit": _audit_msgs()[:2],
            "given_unchanged": same, "n_initial_objects": len(leaves) + len(dicts)}

# ------------------------------------------------------------------ Coq emission
def _act(a):
    Z, N = E.z, E.nat
    op = a[0]
    if op == "set": return "ASet %s %s %s" % (N(a[1]), Z(a[2]), E.lst(a[3], Z))
    if op == "sett": return "ASetT %s %s" % (N(a[1]), Z(a[2]))
    if op == "app": return "AApp %s %s %s" % (N(a[1]), Z(a[2]), Z(a[3]))
    if op == "appt": return "AAppT %s %s" % (N(a[1]), Z(a[2]))
    if op == "del": return "ADel %s %s" % (N(a[1]), Z(a[2]))
    if op == "share": return "AShare %s %s %s %s" % (N(a[1]), Z(a[2]), N(a[3]), Z(a[4]))
    if op == "new": return "ANew %s" % N(a[1])
    if op == "deep": return "ADeep %s" % N(a[1])
    if op == "move": return "AMove %s %s" % (N(a[1]), N(a[2]))
    if op == "stash": return "AStash %s %s" % (N(a[1]), N(a[2]))
    if op == "unstash": return "AUnstash %s %s" % (N(a[1]), N(a[2]))
    if op == "misc": return "AMisc %s %s" % (Z(a[1]), Z(a[2]))
    if op == "bad": return "ABad %s" % N(a[1])
    if op == "raise": return "ARaise"
    raise ValueError(a)

def _oev(tag, ints, roots, dat, misc):
    locs = list(roots) + [x[1] for d in dat for x in d]
    return E.tup(E.z(tag), E.lst(ints, E.z), E.lst(locs, E.nat),
                 E.lst(dat, lambda d: E.lst(d, lambda x: E.pair(E.z(x[0]), E.lst(x[2], E.z)))),
                 E.lst(misc, lambda kv: E.pair(E.z(kv[0]), E.z(kv[1]))))

def _cmd(c, nl, prog):
    """a session command as a term of Model/C20_Session.v:cmd (dict indices become heap locations: leaves come first)"""
    k = c[0]
    sv = lambda v: "VNone" if v is None else ("VBad" if v == "bad" else "(VLoc %s)" % E.nat(nl + v))
    oz = lambda z: "None" if z == "bad" else "(Some %s)" % E.z(z)
    if k == "evolve": return "CEvolve %s %s %s" % (E.z(c[1]), E.z(c[2]), E.b(c[3]))
    if k == "advance": return "CAdvance %s" % E.z(c[1])
    if k == "reset": return "CReset"
    if k == "initialize": return "CInitialize"
    if k == "is_init": return "CIsInit"
    if k == "set_start": return "CSetStart %s %s" % (E.nat(c[1]), sv(c[2]))
    if k == "set_work": return "CSetWork %s %s" % (E.nat(c[1]), sv(c[2]))
    if k == "set_t": return "CSetT %s" % oz(c[1])
    if k == "set_tmax": return "CSetTmax %s" % oz(c[1])
    if k == "set_op": return "CSetOp %s %s" % (E.nat(OPS.index(c[1])), prog(c[2]))
    if k == "set_initop": return "CSetInit %s %s" % (E.b(c[1]), E.lst(c[2], lambda x: E.opt(None if x is None else nl + x, E.nat)))
    if k == "book": return "CBook %s %s" % (E.z(c[1]), " ".join(prog(c[2][n]) for n in LOGS))
    if k == "copy": return "CCopy"
    if k == "deepcopy": return "CDeepCopy"
    raise ValueError(c)

def emit_case(case, out):
    if "exc" in out:
        return "false"
    prog = lambda p: E.lst(p, _act)
    g = "(mkProgs %s)" % " ".join(["\n      " + prog(case["ops"][k]) for k in OPS] + ["\n      " + prog(case["logs"][k]) for k in LOGS])
    if case.get("session") is None:
        calls = E.lst(case["calls"], lambda c: E.tup(E.z(c[0]), E.z(c[1]), E.b(c[2])))
        fn = "run_case"
    else:
        nl = len(case["leaves"])
        calls = E.lst(case["session"], lambda c: "\n      " + _cmd(c, nl, prog))
        fn = "run_session"
    model = "(%s %s %s %s %s %s %s %s %s\n    %s)" % (fn,
        E.lst2(case["leaves"], E.z), E.lst(case["dicts"], lambda d: E.lst(d, lambda kv: E.pair(E.z(kv[0]), E.nat(kv[1])))),
        E.lst(case["start"], lambda x: E.opt(x, E.nat)), E.lst(case["init"], lambda x: E.opt(x, E.nat)),
        E.b(case.get("init_strict", False)), E.z(case["t_max"]), E.z(case["rep0"]), calls, g)
    evs = E.lst(out["trace"], lambda e: "\n    " + _oev(e["tag"], [e["t"], e["tm"], e["rep"] if e["rep"] is not None else 0],
                                                        e["roots"], e["dat"], e["misc"]))
    fin = lambda tag, f: _oev(tag, [1 if b else 0 for b in f["present"]], f["roots"], f["dat"], [])
    return "agree %s\n   %s %s\n   %s\n   %s\n   %s %s %s" % (
        model, E.nat(out["n_initial_objects"]), evs, fin(100, out["start"]), fin(101, out["work"]),
        E.b(out["err"] is not None), E.z(out["t_cur"]), E.z(out["rep"]))

# ------------------------------------------------------------------ the property, directly on the recorded run
def _actions(case):
    for k in OPS:
        for a in case["ops"][k]: yield ("op", k, a)
    for k in LOGS:
        for a in case["logs"][k]: yield ("log", k, a)
    for c in case.get("session") or []:
        if c[0] == "set_op":
            for a in c[2]: yield ("op", c[1], a)
        elif c[0] == "book":
            for k in LOGS:
                for a in c[2][k]: yield ("log", k, a)

def _uninitialised(case):
    return any(x is None for x in case["start"])

def _clean(case):
    """no feature that is *supposed* to make the run fail: operators return dicts and do not raise, miscout keys are not
    parameter names of the log calls, the programme can be initialised"""
    for kind, k, a in _actions(case):
        if a[0] in ("bad", "raise"): return False
        if kind == "op" and a[0] == "misc" and MISC_NAMES[a[1]] in ("t_cur", "mcfg", "genome"): return False
    if _uninitialised(case) and any(x is None for x in case["init"]): return False
    return True

def _expected_sig(case):
    """the ideal call sequence (tag, t_cur, rep or None) of the whole case"""
    exp = []
    rep = case["rep0"]
    inited = not _uninitialised(case)
    for nrep, ngen, li in case["calls"]:
        if not inited:
            exp.append((TAGS["initialize"], 0, None))
            inited = all(x is not None for x in case["init"])
        for _ in range(max(nrep, 0)):
            rep += 1
            exp.append((TAGS["evaluate"], 0, None))
            if li: exp.append((TAGS["log_initialize"], 0, rep))
            for g in range(1, max(ngen, 0) + 1):
                for nm in ("pselect", "mate", "evaluate", "sselect"):
                    exp.append((TAGS[nm], g, None)); exp.append((TAGS["log_" + nm], g, rep))
    return exp, rep

def _contents(case, di):
    return [[k, list(case["leaves"][li])] for k, li in case["dicts"][di]]

def pred(case, out):
    if "exc" in out:
        return ["harness/implementation raised outside evolve: %s: %s" % (out["exc"], out["msg"])]
    bad = list(out.get("faults", []))
    bad += _pred_calls(case, out) if case.get("session") is None else _pred_session(case, out)
    # the audit clause accompanies behavioural failures and, on its own, fails only the (deliberately largest) sentinel case, so that
    # the smallest failing case the check reports is a behavioural one whenever there is one
    aud = list(out.get("audit", []))[:2]
    return bad[:7] + aud if (bad or case.get("audit_sentinel")) else []

# ---- sessions: an independent reading of the property statement, command by command
def _prog_clean(p, is_op):
    return not any(a[0] in ("bad", "raise") or (is_op and a[0] == "misc" and MISC_NAMES[a[1]] in ("t_cur", "mcfg", "genome")) for a in p)

def _simulate(case):
    """expected observable sequence of a session as far as the property statement determines it: the simulation stops at
    the first run whose outcome depends on an operator programme that raises / returns a non-dict / leaves a parameter name
    in miscout; a wrong type handed to a setter, a missing start container at reset, a missing working container at advance
    are expected to raise and leave the state as it is (reset: the containers before the missing one are already copied,
    needed).  Items: ("call", tag, t, rep|None, t_max, start-at-replicate-entry|None, serial of the receiver) | ("isinit", v) |
    ("mark", t, rep, start copied by a public reset|None, command succeeds?)."""
    start = list(case["start"]); init = list(case["init"]); t = 0; tm = case["t_max"]; rep = case["rep0"]
    work = [False] * NSLOT
    ops = {k: case["ops"][k] for k in OPS}; logs = {k: case["logs"][k] for k in LOGS}
    exp = []; ids_known = True
    who = {TAGS["initialize"]: 0, TAGS["pselect"]: 0, TAGS["mate"]: 0, TAGS["evaluate"]: 0, TAGS["sselect"]: 0, "book": 0}
    def clean(): return all(_prog_clean(ops[k], True) for k in OPS) and all(_prog_clean(logs[k], False) for k in LOGS)
    def gens(n):
        nonlocal t
        for _ in range(max(n, 0)):
            for nm in ("pselect", "mate", "evaluate", "sselect"):
                exp.append(("call", TAGS[nm], t, None, tm, None, who[TAGS[nm]])); exp.append(("call", TAGS["log_" + nm], t, rep, tm, None, who["book"]))
            t += 1
    done = 0
    for ci, c in enumerate(case["session"]):
        k = c[0]; ok = 1; fresh = None
        if k == "evolve":
            if not clean(): break
            if any(x is None for x in start):
                exp.append(("call", TAGS["initialize"], 0, None, 0, None, who[TAGS["initialize"]])); start = list(init)
            if c[1] > 0 and any(x is None for x in start):
                # the first replicate is entered (logbook counter incremented), reset() stops at the first missing start container
                rep += 1; ok = 0
                for j in range(NSLOT):
                    if start[j] is None: break
                    work[j] = True
            else:
                for _ in range(max(c[1], 0)):
                    rep += 1; t = 0; work = [True] * NSLOT
                    exp.append(("call", TAGS["evaluate"], 0, None, tm, list(start), who[TAGS["evaluate"]]))
                    if c[3]: exp.append(("call", TAGS["log_initialize"], 0, rep, tm, None, who["book"]))
                    t = 1
                    gens(c[2])
        elif k == "advance":
            if not clean(): break
            if c[1] > 0 and not all(work): ok = 0
            else: gens(c[1])
        elif k == "reset":
            if any(x is None for x in start):
                ok = 0
                for j in range(NSLOT):
                    if start[j] is None: break
                    work[j] = True
            else:
                work = [True] * NSLOT; t = 0; fresh = list(start)
        elif k == "initialize":
            exp.append(("call", TAGS["initialize"], 0, None, 0, None, who[TAGS["initialize"]])); start = list(init)
        elif k == "is_init":
            exp.append(("isinit", 1 if all(x is not None for x in start) else 0))
        elif k == "set_start":
            if c[2] == "bad": ok = 0
            else: start[c[1]] = c[2]
        elif k == "set_work":
            if c[2] is None or c[2] == "bad": ok = 0
            else: work[c[1]] = True
        elif k == "set_t":
            if c[1] == "bad": ok = 0
            else: t = c[1]
        elif k == "set_tmax":
            if c[1] == "bad": ok = 0
            else: tm = c[1]
        elif k == "set_op": ops[c[1]] = c[2]; who[TAGS[{"psel": "pselect", "mate": "mate", "eval": "evaluate", "ssel": "sselect"}[c[1]]]] = ci + 1
        elif k == "set_initop": init = list(c[2]); who[TAGS["initialize"]] = ci + 1
        elif k == "book": rep = c[1]; logs = dict(c[2]); who["book"] = ci + 1
        elif k == "copy": pass
        elif k == "deepcopy": ids_known = False
        exp.append(("mark", t, rep, fresh, ok)); done += 1
    return exp, done == len(case["session"]), {"start": start, "t": t, "tm": tm, "rep": rep, "ids_known": ids_known}

def _pred_session(case, out):
    bad = []
    tr = out["trace"]; nl = len(case["leaves"]); sess = case["session"]
    exp, complete, fin = _simulate(case)
    # ---- order, time index, replicate counter, t_max, return values, no command fails that the statement says succeeds
    n_ok = 0
    for i, e in enumerate(tr):
        if i >= len(exp): break
        x = exp[i]; name = TAGNAME.get(e["tag"], str(e["tag"]))
        if x[0] == "mark":
            if e["tag"] != 31: bad.append("event %d is %s(t_cur=%s), expected the end of a command" % (i, name, e["t"])); break
            if e["t"] != x[4]:
                kc = sum(1 for y in exp[:i] if y[0] == "mark")
                bad.append(("command %d (%s) raised %s" % (kc, sess[kc][0], (out["err"] or {}).get("type"))) if x[4] else
                           ("command %d (%s) did not raise: %s" % (kc, sess[kc], "a value of the wrong type was accepted" if sess[kc][0].startswith("set_") else
                                                                   "a start / working container it needs is missing"))); break
            if (e["tm"], e["rep"]) != (x[1], x[2]):
                bad.append("after command %d (%s): t_cur = %s, logbook rep = %s; expected %s, %s" % (
                    sum(1 for y in exp[:i] if y[0] == "mark"), sess[sum(1 for y in exp[:i] if y[0] == "mark")][0], e["tm"], e["rep"], x[1], x[2])); break
        elif x[0] == "isinit":
            if e["tag"] != 30 or e["t"] != x[1]: bad.append("event %d: is_initialized() returned %s, expected %s" % (i, e["t"] if e["tag"] == 30 else name, x[1])); break
        else:
            g = (e["tag"], 0 if e["tag"] == TAGS["initialize"] else e["t"], e["rep"] if e["tag"] not in (30, 31) else None)
            if e["tag"] in (30, 31) or g != (x[1], x[2], x[3]):
                bad.append("event %d is %s(t_cur=%s, rep=%s), expected %s(t_cur=%s, rep=%s)" % (i, name, e["t"], e["rep"], TAGNAME[x[1]], x[2], x[3])); break
            if e.get("who", 0) != x[6]:
                bad.append("event %d (%s) went to the %s installed %s, not to the one in place at this call (installed %s)" % (
                    i, name, "logbook" if name.startswith("log_") else "operator", "by command %d" % (e.get("who", 0) - 1) if e.get("who", 0) else "at construction",
                    "by command %d" % (x[6] - 1) if x[6] else "at construction")); break
            if e["tag"] != TAGS["initialize"] and e["tm"] != x[4]:
                bad.append("event %d (%s): t_max passed as %r, the programme's t_max is %r" % (i, name, e["tm"], x[4])); break
        n_ok = i + 1
    else:
        if len(tr) < len(exp): bad.append("the session recorded %d events, expected at least %d" % (len(tr), len(exp)))
    if complete and len(tr) > len(exp) and not bad:
        bad.append("event %d (%s) is beyond the expected %d events" % (len(exp), TAGNAME.get(tr[len(exp)]["tag"], tr[len(exp)]["tag"]), len(exp)))
    # ---- hand-over; replicates start fresh and equal to the start state held when the replicate is entered
    seen = set(range(out["n_initial_objects"]))
    last = None; mc = None; lastmisc = []; ncmd = 0; pending_fresh = None
    for i, e in enumerate(tr):
        if e["tag"] == 30: continue
        if e["tag"] == 31:
            if sess[ncmd][0] in ("reset", "set_work", "deepcopy") or e["t"] != 1: last = None
            if sess[ncmd][0] not in ("is_init", "set_t", "set_tmax", "set_op", "set_initop", "book", "copy", "set_start"): pending_fresh = None
            if i < n_ok and exp[i][0] == "mark" and exp[i][3] is not None and e["t"] == 1: pending_fresh = exp[i][3]
            ncmd += 1; continue
        name = TAGNAME.get(e["tag"], "?")
        if name == "initialize":
            if e["misc"] != []:
                bad.append("event %d: initialize() was not handed miscout = None (interface parameter %s)" % (i, "omitted" if e["misc"] == [[-3, 0]] else "is not None"))
            continue
        ids_here = set(e["roots"]) | {x[1] for d in e["dat"] for x in d}
        repstart = exp[i][5] if i < n_ok and exp[i][0] == "call" else None
        if repstart is None and pending_fresh is not None and ncmd < len(sess) and sess[ncmd][0] == "advance" and not name.startswith("log_"):
            repstart = pending_fresh                       # first operator call after a public reset()
        pending_fresh = None
        if repstart is not None:
            src = repstart
            if len(e["roots"]) != NSLOT or any(r < 0 for r in e["roots"]):
                bad.append("event %d: replicate start received %r" % (i, e["roots"]))
            else:
                stale = sorted(ids_here & seen)
                if stale:
                    bad.append("event %d: replicate starts on objects already seen elsewhere (ids %s): not a fresh copy" % (i, stale[:4]))
                for c in range(NSLOT):
                    want = _contents(case, src[c])
                    if [[x[0], x[2]] for x in e["dat"][c]] != want:
                        bad.append("event %d: replicate starts with container %d = %r, the start state at this call is %r" % (
                            i, c, [[x[0], x[2]] for x in e["dat"][c]], want)); break
                    sl = [li for _, li in case["dicts"][src[c]]]
                    gl = [x[1] for x in e["dat"][c]]
                    if len(sl) == len(gl) and any((sl[a] == sl[b]) != (gl[a] == gl[b]) for a in range(len(sl)) for b in range(a)):
                        bad.append("event %d: sharing inside container %d differs from the start state" % (i, c))
        elif last is not None and not (i >= n_ok and name == "evaluate" and e["t"] == 0):
            if e["roots"][:NSLOT] != last["roots"][:NSLOT]:
                bad.append("event %d (%s): receives containers %r, predecessor returned %r" % (i, name, e["roots"][:NSLOT], last["roots"][:NSLOT]))
            elif e["dat"][:NSLOT] != last["dat"][:NSLOT]:
                bad.append("event %d (%s): container contents changed between the calls" % (i, name))
        if name in ("mate", "log_pselect", "log_mate"):
            if len(e["roots"]) != NSLOT + 1 or mc is None or e["roots"][NSLOT] != mc:
                bad.append("event %d (%s): mating configuration %r is not the one pselect returned (%r)" % (i, name, e["roots"][NSLOT:], mc))
        if not name.startswith("log_") and e["misc"] != []:
            bad.append("event %d (%s): miscout handed over is not a fresh empty dict: %r" % (i, name, e["misc"]))
        if name.startswith("log_") and e["misc"] != lastmisc:
            bad.append("event %d (%s): keyword arguments %r, operator's miscout was %r" % (i, name, e["misc"], lastmisc))
        seen |= ids_here
        r = e.get("ret")
        if r is not None:
            seen |= set(x for x in r["roots"] if x >= 0) | {x[1] for d in r["dat"] for x in d}
            last = r
            if name == "pselect" and len(r["roots"]) > NSLOT: mc = r["roots"][NSLOT]
            if not name.startswith("log_"): lastmisc = r["misc"]
        if len(bad) >= 6: break
    # ---- the stored start state, the clock, the logbook at the end
    if complete and not bad:
        given = fin["start"]
        if out["start"]["present"] != [x is not None for x in given]:
            bad.append("start_* presence %r, expected %r" % (out["start"]["present"], [x is not None for x in given]))
        else:
            gi = [x for x in given if x is not None]
            if fin["ids_known"] and out["start"]["roots"] != [nl + x for x in gi]:
                bad.append("start_* containers were replaced: ids %r, handed over %r" % (out["start"]["roots"], [nl + x for x in gi]))
            for j, di in enumerate(gi):
                if [[x[0], x[2]] for x in out["start"]["dat"][j]] != _contents(case, di):
                    bad.append("stored start container %d was modified: %r, initially %r" % (j, [[x[0], x[2]] for x in out["start"]["dat"][j]], _contents(case, di)))
                    break
        if out["t_max"] != fin["tm"]: bad.append("t_max ends at %r, expected %r" % (out["t_max"], fin["tm"]))
        if out["t_cur"] != fin["t"]: bad.append("t_cur ends at %r, expected %r" % (out["t_cur"], fin["t"]))
        if out["rep"] != fin["rep"]: bad.append("logbook rep ends at %r, expected %r" % (out["rep"], fin["rep"]))
    handed = {c[2] for c in sess if c[0] == "set_work" and isinstance(c[2], int)}      # given to the operators as working containers
    hl = {li for d in handed for _, li in case["dicts"][d]}
    handed |= {i for i, d in enumerate(case["dicts"]) if any(li in hl for _, li in d)}   # ... and whatever shares a leaf with them
    if not all(u for i, u in enumerate(out["given_unchanged"]) if i not in handed):
        bad.append("an object handed to the constructor / a start_* setter / the initialiser was modified in place")
    seen_b = []
    for b in bad:
        if b not in seen_b: seen_b.append(b)
    return seen_b[:8]

def _pred_calls(case, out):
    if "exc" in out:
        return ["harness/implementation raised outside evolve: %s: %s" % (out["exc"], out["msg"])]
    bad = []
    tr = out["trace"]
    nl = len(case["leaves"])
    clean = _clean(case)
    # ---- call order, time index, replicate counter
    exp, rep_end = _expected_sig(case)
    got = [(e["tag"], e["t"], e["rep"]) for e in tr if e["tag"] != TAGS["initialize"]] if False else \
          [(e["tag"], 0 if e["tag"] == TAGS["initialize"] else e["t"], e["rep"]) for e in tr]
    for i, g in enumerate(got):
        if i >= len(exp):
            bad.append("call %d: %s@%s is beyond the expected %d calls" % (i, TAGNAME.get(g[0], g[0]), g[1], len(exp))); break
        if g != exp[i]:
            bad.append("call %d is %s(t_cur=%s, rep=%s), expected %s(t_cur=%s, rep=%s)" % (
                i, TAGNAME.get(g[0], g[0]), g[1], g[2], TAGNAME[exp[i][0]], exp[i][1], exp[i][2])); break
    if out["err"] is None and len(got) < len(exp):
        bad.append("run ended after %d calls, expected %d (next expected: %s@%s)" % (len(got), len(exp), TAGNAME[exp[len(got)][0]], exp[len(got)][1]))
    if out["err"] is not None and clean:
        bad.append("evolve raised %s: %s" % (out["err"]["type"], out["err"]["msg"]))
    for e in tr:
        if e["tag"] != TAGS["initialize"] and e["tm"] != case["t_max"]:
            bad.append("t_max passed as %r, constructor got %r" % (e["tm"], case["t_max"])); break
    # ---- every call receives what its predecessor returned; replicates start fresh and equal to the start state
    src = case["start"] if not _uninitialised(case) else case["init"]
    seen = set(range(out["n_initial_objects"]))
    last = None; mc = None; lastmisc = []
    for i, e in enumerate(tr):
        name = TAGNAME.get(e["tag"], "?")
        if name == "initialize":
            if e["misc"] != []:
                bad.append("call %d: initialize() was not handed miscout = None (interface parameter %s)" % (i, "omitted" if e["misc"] == [[-3, 0]] else "is not None"))
            continue
        ids_here = set(e["roots"]) | {x[1] for d in e["dat"] for x in d}
        if name == "evaluate" and e["t"] == 0:
            if len(e["roots"]) != NSLOT or any(r < 0 for r in e["roots"]):
                bad.append("call %d: replicate start received %r" % (i, e["roots"]))
            else:
                stale = sorted(ids_here & seen)
                if stale:
                    bad.append("call %d: replicate starts on objects already seen elsewhere (ids %s): not a fresh copy" % (i, stale[:4]))
                for c in range(NSLOT):
                    if src[c] is None: continue
                    want = _contents(case, src[c])
                    if [[x[0], x[2]] for x in e["dat"][c]] != want:
                        bad.append("call %d: replicate starts with container %d = %r, initial state is %r" % (
                            i, c, [[x[0], x[2]] for x in e["dat"][c]], want)); break
                    sl = [li for _, li in case["dicts"][src[c]]]
                    gl = [x[1] for x in e["dat"][c]]
                    if len(sl) == len(gl) and any((sl[a] == sl[b]) != (gl[a] == gl[b]) for a in range(len(sl)) for b in range(a)):
                        bad.append("call %d: sharing inside container %d differs from the start state" % (i, c))
        elif last is not None:
            if e["roots"][:NSLOT] != last["roots"][:NSLOT]:
                bad.append("call %d (%s): receives containers %r, predecessor returned %r" % (i, name, e["roots"][:NSLOT], last["roots"][:NSLOT]))
            elif e["dat"][:NSLOT] != last["dat"][:NSLOT]:
                bad.append("call %d (%s): container contents changed between the calls" % (i, name))
        if name in ("mate", "log_pselect", "log_mate"):
            if len(e["roots"]) != NSLOT + 1 or mc is None or e["roots"][NSLOT] != mc:
                bad.append("call %d (%s): mating configuration %r is not the one pselect returned (%r)" % (i, name, e["roots"][NSLOT:], mc))
        if not name.startswith("log_") and e["misc"] != []:
            bad.append("call %d (%s): miscout handed over is not a fresh empty dict: %r" % (i, name, e["misc"]))
        if name.startswith("log_") and e["misc"] != lastmisc:
            bad.append("call %d (%s): keyword arguments %r, operator's miscout was %r" % (i, name, e["misc"], lastmisc))
        seen |= ids_here
        r = e.get("ret")
        if r is not None:
            seen |= set(x for x in r["roots"] if x >= 0) | {x[1] for d in r["dat"] for x in d}
            last = r
            if name == "pselect" and len(r["roots"]) > NSLOT: mc = r["roots"][NSLOT]
            if not name.startswith("log_"): lastmisc = r["misc"]
        if len(bad) >= 6: break
    # ---- the stored initial state
    given = case["start"] if not _uninitialised(case) else (case["init"] if any(e["tag"] == TAGS["initialize"] for e in tr) else case["start"])
    if out["start"]["present"] != [x is not None for x in given]:
        bad.append("start_* presence %r, expected %r" % (out["start"]["present"], [x is not None for x in given]))
    else:
        gi = [x for x in given if x is not None]
        if out["start"]["roots"] != [nl + x for x in gi]:
            bad.append("start_* containers were replaced: ids %r, handed over %r" % (out["start"]["roots"], [nl + x for x in gi]))
        for j, di in enumerate(gi):
            if [[x[0], x[2]] for x in out["start"]["dat"][j]] != _contents(case, di):
                bad.append("stored start container %d was modified: %r, initially %r" % (j, [[x[0], x[2]] for x in out["start"]["dat"][j]], _contents(case, di)))
                break
    if out["err"] is None and last is not None and all(out["work"]["present"]) and out["work"]["roots"] != last["roots"][:NSLOT]:
        bad.append("programme ends holding containers %r, the last operator returned %r" % (out["work"]["roots"], last["roots"][:NSLOT]))
    if not all(out["given_unchanged"]):
        bad.append("an object handed to the constructor/initialiser was modified in place")
    if out["t_max"] != case["t_max"]: bad.append("t_max changed")
    if out["err"] is None:
        if out["rep"] != rep_end: bad.append("logbook rep ends at %r, expected %r" % (out["rep"], rep_end))
        lastc = [c for c in case["calls"] if c[0] > 0]
        if lastc and out["t_cur"] != 1 + max(lastc[-1][1], 0):
            bad.append("t_cur ends at %r, expected %r" % (out["t_cur"], 1 + max(lastc[-1][1], 0)))
    seen_b = []
    for b in bad:
        if b not in seen_b: seen_b.append(b)
    return seen_b[:8]

def classify(case, out, clauses):
    return None            # no open finding: C20-initialize-miscout was repaired in /repo (b17284d4) and is re-executed as a fixed entry

def _evolves(case):
    if case.get("session") is None: return [list(c) for c in case["calls"]]
    return [[c[1], c[2], c[3]] for c in case["session"] if c[0] == "evolve"]

def nontrivial(case, out):
    if "exc" in out or out["err"] is not None: return False
    big = any(c[0] >= 2 and c[1] >= 1 for c in _evolves(case))
    mut = any(a[0] in MUTATING for _, _, a in _actions(case))
    return big and mut

def describe(case, out):
    kinds = sorted({a[0] for _, _, a in _actions(case)})
    ev = _evolves(case)
    sess = case.get("session")
    return {"nrep": str([c[0] for c in ev][:3]), "ngen": str([c[1] for c in ev][:3]),
            "loginit": str([c[2] for c in ev][:3]), "ncalls": len(ev),
            "session": "no" if sess is None else ",".join(sorted({c[0] for c in sess})),
            "initialised": "given" if not _uninitialised(case) else ("strict-initop" if case.get("init_strict") else
                           ("initop" if all(x is not None for x in case["init"]) else "initop-incomplete")),
            "aliased_start": len(set(x for x in case["start"] if x is not None)) < sum(x is not None for x in case["start"]),
            "mutating": any(k in MUTATING for k in kinds), "stash": "unstash" in kinds, "error_feature": not _clean(case),
            "raised": None if "exc" in out else (out["err"] or {}).get("type"),
            "events": "exc" if "exc" in out else min(len(out["trace"]) // 10 * 10, 100)}

def shrink(case, fails):
    """drop evolve calls, then actions, then shorten counts while the predicate still fails"""
    cur = copy.deepcopy(case)
    if cur.get("session") is not None:
        j = len(cur["session"]) - 1
        while j >= 0 and len(cur["session"]) > 1:
            t = copy.deepcopy(cur); del t["session"][j]
            if fails(t): cur = t
            j -= 1
        for grp, names in (("ops", OPS), ("logs", LOGS)):
            for k in names:
                j = 0
                while j < len(cur[grp][k]):
                    t = copy.deepcopy(cur); del t[grp][k][j]
                    if fails(t): cur = t
                    else: j += 1
        return cur
    while len(cur["calls"]) > 1:
        t = copy.deepcopy(cur); t["calls"] = t["calls"][:-1]
        if fails(t): cur = t
        else: break
    for grp, names in (("ops", OPS), ("logs", LOGS)):
        for k in names:
            j = 0
            while j < len(cur[grp][k]):
                t = copy.deepcopy(cur); del t[grp][k][j]
                if fails(t): cur = t
                else: j += 1
    for ci in range(len(cur["calls"])):
        for pos in (0, 1):
            while cur["calls"][ci][pos] > 0:
                t = copy.deepcopy(cur); t["calls"][ci][pos] -= 1
                if fails(t): cur = t
                else: break
    return cur

# ------------------------------------------------------------------ generator
def _rand_action(rng, is_log, err_ok):
    c = rng.choice([0, 0, 1, 1, 2, 3, 4, 5])
    k = rng.randrange(3)
    r = rng.random()
    if r < 0.14: return ["set", c, k, [rng.randint(-3, 9) for _ in range(rng.randint(0, 2))]]
    if r < 0.22: return ["sett", c, k]
    if r < 0.38: return ["app", c, k, rng.randint(-3, 9)]
    if r < 0.48: return ["appt", c, k]
    if r < 0.54: return ["del", c, k]
    if r < 0.62: return ["share", c, k, rng.choice([0, 1, 2, 3, 4, 5]), rng.randrange(3)]
    if r < 0.68: return ["new", c]
    if r < 0.72: return ["deep", c]
    if r < 0.78: return ["move", c, rng.choice([0, 1, 2, 3, 4, 5])]
    if r < 0.85: return ["stash", c, rng.randrange(NSTASH)]
    if r < 0.92: return ["unstash", c, rng.randrange(NSTASH)]
    if r < 0.97 or not err_ok:
        return ["misc", rng.choice([0, 0, 1, 1] + ([2, 3, 4] if err_ok else [])), rng.randint(0, 9)]
    return rng.choice([["bad", rng.randrange(NSLOT)], ["raise"]])

def _rand_prog(rng, is_log, err_ok, maxlen=4):
    return [_rand_action(rng, is_log, err_ok) for _ in range(rng.choice([0, 1, 1, 2, 2, 3, maxlen]))]

def _rand_heap(rng, rich=True):
    nleaf = rng.randint(1, 5) if rich else rng.randint(0, 2)
    leaves = [[rng.randint(-3, 9) for _ in range(rng.randint(0, 3))] for _ in range(nleaf)]
    ndict = rng.choice([5, 5, 6, 7])
    dicts = []
    for _ in range(ndict):
        keys = rng.sample([0, 1, 2], rng.randint(0, 3) if nleaf else 0)
        dicts.append([[k, rng.randrange(nleaf)] for k in keys])
    return leaves, dicts

def _rand_case(rng, calls, err_ok, init_mode=None):
    leaves, dicts = _rand_heap(rng)
    nd = len(dicts)
    def five():
        r = rng.random()
        if r < 0.7: return rng.sample(range(nd), 5)
        return [rng.randrange(nd) for _ in range(5)]          # the same dict object in several slots
    start = five(); init = five()
    mode = init_mode or rng.choices(["given", "none", "partial", "init_hole", "strict"], [60, 18, 10, 6 if err_ok else 0, 6])[0]
    strict = False
    if mode == "none": start = [None] * 5
    elif mode == "partial":
        for j in rng.sample(range(5), rng.randint(1, 4)): start[j] = None
    elif mode == "init_hole":
        start = [None] * 5 if rng.random() < 0.5 else [None if rng.random() < 0.5 else x for x in start]
        if all(x is not None for x in start): start[rng.randrange(5)] = None
        init[rng.randrange(5)] = None
    elif mode == "strict":
        strict = True
        if rng.random() < 0.7: start = [None if rng.random() < 0.6 else x for x in start]
        if rng.random() < 0.3: start = [None] * 5
    case = {"leaves": leaves, "dicts": dicts, "start": start, "init": init, "init_strict": strict,
            "t_max": rng.randint(0, 9), "rep0": rng.choice([0, 0, 0, 3, -2]), "calls": calls,
            "ops": {k: _rand_prog(rng, False, err_ok) for k in OPS},
            "logs": {k: _rand_prog(rng, True, err_ok, 3) if rng.random() < 0.5 else [] for k in LOGS}}
    return case

def _base():
    return {"leaves": [[1, 2], [3], [], [4]], "dicts": [[[0, 0], [1, 1]], [[0, 1], [1, 0]], [[0, 2], [1, 3]], [[0, 3], [1, 3]], [[0, 0], [1, 2]], [[0, 1]]],
            "start": [0, 1, 2, 3, 4], "init": [1, 2, 3, 4, 5], "init_strict": False, "t_max": 4, "rep0": 0, "calls": [[1, 1, 1]],
            "ops": {k: [] for k in OPS}, "logs": {k: [] for k in LOGS}}

def _systematic():
    """corners named in the property's quantifier, one by one"""
    out = []
    for j in range(NSLOT):                      # every conjunct of is_initialized; every slot of initialize's result
        c = _base(); c["start"][j] = None; out.append(c)
        c = _base(); c["start"] = [None] * NSLOT; c["init"][j] = None; out.append(c)
        c = _base(); c["start"] = [None] * NSLOT; c["init"][j] = None; c["calls"] = [[0, 1, 1], [1, 0, 0]]; out.append(c)
    c = _base(); c["init_strict"] = True; out.append(c)                         # initialised: initop never called
    for st in ([None] * NSLOT, [0, None, 2, 3, 4]):                             # interface-conforming initop (required miscout)
        c = _base(); c["init_strict"] = True; c["start"] = list(st); c["calls"] = [[2, 1, 1]]; out.append(c)
    c = _base(); c["start"] = [None] * NSLOT; c["calls"] = [[0, 0, 1], [2, 1, 1]]; out.append(c)   # initialised by the first call only
    for j in range(NSLOT):                      # each container separately: in-place leaf / dict mutation across replicates
        for act in (["app", j, 0, 9], ["set", j, 2, [5]], ["del", j, 1], ["appt", j, 1]):
            for where in ("eval", "ssel"):
                c = _base(); c["calls"] = [[2, 1, 0]]; c["ops"][where] = [act]; out.append(c)
        c = _base(); c["calls"] = [[2, 0, 1]]; c["logs"]["init"] = [["app", j, 1, 6]]; out.append(c)
    for k in OPS:                               # wrong return type in every slot, raising operator / logbook
        for j in range(NSLOT):
            c = _base(); c["calls"] = [[2, 2, 1]]; c["ops"][k] = [["app", 0, 0, 1], ["bad", j]]; out.append(c)
        c = _base(); c["calls"] = [[1, 2, 1]]; c["ops"][k] = [["app", 1, 0, 1], ["raise"], ["app", 1, 0, 2]]; out.append(c)
        for mk in (2, 3, 4):                    # miscout keys that are parameter names of the log call
            for li in (0, 1):
                c = _base(); c["calls"] = [[1, 1, li]]; c["ops"][k] = [["misc", 0, 7], ["misc", mk, 1]]; out.append(c)
    for k in LOGS:
        c = _base(); c["calls"] = [[1, 2, 1]]; c["logs"][k] = [["app", 2, 0, 1], ["raise"]]; out.append(c)
    # the mating configuration: built by pselect, mutated by log_pselect and mate, remembered, aliased with a container
    c = _base(); c["calls"] = [[2, 2, 1]]
    c["ops"]["psel"] = [["set", 5, 0, [1]], ["share", 5, 1, 0, 0], ["stash", 5, 0], ["misc", 0, 3], ["misc", 1, 4], ["misc", 0, 5]]
    c["logs"]["psel"] = [["app", 5, 0, 2]]; c["ops"]["mate"] = [["app", 5, 1, 8], ["move", 1, 5], ["misc", 1, 1]]
    c["ops"]["ssel"] = [["unstash", 3, 0], ["sett", 3, 2]]; out.append(c)
    return out

# ---- sessions
def _sbase():
    """_base() with two more dicts on private leaves (7, 8: handed to the working-container setters) and one spare start dict (6)"""
    c = _base()
    c["leaves"] = c["leaves"] + [[7], [8, 8]]
    c["dicts"] = c["dicts"] + [[[0, 2], [2, 0]], [[0, 4]], [[1, 5], [2, 5]]]
    c["calls"] = []
    return c

def _systematic_sessions():
    out = []
    def S(sess, **kw):
        c = _sbase(); c["session"] = sess
        for k, v in kw.items():
            if k in ("ops", "logs"): c[k].update(v)
            else: c[k] = v
        out.append(c); return c
    mut = {"eval": [["app", 0, 0, 9], ["sett", 3, 1]], "ssel": [["del", 1, 1], ["appt", 2, 1]]}
    ev = lambda n, g, li=1, v=0: ["evolve", n, g, li, v]
    # start containers replaced through the setters between two runs: the second run starts from the NEW start state
    for j in range(NSLOT):
        S([ev(2, 1), ["set_start", j, 5], ev(2, 1, 0)], ops=mut)
        S([ev(1, 1), ["set_start", j, None], ["is_init"], ev(1, 1)], ops=mut)                  # -> initop consulted again
        S([["set_start", j, None], ["is_init"], ["reset"], ["advance", 1]])                      # reset fails at slot j, partial state
        S([["set_start", j, "bad"], ["is_init"], ev(1, 1)])
        S([ev(1, 0, 0), ["set_work", j, 7], ["advance", 1], ["set_work", j, 8], ["advance", 1]], ops=mut)
        S([ev(1, 0, 0), ["set_work", j, None], ["set_work", j, "bad"], ["advance", 1]])
    # start state given through the setters only; initop must not be consulted
    S([["is_init"]] + [["set_start", j, j] for j in range(NSLOT)] + [["is_init"], ev(2, 1)], start=[None] * NSLOT, ops=mut)
    S([["set_start", j, j] for j in range(4)] + [["is_init"], ev(1, 1), ["is_init"]], start=[None] * NSLOT)
    S([["initialize"], ["is_init"], ev(2, 1, 0)], ops=mut)                                      # explicit initialize overwrites the start state
    S([["initialize"], ["initialize"], ["reset"], ["advance", 2]], start=[None] * NSLOT, init_strict=True)
    S([["set_initop", 0, [5, 4, 3, 2, 1]], ["initialize"], ev(1, 1)], start=[None] * NSLOT)
    S([["set_initop", 1, [5, 4, None, 2, 1]], ev(1, 1), ["set_initop", 0, [1, 2, 3, 4, 5]], ev(1, 1)], start=[None] * NSLOT)
    # advance / reset as public calls; the clock through its setter
    S([ev(1, 1), ["advance", 2], ["advance", 0], ["advance", -1], ["advance", 1, 1]], ops=mut)
    S([["advance", 1]]); S([["advance", 0]]); S([ev(0, 2), ["advance", 1]])
    S([["reset"], ["advance", 2]], ops=mut)
    S([["reset"], ["set_t", 5], ["advance", 2], ["reset"], ["advance", 1]], ops=mut)
    S([ev(2, 1), ["reset"], ["reset"], ["advance", 1]], ops=mut)
    # the clock put back to 0 by hand on used working containers: reset / the next run must still start from fresh copies
    S([ev(1, 1), ["set_t", 0], ["reset"], ["advance", 1]], ops=mut)
    S([ev(2, 1), ["set_t", 0], ev(2, 1, 0)], ops=mut)
    S([["reset"], ["advance", 1], ["set_t", 0], ["reset"], ["advance", 1]], ops=mut)
    S([["set_t", 7], ev(1, 1), ["set_t", -3], ["advance", 2], ["set_t", "bad"], ["advance", 1]])
    S([["set_tmax", 9], ev(1, 1), ["set_tmax", 0], ["advance", 1], ["set_tmax", "bad"], ["advance", 1], ["set_tmax", -2], ev(1, 1, 0)])
    # operators replaced between runs; a run that raises in the middle is followed by a complete one
    for k in OPS:
        S([ev(1, 1), ["set_op", k, [["app", 0, 0, 5], ["sett", 4, 2]]], ev(2, 1), ["set_op", k, []], ["advance", 1]], ops=mut)
        S([ev(2, 2), ["set_op", k, [["app", 1, 0, 3]]], ev(2, 2, 0)], ops={k: [["app", 0, 0, 1], ["raise"]]})
        S([ev(1, 2), ["set_op", k, []], ["advance", 1], ev(1, 1)], ops={k: [["bad", 2]]})
    for k in LOGS:
        S([ev(1, 1), ["book", 5, {n: ([["app", 0, 0, 4]] if n == k else []) for n in LOGS}], ev(2, 1), ["advance", 1]],
          logs={k: [["app", 1, 0, 2], ["raise"]]})
    S([ev(2, 1), ["book", -4, {n: [] for n in LOGS}], ev(1, 0), ["book", 0, {n: [["appt", 0, 0]] for n in LOGS}], ev(1, 1)], rep0=3)
    # operators that remember what they received, across runs and across a replaced start state
    S([ev(2, 1), ["set_start", 0, 5], ev(2, 1), ["advance", 1]],
      ops={"eval": [["stash", 0, 0], ["app", 0, 0, 1]], "ssel": [["unstash", 1, 0], ["app", 1, 0, 2], ["stash", 1, 1]], "psel": [["unstash", 2, 1], ["sett", 2, 2]]})
    # copies of the programme object
    S([ev(1, 1), ["copy"], ["advance", 1], ["set_start", 1, 5], ev(2, 1)], ops=mut)
    S([["copy"], ev(2, 1), ["copy"], ["reset"], ["advance", 1]], ops=mut)
    S([ev(1, 1), ["deepcopy"], ["advance", 1], ev(2, 1)], ops=mut)
    S([["deepcopy"], ev(2, 1), ["deepcopy"], ["is_init"], ["reset"], ["advance", 1]], ops=mut, start=[0, 0, 2, 2, 4])
    S([ev(1, 1), ["set_work", 1, 7], ["set_work", 2, 7], ["deepcopy"], ["advance", 1]],
      ops={"eval": [["stash", 0, 0]], "psel": [["unstash", 3, 0], ["app", 3, 0, 6]]})
    S([["deepcopy"], ev(1, 1)], start=[None] * NSLOT)
    # many generations / many replicates (clock and replicate counter well beyond a handful)
    S([ev(1, 24, 0), ["advance", 3]], ops={"ssel": [["appt", 0, 0]]})
    S([ev(14, 1, 1), ev(3, 0, 0)], ops={"eval": [["app", 1, 0, 1]]}, rep0=250)
    # verbose runs, extra keyword arguments, default loginit
    S([ev(2, 2, 1, 1), ev(1, 1, 0, 2), ["advance", 1, 1]], ops=mut)
    return out

def _rand_session(rng, err_ok):
    case = _rand_case(rng, [], err_ok)
    nl0 = len(case["leaves"]); nd0 = len(case["dicts"])
    # two dicts on private leaves for the working-container setters
    case["leaves"] = case["leaves"] + [[rng.randint(-3, 9) for _ in range(rng.randint(0, 2))] for _ in range(2)]
    case["dicts"] = case["dicts"] + [[[k, nl0 + rng.randrange(2)] for k in rng.sample([0, 1, 2], rng.randint(0, 3))] for _ in range(2)]
    pool = [nd0, nd0 + 1]
    sess = []
    for _ in range(rng.choice([2, 3, 4, 5, 6, 7])):
        r = rng.random()
        if r < 0.34: sess.append(["evolve", rng.choice([0, 1, 2, 2, 3]), rng.choice([0, 1, 1, 2, 3]), rng.randint(0, 1), rng.choice([0, 0, 0, 1, 2])])
        elif r < 0.46: sess.append(["advance", rng.choice([0, 1, 1, 2]), rng.choice([0, 0, 1])])
        elif r < 0.52: sess.append(["reset"])
        elif r < 0.56: sess.append(["initialize"])
        elif r < 0.62: sess.append(["is_init"])
        elif r < 0.72: sess.append(["set_start", rng.randrange(NSLOT), rng.choice([rng.randrange(nd0)] * 4 + [None] + (["bad"] if err_ok else []))])
        elif r < 0.77: sess.append(["set_work", rng.randrange(NSLOT), rng.choice(pool * 3 + ([None, "bad"] if err_ok else []))])
        elif r < 0.81: sess.append(["set_t", rng.choice([0, 1, 4, -2] + (["bad"] if err_ok else []))])
        elif r < 0.84: sess.append(["set_tmax", rng.choice([0, 3, 11, -1] + (["bad"] if err_ok else []))])
        elif r < 0.90: sess.append(["set_op", rng.choice(OPS), _rand_prog(rng, False, err_ok)])
        elif r < 0.92: sess.append(["set_initop", rng.randint(0, 1), [rng.randrange(nd0) if rng.random() < 0.93 or not err_ok else None for _ in range(NSLOT)]])
        elif r < 0.95: sess.append(["book", rng.choice([0, 2, -1]), {k: _rand_prog(rng, True, err_ok, 2) if rng.random() < 0.4 else [] for k in LOGS}])
        elif r < 0.975: sess.append(["copy"])
        else: sess.append(["deepcopy"])
    if not any(c[0] == "evolve" for c in sess):
        sess.insert(rng.randrange(len(sess) + 1), ["evolve", rng.choice([1, 2]), rng.choice([1, 2]), rng.randint(0, 1), 0])
    case["session"] = sess
    return case

# ---- entry points of the anchored modules, enumerated at run time (fail closed)
COVERED = {
    "pybrops.breed.arch.RecurrentSelectionBreedingProgram": {
        "RecurrentSelectionBreedingProgram": {
            "__init__": ["self", "initop", "pselop", "mateop", "evalop", "sselop", "t_max", "start_genome", "start_geno", "start_pheno",
                         "start_bval", "start_gmod", "kwargs"],
            "initialize": ["self", "kwargs"], "is_initialized": ["self", "kwargs"], "reset": ["self", "kwargs"],
            "advance": ["self", "ngen", "lbook", "verbose", "kwargs"], "evolve": ["self", "nrep", "ngen", "lbook", "loginit", "verbose", "kwargs"],
            "properties": PROP_NAMES},
        "check_is_RecurrentSelectionBreedingProgram": ["v", "vname"]},
    "pybrops.breed.arch.BreedingProgram": {"BreedingProgram": "abstract", "check_is_BreedingProgram": ["v", "vname"]},
    "pybrops.breed.op.log.Logbook": {"Logbook": "abstract", "check_is_Logbook": ["v", "vname"]},
    "pybrops.breed.op.init.InitializationOperator": {"InitializationOperator": "abstract", "check_is_InitializationOperator": ["v", "vname"]},
    "pybrops.breed.op.psel.ParentSelectionOperator": {"ParentSelectionOperator": "abstract", "check_is_ParentSelectionOperator": ["v", "vname"]},
    "pybrops.breed.op.mate.MatingOperator": {"MatingOperator": "abstract", "check_is_MatingOperator": ["v", "vname"]},
    "pybrops.breed.op.eval.EvaluationOperator": {"EvaluationOperator": "abstract", "check_is_EvaluationOperator": ["v", "vname"]},
    "pybrops.breed.op.ssel.SurvivorSelectionOperator": {"SurvivorSelectionOperator": "abstract", "check_is_SurvivorSelectionOperator": ["v", "vname"]},
}
ABSTRACT = {          # abstract members the instrumented subclasses implement, with the parameter lists the programme's keyword calls rely on
    "BreedingProgram": {n: None for n in PROP_NAMES[:5] + PROP_NAMES[10:15] + ["initialize", "is_initialized", "reset", "advance", "evolve"]},
    "Logbook": {"data": None, "rep": None, "reset": ["self"], "write": ["self", "filename"],
                "log_initialize": ["self", "genome", "geno", "pheno", "bval", "gmod", "t_cur", "t_max", "kwargs"],
                "log_pselect": ["self", "mcfg", "genome", "geno", "pheno", "bval", "gmod", "t_cur", "t_max", "kwargs"],
                "log_mate": ["self", "genome", "geno", "pheno", "bval", "gmod", "t_cur", "t_max", "kwargs"],
                "log_evaluate": ["self", "genome", "geno", "pheno", "bval", "gmod", "t_cur", "t_max", "kwargs"],
                "log_sselect": ["self", "genome", "geno", "pheno", "bval", "gmod", "t_cur", "t_max", "kwargs"]},
    "InitializationOperator": {"initialize": ["self", "miscout", "kwargs"]},
    "ParentSelectionOperator": {"pselect": ["self", "genome", "geno", "pheno", "bval", "gmod", "t_cur", "t_max", "miscout", "kwargs"]},
    "MatingOperator": {"mate": ["self", "mcfg", "genome", "geno", "pheno", "bval", "gmod", "t_cur", "t_max", "miscout", "kwargs"]},
    "EvaluationOperator": {"evaluate": ["self", "genome", "geno", "pheno", "bval", "gmod", "t_cur", "t_max", "miscout", "kwargs"]},
    "SurvivorSelectionOperator": {"sselect": ["self", "genome", "geno", "pheno", "bval", "gmod", "t_cur", "t_max", "miscout", "kwargs"]},
}
INHERITED_ABSTRACT = {"BreedingProgram": PROP_NAMES[5:10] + ["t_cur", "t_max"]}      # declared by BreedingNode (not anchored)
SKIPPED = {
    "Logbook.reset / Logbook.write / Logbook.data": "never called by the programme (no call in the anchored code; the translator of the method "
                                                    "bodies would reject one)",
    "**kwargs of __init__": "forwarded to BreedingProgram/BreedingNode constructors which ignore them",
    "**kwargs of initialize / is_initialized / reset": "initialize forwards them to the initialisation operator unchanged; the others ignore them",
    "BreedingNode (base of BreedingProgram)": "not anchored; defines no behaviour used by the loop",
}

def _audit():
    import importlib, inspect
    bad = []
    for mn, members in COVERED.items():
        mod = importlib.import_module(mn)
        have = {n: v for n, v in vars(mod).items() if (inspect.isfunction(v) or inspect.isclass(v)) and getattr(v, "__module__", None) == mn
                and not n.startswith("_")}
        for n in sorted(set(have) - set(members)): bad.append("%s.%s is new and not classified" % (mn, n))
        for n, want in members.items():
            if n not in have: bad.append("%s.%s disappeared" % (mn, n)); continue
            v = have[n]
            if inspect.isfunction(v):
                got = list(inspect.signature(v).parameters)
                if got != want: bad.append("%s.%s has parameters %s, driven with %s" % (mn, n, got, want))
            elif want == "abstract":
                ab = sorted(getattr(v, "__abstractmethods__", ()))
                if ab != sorted(list(ABSTRACT[n]) + INHERITED_ABSTRACT.get(n, [])): bad.append("%s.%s has abstract members %s, the instrumented subclass implements %s" % (mn, n, ab, sorted(ABSTRACT[n])))
                pub = sorted(k for k in vars(v) if not k.startswith("_"))
                if pub != sorted(ABSTRACT[n]): bad.append("%s.%s has public members %s, classified: %s" % (mn, n, pub, sorted(ABSTRACT[n])))
                for meth, sig in ABSTRACT[n].items():
                    if sig is not None and hasattr(v, meth):
                        got = list(inspect.signature(getattr(v, meth)).parameters)
                        if got != sig: bad.append("%s.%s.%s has parameters %s, classified %s" % (mn, n, meth, got, sig))
            else:
                pub = sorted(k for k in vars(v) if not k.startswith("_"))
                meths = sorted(k for k in want if k not in ("__init__", "properties"))
                if pub != sorted(meths + want["properties"]):
                    bad.append("%s.%s has public members %s, the generators drive %s" % (mn, n, pub, sorted(meths + want["properties"])))
                for k in want["properties"]:
                    pr = vars(v).get(k)
                    if not isinstance(pr, property) or pr.fset is None or pr.fget is None: bad.append("%s.%s.%s is not a read/write property" % (mn, n, k))
                for meth in ["__init__"] + meths:
                    if meth in vars(v):
                        got = list(inspect.signature(vars(v)[meth]).parameters)
                        if got != want[meth]: bad.append("%s.%s.%s has parameters %s, driven with %s" % (mn, n, meth, got, want[meth]))
                for special in ("__copy__", "__deepcopy__", "__reduce__", "__reduce_ex__", "__getstate__", "__setstate__", "__slots__", "__getattr__", "__setattr__"):
                    if any(special in vars(k) for k in v.__mro__[:-1]):
                        bad.append("%s.%s (or a base) defines %s: the session model assumes Python's generic copy/attribute protocol" % (mn, n, special))
    return bad

_AUDIT = None
def _audit_msgs():
    """fail closed WITHOUT hiding the behavioural evidence: an unclassified entry point makes the predicate fail on the sentinel
    case (and is appended to the clauses of every behaviourally failing case), so the check reports a violation either way and
    the concrete replay is a behavioural one whenever the change has a behavioural effect on the generated cases"""
    global _AUDIT
    if _AUDIT is None:
        try: _AUDIT = ["entry-point audit: " + m for m in _audit()]
        except Exception as e: _AUDIT = ["entry-point audit could not run: %s: %s" % (type(e).__name__, e)]
    return _AUDIT

def gen_cases(rng, tier):
    cases = _systematic()
    # sweep of the loop counts with clean (error-free) programs
    for nrep in (-1, 0, 1, 2, 3):
        for ngen in (-1, 0, 1, 2, 3):
            for li in (0, 1):
                if tier == "quick" and (nrep, ngen) in ((-1, -1), (-1, 2), (-1, 3), (0, -1), (0, 3), (3, 3)) and li == 0: continue
                cases.append(_rand_case(rng, [[nrep, ngen, li]], False, init_mode=rng.choice(["given", "given", "none", "partial"])))
    # fixed corner: pure operators, shared leaves inside and across start containers, same dict in two slots
    pure = {"leaves": [[1, 2], [3], []], "dicts": [[[0, 0], [1, 0], [2, 1]], [[0, 0]], [[1, 2]], [], [[2, 1]]],
            "start": [0, 1, 0, 3, 4], "init": [0, 1, 2, 3, 4], "init_strict": False, "t_max": 5, "rep0": 0, "calls": [[2, 2, 1]],
            "ops": {k: [] for k in OPS}, "logs": {k: [] for k in LOGS}}
    cases.append(pure)
    mut = copy.deepcopy(pure)
    mut["ops"] = {"psel": [["app", 0, 0, 7], ["set", 5, 0, [1]], ["misc", 0, 1]], "mate": [["appt", 1, 0], ["del", 0, 2], ["app", 5, 0, 2]],
                  "eval": [["sett", 3, 1], ["app", 2, 1, 5], ["stash", 0, 0]], "ssel": [["new", 0], ["share", 4, 0, 0, 0], ["unstash", 2, 0]]}
    mut["logs"] = {"init": [["app", 0, 1, 8]], "psel": [["app", 5, 0, 3]], "mate": [], "eval": [["appt", 4, 2]], "ssel": [["del", 1, 0]]}
    cases.append(mut)
    n_rand = 110 if tier == "quick" else 3000
    for _ in range(n_rand):
        ncalls = rng.choice([1, 1, 1, 2])
        calls = [[rng.choice([0, 1, 2, 2, 3]), rng.choice([0, 1, 1, 2, 3]), rng.randint(0, 1)] for _ in range(ncalls)]
        cases.append(_rand_case(rng, calls, rng.random() < 0.35))
    cases += _systematic_sessions()
    sentinel = copy.deepcopy(pure)
    sentinel["audit_sentinel"] = "the entry-point audit of the anchored modules is reported on this case. " * 300
    cases.append(sentinel)
    for _ in range(90 if tier == "quick" else 2500):
        cases.append(_rand_session(rng, rng.random() < 0.3))
    return cases


def translate(repo, gen_dir):
    """regenerate Gen/C20_Program.v (the bodies of reset/is_initialized/initialize/advance/evolve translated statement by
    statement into the model's combinators) and Gen/C20_Kernel.v (the attribute layer: getter / setter / type check of each of
    the seventeen properties, the constructor's assignments, the operator type guards), both fail closed;
    Proofs/C20_Program.v and Proofs/C20_Kernel.v tie them to the hand model by reflexivity"""
    from translate import c20_program, c20_kernel
    return [c20_program.translate(repo, gen_dir), c20_kernel.translate(repo, gen_dir)]
