"""C05 — selection objectives mean what they say in every decision encoding.
Correspondence between Model/C05_Latent.v (criterion families over Q + the binary64 allele-frequency thresholds) and every
concrete SelectionProblem class of pybrops.breed.prot.sel.prob, plus the independent predicate (definitions recomputed with
exact rationals from the underlying data)."""
import math, itertools
from fractions import Fraction
import numpy
import coqemit as E

ID = "C05"
PROPS = "Props/C05.v"
IMPORTS = "From Coq Require Import PrimFloat.\nFrom PV Require Import Lib.Common Lib.FloatK Model.C05_Latent."
SHARD = 40
LEVEL_TEXT = ("Coq theorems over an exact-rational model of the criterion families (linear, quadratic/kinship-factor, L1, family, "
              "allele-frequency distance/unavailability, optimal population value, genotype builder) and of evalfn: the subset formula of "
              "every family equals the contribution-vector formula at multiplicity/k, integer-count and binary-indicator vectors normalise "
              "to that contribution vector, values are invariant under permutations of the subset and under positive rescaling outside the "
              "|sum x| < 1e-10 guard, ||C c||^2 = c'(C'C)c, evalfn = weights x transformations of the latent vector; the allele-availability "
              "thresholds are modelled bit-exactly in binary64 (rounded reciprocal) and proved equal to the count-based flags for every "
              "ploidy*k <= 1024 with fl(fl(1/N)*N) = 1, refuted for the others (N = 49). The model is tied to the code by evaluating it inside "
              "Coq against latentfn/evalfn/evaluate of all 61 evaluable concrete problem classes on generated data")
LEVEL_NOTE = ("trusted: Coq kernel + vm_compute, PrimFloat primitives; BLAS/numpy summation order is not modelled (values compared within 2^-30 of "
              "the exact rational, exactly on power-of-two cases); sqrt (norms, usefulness criterion), the normal density (selection intensity), "
              "arcsin/sqrt weights and Cholesky factors are compared through their squares / within tolerance by the predicate only; factory "
              "methods are checked by the independent predicate (definition recomputed from the population, taxon-permutation equivariance), "
              "not by a Coq model; simulation-based problems (look-ahead) are out of scope")
TECHNIQUE = "Coq proof over an executable rational/binary64 model; in-Coq vm_compute correspondence with the implementation; exact-rational predicate"
RULE = ("case = (criterion family, candidate data on a dyadic grid, selected multiset s, listing permutation, positive scale a, free real / "
        "integer vectors, objective/constraint weights and transformation specs) evaluated on all encodings of that family, or "
        "(population, taxon permutation, factory) for the factory clause, or the class-enumeration case; one PRNG; sizes n 1..8 (up to 206 for "
        "the allele-frequency families so that ploidy*k hits 49, 98, 103, 107), k 1..6 incl. repeated members, zero vectors, guard-region sums; "
        "non-trivial = at least two distinct members selected out of >= 3 candidates; distinct by SHA-256 of the case")
TRUSTED = ["numpy/BLAS dot and pairwise summation: compared in tolerance regime T (2^-30) against exact rationals, exactly (E) when k and the sums are powers of two",
           "int8 genotype sums and int->float conversion are exact (modelled by PrimFloat.of_uint63)",
           "haplotype block boundaries (haplobin*, property C18), genetic variance matrices (C12), coancestry matrices (C13) and gebv() are taken from pybrops when the factory clause is checked"]
ASSUMPTIONS = ["decision vectors: subset = indices into the candidates (repeats allowed only where noted), integer >= 0, binary in {0,1}, real >= 0",
               "kinship factors are upper triangular as the constructors require", "mkrwt >= 0, tfreq in [0,1]"]

EPS = 1e-10   # the guard constant of the source

# ------------------------------------------------------------------------------------------------ class table
P = "pybrops.breed.prot.sel.prob."
# family -> (module, {encoding: class name}, constructor data arguments)
FAMILIES = {
    "ebv":   ("EstimatedBreedingValueSelectionProblem", "EstimatedBreedingValue%sSelectionProblem", ["ebv"]),
    "gebv":  ("GenomicEstimatedBreedingValueSelectionProblem", "GenomicEstimatedBreedingValue%sSelectionProblem", ["gebv"]),
    "gwgebv": ("GeneralizedWeightedGenomicEstimatedBreedingValueSelectionProblem", "GeneralizedWeightedGenomicEstimatedBreedingValue%sSelectionProblem", ["gwgebv"]),
    "wgs":   ("WeightedGenomicSelectionProblem", "WeightedGenomic%sSelectionProblem", ["wgebv"]),
    "embv":  ("ExpectedMaximumBreedingValueSelectionProblem", "ExpectedMaximumBreedingValue%sSelectionProblem", ["embv"]),
    "rand":  ("RandomSelectionProblem", "Random%sSelectionProblem", ["rbv"]),
    "uc":    ("UsefulnessCriterionSelectionProblem", "UsefulnessCriterion%sMateSelectionProblem", ["ucmat"]),
    "ohv":   ("OptimalHaploidValueSelectionProblem", "OptimalHaploidValue%sSelectionProblem", ["ohvmat"]),
    "ocs":   ("OptimalContributionSelectionProblem", "OptimalContribution%sSelectionProblem", ["ebv", "C"]),
    "mgr":   ("MeanGenomicRelationshipSelectionProblem", "MeanGenomicRelationship%sSelectionProblem", ["C"]),
    "meh":   ("MeanExpectedHeterozygositySelectionProblem", "MeanExpectedHeterozygosity%sSelectionProblem", ["C"]),
    "l2":    ("L2NormGenomicSelectionProblem", "L2NormGenomic%sSelectionProblem", ["C"]),
    "l1":    ("L1NormGenomicSelectionProblem", "L1NormGenomic%sSelectionProblem", ["V"]),
    "fam":   ("FamilyEstimatedBreedingValueSelectionProblem", "FamilyEstimatedBreedingValue%sSelectionProblem", ["ebv", "familyid"]),
    "pafd":  ("PopulationAlleleFrequencyDistanceSelectionProblem", "PopulationAlleleFrequencyDistance%sSelectionProblem", ["geno", "ploidy", "mkrwt", "tfreq"]),
    "pau":   ("PopulationAlleleUnavailabilitySelectionProblem", "PopulationAlleleUnavailability%sSelectionProblem", ["geno", "ploidy", "mkrwt", "tfreq"]),
    "mogs":  ("MultiObjectiveGenomicSelectionProblem", "MultiObjectiveGenomic%sSelectionProblem", ["geno", "ploidy", "mkrwt", "tfreq"]),
    "opv":   ("OptimalPopulationValueSelectionProblem", "OptimalPopulationValue%sSelectionProblem", ["haplomat"]),
    "gb":    ("GenotypeBuilderSelectionProblem", "GenotypeBuilder%sSelectionProblem", ["haplomat", "nbestfndr"]),
}
SUBSET_ONLY = ("pafd", "pau", "mogs", "opv", "gb")
MATE = ("embv", "uc", "ohv")                         # constructors also take decn_space_xmap
GUARDED = ("ebv", "gebv", "gwgebv", "wgs", "embv", "rand", "ocs", "mgr", "meh")   # |sum x| < 1e-10 -> 1 guard present in the source
LINEAR = ("ebv", "gebv", "gwgebv", "wgs", "embv", "rand", "uc", "ohv")
ENCODINGS = ("Subset", "Integer", "Binary", "Real")
# concrete classes that are deliberately not evaluated, with the reason (the enumeration case fails on any class that is
# neither mapped to a family above nor listed here)
SKIPPED = {
    "MultiObjectiveGenomicSubsetMatingProblem": "latentfn is an explicit stub that raises Exception('implement extraction of parents from xmap') "
                                                "unconditionally; the check asserts it still raises",
    "RealLookAheadGeneralizedWeightedGenomicSelectionProblem": "latentfn simulates breeding cycles with the global numpy.random stream "
                                                               "(meiosis/mating are properties C01/C08); no closed-form definition to compare with",
}

def family_classes(fam):
    mod, pat, _ = FAMILIES[fam]
    encs = ("Subset",) if fam in SUBSET_ONLY else ENCODINGS
    return {enc: (P + mod, pat % enc) for enc in encs}

def _cls(fam, enc):
    import importlib
    m, c = family_classes(fam)[enc]
    return getattr(importlib.import_module(m), c)

def enumerate_concrete():
    """all concrete SelectionProblem subclasses defined in pybrops.breed.prot.sel.prob, by introspection"""
    import pkgutil, importlib, inspect
    import pybrops.breed.prot.sel.prob as PK
    from pybrops.breed.prot.sel.prob.SelectionProblem import SelectionProblem
    out = {}
    for m in pkgutil.iter_modules(PK.__path__):
        mod = importlib.import_module(PK.__name__ + "." + m.name)
        for nme, c in vars(mod).items():
            if inspect.isclass(c) and issubclass(c, SelectionProblem) and c.__module__ == mod.__name__ and not getattr(c, "__abstractmethods__", ()):
                out[nme] = c.__module__
    return out

# ------------------------------------------------------------------------------------------------ transformations
def trans_mix(decnvec, latentvec, c=1.0, **kwargs):
    """harness-defined transformation that depends on both arguments (catches swapped/dropped arguments)"""
    return latentvec * c + decnvec.sum()

def _trans_fn(spec):
    from pybrops.breed.prot.sel.prob import trans as T
    k = spec[0]
    if k == "none": return None, None                 # default: identity for objectives, empty for constraints
    if k == "id": return T.trans_identity, None
    if k == "empty": return T.trans_empty, {}
    if k == "sum": return T.trans_sum, None
    if k == "dot": return T.trans_dot, {"latentvec_wt": numpy.array(spec[1], dtype=float)}
    if k == "decnsum": return T.trans_decnvec_sum_eq, {"decnvec_sum": float(spec[1])}
    if k == "mix": return trans_mix, {"c": float(spec[1])}
    raise ValueError(spec)

def _trans_len(spec, nlat, default):
    k = spec[0]
    if k == "none": return nlat if default == "id" else 0
    return {"id": nlat, "empty": 0, "sum": 1, "dot": 1, "decnsum": 1, "mix": nlat}[k]

def _eval_kwargs(ev):
    """constructor keyword arguments for the objective / constraint configuration of a case"""
    kw = {}
    for nm, key, cnt in (("obj", "obj", "nobj"), ("ineq", "ineqcv", "nineqcv"), ("eq", "eqcv", "neqcv")):
        spec, wt = ev[nm]
        fn, fkw = _trans_fn(spec)
        kw[cnt] = len(wt)
        kw[key + "_wt"] = numpy.array(wt, dtype=float) if wt is not None else None
        kw[key + "_trans"] = fn
        kw[key + "_trans_kwargs"] = fkw
    return kw

# ------------------------------------------------------------------------------------------------ implementation driver
def _hx(a):
    a = numpy.asarray(a, dtype=float)
    return [float(v).hex() for v in a.ravel()]

def _try(f):
    try:
        with numpy.errstate(all="ignore"):
            return f()
    except BaseException as e:                       # an exception is an observable of this step
        return {"exc": type(e).__name__, "msg": str(e)[:200]}

def _data_kwargs(fam, d):
    """numpy constructor arguments of a family from the JSON data of a case"""
    kw = {}
    for a in FAMILIES[fam][2]:
        v = d[a]
        if a == "geno": kw[a] = numpy.array(v, dtype="int8")
        elif a == "familyid": kw[a] = numpy.array(v, dtype=int)
        elif a in ("ploidy", "nbestfndr"): kw[a] = int(v)
        else: kw[a] = numpy.array(v, dtype=float)
    return kw

def _ncand(fam, d):
    if fam in ("pafd", "pau", "mogs"): return len(d["geno"])
    if fam in ("opv", "gb"): return len(d["haplomat"][0])
    if fam in ("mgr", "meh"): return len(d["C"])
    if fam == "l2": return len(d["C"][0])
    if fam == "l1": return len(d["V"][0][0])
    return len(d[FAMILIES[fam][2][0]])

def make_problem(fam, enc, d, k, ev, imax=8):
    n = _ncand(fam, d)
    kw = _data_kwargs(fam, d)
    if fam in MATE:
        kw["decn_space_xmap"] = numpy.arange(n, dtype=int)[:, None]
    kw.update(_eval_kwargs(ev))
    if enc == "Subset":
        k = max(1, min(k, n))                     # the constructor requires ndecn <= number of candidates; latentfn uses len(x)
        kw.update(ndecn=k, decn_space=numpy.arange(n), decn_space_lower=numpy.repeat(0, k), decn_space_upper=numpy.repeat(n - 1, k))
    elif enc == "Real":
        kw.update(ndecn=n, decn_space=numpy.stack([numpy.zeros(n), numpy.ones(n)]), decn_space_lower=numpy.zeros(n), decn_space_upper=numpy.ones(n))
    elif enc == "Integer":
        kw.update(ndecn=n, decn_space=numpy.stack([numpy.zeros(n, dtype=int), numpy.repeat(imax, n)]), decn_space_lower=numpy.zeros(n, dtype=int), decn_space_upper=numpy.repeat(imax, n))
    else:
        kw.update(ndecn=n, decn_space=numpy.stack([numpy.zeros(n, dtype=int), numpy.ones(n, dtype=int)]), decn_space_lower=numpy.zeros(n, dtype=int), decn_space_upper=numpy.ones(n, dtype=int))
    return _cls(fam, enc)(**kw)

def _counts(n, s):
    c = [0] * n
    for i in s: c[i] += 1
    return c

def _lat(prob, x):
    return _try(lambda: _hx(prob.latentfn(x)))

def _ev(prob, x):
    def f():
        o, g, h = prob.evalfn(x)
        return [_hx(o), _hx(g), _hx(h)]
    return _try(f)

def _evaluate(prob, X):
    def f():
        r = prob.evaluate(numpy.asarray(X), return_as_dictionary=True)
        return {key: [_hx(row) for row in numpy.atleast_2d(numpy.asarray(r[key], dtype=float))] if r.get(key) is not None else None for key in ("F", "G", "H")}
    return _try(f)

def run_latent(case):
    fam, d, s, ev = case["fam"], case["data"], case["s"], case["eval"]
    n, k = _ncand(fam, d), len(s)
    out = {}
    ps = make_problem(fam, "Subset", d, max(k, 1), ev)
    out["nlatent"] = _try(lambda: int(ps.nlatent))
    xs = numpy.array(s, dtype=int)
    xp = numpy.array([s[i] for i in case["perm"]], dtype=int)
    out["sub"] = _lat(ps, xs)
    out["sub_perm"] = _lat(ps, xp)
    out["ev_sub"] = _ev(ps, xs)
    out["evaluate_sub"] = _evaluate(ps, [xs, xp]) if 0 < k <= n else None      # pymoo insists on len(x) == ndecn <= n
    out["evaluate_sub1"] = _evaluate(ps, xs) if 0 < k <= n else None
    if fam in SUBSET_ONLY:
        return out
    cnt = _counts(n, s)
    a = float(case["a"])
    pi = make_problem(fam, "Integer", d, k, ev, imax=max(cnt + case["xi"] + [1]))
    out["int"] = _lat(pi, numpy.array(cnt, dtype=int))
    out["xi"] = _lat(pi, numpy.array(case["xi"], dtype=int))
    out["ev_int"] = _ev(pi, numpy.array(case["xi"], dtype=int))
    out["zero_int"] = _lat(pi, numpy.zeros(n, dtype=int))
    pb = make_problem(fam, "Binary", d, k, ev)
    if max(cnt + [0]) <= 1:
        out["bin"] = _lat(pb, numpy.array(cnt, dtype=int))
        out["binb"] = _lat(pb, numpy.array(cnt, dtype=bool))
        out["ev_bin"] = _ev(pb, numpy.array(cnt, dtype=int))
    out["zero_bin"] = _lat(pb, numpy.zeros(n, dtype=int))
    pr = make_problem(fam, "Real", d, k, ev)
    xc = numpy.array(cnt, dtype=float)
    out["real"] = _lat(pr, xc / max(k, 1))
    out["real_a"] = _lat(pr, a * xc)
    xr = numpy.array(case["xr"], dtype=float)
    out["xr"] = _lat(pr, xr)
    out["xr_a"] = _lat(pr, a * xr)
    out["ev_real"] = _ev(pr, xr)
    out["evaluate_real"] = _evaluate(pr, [xr, a * xr])
    out["zero_real"] = _lat(pr, numpy.zeros(n))
    return out

# ------------------------------------------------------------------------------------------------ case generation
def _dy(rng, lo=-64, hi=64, den=16):
    return rng.randint(lo, hi) / den

def _mat(rng, r, c, **kw):
    return [[_dy(rng, **kw) for _ in range(c)] for _ in range(r)]

def _triu(rng, n):
    """upper-triangular factor with positive diagonal (the shape chol(K)' has)"""
    return [[(rng.randint(1, 32) / 16 if i == j else (_dy(rng, -32, 32) if j > i else 0.0)) for j in range(n)] for i in range(n)]

def gen_data(rng, fam, n, t, ploidy=None):
    if fam in LINEAR:
        return {FAMILIES[fam][2][0]: _mat(rng, n, t)}
    if fam == "ocs": return {"ebv": _mat(rng, n, t), "C": _triu(rng, n)}
    if fam in ("mgr", "meh"): return {"C": _triu(rng, n)}
    if fam == "l2": return {"C": [_triu(rng, n) for _ in range(t)]}
    if fam == "l1":
        p = rng.randint(1, 4)
        return {"V": [[[_dy(rng) for _ in range(n)] for _ in range(p)] for _ in range(t)]}
    if fam == "fam":
        labels = rng.sample([1, 2, 3, 5, 8, 13, 21], rng.randint(1, min(4, n)))
        ids = [rng.choice(labels) for _ in range(n)]
        return {"ebv": _mat(rng, n, t), "familyid": ids}
    if fam in ("pafd", "pau", "mogs"):
        ploidy = ploidy or rng.choice([1, 2, 2, 4])
        p = rng.randint(1, 4)
        kinds = [rng.choice(["fix0", "fix1", "poly", "poly", "one"]) for _ in range(p)]
        geno = [[{"fix0": 0, "fix1": ploidy, "one": ploidy, "poly": rng.randint(0, ploidy)}[kinds[j]] for j in range(p)] for _ in range(n)]
        for j in range(p):
            if kinds[j] == "one": geno[rng.randrange(n)][j] = ploidy - 1
        tf = lambda: rng.choice([0.0, 1.0, 0.5, 0.25, rng.randint(1, 15) / 16])
        return {"geno": geno, "ploidy": ploidy, "mkrwt": [[rng.randint(0, 32) / 8 for _ in range(t)] for _ in range(p)],
                "tfreq": [[tf() for _ in range(t)] for _ in range(p)]}
    if fam in ("opv", "gb"):
        m, b = rng.choice([1, 2, 2, 3]), rng.randint(1, 3)
        d = {"haplomat": [[[[_dy(rng) for _ in range(t)] for _ in range(b)] for _ in range(n)] for _ in range(m)]}
        if fam == "gb": d["nbestfndr"] = 1
        return d
    raise ValueError(fam)

TRANS_KINDS = ["none", "id", "empty", "sum", "dot", "decnsum", "mix"]
def gen_eval(rng, nlat):
    ev = {}
    for nm, default in (("obj", "id"), ("ineq", "empty"), ("eq", "empty")):
        k = rng.choice(TRANS_KINDS if nm != "obj" else ["none", "id", "sum", "dot", "mix", "decnsum"])
        spec = [k]
        if k == "dot": spec.append([_dy(rng, -32, 32) for _ in range(nlat)])
        if k == "decnsum": spec.append(rng.choice([1.0, 0.5, 2.0, 3.0]))
        if k == "mix": spec.append(_dy(rng, -32, 32))
        ln = _trans_len(spec, nlat, default)
        if nm == "obj" and ln == 0: spec, ln = ["id"], nlat
        wt = [_dy(rng, -48, 48) for _ in range(ln)]
        if rng.random() < 0.15: wt = [1.0] * ln
        ev[nm] = [spec, wt]
    return ev

def nlatent_of(fam, d):
    if fam in LINEAR: return len(d[FAMILIES[fam][2][0]][0])
    if fam == "ocs": return 1 + len(d["ebv"][0])
    if fam in ("mgr", "meh"): return 1
    if fam == "l2": return len(d["C"])
    if fam == "l1": return len(d["V"])
    if fam == "fam": return len(d["ebv"][0]) + len(set(d["familyid"]))
    if fam in ("pafd", "pau"): return len(d["mkrwt"][0])
    if fam == "mogs": return 2 * len(d["mkrwt"][0])
    if fam in ("opv", "gb"): return len(d["haplomat"][0][0][0])

BAD_PK = [(1, 49), (2, 49), (4, 49), (1, 98), (1, 103), (2, 103), (1, 107)]   # (ploidy, k)
def gen_latent(rng, fam, mode="rand"):
    """one latent-function case of a family"""
    afam = fam in ("pafd", "pau", "mogs")
    t = rng.choice([1, 2, 2, 3])
    if afam and mode == "badn":
        # ploidy * k is a size whose reciprocal is inexact in binary64: fl(fl(1/N) * N) < 1
        pl, k = rng.choice(BAD_PK)
        n = k + rng.randint(0, 2)
        d = gen_data(rng, fam, n, t, ploidy=pl)
        s = rng.sample(range(n), k)
    else:
        n = rng.choice([1, 2, 3, 3, 4, 5, 6, 8])
        k = rng.choice([1, 2, 2, 3, 4, 4, 5, 6, 8])
        d = gen_data(rng, fam, n, t)
        style = rng.random()
        if style < 0.55 and k <= n: s = rng.sample(range(n), k)              # a genuine subset
        elif style < 0.65: s = list(range(n))                                # everybody
        else: s = [rng.randrange(n) for _ in range(k)]                       # with repeats (integer-count reading)
        k = len(s)
    if fam == "gb": d["nbestfndr"] = rng.randint(1, k)
    perm = list(range(k)); rng.shuffle(perm)
    if rng.random() < 0.1: perm = perm[::-1]
    a = rng.choice([2.0, 0.5, 4.0, 3.0, 0.375, 1.5, 7.0, 0.0625, 1024.0])
    xr = [rng.choice([0, 0, 1, 2, 3, 4, 8, 16]) / 16 for _ in range(n)]
    if sum(xr) == 0: xr[rng.randrange(n)] = 0.5
    xi = [rng.choice([0, 0, 1, 1, 2, 3]) for _ in range(n)]
    if rng.random() < 0.85 and sum(xi) == 0: xi[rng.randrange(n)] = 1
    c = {"kind": "latent", "fam": fam, "data": d, "s": s, "perm": perm, "a": a, "xr": xr, "xi": xi, "eval": gen_eval(rng, nlatent_of(fam, d))}
    return c

def gen_guard(rng, fam):
    """real vectors whose sum is at / inside / just outside the 1e-10 guard of the source"""
    c = gen_latent(rng, fam)
    n = _ncand(fam, c["data"])
    which = rng.choice(["at", "inside", "outside", "tiny"])
    base = {"at": EPS, "inside": EPS * (1 - 2 ** -50), "outside": EPS * 1.5, "tiny": 2.0 ** -60}[which]
    xr = [0.0] * n
    xr[rng.randrange(n)] = base
    c["xr"] = xr
    c["a"] = rng.choice([2.0, 0.5, 1024.0, 2.0 ** 20])
    c["guard"] = which
    return c

# ------------------------------------------------------------------------------------------------ independent predicate
F = Fraction
TOL = F(1, 2 ** 30)
def _fr(h):
    v = float.fromhex(h) if isinstance(h, str) else float(h)
    if math.isnan(v) or math.isinf(v): return None
    return F(v)
def _frl(lst):
    if lst is None or isinstance(lst, dict): return None
    o = [_fr(h) for h in lst]
    return None if any(v is None for v in o) else o
def _close(x, y):
    """|x - y| <= 2^-30 (1 + |y|), y the exact value"""
    return abs(x - y) <= TOL * (1 + abs(y))
def _closel(a, b):
    return a is not None and b is not None and len(a) == len(b) and all(_close(x, y) for x, y in zip(a, b))
def _sq_close(v, sq):
    """v >= 0 (up to rounding) and v^2 close to the exact square"""
    return v >= -TOL and _close(v * v, sq)

def _Fm(m): return [[F(v) for v in r] for r in m]

def defn(fam, d, c, members):
    """the criterion's definition on a contribution vector c (sums to one), exact rationals; norms are returned squared
    as ('sq', value).  members = the selected candidates as a multiset (needed by the max-type criteria)."""
    n = len(c)
    def lin(M): return [-sum(c[i] * F(M[i][j]) for i in range(n)) for j in range(len(M[0]))]
    def quad(C): return ("sq", sum(sum(F(r[i]) * c[i] for i in range(n)) ** 2 for r in C))
    if fam in LINEAR: return lin(d[FAMILIES[fam][2][0]])
    if fam == "ocs": return [quad(d["C"])] + lin(d["ebv"])
    if fam == "mgr": return [quad(d["C"])]
    if fam == "meh": return [("1-", quad(d["C"])[1])]              # -(1 - sqrt(.))
    if fam == "l2": return [quad(C) for C in d["C"]]
    if fam == "l1": return [sum(abs(sum(F(row[i]) * c[i] for i in range(n))) for row in V) for V in d["V"]]
    if fam == "fam":
        fams = sorted(set(d["familyid"]))
        return lin(d["ebv"]) + [-sum(c[i] for i in range(n) if d["familyid"][i] == f) for f in fams]
    if fam in ("pafd", "pau", "mogs"):
        pl, g, w, tf = d["ploidy"], d["geno"], d["mkrwt"], d["tfreq"]
        p, t = len(w), len(w[0])
        pf = [sum(c[i] * g[i][j] for i in range(n)) / pl for j in range(p)]
        def unavail(pj, tj):
            tj = F(tj)
            if tj <= 0: return pj >= 1            # target: allele 1 lost -> the 0 allele must still exist
            if tj >= 1: return pj <= 0
            return pj <= 0 or pj >= 1
        pau = [sum(F(w[j][q]) for j in range(p) if unavail(pf[j], tf[j][q])) for q in range(t)]
        pafd = [sum(F(w[j][q]) * abs(F(tf[j][q]) - pf[j]) for j in range(p)) for q in range(t)]
        return pafd if fam == "pafd" else pau if fam == "pau" else pau + pafd
    if fam in ("opv", "gb"):
        H = d["haplomat"]; m = len(H); b = len(H[0][0]); t = len(H[0][0][0])
        best = lambda i, bb, q: max(F(H[ph][i][bb][q]) for ph in range(m))
        if fam == "opv":
            return [-m * sum(max(best(i, bb, q) for i in members) for bb in range(b)) for q in range(t)]
        nb = d["nbestfndr"]
        return [-F(m, nb) * sum(sum(sorted(best(i, bb, q) for i in members)[len(members) - nb:]) for bb in range(b)) for q in range(t)]
    raise ValueError(fam)

def _match(impl, want):
    """impl: list of Fractions (or None), want: list of exact values / ('sq', v) / ('1-', v)"""
    if impl is None or len(impl) != len(want): return False
    for x, y in zip(impl, want):
        if isinstance(y, tuple):
            if y[0] == "sq":
                if not _sq_close(x, y[1]): return False
            else:
                if not _sq_close(1 + x, y[1]): return False
        elif not _close(x, y): return False
    return True

def apply_trans(spec, default, x, lat):
    """the declared transformation, recomputed exactly.  x, lat lists of Fractions"""
    k = spec[0]
    if k == "none": k = default
    if k == "id": return list(lat)
    if k == "empty": return []
    if k == "sum": return [sum(lat)]
    if k == "dot": return [sum(F(w) * v for w, v in zip(spec[1], lat))]
    if k == "decnsum": return [abs(sum(x) - F(spec[1]))]
    if k == "mix": return [v * F(spec[1]) + sum(x) for v in lat]

def _evalfn_ok(ev, x, lat, got):
    """got = [obj, ineq, eq] as reported; must be the declared weights times the declared transformation of the reported latent vector"""
    if isinstance(got, dict) or got is None: return False
    for (nm, default), g in zip((("obj", "id"), ("ineq", "empty"), ("eq", "empty")), got):
        spec, wt = ev[nm]
        want = [F(w) * v for w, v in zip(wt, apply_trans(spec, default, x, lat))]
        gl = _frl(g)
        if gl is None or len(gl) != len(want) or not all(_close(a, b) for a, b in zip(gl, want)): return False
    return True

def pred_latent(case, out):
    bad = []
    fam, d, s, ev = case["fam"], case["data"], case["s"], case["eval"]
    n, k = _ncand(fam, d), len(s)
    cnt = _counts(n, s)
    dup = max(cnt + [0]) > 1
    for key, v in out.items():
        if isinstance(v, dict) and "exc" in v:
            bad.append("%s raised %s: %s" % (key, v["exc"], v["msg"]))
    if bad: return bad
    if out["nlatent"] != nlatent_of(fam, d): bad.append("nlatent %r != %d" % (out["nlatent"], nlatent_of(fam, d)))
    c = [F(v, k) for v in cnt]
    want = defn(fam, d, c, s)
    sub = _frl(out["sub"])
    # the subset reading of a multiset with repeats is outside the subset decision space for the family criterion
    # (assignment instead of accumulation); everywhere else the multiplicity/k reading is checked too
    if not (fam == "fam" and dup):
        if not _match(sub, want): bad.append("subset latent vector != definition (family %s, s=%s)" % (fam, s))
    subp = _frl(out["sub_perm"])
    if sub is None or subp is None or not _closel(subp, sub): bad.append("subset latent vector depends on the listing order")
    if not _evalfn_ok(ev, [F(i) for i in s], sub or [], out["ev_sub"]): bad.append("subset evalfn != weights * transformations(latent)")
    for key in ("evaluate_sub", "evaluate_sub1"):
        r = out.get(key)
        if r is None: continue
        rows = 2 if key == "evaluate_sub" else 1
        exp = out["ev_sub"]
        for nm, g in zip(("F", "G", "H"), exp):
            have = r.get(nm)
            if len(g) == 0:
                if have not in (None, []) and any(len(h) for h in have): bad.append("%s[%s] not empty" % (key, nm))
                continue
            if have is None or len(have) != rows: bad.append("%s[%s] has wrong shape" % (key, nm)); continue
            for h in have:
                if not _closel(_frl(h), _frl(g)): bad.append("%s[%s] row != evalfn of that row" % (key, nm))
    if fam in SUBSET_ONLY:
        return bad
    guarded = fam in GUARDED
    # ---- encodings of the same contributions
    for key in ("int", "bin", "binb", "real", "real_a"):
        if key not in out: continue
        if not _match(_frl(out[key]), want): bad.append("%s encoding of the same contributions != definition" % key)
        elif sub is not None and not (fam == "fam" and dup) and not _closel(_frl(out[key]), sub): bad.append("%s encoding differs from the subset encoding" % key)
    # ---- free vectors
    a = F(case["a"])
    for key, x in (("xr", [F(v) for v in case["xr"]]), ("xi", [F(v) for v in case["xi"]])):
        tot = sum(x)
        got = _frl(out[key])
        if tot == 0:
            continue                                  # no contributions to speak of; the zero-vector observables are compared by the model
        cw = [v / tot for v in x]
        w2 = defn(fam, d, cw, [i for i in range(n) if x[i] > 0])
        if not _match(got, w2): bad.append("%s latent vector != definition on x/sum(x) (sum=%s)" % (key, float(tot)))
    xr = _frl(out["xr"]); xra = _frl(out["xr_a"])
    if xr is None or xra is None or not _closel(xra, xr): bad.append("latent vector changes under positive rescaling of a real contribution vector (a=%s, sum=%r)" % (case["a"], sum(case["xr"])))
    if not _evalfn_ok(ev, [F(v) for v in case["xr"]], xr or [], out["ev_real"]): bad.append("real evalfn != weights * transformations(latent)")
    xi = _frl(out["xi"])
    if sum(case["xi"]) > 0 and not _evalfn_ok(ev, [F(v) for v in case["xi"]], xi or [], out["ev_int"]): bad.append("integer evalfn != weights * transformations(latent)")
    if "ev_bin" in out and not _evalfn_ok(ev, [F(v) for v in cnt], _frl(out["bin"]) or [], out["ev_bin"]): bad.append("binary evalfn != weights * transformations(latent)")
    r = out.get("evaluate_real")
    if r is not None and not isinstance(r, dict): bad.append("evaluate_real")
    elif r is not None and "exc" not in r:
        for nm, g in zip(("F", "G", "H"), out["ev_real"]):
            if len(g) and (r.get(nm) is None or not _closel(_frl(r[nm][0]), _frl(g))): bad.append("evaluate(X)[%s] row 0 != evalfn(x)" % nm)
    seen = []
    for b in bad:
        if b not in seen: seen.append(b)
    return seen[:8]
