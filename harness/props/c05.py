"""C05 — selection objectives mean what they say in every decision encoding.
Correspondence between Model/C05_Latent.v (criterion families over Q + the binary64 allele-frequency thresholds) and every
concrete SelectionProblem class of pybrops.breed.prot.sel.prob, plus the independent predicate (definitions recomputed with
exact rationals from the underlying data)."""
import math, itertools
from fractions import Fraction
import numpy
import coqemit as E

ID = "C05"
PROPS = "Props/C05.v"
IMPORTS = "From Coq Require Import PrimFloat.\nFrom PV Require Import Lib.Common Lib.FloatK Model.C05_Latent Model.C05_Factory Model.C05_Report."
SHARD = 40
LEVEL_TEXT = ("Coq theorems over an exact-rational model of the criterion families (linear, quadratic/kinship-factor, L1, family, "
              "allele-frequency distance/unavailability, optimal population value, genotype builder) and of evalfn: the subset formula of "
              "every family equals the contribution-vector formula at multiplicity/k, integer-count and binary-indicator vectors normalise "
              "to that contribution vector, values are invariant under permutations of the subset and under positive rescaling outside the "
              "|sum x| < 1e-10 guard, ||C c||^2 = c'(C'C)c, evalfn = weights x transformations of the latent vector, the declared nlatent is the "
              "length of the latent vector, the usefulness-criterion latent vector is the contribution-weighted parental mean + intensity x sigma for any "
              "contribution vector (a mean when the contributions sum to one, the plain mean when they are uniform, not the plain mean for a three-way cross); the allele-availability thresholds are modelled bit-exactly in binary64 (one correctly rounded "
              "division count/(ploidy*k)) and proved equal to the count-based definition for every selection of up to 2^53 chromosome copies "
              "and every target frequency in [0,1] (through Flocq); the former code (rounded reciprocal, tmajor computed with the tminor test) "
              "is refuted on separately named old_ definitions as a regression witness; so is the former caching of the target flags in the tfreq setter (old_pau_stale / old_mogs_stale), "
              "while the current code is proved to answer a call after an in-place update of the target array from the current targets, after any history, and that answer is the count-based definition. The model is tied to the code by evaluating it inside "
              "Coq against latentfn/evalfn/evaluate/nlatent of all 61 evaluable concrete problem classes on generated data. "
              "Optimal haploid value tables for ANY number of parents: the cross map of k parents is exactly the strictly increasing / non-decreasing index tuples of length k "
              "(C05_cross_map_tuples; the pair map for k = 2), an entry of a row is at least ploidy x the block sum of ANY phase of ANY parent of the row - first, last or in between "
              "(C05_ohv_every_parent_counts), and the table on a cross map is the regenerated expression of _calc_ohvmat on the block values of every phase and every parent of the row "
              "(C05_kernel_ohv_table); the OHV factories are evaluated in Coq for 1, 2, 3 and 4 parents, unique parents both ways, every chunk size. "
              "Kernel expressions regenerated from the source on every run (Gen/C05_Kernel.v, 179 definitions: guard and normalisation of all 39 "
              "vector-encoded latent functions, sign / 1/k coefficient of every linear, quadratic, L1 and family body, order of the latent blocks, the "
              "binary64 frequency quotient with its threshold and flag algebra for PAU/MOGS and what each target-flag property computes on access (the tfreq setter may store the array only), OPV / "
              "genotype-builder coefficients and slice, evalfn, the reporting path SelectionProblem._evaluate (branch test, the table key -> element of the evalfn triple of the vector "
              "branch and of the matrix branch, both filters; no class may override _evaluate / evalfn), the transformations of trans.py, the usefulness-criterion formula, the accumulate-and-divide "
              "loop of the EMBV problems and the replicate buffer / loop count / progeny count of the EMBV matrix factory) are proved equal to the model's "
              "expressions, and the availability, scale-invariance and guard-boundary theorems are restated about the generated definitions, so a changed "
              "expression breaks Props/C05.vo independently of the sampled cases. Further theorems: a re-used problem object answers each call from the "
              "data assigned last (any history), the linear criteria are homogeneous of degree one in their table, the expected maximum breeding value "
              "of a line whose progeny all have breeding value b is b. Reporting path (Model/C05_Report.v, built from the generated tables): F, G, H are "
              "elements 0, 1, 2 of the evalfn triple in BOTH branches of _evaluate, so for every latent function, weights and transformations what "
              "_evaluate reports for a vector, and row by row for a matrix of candidates, is weights x transformations of the latent vector of that "
              "candidate; a key is stored iff its declared count is positive, every stored matrix has one row per candidate, one row through the matrix "
              "branch reports the numbers of the vector branch; 'H taken from the inequality column' is refuted as a regression witness; all 61 classes are "
              "driven through evalfn / _evaluate(x) / _evaluate(x[None,:]) / _evaluate(X) / pymoo's evaluate with elementwise True and False and compared in Coq")
LEVEL_NOTE = ("trusted: Coq kernel + vm_compute, PrimFloat primitives; BLAS/numpy summation order is not modelled (values compared within 2^-30 of "
              "the exact rational, exactly on power-of-two cases); sqrt (norms, usefulness criterion), the normal density (selection intensity), "
              "arcsin/sqrt weights and Cholesky factors are compared through their squares / within tolerance by the predicate only; factory "
              "methods are checked by the independent predicate (definition recomputed from the population, taxon-permutation equivariance) "
              "and, where the definition is rational (gebv, integer-alpha gwgebv, haplotype values, L1 tensor, cross maps, selfed EMBV), by the "
              "Coq model too; the expected-maximum-breeding-value factories are compared with the definition (mean over exactly the replicates drawn of "
              "the maximum over the progeny of the replicate) on the progeny the library itself simulated, which the harness records at the library's call of "
              "dense_dh / MatingProtocol.mate (that those progeny are Mendelian is only checked allele-wise here; meiosis is C01/C02); the kernel translator "
              "(harness/translate/c05_kernel.py on top of pyexpr) is trusted and fails closed; the |sum x| < 1e-10 guard of the real-encoded classes stays a known finding (design decision of the library); "
              "the binary64 division theorem rests on Flocq's PrimFloat bridge (classical reals); simulation-based problems (look-ahead) are out of scope")
TECHNIQUE = "Coq proof over an executable rational/binary64 model; in-Coq vm_compute correspondence with the implementation; exact-rational predicate"
RULE = ("case = (criterion family, candidate data on a dyadic grid, selected multiset s, listing permutation, positive scale a, free real / "
        "integer vectors, objective/constraint weights and transformation specs) evaluated on all encodings of that family, or "
        "(population, taxon permutation, factory) for the factory clause (the usefulness-criterion constructors from_pgmat_gpmod and from_pgmat_gpmod_xmap "
        "with every variance-matrix factory of pybrops.model.vmat.fcty they accept — two-way, dihybrid, three-way, four-way — on parents with "
        "distinct breeding values, contributions written down in the harness; the EMBV matrix factory with nrep / nprogeny as scalars and as per-taxon arrays with "
        "unequal entries, sorted both ways, int32/int64; the EMBV problem factories with EVERY mating protocol of pybrops.breed.prot.mate (self, two-, three-, four-way, with and without doubled haploids: "
        "nparent 1..4, enumerated at run time, fail closed) and unique_parents both ways on homozygous and segregating parents; the OHV factories with nparent 1, 2, 3, 4 x unique_parents "
        "both ways on populations chosen so that every column of the cross map matters (leaving any one parent out lowers some entry), plus populations whose cross map exceeds the "
        "factories' chunk of 1024 rows, plus direct calls of _calc_ohvmat with mem in {None, 1, 2, 3, 5, rows-1, rows, rows+1, 1024} on the factory's cross map and on a cross map "
        "of unsorted rows / unsorted parents / repeats - every table compared with ploidy x sum over blocks of the best block value among all phases of all parents of the row, "
        "recomputed from the raw haplotypes; "
        "from_numpy of the weighted classes), or the class / factory-method / variance-factory enumeration cases, or "
        "(concrete class, data, 2..5 candidates, nobj in {1, 2, 3, nlatent}, (nineqcv, neqcv) cycled over none / equality only / inequality only / both with "
        "different widths / both with equal widths, transformations of trans.py or harness-defined ones of any width with keyword arguments, weights of both signs, "
        "zeros and all-zero constraint weights) for the reporting clause: evalfn, _evaluate on a vector / a one-row matrix / the matrix / the matrix reversed, "
        "problem.evaluate through pymoo with elementwise=True and with a problem constructed with elementwise=False — keys present, shapes, values row by row; every latent case with at most 12 candidates is also a "
        "session on the same problem objects (inputs left intact; new data through every property setter incl. the target flags read afterwards; deep copy equal and "
        "array-disjoint; in-place update of a data array and, for the allele-frequency families, of the target array — targets moved across 0 / 1 — seen by the next "
        "call of the subset and the real problem and by the flag properties) and is repeated on data scaled by 2^-40, 2^-20, 2^12 or 2^20 (exact scale law); "
        "targets 2^-40 and 1-2^-40 next to exact 0 / 1; one PRNG; sizes n 1..8 (up to 206 for "
        "the allele-frequency families so that ploidy*k hits 49, 98, 103, 107 where a rounded reciprocal is inexact), target frequencies incl. "
        "exactly 0 and 1, k 1..6 incl. repeated members, zero vectors, guard-region sums; "
        "non-trivial = at least two distinct members selected out of >= 3 candidates; distinct by SHA-256 of the case")
TRUSTED = ["numpy/BLAS dot and pairwise summation: compared in tolerance regime T (2^-30) against exact rationals, exactly (E) when k and the sums are powers of two",
           "int8 genotype sums and int->float conversion are exact (modelled by PrimFloat.of_uint63)",
           "harness/translate/c05_kernel.py (ast -> Gallina for the kernel expressions; fail closed)",
           "the progeny recorded at dense_dh / MatingProtocol.mate are what the EMBV factories average over (module attribute / subclass spies installed by the harness, no hooks in the library)",
           "haplotype block boundaries (haplobin*, property C18), genetic variance matrices (C12), coancestry matrices (C13) and gebv() are taken from pybrops when the factory clause is checked"]
ASSUMPTIONS = ["decision vectors: subset = indices into the candidates (repeats allowed only where noted), integer >= 0, binary in {0,1}, real >= 0",
               "kinship factors are upper triangular as the constructors require", "mkrwt >= 0, tfreq in [0,1]"]

EPS = 1e-10   # the guard constant of the source

# ------------------------------------------------------------------------------------------------ class table
P = "pybrops.breed.prot.sel.prob."
# family -> (module, {encoding: class name}, constructor data arguments)
FAMILIES = {
    "ebv":   ("EstimatedBreedingValueSelectionProblem", "EstimatedBreedingValue%sSelectionProblem", ["ebv"]),
    "gebv":  ("GenomicEstimatedBreedingValueSelectionProblem", "GenomicEstimatedBreedingValue%sSelectionProblem", ["gebv"]),
    "gwgebv": ("GeneralizedWeightedGenomicEstimatedBreedingValueSelectionProblem", "GeneralizedWeightedGenomicEstimatedBreedingValue%sSelectionProblem", ["gwgebv"]),
    "wgs":   ("WeightedGenomicSelectionProblem", "WeightedGenomic%sSelectionProblem", ["wgebv"]),
    "embv":  ("ExpectedMaximumBreedingValueSelectionProblem", "ExpectedMaximumBreedingValue%sSelectionProblem", ["embv"]),
    "rand":  ("RandomSelectionProblem", "Random%sSelectionProblem", ["rbv"]),
    "uc":    ("UsefulnessCriterionSelectionProblem", "UsefulnessCriterion%sMateSelectionProblem", ["ucmat"]),
    "ohv":   ("OptimalHaploidValueSelectionProblem", "OptimalHaploidValue%sSelectionProblem", ["ohvmat"]),
    "ocs":   ("OptimalContributionSelectionProblem", "OptimalContribution%sSelectionProblem", ["ebv", "C"]),
    "mgr":   ("MeanGenomicRelationshipSelectionProblem", "MeanGenomicRelationship%sSelectionProblem", ["C"]),
    "meh":   ("MeanExpectedHeterozygositySelectionProblem", "MeanExpectedHeterozygosity%sSelectionProblem", ["C"]),
    "l2":    ("L2NormGenomicSelectionProblem", "L2NormGenomic%sSelectionProblem", ["C"]),
    "l1":    ("L1NormGenomicSelectionProblem", "L1NormGenomic%sSelectionProblem", ["V"]),
    "fam":   ("FamilyEstimatedBreedingValueSelectionProblem", "FamilyEstimatedBreedingValue%sSelectionProblem", ["ebv", "familyid"]),
    "pafd":  ("PopulationAlleleFrequencyDistanceSelectionProblem", "PopulationAlleleFrequencyDistance%sSelectionProblem", ["geno", "ploidy", "mkrwt", "tfreq"]),
    "pau":   ("PopulationAlleleUnavailabilitySelectionProblem", "PopulationAlleleUnavailability%sSelectionProblem", ["geno", "ploidy", "mkrwt", "tfreq"]),
    "mogs":  ("MultiObjectiveGenomicSelectionProblem", "MultiObjectiveGenomic%sSelectionProblem", ["geno", "ploidy", "mkrwt", "tfreq"]),
    "opv":   ("OptimalPopulationValueSelectionProblem", "OptimalPopulationValue%sSelectionProblem", ["haplomat"]),
    "gb":    ("GenotypeBuilderSelectionProblem", "GenotypeBuilder%sSelectionProblem", ["haplomat", "nbestfndr"]),
}
SUBSET_ONLY = ("pafd", "pau", "mogs", "opv", "gb")
MATE = ("embv", "uc", "ohv")                         # constructors also take decn_space_xmap
GUARDED = ("ebv", "gebv", "gwgebv", "wgs", "embv", "rand", "ocs", "mgr", "meh")   # |sum x| < 1e-10 -> 1 guard present in the source
LINEAR = ("ebv", "gebv", "gwgebv", "wgs", "embv", "rand", "uc", "ohv")
ENCODINGS = ("Subset", "Integer", "Binary", "Real")
# concrete classes that are deliberately not evaluated, with the reason (the enumeration case fails on any class that is
# neither mapped to a family above nor listed here)
SKIPPED = {
    "MultiObjectiveGenomicSubsetMatingProblem": "latentfn is an explicit stub that raises Exception('implement extraction of parents from xmap') "
                                                "unconditionally; the check asserts it still raises",
    "RealLookAheadGeneralizedWeightedGenomicSelectionProblem": "latentfn simulates breeding cycles with the global numpy.random stream "
                                                               "(meiosis/mating are properties C01/C08); no closed-form definition to compare with",
}

# public functions of sel/prob/trans.py: driven as objective / constraint transformations (see _trans_fn), or skipped with a reason
TRANS_DRIVEN = {"trans_identity", "trans_empty", "trans_sum", "trans_dot", "trans_decnvec_sum_eq"}
TRANS_SKIPPED = {"trans_ndpt_to_vec_dist": "a transformation of a whole non-dominated point set (front -> distances to a vector), not of a latent vector: "
                                           "it is the default ndset_trans of the selection protocols and is checked by property C19"}

# variance-matrix factories the usefulness-criterion constructors are driven with: class name (module of the same name in
# pybrops.model.vmat.fcty) -> (number of parents, expected parental genome contributions in the column order of the cross map).
# The contributions are WRITTEN DOWN HERE (pedigree arithmetic of a doubled-haploid line from the cross), never read from pybrops:
#   two-way  A x B: half of each parent;  dihybrid: a two-parent cross as well;
#   three-way (A x B) x R, cross-map / matrix axis order (recurrent R, female A, male B): R gives 1/2, A and B 1/4 each;
#   four-way (A x B) x (C x D): a quarter each.
UC_VMAT = {
    "DenseTwoWayDHAdditiveGeneticVarianceMatrixFactory": (2, [0.5, 0.5]),
    "DenseDihybridDHAdditiveGeneticVarianceMatrixFactory": (2, [0.5, 0.5]),
    "DenseThreeWayDHAdditiveGeneticVarianceMatrixFactory": (3, [0.5, 0.25, 0.25]),
    "DenseFourWayDHAdditiveGeneticVarianceMatrixFactory": (4, [0.25, 0.25, 0.25, 0.25]),
}
UC_VMAT_DEFAULT = "DenseTwoWayDHAdditiveGeneticVarianceMatrixFactory"
# concrete factories of pybrops.model.vmat.fcty that the UC constructors do not accept on the unchanged tree (asserted on every run)
UC_VMAT_SKIPPED = {
    "DenseTwoWayDHAdditiveGenicVarianceMatrixFactory": ("TypeError", "a GenicVarianceMatrixFactory, not a GeneticVarianceMatrixFactory: both UC constructors reject it "
                                                        "with TypeError ('vmatfcty' must be a GeneticVarianceMatrixFactory)"),
}
VP = "pybrops.model.vmat.fcty."

def _vf_short(name):
    return name.replace("Dense", "").replace("AdditiveGeneticVarianceMatrixFactory", "")

def _vmat_factory(name):
    import importlib
    return getattr(importlib.import_module(VP + name), name)

def enumerate_vmat_factories():
    """all concrete classes defined in pybrops.model.vmat.fcty, by introspection"""
    import pkgutil, importlib, inspect
    import pybrops.model.vmat.fcty as PK
    out = []
    for m in pkgutil.iter_modules(PK.__path__):
        mod = importlib.import_module(PK.__name__ + "." + m.name)
        for nme, c in vars(mod).items():
            if inspect.isclass(c) and c.__module__ == mod.__name__ and not getattr(c, "__abstractmethods__", ()) and hasattr(c, "from_gmod"):
                out.append(nme)
    return sorted(out)

def _uc_xmap(case):
    """the cross map a UC factory case must end up with: the given one, or every combination of taxa (without / with repeats), lexicographic"""
    A = case["args"]; n = len(case["pop"]["labels"])
    if case["which"] == "uc_xmap": return [list(r) for r in A["xmap"]]
    npar = UC_VMAT[A.get("vf", UC_VMAT_DEFAULT)][0]
    it = itertools.combinations(range(n), npar) if A["unique"] else itertools.combinations_with_replacement(range(n), npar)
    return [list(v) for v in it]

def family_classes(fam):
    mod, pat, _ = FAMILIES[fam]
    encs = ("Subset",) if fam in SUBSET_ONLY else ENCODINGS
    return {enc: (P + mod, pat % enc) for enc in encs}

def _cls(fam, enc):
    import importlib
    m, c = family_classes(fam)[enc]
    return getattr(importlib.import_module(m), c)

def enumerate_concrete():
    """all concrete SelectionProblem subclasses defined in pybrops.breed.prot.sel.prob, by introspection"""
    import pkgutil, importlib, inspect
    import pybrops.breed.prot.sel.prob as PK
    from pybrops.breed.prot.sel.prob.SelectionProblem import SelectionProblem
    out = {}
    for m in pkgutil.iter_modules(PK.__path__):
        mod = importlib.import_module(PK.__name__ + "." + m.name)
        for nme, c in vars(mod).items():
            if inspect.isclass(c) and issubclass(c, SelectionProblem) and c.__module__ == mod.__name__ and not getattr(c, "__abstractmethods__", ()):
                out[nme] = c.__module__
    return out

# ------------------------------------------------------------------------------------------------ transformations
def trans_mix(decnvec, latentvec, c=1.0, **kwargs):
    """harness-defined transformation that depends on both arguments (catches swapped/dropped arguments)"""
    return latentvec * c + decnvec.sum()

def trans_lin(decnvec, latentvec, M=None, b=0.0, **kwargs):
    """harness-defined transformation of ANY width (also 0): row i of M dotted with the latent vector, plus b * sum(decnvec)"""
    M = numpy.asarray(M, dtype=float).reshape(-1, len(latentvec))
    return M.dot(latentvec) + b * float(numpy.sum(decnvec))

def _trans_fn(spec):
    from pybrops.breed.prot.sel.prob import trans as T
    k = spec[0]
    if k == "none": return None, None                 # default: identity for objectives, empty for constraints
    if k == "id": return T.trans_identity, None
    if k == "empty": return T.trans_empty, {}
    if k == "sum": return T.trans_sum, None
    if k == "dot": return T.trans_dot, {"latentvec_wt": numpy.array(spec[1], dtype=float)}
    if k == "decnsum": return T.trans_decnvec_sum_eq, {"decnvec_sum": float(spec[1])}
    if k == "mix": return trans_mix, {"c": float(spec[1])}
    if k == "lin": return trans_lin, {"M": numpy.array(spec[1], dtype=float), "b": float(spec[2])}
    raise ValueError(spec)

def _trans_len(spec, nlat, default):
    k = spec[0]
    if k == "none": return nlat if default == "id" else 0
    if k == "lin": return len(spec[1])
    return {"id": nlat, "empty": 0, "sum": 1, "dot": 1, "decnsum": 1, "mix": nlat}[k]

def _eval_kwargs(ev):
    """constructor keyword arguments for the objective / constraint configuration of a case"""
    kw = {}
    for nm, key, cnt in (("obj", "obj", "nobj"), ("ineq", "ineqcv", "nineqcv"), ("eq", "eqcv", "neqcv")):
        spec, wt = ev[nm]
        fn, fkw = _trans_fn(spec)
        kw[cnt] = len(wt)
        kw[key + "_wt"] = numpy.array(wt, dtype=float) if wt is not None else None
        kw[key + "_trans"] = fn
        kw[key + "_trans_kwargs"] = fkw
    return kw

# ------------------------------------------------------------------------------------------------ implementation driver
def _hx(a):
    a = numpy.asarray(a, dtype=float)
    return [float(v).hex() for v in a.ravel()]

def _try(f):
    try:
        with numpy.errstate(all="ignore"):
            return f()
    except BaseException as e:                       # an exception is an observable of this step
        return {"exc": type(e).__name__, "msg": str(e)[:200]}

def _data_kwargs(fam, d):
    """numpy constructor arguments of a family from the JSON data of a case"""
    kw = {}
    for a in FAMILIES[fam][2]:
        v = d[a]
        if a == "geno": kw[a] = numpy.array(v, dtype="int8")
        elif a == "familyid": kw[a] = numpy.array(v, dtype=int)
        elif a in ("ploidy", "nbestfndr"): kw[a] = int(v)
        else: kw[a] = numpy.array(v, dtype=float)
    return kw

def _ncand(fam, d):
    if fam in ("pafd", "pau", "mogs"): return len(d["geno"])
    if fam in ("opv", "gb"): return len(d["haplomat"][0])
    if fam in ("mgr", "meh"): return len(d["C"])
    if fam == "l2": return len(d["C"][0])
    if fam == "l1": return len(d["V"][0][0])
    return len(d[FAMILIES[fam][2][0]])

def make_problem(fam, enc, d, k, ev, imax=8, **extra):
    n = _ncand(fam, d)
    kw = _data_kwargs(fam, d)
    if fam in MATE:
        kw["decn_space_xmap"] = numpy.arange(n, dtype=int)[:, None]
    kw.update(_eval_kwargs(ev))
    kw.update(extra)
    if enc == "Subset":
        k = max(1, min(k, n))                     # the constructor requires ndecn <= number of candidates; latentfn uses len(x)
        kw.update(ndecn=k, decn_space=numpy.arange(n), decn_space_lower=numpy.repeat(0, k), decn_space_upper=numpy.repeat(n - 1, k))
    elif enc == "Real":
        kw.update(ndecn=n, decn_space=numpy.stack([numpy.zeros(n), numpy.ones(n)]), decn_space_lower=numpy.zeros(n), decn_space_upper=numpy.ones(n))
    elif enc == "Integer":
        kw.update(ndecn=n, decn_space=numpy.stack([numpy.zeros(n, dtype=int), numpy.repeat(imax, n)]), decn_space_lower=numpy.zeros(n, dtype=int), decn_space_upper=numpy.repeat(imax, n))
    else:
        kw.update(ndecn=n, decn_space=numpy.stack([numpy.zeros(n, dtype=int), numpy.ones(n, dtype=int)]), decn_space_lower=numpy.zeros(n, dtype=int), decn_space_upper=numpy.ones(n, dtype=int))
    return _cls(fam, enc)(**kw)

def _counts(n, s):
    c = [0] * n
    for i in s: c[i] += 1
    return c

def _lat(prob, x):
    return _try(lambda: _hx(prob.latentfn(x)))

def _ev(prob, x):
    def f():
        o, g, h = prob.evalfn(x)
        return [_hx(o), _hx(g), _hx(h)]
    return _try(f)

def _evaluate(prob, X):
    def f():
        r = prob.evaluate(numpy.asarray(X), return_as_dictionary=True)
        return {key: [_hx(row) for row in numpy.atleast_2d(numpy.asarray(r[key], dtype=float))] if r.get(key) is not None else None for key in ("F", "G", "H")}
    return _try(f)

def run_latent(case):
    fam, d, s, ev = case["fam"], case["data"], case["s"], case["eval"]
    n, k = _ncand(fam, d), len(s)
    out = {}
    ps = make_problem(fam, "Subset", d, max(k, 1), ev)
    out["nlatent"] = _try(lambda: int(ps.nlatent))
    xs = numpy.array(s, dtype=int)
    xp = numpy.array([s[i] for i in case["perm"]], dtype=int)
    out["sub"] = _lat(ps, xs)
    out["sub_perm"] = _lat(ps, xp)
    out["ev_sub"] = _ev(ps, xs)
    x2 = numpy.array([(i + 1) % n for i in s], dtype=int)                        # a different selection for the second row
    out["ev_sub2"] = _ev(ps, x2)
    out["evaluate_sub"] = _evaluate(ps, [xs, x2]) if 0 < k <= n else None      # pymoo insists on len(x) == ndecn <= n
    out["evaluate_sub1"] = _evaluate(ps, xs) if 0 < k <= n else None
    if fam in ("pau", "pafd"):                    # the flags the tfreq setter derives from the targets
        out["tflags"] = _try(lambda: {nm: numpy.asarray(getattr(ps, nm)).astype(int).tolist() for nm in ("tminor", "thet", "tmajor")})
    if fam in SUBSET_ONLY:
        _lifecycle(case, out, ps, None, xs, None)
        return out
    cnt = _counts(n, s)
    a = float(case["a"])
    pi = make_problem(fam, "Integer", d, k, ev, imax=max(cnt + case["xi"] + [1]))
    out["int"] = _lat(pi, numpy.array(cnt, dtype=int))
    out["xi"] = _lat(pi, numpy.array(case["xi"], dtype=int))
    out["ev_int"] = _ev(pi, numpy.array(case["xi"], dtype=int))
    out["zero_int"] = _lat(pi, numpy.zeros(n, dtype=int))
    pb = make_problem(fam, "Binary", d, k, ev)
    if max(cnt + [0]) <= 1:
        out["bin"] = _lat(pb, numpy.array(cnt, dtype=int))
        out["binb"] = _lat(pb, numpy.array(cnt, dtype=bool))
        out["ev_bin"] = _ev(pb, numpy.array(cnt, dtype=int))
    out["zero_bin"] = _lat(pb, numpy.zeros(n, dtype=int))
    pr = make_problem(fam, "Real", d, k, ev)
    xc = numpy.array(cnt, dtype=float)
    out["real"] = _lat(pr, xc / max(k, 1))
    out["real_a"] = _lat(pr, a * xc)
    xr = numpy.array(case["xr"], dtype=float)
    out["xr"] = _lat(pr, xr)
    out["xr_a"] = _lat(pr, a * xr)
    out["ev_real"] = _ev(pr, xr)
    xi_f = numpy.array(case["xi"], dtype=float)
    out["ev_real2"] = _ev(pr, xi_f)
    out["evaluate_real"] = _evaluate(pr, [xr, xi_f])
    out["zero_real"] = _lat(pr, numpy.zeros(n))
    _lifecycle(case, out, ps, pr, xs, xr)
    return out

def _lifecycle(case, out, ps, pr, xs, xr):
    """the same problem objects, after the calls above: (1) decision vectors and data arrays are left untouched by latentfn /
    evalfn / evaluate; (2) new data assigned through the property setters -> the next call answers for the NEW data (target
    flags included); (3) a deep copy answers the same and shares no array with the original; (4) an in-place update of a data
    array — (4b) of the target array, flags included — is seen by the next call; (5) the problem built on data scaled by 2^e (scale law)."""
    import copy
    fam, d, ev = case["fam"], case["data"], case["eval"]
    if "data2" not in case: return
    # (1)
    def intact():
        bad = []
        if not numpy.array_equal(xs, numpy.array(case["s"], dtype=int)): bad.append("subset decision vector")
        if xr is not None and not numpy.array_equal(xr, numpy.array(case["xr"], dtype=float)): bad.append("real decision vector")
        for prob, tag in ((ps, "subset"), (pr, "real")):
            if prob is None: continue
            for a, v in _data_kwargs(fam, d).items():
                if not numpy.array_equal(numpy.asarray(getattr(prob, SETTER.get(a, a))), numpy.asarray(v)): bad.append("%s problem's %s" % (tag, a))
        return bad
    out["mutated"] = _try(intact)
    # (2)
    d2 = case["data2"]
    def assign(prob):
        for a, v in _data_kwargs(fam, d2).items(): setattr(prob, SETTER.get(a, a), v)
    out["sess_set"] = _try(lambda: (assign(ps), assign(pr) if pr is not None else None) and None)
    out["sess_sub"] = _lat(ps, xs)
    out["sess_nlatent"] = _try(lambda: int(ps.nlatent))
    if fam in ("pau", "pafd"):
        out["sess_tflags"] = _try(lambda: {nm: numpy.asarray(getattr(ps, nm)).astype(int).tolist() for nm in ("tminor", "thet", "tmajor")})
    if pr is not None: out["sess_real"] = _lat(pr, xr)
    # (3)
    def cp():
        pc = copy.deepcopy(ps)
        r = _hx(pc.latentfn(xs))
        a, _ = doubled_first(fam, d2)
        arr = getattr(pc, SETTER.get(a, a)); arr *= 3
        g = getattr(pc, "geno", None)
        if g is not None: g[...] = 0
        return r
    out["copy_sub"] = _try(cp)
    out["after_copy_mut"] = _lat(ps, xs)
    # (4)
    def inplace():
        a, _ = doubled_first(fam, d2)
        for prob in (ps, pr):
            if prob is not None:
                arr = getattr(prob, SETTER.get(a, a)); arr *= 2
    out["inplace_set"] = _try(inplace)
    out["inplace_sub"] = _lat(ps, xs)
    if pr is not None: out["inplace_real"] = _lat(pr, xr)
    # (4b) in-place update of the target array (allele-frequency families)
    if "tf3" in case:
        def tf_inplace():
            for prob in (ps, pr):
                if prob is not None: prob.tfreq[...] = numpy.array(case["tf3"], dtype=float)
        out["tf3_set"] = _try(tf_inplace)
        out["tf3_sub"] = _lat(ps, xs)
        if pr is not None: out["tf3_real"] = _lat(pr, xr)
        if fam in ("pau", "pafd"):
            out["tf3_tflags"] = _try(lambda: {nm: numpy.asarray(getattr(ps, nm)).astype(int).tolist() for nm in ("tminor", "thet", "tmajor")})
        if fam == "mogs":
            out["tf3_tflags"] = _try(lambda: {nm: numpy.asarray(getattr(ps, "tfreq_fix_" + nm)).astype(int).tolist() for nm in ("minor", "heter", "major")})
    # (5)
    dsc = scaled_data(fam, d, case["sc"])
    if dsc is not None:
        k = len(case["s"])
        out["sc_sub"] = _try(lambda: _hx(make_problem(fam, "Subset", dsc, max(k, 1), ev).latentfn(xs)))
        if pr is not None: out["sc_real"] = _try(lambda: _hx(make_problem(fam, "Real", dsc, k, ev).latentfn(numpy.array(case["xr"], dtype=float))))

# ------------------------------------------------------------------------------------------------ case generation
def _dy(rng, lo=-64, hi=64, den=16):
    return rng.randint(lo, hi) / den

def _mat(rng, r, c, **kw):
    return [[_dy(rng, **kw) for _ in range(c)] for _ in range(r)]

def _triu(rng, n):
    """upper-triangular factor with positive diagonal (the shape chol(K)' has)"""
    return [[(rng.randint(1, 32) / 16 if i == j else (_dy(rng, -32, 32) if j > i else 0.0)) for j in range(n)] for i in range(n)]

def gen_data(rng, fam, n, t, ploidy=None):
    if fam in LINEAR:
        return {FAMILIES[fam][2][0]: _mat(rng, n, t)}
    if fam == "ocs": return {"ebv": _mat(rng, n, t), "C": _triu(rng, n)}
    if fam in ("mgr", "meh"): return {"C": _triu(rng, n)}
    if fam == "l2": return {"C": [_triu(rng, n) for _ in range(t)]}
    if fam == "l1":
        p = rng.randint(1, 4)
        return {"V": [[[_dy(rng) for _ in range(n)] for _ in range(p)] for _ in range(t)]}
    if fam == "fam":
        labels = rng.sample([1, 2, 3, 5, 8, 13, 21], rng.randint(1, min(4, n)))
        ids = [rng.choice(labels) for _ in range(n)]
        return {"ebv": _mat(rng, n, t), "familyid": ids}
    if fam in ("pafd", "pau", "mogs"):
        ploidy = ploidy or rng.choice([1, 2, 2, 4])
        p = rng.randint(1, 4)
        kinds = [rng.choice(["fix0", "fix1", "poly", "poly", "one"]) for _ in range(p)]
        geno = [[{"fix0": 0, "fix1": ploidy, "one": ploidy, "poly": rng.randint(0, ploidy)}[kinds[j]] for j in range(p)] for _ in range(n)]
        for j in range(p):
            if kinds[j] == "one": geno[rng.randrange(n)][j] = ploidy - 1
        # targets of exactly 0 / 1 are ordinary cases; 2^-40 and 1 - 2^-40 sit next to them (a tolerance instead of the exact test must show)
        tf = lambda: rng.choice([0.0, 1.0, 0.5, 0.25, rng.randint(1, 15) / 16, 0.0, 1.0, 2.0 ** -40, 1.0 - 2.0 ** -40])
        return {"geno": geno, "ploidy": ploidy, "mkrwt": [[rng.randint(0, 32) / 8 for _ in range(t)] for _ in range(p)],
                "tfreq": [[tf() for _ in range(t)] for _ in range(p)]}
    if fam in ("opv", "gb"):
        m, b = rng.choice([1, 2, 2, 3]), rng.randint(1, 3)
        d = {"haplomat": [[[[_dy(rng) for _ in range(t)] for _ in range(b)] for _ in range(n)] for _ in range(m)]}
        if fam == "gb": d["nbestfndr"] = 1
        return d
    raise ValueError(fam)

SETTER = {"wgebv": "gwgebv"}            # constructor keyword -> property name where they differ

def gen_data2(rng, fam, d):
    """fresh data of exactly the shapes of d (assigned through the property setters of a problem that has already been used)"""
    n = _ncand(fam, d)
    if fam in LINEAR:
        a = FAMILIES[fam][2][0]; return {a: _mat(rng, n, len(d[a][0]))}
    if fam == "ocs": return {"ebv": _mat(rng, n, len(d["ebv"][0])), "C": _triu(rng, n)}
    if fam in ("mgr", "meh"): return {"C": _triu(rng, n)}
    if fam == "l2": return {"C": [_triu(rng, n) for _ in d["C"]]}
    if fam == "l1": return {"V": [[[_dy(rng) for _ in range(n)] for _ in V] for V in d["V"]]}
    if fam == "fam":
        ids = list(d["familyid"]); rng.shuffle(ids)
        return {"ebv": _mat(rng, n, len(d["ebv"][0])), "familyid": ids}
    if fam in ("pafd", "pau", "mogs"):
        p, t = len(d["mkrwt"]), len(d["mkrwt"][0])
        tf = lambda: rng.choice([0.0, 1.0, 0.5, 0.75, rng.randint(1, 15) / 16])
        return {"geno": d["geno"][1:] + d["geno"][:1], "ploidy": d["ploidy"], "mkrwt": [[rng.randint(0, 32) / 8 for _ in range(t)] for _ in range(p)],
                "tfreq": [[tf() for _ in range(t)] for _ in range(p)]}
    if fam in ("opv", "gb"):
        H = d["haplomat"]
        d2 = {"haplomat": [[[[_dy(rng) for _ in blk] for blk in tx] for tx in ph] for ph in H]}
        if fam == "gb": d2["nbestfndr"] = d["nbestfndr"]
        return d2
    raise ValueError(fam)

def _mapf(f, a):
    return [_mapf(f, v) for v in a] if isinstance(a, list) else f(a)

# scale law: which data arrays are multiplied by 2^e, and which latent components then scale by 2^e (exactly, in binary64)
SCALED_ARGS = {"ocs": ["ebv", "C"], "mgr": ["C"], "l2": ["C"], "l1": ["V"], "fam": ["ebv"], "pafd": ["mkrwt"], "pau": ["mkrwt"], "mogs": ["mkrwt"],
               "opv": ["haplomat"], "gb": ["haplomat"]}
def scaled_data(fam, d, e):
    if fam == "meh": return None                      # -(1 - norm) is not homogeneous
    args = SCALED_ARGS.get(fam) or [FAMILIES[fam][2][0]]
    return {k: (_mapf(lambda v: v * 2.0 ** e, v) if k in args else v) for k, v in d.items()}
def scaled_components(fam, d):
    """indices of the latent vector that are homogeneous of degree one in the scaled arrays"""
    nl = nlatent_of(fam, d)
    return list(range(len(d["ebv"][0]))) if fam == "fam" else list(range(nl))

def doubled_first(fam, d):
    """the data after the in-place update  first float array *= 2  (allele-frequency families: mkrwt)"""
    a = "mkrwt" if fam in ("pafd", "pau", "mogs") else FAMILIES[fam][2][0]
    return a, {k: (_mapf(lambda v: v * 2.0, v) if k == a else v) for k, v in d.items()}

TRANS_KINDS = ["none", "id", "empty", "sum", "dot", "decnsum", "mix"]
def gen_eval(rng, nlat):
    ev = {}
    for nm, default in (("obj", "id"), ("ineq", "empty"), ("eq", "empty")):
        k = rng.choice(TRANS_KINDS if nm != "obj" else ["none", "id", "sum", "dot", "mix", "decnsum"])
        spec = [k]
        if k == "dot": spec.append([_dy(rng, -32, 32) for _ in range(nlat)])
        if k == "decnsum": spec.append(rng.choice([1.0, 0.5, 2.0, 3.0]))
        if k == "mix": spec.append(_dy(rng, -32, 32))
        ln = _trans_len(spec, nlat, default)
        if nm == "obj" and ln == 0: spec, ln = ["id"], nlat
        wt = [_dy(rng, -48, 48) for _ in range(ln)]
        if rng.random() < 0.15: wt = [1.0] * ln
        ev[nm] = [spec, wt]
    return ev

def nlatent_of(fam, d):
    if fam in LINEAR: return len(d[FAMILIES[fam][2][0]][0])
    if fam == "ocs": return 1 + len(d["ebv"][0])
    if fam in ("mgr", "meh"): return 1
    if fam == "l2": return len(d["C"])
    if fam == "l1": return len(d["V"])
    if fam == "fam": return len(d["ebv"][0]) + len(set(d["familyid"]))
    if fam in ("pafd", "pau"): return len(d["mkrwt"][0])
    if fam == "mogs": return 2 * len(d["mkrwt"][0])
    if fam in ("opv", "gb"): return len(d["haplomat"][0][0][0])

BAD_PK = [(1, 49), (2, 49), (4, 49), (1, 98), (1, 103), (2, 103), (1, 107)]   # (ploidy, k)
def gen_latent(rng, fam, mode="rand"):
    """one latent-function case of a family"""
    afam = fam in ("pafd", "pau", "mogs")
    t = rng.choice([1, 2, 2, 3])
    if afam and mode == "badn":
        # ploidy * k is a size whose reciprocal is inexact in binary64: fl(fl(1/N) * N) < 1
        pl, k = rng.choice(BAD_PK)
        n = k + rng.randint(0, 2)
        d = gen_data(rng, fam, n, t, ploidy=pl)
        s = rng.sample(range(n), k)
    else:
        n = rng.choice([1, 2, 3, 3, 4, 5, 6, 8])
        k = rng.choice([1, 2, 2, 3, 4, 4, 5, 6, 8])
        d = gen_data(rng, fam, n, t)
        style = rng.random()
        if style < 0.55 and k <= n: s = rng.sample(range(n), k)              # a genuine subset
        elif style < 0.65: s = list(range(n))                                # everybody
        else: s = [rng.randrange(n) for _ in range(k)]                       # with repeats (integer-count reading)
        k = len(s)
    if fam == "gb": d["nbestfndr"] = rng.randint(1, min(k, n))       # the setter bounds it by the number of candidates
    perm = list(range(k)); rng.shuffle(perm)
    if rng.random() < 0.1: perm = perm[::-1]
    a = rng.choice([2.0, 0.5, 4.0, 3.0, 0.375, 1.5, 7.0, 0.0625, 1024.0])
    xr = [rng.choice([0, 0, 1, 2, 3, 4, 8, 16]) / 16 for _ in range(n)]
    if sum(xr) == 0: xr[rng.randrange(n)] = 0.5
    xi = [rng.choice([0, 0, 1, 1, 2, 3]) for _ in range(n)]
    if rng.random() < 0.85 and sum(xi) == 0: xi[rng.randrange(n)] = 1
    c = {"kind": "latent", "fam": fam, "data": d, "s": s, "perm": perm, "a": a, "xr": xr, "xi": xi, "eval": gen_eval(rng, nlatent_of(fam, d))}
    if n <= 12:                 # lifecycle / scale dimensions (kept off the 49..107-candidate cases, whose point is the frequency rounding)
        c["data2"] = gen_data2(rng, fam, d)
        c["sc"] = rng.choice([-40, -20, 12, 20])
        if afam:                # targets written IN PLACE into the array the problem holds, after the setter ran
            c["tf3"] = [[rng.choice([0.0, 1.0, 0.5, v, v]) for v in r] for r in c["data2"]["tfreq"]]
    return c

def gen_guard(rng, fam, which=None):
    """real vectors whose sum is at / inside / just outside the 1e-10 guard of the source"""
    c = gen_latent(rng, fam)
    n = _ncand(fam, c["data"])
    which = which or rng.choice(["at", "inside", "outside", "tiny"])
    base = {"at": EPS, "inside": EPS * (1 - 2 ** -50), "outside": EPS * 1.5, "tiny": 2.0 ** -60}[which]
    xr = [0.0] * n
    xr[rng.randrange(n)] = base
    c["xr"] = xr
    # "at": the boundary value itself must be normalised (>=); scale up so that the rescaled vector is outside as well
    c["a"] = rng.choice([2.0, 1024.0]) if which == "at" else rng.choice([2.0, 0.5, 1024.0, 2.0 ** 20])
    c["guard"] = which
    return c

# ------------------------------------------------------------------------------------------------ independent predicate
F = Fraction
TOL = F(1, 2 ** 30)
def _fr(h):
    v = float.fromhex(h) if isinstance(h, str) else float(h)
    if math.isnan(v) or math.isinf(v): return None
    return F(v)
def _frl(lst):
    if lst is None or isinstance(lst, dict): return None
    o = [_fr(h) for h in lst]
    return None if any(v is None for v in o) else o
def _close(x, y):
    """|x - y| <= 2^-30 (1 + |y|), y the exact value"""
    return abs(x - y) <= TOL * (1 + abs(y))
def _closel(a, b):
    return a is not None and b is not None and len(a) == len(b) and all(_close(x, y) for x, y in zip(a, b))
def _sq_close(v, sq):
    """v >= 0 (up to rounding) and v^2 close to the exact square"""
    return v >= -TOL and _close(v * v, sq)

def _Fm(m): return [[F(v) for v in r] for r in m]

def defn(fam, d, c, members):
    """the criterion's definition on a contribution vector c (sums to one), exact rationals; norms are returned squared
    as ('sq', value).  members = the selected candidates as a multiset (needed by the max-type criteria)."""
    n = len(c)
    def lin(M): return [-sum(c[i] * F(M[i][j]) for i in range(n)) for j in range(len(M[0]))]
    def quad(C): return ("sq", sum(sum(F(r[i]) * c[i] for i in range(n)) ** 2 for r in C))
    if fam in LINEAR: return lin(d[FAMILIES[fam][2][0]])
    if fam == "ocs": return [quad(d["C"])] + lin(d["ebv"])
    if fam == "mgr": return [quad(d["C"])]
    if fam == "meh": return [("1-", quad(d["C"])[1])]              # -(1 - sqrt(.))
    if fam == "l2": return [quad(C) for C in d["C"]]
    if fam == "l1": return [sum(abs(sum(F(row[i]) * c[i] for i in range(n))) for row in V) for V in d["V"]]
    if fam == "fam":
        fams = sorted(set(d["familyid"]))
        return lin(d["ebv"]) + [-sum(c[i] for i in range(n) if d["familyid"][i] == f) for f in fams]
    if fam in ("pafd", "pau", "mogs"):
        pl, g, w, tf = d["ploidy"], d["geno"], d["mkrwt"], d["tfreq"]
        p, t = len(w), len(w[0])
        pf = [sum(c[i] * g[i][j] for i in range(n)) / pl for j in range(p)]
        def unavail(pj, tj):
            tj = F(tj)
            if tj <= 0: return pj >= 1            # target: allele 1 lost -> the 0 allele must still exist
            if tj >= 1: return pj <= 0
            return pj <= 0 or pj >= 1
        pau = [sum(F(w[j][q]) for j in range(p) if unavail(pf[j], tf[j][q])) for q in range(t)]
        pafd = [sum(F(w[j][q]) * abs(F(tf[j][q]) - pf[j]) for j in range(p)) for q in range(t)]
        return pafd if fam == "pafd" else pau if fam == "pau" else pau + pafd
    if fam in ("opv", "gb"):
        H = d["haplomat"]; m = len(H); b = len(H[0][0]); t = len(H[0][0][0])
        best = lambda i, bb, q: max(F(H[ph][i][bb][q]) for ph in range(m))
        if fam == "opv":
            return [-m * sum(max(best(i, bb, q) for i in members) for bb in range(b)) for q in range(t)]
        nb = d["nbestfndr"]
        return [-F(m, nb) * sum(sum(sorted(best(i, bb, q) for i in members)[len(members) - nb:]) for bb in range(b)) for q in range(t)]
    raise ValueError(fam)

def _match(impl, want):
    """impl: list of Fractions (or None), want: list of exact values / ('sq', v) / ('1-', v)"""
    if impl is None or len(impl) != len(want): return False
    for x, y in zip(impl, want):
        if isinstance(y, tuple):
            if y[0] == "sq":
                if not _sq_close(x, y[1]): return False
            else:
                if not _sq_close(1 + x, y[1]): return False
        elif not _close(x, y): return False
    return True

def apply_trans(spec, default, x, lat):
    """the declared transformation, recomputed exactly.  x, lat lists of Fractions"""
    k = spec[0]
    if k == "none": k = default
    if k == "id": return list(lat)
    if k == "empty": return []
    if k == "sum": return [sum(lat)]
    if k == "dot": return [sum(F(w) * v for w, v in zip(spec[1], lat))]
    if k == "decnsum": return [abs(sum(x) - F(spec[1]))]
    if k == "mix": return [v * F(spec[1]) + sum(x) for v in lat]
    if k == "lin": return [sum(F(m) * v for m, v in zip(row, lat)) + F(spec[2]) * sum(x) for row in spec[1]]

def _evalfn_ok(ev, x, lat, got):
    """got = [obj, ineq, eq] as reported; must be the declared weights times the declared transformation of the reported latent vector"""
    if isinstance(got, dict) or got is None: return False
    for (nm, default), g in zip((("obj", "id"), ("ineq", "empty"), ("eq", "empty")), got):
        spec, wt = ev[nm]
        want = [F(w) * v for w, v in zip(wt, apply_trans(spec, default, x, lat))]
        gl = _frl(g)
        if gl is None or len(gl) != len(want) or not all(_close(a, b) for a, b in zip(gl, want)): return False
    return True

STALE_TF = "after an in-place update of the target array the latent vector != definition on the current targets (stale target flags)"
TF3_FLAGS = {"pau": (("tminor", lambda v: v == 0), ("thet", lambda v: 0 < v < 1), ("tmajor", lambda v: v == 1)),
             "mogs": (("minor", lambda v: v <= 0), ("heter", lambda v: 0 < v < 1), ("major", lambda v: v >= 1))}
TF3_FLAGS["pafd"] = TF3_FLAGS["pau"]

def _pred_lifecycle(case, out, c, sub):
    if "data2" not in case: return []
    bad = []
    fam, d, d2, s = case["fam"], case["data"], case["data2"], case["s"]
    n = _ncand(fam, d)
    dup = max(_counts(n, s) + [0]) > 1
    if out["mutated"]: bad.append("latentfn / evalfn / evaluate modified their inputs in place: %s" % ", ".join(out["mutated"]))
    sub_ok = not (fam == "fam" and dup)
    want2 = defn(fam, d2, c, s)
    if sub_ok and not _match(_frl(out["sess_sub"]), want2): bad.append("after new data were assigned through the setters, the subset latent vector != definition on the NEW data (family %s)" % fam)
    if out["sess_nlatent"] != len(out["sess_sub"]): bad.append("nlatent after the setters")
    if "sess_tflags" in out:
        for nm, test in (("tminor", lambda v: v == 0), ("thet", lambda v: 0 < v < 1), ("tmajor", lambda v: v == 1)):
            if out["sess_tflags"][nm] != [[int(test(v)) for v in r] for r in d2["tfreq"]]: bad.append("%s flags after the tfreq setter != their definition on the new targets" % nm)
    xr = [F(v) for v in case["xr"]]; tot = sum(xr)
    if "sess_real" in out and tot > 0 and not (fam in GUARDED and tot < F(EPS)):
        cw = [v / tot for v in xr]; mem = [i for i in range(n) if xr[i] > 0]
        if not _match(_frl(out["sess_real"]), defn(fam, d2, cw, mem)): bad.append("after new data were assigned through the setters, the real latent vector != definition on the NEW data")
    if out["copy_sub"] != out["sess_sub"]: bad.append("a deep copy of the problem gives a different latent vector")
    if out["after_copy_mut"] != out["sess_sub"]: bad.append("modifying the arrays of a deep copy changed the original problem's latent vector (shared arrays)")
    a, d3 = doubled_first(fam, d2)
    if sub_ok and not _match(_frl(out["inplace_sub"]), defn(fam, d3, c, s)): bad.append("after an in-place update of %s the subset latent vector != definition on the updated data (stale state)" % a)
    if "inplace_real" in out and tot > 0 and not (fam in GUARDED and tot < F(EPS)):
        if not _match(_frl(out["inplace_real"]), defn(fam, d3, cw, mem)): bad.append("after an in-place update of %s the real latent vector != definition on the updated data (stale state)" % a)
    if "tf3" in case:
        d4 = dict(d3, tfreq=case["tf3"])
        if not _match(_frl(out["tf3_sub"]), defn(fam, d4, c, s)): bad.append(STALE_TF)
        if "tf3_real" in out and tot > 0 and not (fam in GUARDED and tot < F(EPS)):
            if not _match(_frl(out["tf3_real"]), defn(fam, d4, cw, mem)): bad.append(STALE_TF + " (real encoding)")
        if "tf3_tflags" in out:
            for nm, test in TF3_FLAGS[fam]:
                if not isinstance(out["tf3_tflags"], dict) or out["tf3_tflags"].get(nm) != [[int(test(v)) for v in r] for r in case["tf3"]]:
                    bad.append("%s flags after an in-place update of the target array != their definition on the current targets" % nm)
    if "sc_sub" in out:
        sc = F(2) ** case["sc"]; comps = scaled_components(fam, d)
        for key, base in (("sc_sub", out["sub"]), ("sc_real", out.get("xr"))):
            if key not in out or base is None: continue
            g, b = _frl(out[key]), _frl(base)
            if g is None or b is None:
                if not (g is None and b is None): bad.append("%s: data scaled by 2^%d gives no value" % (key, case["sc"]))
                continue
            if len(g) != len(b) or any(g[i] != sc * b[i] for i in comps) or any(g[i] != b[i] for i in range(len(b)) if i not in comps):
                bad.append("scale law: data * 2^%d must give exactly 2^%d * latent vector (%s)" % (case["sc"], case["sc"], key))
    return bad

def pred_latent(case, out):
    bad = []
    fam, d, s, ev = case["fam"], case["data"], case["s"], case["eval"]
    n, k = _ncand(fam, d), len(s)
    cnt = _counts(n, s)
    dup = max(cnt + [0]) > 1
    for key, v in out.items():
        if isinstance(v, dict) and "exc" in v:
            bad.append("%s raised %s: %s" % (key, v["exc"], v["msg"]))
    if bad: return bad
    c = [F(v, k) for v in cnt]
    want = defn(fam, d, c, s)
    sub = _frl(out["sub"])
    if out["nlatent"] != len(out["sub"]): bad.append("nlatent = %s but latentfn returns %d values (family %s)" % (out["nlatent"], len(out["sub"]), fam))
    if "tflags" in out:
        tfl = out["tflags"]
        for nm, test in (("tminor", lambda v: v == 0), ("thet", lambda v: 0 < v < 1), ("tmajor", lambda v: v == 1)):
            if tfl[nm] != [[int(test(v)) for v in r] for r in d["tfreq"]]: bad.append("%s flags of the targets != their definition (family %s)" % (nm, fam))
    # the subset reading of a multiset with repeats is outside the subset decision space for the family criterion
    # (assignment instead of accumulation); everywhere else the multiplicity/k reading is checked too
    if not (fam == "fam" and dup):
        if not _match(sub, want): bad.append("subset latent vector != definition (family %s, s=%s)" % (fam, s))
    subp = _frl(out["sub_perm"])
    if sub is None or subp is None or not _closel(subp, sub): bad.append("subset latent vector depends on the listing order")
    if not _evalfn_ok(ev, [F(i) for i in s], sub or [], out["ev_sub"]): bad.append("subset evalfn != weights * transformations(latent)")
    for key in ("evaluate_sub", "evaluate_sub1"):
        r = out.get(key)
        if r is None: continue
        exps = [out["ev_sub"], out["ev_sub2"]] if key == "evaluate_sub" else [out["ev_sub"]]
        if any(isinstance(e, dict) for e in exps): continue
        for ix, nm in enumerate(("F", "G", "H")):
            have = r.get(nm)
            if len(exps[0][ix]) == 0:
                if have not in (None, []) and any(len(h) for h in have): bad.append("%s[%s] not empty" % (key, nm))
                continue
            if have is None or len(have) != len(exps): bad.append("%s[%s] has wrong shape" % (key, nm)); continue
            for h, e in zip(have, exps):
                if not _closel(_frl(h), _frl(e[ix])): bad.append("%s[%s] row != evalfn of that row" % (key, nm))
    bad += _pred_lifecycle(case, out, c, sub)
    if fam in SUBSET_ONLY:
        return bad[:8]
    guarded = fam in GUARDED
    # ---- encodings of the same contributions
    for key in ("int", "bin", "binb", "real", "real_a"):
        if key not in out: continue
        if not _match(_frl(out[key]), want): bad.append("%s encoding of the same contributions != definition" % key)
        elif sub is not None and not (fam == "fam" and dup) and not _closel(_frl(out[key]), sub): bad.append("%s encoding differs from the subset encoding" % key)
    # ---- free vectors
    a = F(case["a"])
    for key, x in (("xr", [F(v) for v in case["xr"]]), ("xi", [F(v) for v in case["xi"]])):
        tot = sum(x)
        got = _frl(out[key])
        if tot == 0:
            continue                                  # no contributions to speak of; the zero-vector observables are compared by the model
        cw = [v / tot for v in x]
        w2 = defn(fam, d, cw, [i for i in range(n) if x[i] > 0])
        if not _match(got, w2): bad.append("%s latent vector != definition on x/sum(x) (sum=%s)" % (key, float(tot)))
    xr = _frl(out["xr"]); xra = _frl(out["xr_a"])
    if xr is None or xra is None or not _closel(xra, xr): bad.append("latent vector changes under positive rescaling of a real contribution vector (a=%s, sum=%r)" % (case["a"], sum(case["xr"])))
    if not _evalfn_ok(ev, [F(v) for v in case["xr"]], xr or [], out["ev_real"]): bad.append("real evalfn != weights * transformations(latent)")
    xi = _frl(out["xi"])
    if sum(case["xi"]) > 0 and not _evalfn_ok(ev, [F(v) for v in case["xi"]], xi or [], out["ev_int"]): bad.append("integer evalfn != weights * transformations(latent)")
    if "ev_bin" in out and not _evalfn_ok(ev, [F(v) for v in cnt], _frl(out["bin"]) or [], out["ev_bin"]): bad.append("binary evalfn != weights * transformations(latent)")
    r = out.get("evaluate_real")
    if r is not None and not isinstance(r, dict): bad.append("evaluate_real")
    elif r is not None and "exc" not in r and not isinstance(out["ev_real2"], dict):
        for ix, nm in enumerate(("F", "G", "H")):
            for row, e in enumerate((out["ev_real"], out["ev_real2"])):
                if sum(case["xi"]) == 0 and row == 1 and fam not in GUARDED: continue        # nan row
                g = e[ix]
                if len(g) and (r.get(nm) is None or len(r[nm]) != 2 or not _closel(_frl(r[nm][row]), _frl(g))): bad.append("evaluate(X)[%s] row %d != evalfn of that row" % (nm, row))
    seen = []
    for b in bad:
        if b not in seen: seen.append(b)
    return seen[:8]

# ------------------------------------------------------------------------------------------------ Coq emission
def _q(v): return E.q(Fraction(v))
def _ql(l): return E.lst(l, _q)
def _ql2(m): return E.lst2(m, _q)
def _ql3(m): return E.lst3(m, _q)
def _ql4(m): return "[" + "; ".join(_ql3(x) for x in m) + "]"
def _natl(l): return E.lst(l, E.nat)

def emit_fdata(fam, d):
    if fam in LINEAR:
        M = d[FAMILIES[fam][2][0]]
        return "FLin %s %d %s" % (E.b(fam in GUARDED), len(M[0]), _ql2(M))
    if fam == "ocs": return "FOcs %d %s %s" % (len(d["ebv"][0]), _ql2(d["ebv"]), _ql2(d["C"]))
    if fam == "mgr": return "FMgr %s" % _ql2(d["C"])
    if fam == "meh": return "FMeh %s" % _ql2(d["C"])
    if fam == "l2": return "FL2 %s" % _ql3(d["C"])
    if fam == "l1": return "FL1 %s" % _ql3(d["V"])
    if fam == "fam": return "FFam %d %s %s" % (len(d["ebv"][0]), _ql2(d["ebv"]), E.lst(d["familyid"], E.z))
    if fam in ("pafd", "pau", "mogs"):
        return "%s %s %s %s %s %d %d" % ({"pafd": "FPafd", "pau": "FPau", "mogs": "FMogs"}[fam], E.z(d["ploidy"]), E.lst2(d["geno"], E.z),
                                         _ql2(d["mkrwt"]), _ql2(d["tfreq"]), len(d["mkrwt"]), len(d["mkrwt"][0]))
    H = d["haplomat"]
    if fam == "opv": return "FOpv %s %d %d" % (_ql4(H), len(H[0][0]), len(H[0][0][0]))
    if fam == "gb": return "FGb %s %d %d %d" % (_ql4(H), len(H[0][0]), len(H[0][0][0]), d["nbestfndr"])
    raise ValueError(fam)

def _oimpl(v):
    """implementation latent vector -> Coq option (list Q); nan/inf/exception -> None"""
    l = _frl(v)
    return "None" if l is None else "(Some %s)" % E.lst(l, E.q)

def emit_trans(spec, default):
    k = spec[0]
    if k == "none": k = default
    return {"id": "TId", "empty": "TEmpty", "sum": "TSum"}.get(k) or ("(TDot %s)" % _ql(spec[1]) if k == "dot" else
            "(TDecnSum %s)" % _q(spec[1]) if k == "decnsum" else "(TMix %s)" % _q(spec[1]))

def _is_pow2(v):
    f = Fraction(v)
    return f > 0 and (f.numerator & (f.numerator - 1)) == 0 and (f.denominator & (f.denominator - 1)) == 0

def emit_latent(case, out):
    fam, d, s, ev = case["fam"], case["data"], case["s"], case["eval"]
    n, k = _ncand(fam, d), len(s)
    cnt = _counts(n, s)
    head = "let fd := %s in let n := %d%%nat in\n  " % (emit_fdata(fam, d), n)
    parts = []
    sub = "(DSub %s)" % _natl(s)
    # exact comparison where every float operation of the source is exact (dyadic data, k a power of two, short sums)
    ex_sub = E.b(fam in LINEAR + ("l1", "fam", "opv") and _is_pow2(k))
    parts.append("agree %s %s (latent n fd %s)" % (ex_sub, _oimpl(out["sub"]), sub))
    parts.append("agree %s %s (latent n fd (DSub %s))" % (ex_sub, _oimpl(out["sub_perm"]), _natl([s[i] for i in case["perm"]])))
    tr = "%s %s %s %s %s %s" % (emit_trans(ev["obj"][0], "id"), emit_trans(ev["ineq"][0], "empty"), emit_trans(ev["eq"][0], "empty"),
                                _ql(ev["obj"][1]), _ql(ev["ineq"][1]), _ql(ev["eq"][1]))
    def evterm(key, x, latkey):
        got, lat = out.get(key), _frl(out.get(latkey))
        if got is None or isinstance(got, dict) or lat is None: return None
        g = [_frl(v) for v in got]
        if any(v is None for v in g): return None
        return "ev_close (%s, %s, %s) (evalfn_enum %s %s %s)" % (E.lst(g[0], E.q), E.lst(g[1], E.q), E.lst(g[2], E.q), tr, _ql(x), E.lst(lat, E.q))
    parts.append(evterm("ev_sub", s, "sub"))
    parts.append("Nat.eqb %s (nlatent_of fd)" % E.nat(out["nlatent"]))
    if "tflags" in out:
        for nm, fn in (("tminor", "t_minor"), ("thet", "t_het"), ("tmajor", "t_major")):
            parts.append("list_eqb bl_eqb %s (map (map %s) %s)" % (E.lst2([[bool(v) for v in r] for r in out["tflags"][nm]], E.b), fn, _ql2(d["tfreq"])))
    if "data2" in case and not any(isinstance(out.get(k_), dict) for k_ in ("sess_set", "inplace_set", "mutated")):
        d2 = case["data2"]; a3, d3 = doubled_first(fam, d2)
        parts.append("(let fd := %s in agree %s %s (latent n fd %s) && Nat.eqb %s (nlatent_of fd))" % (emit_fdata(fam, d2), ex_sub, _oimpl(out["sess_sub"]), sub, E.nat(out["sess_nlatent"])))
        parts.append("(let fd := %s in agree %s %s (latent n fd %s))" % (emit_fdata(fam, d3), ex_sub, _oimpl(out["inplace_sub"]), sub))
        if "sess_tflags" in out:
            for nm, fn in (("tminor", "t_minor"), ("thet", "t_het"), ("tmajor", "t_major")):
                parts.append("list_eqb bl_eqb %s (map (map %s) %s)" % (E.lst2([[bool(v) for v in r] for r in out["sess_tflags"][nm]], E.b), fn, _ql2(d2["tfreq"])))
        if "sess_real" in out:
            parts.append("(let fd := %s in agree false %s (latent n fd (DVec %s)))" % (emit_fdata(fam, d2), _oimpl(out["sess_real"]), _ql(case["xr"])))
            parts.append("(let fd := %s in agree false %s (latent n fd (DVec %s)))" % (emit_fdata(fam, d3), _oimpl(out["inplace_real"]), _ql(case["xr"])))
        dsc = scaled_data(fam, d, case["sc"])
        if dsc is not None:
            parts.append("(let fd := %s in agree %s %s (latent n fd %s))" % (emit_fdata(fam, dsc), ex_sub, _oimpl(out["sc_sub"]), sub))
        if "tf3" in case and not isinstance(out.get("tf3_set"), dict):
            # the code as it is: every flag is computed from the array held, so the call answers for the data with the targets
            # written in place (set_targets of the model), whatever the targets were when the setter ran (d3)
            fd3 = "(set_targets %s (%s))" % (_ql2(case["tf3"]), emit_fdata(fam, d3))
            parts.append("(let fd := %s in agree false %s (latent n fd %s))" % (fd3, _oimpl(out["tf3_sub"]), sub))
            if "tf3_real" in out:
                parts.append("(let fd := %s in agree false %s (latent n fd (DVec %s)))" % (fd3, _oimpl(out["tf3_real"]), _ql(case["xr"])))
            if fam in ("pau", "pafd") and isinstance(out.get("tf3_tflags"), dict):
                for nm, fn in (("tminor", "t_minor"), ("thet", "t_het"), ("tmajor", "t_major")):
                    parts.append("list_eqb bl_eqb %s (map (map %s) %s)" % (E.lst2([[bool(v) for v in r] for r in out["tf3_tflags"][nm]], E.b), fn, _ql2(case["tf3"])))
    if fam not in SUBSET_ONLY:
        a = case["a"]
        vec = lambda x: "(DVec %s)" % _ql(x)
        xc = [float(v) for v in cnt]
        ex_vec = ex_sub
        parts.append("agree %s %s (latent n fd %s)" % (ex_vec, _oimpl(out["int"]), vec(xc)))
        if "bin" in out:
            parts.append("agree %s %s (latent n fd %s)" % (ex_vec, _oimpl(out["bin"]), vec(xc)))
            parts.append("agree %s %s (latent n fd %s)" % (ex_vec, _oimpl(out["binb"]), vec(xc)))
            parts.append(evterm("ev_bin", xc, "bin"))
        parts.append("agree false %s (latent n fd %s)" % (_oimpl(out["real"]), vec([v / k for v in xc])))
        parts.append("agree false %s (latent n fd %s)" % (_oimpl(out["real_a"]), vec([a * v for v in xc])))
        parts.append("agree false %s (latent n fd %s)" % (_oimpl(out["xr"]), vec(case["xr"])))
        parts.append("agree false %s (latent n fd %s)" % (_oimpl(out["xr_a"]), vec([a * v for v in case["xr"]])))
        parts.append("agree false %s (latent n fd %s)" % (_oimpl(out["xi"]), vec(case["xi"])))
        z = vec([0.0] * n)
        for key in ("zero_int", "zero_bin", "zero_real"):
            parts.append("agree false %s (latent n fd %s)" % (_oimpl(out[key]), z))
        parts.append(evterm("ev_real", case["xr"], "xr"))
        parts.append(evterm("ev_int", case["xi"], "xi"))
    return head + "(" + "\n   && ".join(p for p in parts if p) + ")"

# ------------------------------------------------------------------------------------------------ factory clause
def gen_pop(rng, homozygous=False, n=None):
    n = n or rng.randint(2, 5)
    nchr = rng.choice([1, 2, 2])
    per = [rng.randint(2, 3) for _ in range(nchr)]
    p = sum(per)
    t = rng.choice([1, 2, 2])
    h0 = [[rng.randint(0, 1) for _ in range(p)] for _ in range(n)]
    h1 = h0 if homozygous else [[rng.randint(0, 1) for _ in range(p)] for _ in range(n)]
    labels = rng.sample(range(10, 40 if n <= 30 else 10 + 2 * n), n)     # taxa names in no particular order
    grp = [rng.choice([1, 2, 3]) for _ in range(n)]           # family labels, not sorted
    chrgrp = [c + 1 for c in range(nchr) for _ in range(per[c])]
    genpos = []
    for c in range(nchr):
        x = 0.0
        for _ in range(per[c]):
            genpos.append(x); x += rng.randint(1, 8) / 16
    u = [[rng.choice([0.0, 0.0, 1.0, -1.0, 0.5, -0.5, 2.0, 0.25, -2.0, 3.0]) for _ in range(t)] for _ in range(p)]
    for q in range(t):
        if all(u[j][q] == 0 for j in range(p)): u[rng.randrange(p)][q] = 1.0
    return {"hap": [h0, h1], "labels": labels, "grp": grp, "chrgrp": chrgrp, "genpos": genpos,
            "xoprob": [0.5 if (j == 0 or chrgrp[j] != chrgrp[j - 1]) else rng.randint(1, 6) / 16 for j in range(p)],
            "u": u, "beta": [_dy(rng) for _ in range(t)],
            "bv": {"mat": _mat(rng, n, t), "location": [_dy(rng) for _ in range(t)], "scale": [rng.choice([1.0, 0.5, 2.0, 1.5]) for _ in range(t)]}}

# factory classmethods (from_*) of every family that the factory cases drive; the enumeration case fails on any from_* method of a
# concrete class that is neither listed here nor skipped with a reason
FACTORY_METHODS = {
    "ebv": {"from_bvmat"}, "gebv": {"from_bvmat", "from_gmat_gpmod"}, "gwgebv": {"from_gmat_algpmod", "from_numpy"}, "wgs": {"from_gmat_algpmod", "from_numpy"},
    "embv": {"from_pgmat_gpmod"}, "rand": {"from_object"}, "uc": {"from_pgmat_gpmod", "from_pgmat_gpmod_xmap"}, "ohv": {"from_pgmat_gpmod"},
    "ocs": {"from_bvmat_gmat"}, "mgr": {"from_gmat"}, "meh": {"from_gmat"}, "l2": {"from_gmat"}, "l1": {"from_numpy"}, "fam": {"from_bvmat"},
    "pafd": {"from_gmat_gpmod"}, "pau": {"from_gmat_gpmod"}, "mogs": {"from_gmat_gpmod"}, "opv": {"from_pgmat_gpmod"}, "gb": {"from_pgmat_gpmod"},
}
FACTORY_SKIPPED = {
    ("MultiObjectiveGenomicSubsetMatingProblem", "from_object"): "the class is an explicit stub (latentfn raises unconditionally; see SKIPPED)",
}

FACTORIES = ["gwgebv_np", "wgs_np", "ebv", "gebv_bvmat", "gebv_gmat", "gwgebv", "wgs", "ocs", "mgr", "meh", "l2", "l2w", "l1", "fam", "uc", "uc_xmap", "ohv", "opv", "gb",
             "pafd", "pau", "mogs", "embv", "rand", "wgebvmat", "embvmat"]

def _distinct_bv(pop):
    X, u, beta, gebv, f = pop_truth(pop)
    return len({tuple(r) for r in gebv.tolist()}), len({r[0] for r in gebv.tolist()})

# mating protocol -> number of parents (every protocol class of pybrops.breed.prot.mate; the enumeration case fails on a new one)
EMBV_PROT = {"SelfCross": 1, "TwoWayCross": 2, "TwoWayDHCross": 2, "ThreeWayCross": 3, "ThreeWayDHCross": 3, "FourWayCross": 4, "FourWayDHCross": 4}
NPARENTS = (1, 2, 3, 4)            # numbers of parents the cross-map based factories (OHV, EMBV; UC through its variance factories) are driven with
# (number of parents, unique parents, number of taxa): cross maps with more than 1024 rows - the chunk size hard-coded in the OHV factories
OHV_BIG = [(2, False, 46), (2, True, 47), (3, False, 18), (3, True, 20), (4, False, 12), (4, True, 15), (1, True, 1030), (1, False, 1027)]

def _xmap_rows(n, npar, unique):
    """the cross map by its definition: every strictly increasing (unique parents) / non-decreasing index tuple, lexicographic"""
    it = itertools.combinations(range(n), npar) if unique else itertools.combinations_with_replacement(range(n), npar)
    return [list(v) for v in it]

def _per_taxon(rng, n, choices, form=None):
    """an argument the library accepts as "scalar or per-taxon array": a scalar, or a list with UNEQUAL entries (n >= 2) whose
    first / last entries are not always the largest (stale rows of a shared buffer, an index taken from the wrong taxon)"""
    form = form or rng.choice(["scalar", "array", "array"])
    if form == "scalar" or n < 2: return rng.choice(choices)
    for _ in range(50):
        v = [rng.choice(choices) for _ in range(n)]
        if len(set(v)) > 1: break
    else:
        v = [choices[0]] * (n - 1) + [choices[-1]]
    style = rng.random()
    if style < 0.35: v.sort()                      # the first taxon has the fewest
    elif style < 0.7: v.sort(reverse=True)         # the first taxon has the most
    return v

def _ohv_sensitivity(pop, npar, unique):
    """(number of cross-map columns that matter somewhere, number of (cross, column) pairs that matter) - with one block per chromosome"""
    hap = numpy.array(pop["hap"], dtype=float); u = numpy.array(pop["u"], dtype=float); chrg = pop["chrgrp"]
    n = hap.shape[1]
    hv = numpy.stack([hap[:, :, [j for j in range(len(chrg)) if chrg[j] == c]] @ u[[j for j in range(len(chrg)) if chrg[j] == c], :] for c in sorted(set(chrg))], axis=2)   # (m,n,b,t)
    val = lambda row: hv[:, row, :, :].max((0, 1)).sum(0)
    cols, pairs = set(), 0
    for row in _xmap_rows(n, npar, unique):
        full = val(row)
        for c in range(npar):
            if numpy.any(val(row[:c] + row[c + 1:]) < full): cols.add(c); pairs += 1
    return (len(cols), pairs)

def gen_factory(rng, which, vf=None, form=None, npar=None, unique=None, big=None):
    homo = which in ("embv", "embvmat") and rng.random() < 0.4
    pop = gen_pop(rng, homozygous=homo)
    if which in ("ohv", "embv"):
        npar = npar or rng.choice(NPARENTS)
        unique = (rng.random() < 0.5) if unique is None else unique
        # enough taxa for several crosses of distinct parents; at most 5 (6 for OHV) so that four-way maps stay small
        lo = min(npar + 1, 5) if unique else max(2, min(npar, 4))
        pop = gen_pop(rng, homozygous=homo, n=rng.randint(lo, 5 if which == "embv" else 6))
        if which == "ohv" and npar >= 2:
            # prefer a population in which EVERY column of the cross map matters: many (cross, column) pairs where leaving that
            # parent out lowers the optimal haploid value (a table built from some of the parents only then differs)
            best = (_ohv_sensitivity(pop, npar, unique), pop)
            for _ in range(20):
                if best[0][0] == npar and best[0][1] >= 2 * npar: break
                cand = gen_pop(rng, n=len(pop["labels"]))
                sc = _ohv_sensitivity(cand, npar, unique)
                if sc > best[0]: best = (sc, cand)
            pop = best[1]
    if which == "ohv" and big is not None:
        npar, unique, nbig = OHV_BIG[big % len(OHV_BIG)]
        pop = gen_pop(rng, n=nbig)
    if which in ("uc", "uc_xmap"):
        # enough taxa for the cross, and parents whose breeding values differ (a contribution-weighted mean then differs from a plain mean)
        vf = vf or rng.choice(sorted(UC_VMAT))
        best = None
        for _ in range(40):
            cand = gen_pop(rng, n=rng.randint(max(3, UC_VMAT[vf][0]), 5))
            sc = _distinct_bv(cand)
            if best is None or sc > best[0]: best = (sc, cand)
            if sc[1] == len(cand["labels"]): break
        pop = best[1]
    n, p, t = len(pop["labels"]), len(pop["chrgrp"]), len(pop["beta"])
    args = {"unscale": rng.random() < 0.5, "phased": rng.random() < 0.5}
    if which in ("gwgebv", "gwgebv_np"): args["alpha"] = rng.choice([0.0, 1.0, 2.0, 0.5])
    if which in ("uc", "uc_xmap"):
        args.update(nparent=2, unique=rng.random() < 0.5, nprogeny=rng.choice([5, 10]), pct=rng.choice([0.1, 0.25, 0.5]))
    if which == "ohv":
        nx = len(_xmap_rows(n, npar, unique))
        # chunk sizes for direct calls of _calc_ohvmat (None = one chunk), around 1, the number of rows and the factories' 1024
        mems = [None, 1, 2, 3, 5, max(1, nx - 1), nx, nx + 1, 1024] if big is None else [None, 1000, 1023, 1024, nx - 1, 7]
        # a cross map handed over directly: rows in no particular order, parents of a row in no particular order, repeats allowed
        rows = [[rng.randrange(n) for _ in range(npar)] for _ in range(rng.randint(2, 6))] + [rng.sample(range(n), npar) for _ in range(2) if n >= npar]
        rng.shuffle(rows)
        args.update(nparent=npar, unique=unique, mems=sorted(set(m for m in mems if m is None or m >= 1), key=lambda m: (m is not None, m or 0)), xmap=rows,
                    xmap_mem=rng.choice([None, 1, 2, 3]), big=big is not None)
    if which in ("uc", "uc_xmap"):
        args.update(vf=vf, nparent=UC_VMAT[vf][0])
    if which == "uc_xmap":
        rows = [[rng.randrange(n) for _ in range(args["nparent"])] for _ in range(rng.randint(1, 4))]
        rows.append(rng.sample(range(n), args["nparent"]))              # at least one cross of distinct parents, in no particular order
        args["xmap"] = rows
    if which in ("ohv", "opv", "gb"):
        nchr = len(set(pop["chrgrp"]))
        args["nhaploblk"] = rng.randint(nchr, min(p, nchr + 2))
    if which == "gb": args["nbestfndr"] = rng.randint(1, n)
    if which == "embv":
        prot = rng.choice(sorted(k for k, v in EMBV_PROT.items() if v == npar))
        args.update(prot=prot, nparent=EMBV_PROT[prot], nmating=rng.choice([1, 1, 2]), nrep=rng.choice([1, 2, 3]), nprogeny=rng.choice([1, 2, 3]),
                    unique=unique, seed=rng.randrange(2 ** 31), homozygous=homo)
    if which == "embvmat":
        args.update(nrep=_per_taxon(rng, n, [1, 2, 3, 4], form), nprogeny=_per_taxon(rng, n, [1, 2, 3, 5], form), seed=rng.randrange(2 ** 31), homozygous=homo,
                    dtype=rng.choice(["int64", "int64", "int32"]))
    if which in ("pafd", "pau", "mogs"):
        args["callable"] = rng.random() < 0.5
        args["mkrwt"] = [[rng.randint(0, 16) / 8 for _ in range(t)] for _ in range(p)]
        args["tfreq"] = [[rng.choice([0.0, 1.0, 0.5, 0.25]) for _ in range(t)] for _ in range(p)]
    if which == "l1":
        args["tfreq"] = [[rng.choice([0.0, 1.0, 0.5, 0.25]) for _ in range(t)] for _ in range(p)]
    if which == "l2w":                                        # trait-specific marker weights and reference frequencies
        args["mkrwt"] = [[rng.randint(1, 16) / 8 for _ in range(t)] for _ in range(p)]
        args["afreq"] = [[rng.choice([0.5, 0.25, 0.75]) for _ in range(t)] for _ in range(p)]
    if which == "rand":
        args["normals"] = [[_dy(rng) for _ in range(t)] for _ in range(n)]
    return {"kind": "factory", "which": which, "pop": pop, "args": args}

def build_pop(pop, phased=True):
    from pybrops.popgen.gmat.DensePhasedGenotypeMatrix import DensePhasedGenotypeMatrix
    from pybrops.popgen.gmat.DenseGenotypeMatrix import DenseGenotypeMatrix
    from pybrops.popgen.bvmat.DenseBreedingValueMatrix import DenseBreedingValueMatrix
    from pybrops.model.gmod.DenseAdditiveLinearGenomicModel import DenseAdditiveLinearGenomicModel
    hap = numpy.array(pop["hap"], dtype="int8")
    taxa = numpy.array(["L%02d" % v for v in pop["labels"]], dtype=object)
    grp = numpy.array(pop["grp"], dtype=int)
    p = hap.shape[2]
    vk = dict(vrnt_chrgrp=numpy.array(pop["chrgrp"], dtype=int), vrnt_phypos=numpy.arange(1, p + 1) * 10, vrnt_genpos=numpy.array(pop["genpos"], dtype=float),
              vrnt_xoprob=numpy.array(pop["xoprob"], dtype=float))
    if phased: g = DensePhasedGenotypeMatrix(mat=hap, taxa=taxa, taxa_grp=grp, **vk)
    else: g = DenseGenotypeMatrix(mat=hap.sum(0).astype("int8"), taxa=taxa, taxa_grp=grp, ploidy=2, **vk)
    g.group_vrnt()
    t = len(pop["beta"])
    gmod = DenseAdditiveLinearGenomicModel(beta=numpy.array([pop["beta"]], dtype=float), u_misc=None, u_a=numpy.array(pop["u"], dtype=float),
                                           trait=numpy.array(["T%d" % q for q in range(t)], dtype=object))
    b = pop["bv"]
    bv = DenseBreedingValueMatrix(mat=numpy.array(b["mat"], dtype=float), location=numpy.array(b["location"], dtype=float), scale=numpy.array(b["scale"], dtype=float),
                                  taxa=taxa, taxa_grp=grp)
    return g, gmod, bv

def _space(enc, n, k=1, nobj=1):
    k = max(1, min(k, n))
    if enc == "Subset": return dict(ndecn=k, decn_space=numpy.arange(n), decn_space_lower=numpy.repeat(0, k), decn_space_upper=numpy.repeat(n - 1, k), nobj=nobj)
    if enc == "Real": return dict(ndecn=n, decn_space=numpy.stack([numpy.zeros(n), numpy.ones(n)]), decn_space_lower=numpy.zeros(n), decn_space_upper=numpy.ones(n), nobj=nobj)
    if enc == "Integer": return dict(ndecn=n, decn_space=numpy.stack([numpy.zeros(n, dtype=int), numpy.repeat(4, n)]), decn_space_lower=numpy.zeros(n, dtype=int), decn_space_upper=numpy.repeat(4, n), nobj=nobj)
    return dict(ndecn=n, decn_space=numpy.stack([numpy.zeros(n, dtype=int), numpy.ones(n, dtype=int)]), decn_space_lower=numpy.zeros(n, dtype=int), decn_space_upper=numpy.ones(n, dtype=int), nobj=nobj)

def _arr(a):
    a = numpy.asarray(a)
    if a.dtype.kind in "iub": return a.astype(int).tolist()
    return numpy.vectorize(lambda v: float(v).hex(), otypes=[object])(a.astype(float)).tolist() if a.size else a.tolist()

def _w_abs(u): return numpy.absolute(u)
def _t_sign(u): return numpy.where(u > 0.0, 1.0, 0.0)

def run_factory(case):
    which, pop, A = case["which"], case["pop"], case["args"]
    n, p, t = len(pop["labels"]), len(pop["chrgrp"]), len(pop["beta"])
    out = {}
    fam = {"gebv_bvmat": "gebv", "gebv_gmat": "gebv", "uc_xmap": "uc", "l2w": "l2", "gwgebv_np": "gwgebv", "wgs_np": "wgs"}.get(which, which)
    if which == "wgebvmat":
        from pybrops.model.wgebvmat.DenseWeightedGenomicEstimatedBreedingValueMatrix import DenseWeightedGenomicEstimatedBreedingValueMatrix as W
        g, gmod, bv = build_pop(pop, A["phased"])
        def f():
            with numpy.errstate(all="ignore"): m = W.from_algmod(gmod, g)
            return {"mat": _arr(m.unscale()), "taxa": [str(v) for v in m.taxa], "taxa_grp": _arr(m.taxa_grp)}
        out["obj"] = _try(f); return out
    if which == "embvmat":
        from pybrops.model.embvmat.DenseExpectedMaximumBreedingValueMatrix import DenseExpectedMaximumBreedingValueMatrix as M
        g, gmod, bv = build_pop(pop, True)
        def f():
            import importlib
            mod = importlib.import_module(M.__module__)
            calls = []
            old_dh, old_rng = mod.dense_dh, mod.global_prng
            def spy(geno, sel, xoprob, rng_):
                r = old_dh(geno, sel, xoprob, rng_)
                calls.append({"x": numpy.asarray(sel).astype(int).tolist(), "prog": numpy.asarray(r).astype(int).tolist()})
                return r
            as_arg = lambda v: numpy.array(v, dtype=A.get("dtype", "int64")) if isinstance(v, list) else int(v)
            mod.dense_dh, mod.global_prng = spy, numpy.random.default_rng(A.get("seed", 1))
            try: m = M.from_gmod(gmod, g, as_arg(A["nprogeny"]), as_arg(A["nrep"]))
            finally: mod.dense_dh, mod.global_prng = old_dh, old_rng
            return {"mat": _arr(m.unscale()), "taxa": [str(v) for v in m.taxa], "taxa_grp": _arr(m.taxa_grp), "reps": calls}
        out["obj"] = _try(f); return out
    encs = ("Subset",) if fam in SUBSET_ONLY else ENCODINGS
    for enc in encs:
        cls = _cls(fam, enc)
        def f():
            phased = True if which in ("uc", "uc_xmap", "ohv", "opv", "gb", "embv") else A["phased"]
            g, gmod, bv = build_pop(pop, phased)
            with numpy.errstate(all="ignore"):
                if which == "ebv":
                    pr = cls.from_bvmat(bv, A["unscale"], **_space(enc, n)); return {"ebv": _arr(pr.ebv)}
                if which == "gebv_bvmat":
                    pr = cls.from_bvmat(bv, A["unscale"], **_space(enc, n)); return {"gebv": _arr(pr.gebv)}
                if which == "gebv_gmat":
                    pr = cls.from_gmat_gpmod(g, gmod, A["unscale"], **_space(enc, n)); return {"gebv": _arr(pr.gebv)}
                if which == "gwgebv":
                    pr = cls.from_gmat_algpmod(g, gmod, A["alpha"], **_space(enc, n)); return {"gwgebv": _arr(pr.gwgebv)}
                if which == "wgs":
                    pr = cls.from_gmat_algpmod(g, gmod, **_space(enc, n)); return {"gwgebv": _arr(pr.gwgebv)}
                if which in ("gwgebv_np", "wgs_np"):
                    # the arrays are handed over by the harness: genotypes in {0,1,2} coding, effects, favourable-allele frequencies
                    X, u, beta, gebv, f = pop_truth(pop)
                    if which == "gwgebv_np": pr = cls.from_numpy(X.copy(), u.copy(), f.copy(), A["alpha"], **_space(enc, n))
                    else: pr = cls.from_numpy(X.copy(), u.copy(), f.copy(), **_space(enc, n))
                    return {"gwgebv": _arr(pr.gwgebv)}
                if which in ("ocs", "mgr", "meh", "l2"):
                    from pybrops.popgen.cmat.fcty.DenseMolecularCoancestryMatrixFactory import DenseMolecularCoancestryMatrixFactory
                    fc = DenseMolecularCoancestryMatrixFactory()
                    if which == "ocs":
                        pr = cls.from_bvmat_gmat(bv, g, fc, A["unscale"], **_space(enc, n, nobj=1 + t)); return {"ebv": _arr(pr.ebv), "C": _arr(pr.C)}
                    if which == "l2":
                        pr = cls.from_gmat(g, fc, numpy.array(pop["u"], dtype=float), gmod.fafreq(g), **_space(enc, n, nobj=t)); return {"C": _arr(pr.C)}
                    pr = cls.from_gmat(g, fc, **_space(enc, n)); return {"C": _arr(pr.C)}
                if which == "l2w":
                    from pybrops.popgen.cmat.fcty.DenseGeneralizedWeightedCoancestryMatrixFactory import DenseGeneralizedWeightedCoancestryMatrixFactory
                    pr = cls.from_gmat(g, DenseGeneralizedWeightedCoancestryMatrixFactory(), numpy.array(A["mkrwt"], dtype=float), numpy.array(A["afreq"], dtype=float), **_space(enc, n, nobj=t))
                    return {"C": _arr(pr.C)}
                if which == "l1":
                    pr = cls.from_numpy(numpy.array(pop["u"], dtype=float), g.tafreq(), numpy.array(A["tfreq"], dtype=float), **_space(enc, n, nobj=t)); return {"V": _arr(pr.V)}
                if which == "fam":
                    pr = cls.from_bvmat(bv, **_space(enc, n)); return {"ebv": _arr(pr.ebv), "familyid": _arr(pr.familyid)}
                if which in ("uc", "uc_xmap"):
                    from pybrops.popgen.gmap.HaldaneMapFunction import HaldaneMapFunction
                    vfname = A.get("vf", UC_VMAT_DEFAULT)
                    VF = _vmat_factory(vfname)
                    xm = _uc_xmap(case)
                    nx = len(xm)
                    if nx == 0: return {"skip": True}
                    base = (UC_VMAT[vfname][0], 1, A["nprogeny"], 0, A["pct"], VF(), HaldaneMapFunction(), A["unique"], g, gmod)
                    if which == "uc": pr = cls.from_pgmat_gpmod(*base, **_space(enc, nx, nobj=t))
                    else: pr = cls.from_pgmat_gpmod_xmap(*base, numpy.array(A["xmap"], dtype=int), **_space(enc, nx, nobj=t))
                    # progeny variances (property C12; trusted here), looked up by the harness at the expected cross configurations
                    vm = VF().from_gmod(gmod, g, 1, A["nprogeny"], 0, HaldaneMapFunction())
                    return {"ucmat": _arr(pr.ucmat), "xmap": _arr(pr.decn_space_xmap), "pvar": _arr(numpy.array([vm.mat[tuple(r)] for r in xm], dtype=float)),
                            "epgc_lib": [float(v) for v in vm.epgc]}
                if which == "ohv":
                    npar = A.get("nparent", 2)
                    nx = len(_xmap_rows(n, npar, A["unique"]))
                    if nx == 0: return {"skip": True}
                    pr = cls.from_pgmat_gpmod(npar, A["nhaploblk"], A["unique"], g, gmod, **_space(enc, nx, nobj=t))
                    r = {"ohvmat": _arr(pr.ohvmat), "xmap": _arr(pr.decn_space_xmap), "bounds": _block_bounds(g, A["nhaploblk"])}
                    # the table builder called directly (it is what every factory calls, with mem = 1024): every chunk size, on the
                    # factory's own cross map and on a cross map supplied by the harness (unsorted rows, unsorted parents, repeats)
                    hm = cls._calc_haplomat(g, gmod, A["nhaploblk"])
                    xm = numpy.array(pr.decn_space_xmap)
                    r["chunks"] = [{"mem": m, "ohvmat": _arr(cls._calc_ohvmat(hm.shape[0], hm, xm, m))} for m in A.get("mems", [])]
                    if A.get("xmap"):
                        r["custom"] = _arr(cls._calc_ohvmat(hm.shape[0], hm, numpy.array(A["xmap"], dtype=int), A.get("xmap_mem")))
                    return r
                if which == "opv":
                    pr = cls.from_pgmat_gpmod(A["nhaploblk"], g, gmod, **_space(enc, n, nobj=t)); return {"haplomat": _arr(pr.haplomat), "ploidy": int(pr.ploidy), "bounds": _block_bounds(g, A["nhaploblk"])}
                if which == "gb":
                    pr = cls.from_pgmat_gpmod(g, gmod, A["nhaploblk"], A["nbestfndr"], **_space(enc, n, nobj=t))
                    return {"haplomat": _arr(pr.haplomat), "nbestfndr": int(pr.nbestfndr), "bounds": _block_bounds(g, A["nhaploblk"])}
                if which in ("pafd", "pau", "mogs"):
                    w = _w_abs if A["callable"] else numpy.array(A["mkrwt"], dtype=float)
                    tg = _t_sign if A["callable"] else numpy.array(A["tfreq"], dtype=float)
                    pr = cls.from_gmat_gpmod(g, w, tg, gmod, **_space(enc, n, nobj=t))
                    return {"geno": _arr(pr.geno), "ploidy": int(pr.ploidy), "mkrwt": _arr(pr.mkrwt), "tfreq": _arr(pr.tfreq)}
                if which == "embv":
                    import importlib
                    pname = A.get("prot", "SelfCross")
                    Base = getattr(importlib.import_module("pybrops.breed.prot.mate." + pname), pname)
                    calls = []
                    class Spy(Base):                       # records every simulated progeny matrix the factory asks for
                        def mate(self, pgmat, xconfig, nmating, nprogeny, miscout=None, **kw):
                            r = super().mate(pgmat=pgmat, xconfig=xconfig, nmating=nmating, nprogeny=nprogeny, miscout=miscout, **kw)
                            calls.append({"x": numpy.asarray(xconfig).astype(int).ravel().tolist(), "prog": numpy.asarray(r.mat).astype(int).tolist()})
                            return r
                    npar = EMBV_PROT[pname]
                    nx = len(_embv_xmap(n, npar, A["unique"]))
                    if nx == 0: return {"skip": True}
                    pr = cls.from_pgmat_gpmod(npar, A.get("nmating", 1), A["nprogeny"], A["nrep"], A["unique"], g, gmod,
                                              Spy(rng=numpy.random.default_rng(A.get("seed", 1))), **_space(enc, nx, nobj=t))
                    return {"embv": _arr(pr.embv), "xmap": _arr(pr.decn_space_xmap), "reps": calls}
                if which == "rand":
                    import importlib
                    from rngscript import Scripted
                    mod = importlib.import_module(P + "RandomSelectionProblem")
                    old = mod.global_prng
                    mod.global_prng = Scripted(normals=[[v for r in A["normals"] for v in r]])
                    try: pr = cls.from_object(n, t, **_space(enc, n, nobj=t))
                    finally: mod.global_prng = old
                    return {"rbv": _arr(pr.rbv)}
            raise ValueError(which)
        out[enc] = _try(f)
    return out

def _block_bounds(g, nhaploblk):
    """haplotype block boundaries, from pybrops' own binning utilities (property C18; trusted here)"""
    from pybrops.core.util.haplo import nhaploblk_chrom, haplobin, haplobin_bounds
    nblk = nhaploblk_chrom(nhaploblk, g.vrnt_genpos, g.vrnt_chrgrp_stix, g.vrnt_chrgrp_spix)
    hb = haplobin(nblk, g.vrnt_genpos, g.vrnt_chrgrp_stix, g.vrnt_chrgrp_spix)
    st, sp, _ = haplobin_bounds(hb)
    return [[int(a), int(b)] for a, b in zip(st, sp)]

def _unhex(a):
    """nested lists of hex strings / ints -> nested lists of floats"""
    if isinstance(a, list): return [_unhex(v) for v in a]
    return float.fromhex(a) if isinstance(a, str) else float(a)

def _near(a, b, tol=2.0 ** -30):
    a = numpy.asarray(a, dtype=float); b = numpy.asarray(b, dtype=float)
    if a.shape != b.shape: return False
    if a.size == 0: return True
    if not (numpy.all(numpy.isfinite(a)) and numpy.all(numpy.isfinite(b))): return False
    return bool(numpy.all(numpy.abs(a - b) <= tol * (1 + numpy.abs(b))))

def pop_truth(pop):
    X = (numpy.array(pop["hap"][0]) + numpy.array(pop["hap"][1])).astype(float)
    u = numpy.array(pop["u"], dtype=float); beta = numpy.array(pop["beta"], dtype=float)
    n, p = X.shape
    gebv = X @ u + beta[None, :]
    c = X.sum(0)[:, None]
    f = numpy.where(u > 0, c / (2 * n), numpy.where(u < 0, (2 * n - c) / (2 * n), 0.0))     # favourable allele frequency; 0 for no effect
    return X, u, beta, gebv, f

def _embv_xmap(n, npar, unique):
    it = itertools.combinations(range(n), npar) if unique else itertools.combinations_with_replacement(range(n), npar)
    return [list(v) for v in it]

def _embv_expect(pop, calls, groups, dh):
    """the definition of the expected maximum breeding value from the progeny the library simulated.
    groups = [(parents, number of replicates, progeny per replicate)] in the order the factory must work through them.
    Returns (problems, table of mean-of-maxima per group, breeding values per group/replicate/progeny as Fractions)."""
    bad = []
    hap = numpy.array(pop["hap"], dtype=int); u = pop["u"]; beta = pop["beta"]
    p, t = hap.shape[2], len(beta)
    if len(calls) != sum(g[1] for g in groups):
        return ["%d progeny simulations, expected %d (sum of the replicate counts)" % (len(calls), sum(g[1] for g in groups))], None, None
    table, allbv, k = [], [], 0
    for gi, (parents, nrep, nprog) in enumerate(groups):
        reps = []
        for r in range(nrep):
            c = calls[k]; k += 1
            prog = numpy.array(c["prog"], dtype=int)
            if sorted(set(c["x"])) != sorted(set(parents)) or (len(parents) == 1 and c["x"] != parents * len(c["x"])) or (len(parents) > 1 and c["x"] != parents):
                bad.append("replicate %d of entry %d simulated from parents %s, expected %s" % (r, gi, c["x"], parents))
            if prog.ndim != 3 or prog.shape[1] != nprog:
                bad.append("replicate %d of entry %d has %s progeny, expected %d" % (r, gi, prog.shape[1] if prog.ndim == 3 else "?", nprog)); continue
            if dh and not numpy.array_equal(prog[0], prog[1]): bad.append("a doubled-haploid progeny of entry %d is not homozygous" % gi)
            allowed = [set(int(hap[m, i, j]) for m in range(hap.shape[0]) for i in parents) for j in range(p)]
            if any(int(prog[m, g, j]) not in allowed[j] for m in range(prog.shape[0]) for g in range(prog.shape[1]) for j in range(p)):
                bad.append("a progeny of entry %d carries an allele none of its parents %s has" % (gi, parents))
            X = prog.sum(0)
            reps.append([[sum(F(int(X[g, j])) * F(u[j][q]) for j in range(p)) + F(beta[q]) for q in range(t)] for g in range(prog.shape[1])])
        if len(reps) != nrep or any(len(b) == 0 for b in reps):
            table.append(None); allbv.append(reps); continue
        table.append([sum(max(b[q] for b in bvs) for bvs in reps) / len(reps) for q in range(t)]); allbv.append(reps)
    return bad, table, allbv

def _embv_groups(case):
    A = case["args"]; n = len(case["pop"]["labels"])
    if case["which"] == "embvmat":
        per = lambda v: v if isinstance(v, list) else [v] * n
        return [([i], r, g) for i, r, g in zip(range(n), per(A["nrep"]), per(A["nprogeny"]))], True
    pname = A.get("prot", "SelfCross")
    return [(x, A["nrep"], A.get("nmating", 1) * A["nprogeny"]) for x in _embv_xmap(n, EMBV_PROT[pname], A["unique"])], pname.endswith("DHCross")

def _embv_check(case, o, key, tag):
    """EMBV table of a factory output against the definition on the recorded progeny"""
    bad = []
    groups, dh = _embv_groups(case)
    probs, table, _ = _embv_expect(case["pop"], o.get("reps", []), groups, dh)
    bad += ["%s: %s" % (tag, b) for b in probs]
    if table is None or any(r is None for r in table): return bad or ["%s: progeny simulations do not have the expected shape" % tag]
    got = numpy.array(_unhex(o[key]), dtype=float)
    want = numpy.array([[float(v) for v in r] for r in table], dtype=float)
    if not _near(got, want, 2.0 ** -26):
        rows = [i for i in range(min(len(got), len(want))) if got.shape == want.shape and not _near(got[i], want[i], 2.0 ** -26)]
        bad.append("%s: %s != mean over exactly the replicates drawn (%s) of the maximum breeding value of the progeny of each replicate (%s), rows %s"
                   % (tag, key, [g[1] for g in groups], [g[2] for g in groups], rows))
    return bad

def pred_factory(case, out):
    which, pop, A = case["which"], case["pop"], case["args"]
    X, u, beta, gebv, f = pop_truth(pop)
    n, p = X.shape; t = u.shape[1]
    hap = numpy.array(pop["hap"], dtype=float)
    bvm = numpy.array(pop["bv"]["mat"], dtype=float)
    bvu = bvm * numpy.array(pop["bv"]["scale"])[None, :] + numpy.array(pop["bv"]["location"])[None, :]
    taxa = ["L%02d" % v for v in pop["labels"]]
    bad = []
    def std(g):
        loc = g.mean(0); sc = g.std(0); sc = numpy.where(sc == 0, 1.0, sc)
        return (g - loc[None, :]) / sc[None, :]
    fg = numpy.where(f == 0, 1.0, f)
    Xt = X - 1.0
    K = 0.5 * (1.0 + Xt @ Xt.T / p)
    for enc, o in out.items():
        tag = "%s.%s" % (which, enc)
        if "exc" in o:
            if which in ("ohv", "opv", "gb") and "greater than number of available markers" in o["msg"]: continue    # documented precondition of the block assignment
            bad.append("%s factory raised %s: %s" % (tag, o["exc"], o["msg"])); continue
        if o.get("skip"): continue
        def chk(key, want, what, tol=2.0 ** -30):
            if not _near(_unhex(o[key]), want, tol): bad.append("%s: %s != %s of the population in taxon order" % (tag, key, what))
        def chk_factor(C, what, K=K):
            C = numpy.array(_unhex(C), dtype=float)
            if not numpy.all(numpy.isfinite(C)): bad.append("%s: %s not finite" % (tag, what)); return
            if numpy.any(numpy.tril(C, -1) != 0): bad.append("%s: %s is not upper triangular" % (tag, what))
            G = C.T @ C
            off = ~numpy.eye(n, dtype=bool)
            dg = numpy.diag(G) - numpy.diag(K)
            if not _near(G[off], K[off]) or numpy.any(dg < -1e-9) or numpy.any(dg > 1.1e-6):
                bad.append("%s: %s' %s != kinship matrix of the population in taxon order" % (tag, what, what))
        if which == "ebv": chk("ebv", bvu if A["unscale"] else bvm, "breeding values")
        elif which == "gebv_bvmat": chk("gebv", bvu if A["unscale"] else bvm, "breeding values")
        elif which == "gebv_gmat": chk("gebv", gebv if A["unscale"] else std(gebv), "genomic breeding values", 2.0 ** -26)
        elif which in ("gwgebv", "gwgebv_np"): chk("gwgebv", X @ (u * numpy.power(fg, -A["alpha"])), "generalised weighted breeding values")
        elif which in ("wgs", "wgs_np"): chk("gwgebv", X @ (u * numpy.power(fg, -0.5)), "weighted breeding values")
        elif which == "ocs":
            chk("ebv", bvu if A["unscale"] else bvm, "breeding values"); chk_factor(o["C"], "C")
        elif which in ("mgr", "meh"): chk_factor(o["C"], "C")
        elif which == "l2":
            Cs = _unhex(o["C"])
            if len(Cs) != t: bad.append("%s: %d factors for %d traits" % (tag, len(Cs), t))
            for C in Cs: chk_factor(C, "C[trait]")
        elif which == "l2w":
            Cs = _unhex(o["C"]); w = numpy.array(A["mkrwt"], dtype=float); af = numpy.array(A["afreq"], dtype=float)
            if len(Cs) != t: bad.append("%s: %d factors for %d traits" % (tag, len(Cs), t))
            for q, C in enumerate(Cs):
                Zq = X - 2.0 * af[None, :, q]
                chk_factor(C, "C[trait %d]" % q, 0.5 * (Zq * w[None, :, q]) @ Zq.T)     # the weighted relationship matrix of that trait
        elif which == "l1":
            tf = numpy.array(A["tfreq"], dtype=float)
            V = numpy.array([[[u[j, q] * (X[i, j] / 2 - tf[j, q]) for i in range(n)] for j in range(p)] for q in range(t)])
            chk("V", V, "mkrwt * (taxon frequency - target)")
        elif which == "fam":
            chk("ebv", bvm, "breeding values")
            if o["familyid"] != pop["grp"]: bad.append("%s: familyid != taxa_grp in taxon order" % tag)
        elif which in ("uc", "uc_xmap"):
            import scipy.stats
            vfname = A.get("vf", UC_VMAT_DEFAULT)
            npar, contrib = UC_VMAT[vfname]                 # contributions as written down in this harness
            xm = _uc_xmap(case)
            if o["xmap"] != xm: bad.append("%s: cross map != expected list of parent tuples" % tag); continue
            if o["epgc_lib"] != contrib: bad.append("%s: expected parental genome contributions of the variance matrix %s != %s" % (tag, o["epgc_lib"], contrib))
            si = scipy.stats.norm.pdf(scipy.stats.norm.ppf(1.0 - A["pct"])) / A["pct"]
            pv = numpy.array(_unhex(o["pvar"]), dtype=float)
            want = numpy.array([[sum(c * gebv[i, q] for c, i in zip(contrib, row)) + si * math.sqrt(max(pv[r, q], 0.0)) for q in range(t)] for r, row in enumerate(xm)])
            chk("ucmat", want, "sum_i contribution_i * breeding value of parent i + intensity * sqrt(progeny variance) through the cross map (%s)" % _vf_short(vfname), 2.0 ** -26)
        elif which in ("ohv", "opv", "gb"):
            bnd = o["bounds"]
            if len(bnd) != A["nhaploblk"]: continue      # empty haplotype bins: fewer blocks than requested, trailing garbage (property C18's finding)
            hv = numpy.array([[[[sum(hap[m, i, j] * u[j, q] for j in range(a, b)) for q in range(t)] for a, b in bnd] for i in range(n)] for m in range(2)])
            if which == "ohv":
                npar = A.get("nparent", 2)
                xm = _xmap_rows(n, npar, A["unique"])
                if o["xmap"] != xm: bad.append("%s: cross map != every %s index tuple of %d parents, lexicographic" % (tag, "increasing" if A["unique"] else "non-decreasing", npar)); continue
                # the definition from the raw haplotypes: ploidy * sum over blocks of the best block value among ALL phases of ALL parents of the row
                ohv = lambda rows: numpy.array([[2 * sum(max(hv[m, i, b, q] for m in range(2) for i in row) for b in range(len(bnd))) for q in range(t)] for row in rows])
                want = ohv(xm)
                what = "ploidy * sum over blocks of the best block value over ALL %d parents of the cross and their phases" % npar
                chk("ohvmat", want, what)
                for c in o.get("chunks", []):
                    if not _near(_unhex(c["ohvmat"]), want): bad.append("%s: _calc_ohvmat(mem=%s) on the factory's cross map != %s" % (tag, c["mem"], what))
                if "custom" in o and not _near(_unhex(o["custom"]), ohv(A["xmap"])):
                    bad.append("%s: _calc_ohvmat(mem=%s) on the cross map %s != %s" % (tag, A.get("xmap_mem"), A["xmap"], what))
            else:
                chk("haplomat", hv, "haplotype block values")
                if which == "opv" and o["ploidy"] != 2: bad.append("%s: ploidy" % tag)
                if which == "gb" and o["nbestfndr"] != A["nbestfndr"]: bad.append("%s: nbestfndr" % tag)
        elif which in ("pafd", "pau", "mogs"):
            if o["geno"] != X.astype(int).tolist(): bad.append("%s: geno != genotypes of the population in taxon order" % tag)
            if o["ploidy"] != 2: bad.append("%s: ploidy" % tag)
            chk("mkrwt", numpy.absolute(u) if A["callable"] else numpy.array(A["mkrwt"]), "marker weights")
            chk("tfreq", numpy.where(u > 0, 1.0, 0.0) if A["callable"] else numpy.array(A["tfreq"]), "target frequencies")
        elif which == "embv":
            pname = A.get("prot", "SelfCross")
            xm = _embv_xmap(n, EMBV_PROT[pname], A["unique"])
            if o["xmap"] != xm: bad.append("%s: cross map != expected list of parent tuples" % tag); continue
            bad += _embv_check(case, o, "embv", tag)
            if pname == "SelfCross" and A.get("homozygous", True):
                chk("embv", gebv, "expected maximum breeding value of the selfed (homozygous) parents = their breeding values")
        elif which == "rand": chk("rbv", numpy.array(A["normals"]), "the drawn values in draw order")
        elif which == "wgebvmat":
            w = numpy.where((f == 0) | (f == 1), 1.0, (math.asin(1.0) - numpy.arcsin(numpy.sqrt(f))) / numpy.sqrt(numpy.where((f == 0) | (f == 1), 1.0, f * (1 - f))))
            chk("mat", X @ (u * w), "arcsine-weighted breeding values", 2.0 ** -26)
            if o["taxa"] != taxa or o["taxa_grp"] != pop["grp"]: bad.append("%s: taxa labels / groups not in the population's order" % tag)
        elif which == "embvmat":
            bad += _embv_check(case, o, "mat", tag)
            if A.get("homozygous", True): chk("mat", gebv, "breeding values of the homozygous parents", 2.0 ** -26)
            if o["taxa"] != taxa or o["taxa_grp"] != pop["grp"]: bad.append("%s: taxa labels / groups not in the population's order" % tag)
    seen = []
    for b in bad:
        if b not in seen: seen.append(b)
    return seen[:8]

def _qh(a):
    """nested hex strings -> nested Coq Q literals (exact)"""
    if isinstance(a, list): return "[" + "; ".join(_qh(v) for v in a) + "]"
    return E.q(Fraction(float.fromhex(a) if isinstance(a, str) else float(a)))

def emit_factory(case, out):
    """factory data evaluated in Coq for the factories with an exact-rational definition"""
    which, pop, A = case["which"], case["pop"], case["args"]
    if which not in ("gebv_gmat", "gwgebv", "ohv", "opv", "gb", "l1", "uc", "uc_xmap", "pafd", "pau", "mogs", "embv", "embvmat", "gwgebv_np"): return None
    if any(isinstance(o, dict) and ("exc" in o or o.get("skip")) for o in out.values()): return None
    n, p, t = len(pop["labels"]), len(pop["chrgrp"]), len(pop["beta"])
    hap = E.lst3(pop["hap"], E.z); u = _ql2(pop["u"]); beta = _ql(pop["beta"])
    head = "let hap := %s in let u := %s in\n  " % (hap, u)
    parts = []
    if which == "gebv_gmat":
        if not A["unscale"]: return None
        head += "let g := gebv_def hap u %s %d %d %d in\n  " % (beta, n, p, t)
        parts = ["qclose_ll %s g" % _qh(o["gebv"]) for o in out.values()]
    elif which in ("embv", "embvmat"):
        # the model's definition on the breeding values of the progeny the library simulated (recomputed here from the recorded
        # progeny genotypes): mean over exactly nrep replicates of the maximum over the progeny of the replicate, entry by entry
        groups, dh = _embv_groups(case)
        key = "embv" if which == "embv" else "mat"
        for o in out.values():
            probs, table, allbv = _embv_expect(pop, o.get("reps", []), groups, dh)
            if allbv is None: parts.append("false"); continue
            reps = "[" + "; ".join("[" + "; ".join(E.lst2(bvs, E.q) for bvs in rr) + "]" for rr in allbv) + "]"
            parts.append("(let reps := %s in qclose_ll %s (embv_def reps %d) && embv_shape_ok reps %s %s)"
                         % (reps, _qh(o[key]), t, E.lst([g[1] for g in groups], E.nat), E.lst([g[2] for g in groups], E.nat)))
            if which == "embv":
                npar = EMBV_PROT[A.get("prot", "SelfCross")]
                parts.append("list_eqb natl_eqb %s %s" % (E.lst2(o["xmap"], E.nat), E.lst2(_embv_xmap(n, npar, A["unique"]), E.nat)))
                parts.append("list_eqb natl_eqb %s (xmap_def %s %d %d)" % (E.lst2(o["xmap"], E.nat), E.b(A["unique"]), n, npar))
                if npar == 1: parts.append("list_eqb natl_eqb %s (map (fun i => [i]) (seq 0 %d))" % (E.lst2(o["xmap"], E.nat), n))
                if npar == 2: parts.append("list_eqb natl_eqb %s (if %s then pairs_unique %d else pairs_any %d)" % (E.lst2(o["xmap"], E.nat), E.b(A["unique"]), n, n))
            if A.get("homozygous") and (which == "embvmat" or A.get("prot", "SelfCross") == "SelfCross"):
                parts.append("qclose_ll %s (gebv_def hap u %s %d %d %d)" % (_qh(o[key]), beta, n, p, t))
    elif which in ("gwgebv", "gwgebv_np"):
        if A["alpha"] not in (0.0, 1.0, 2.0): return None
        head += "let g := gwgebv_def hap u %d %d %d %d in\n  " % (int(A["alpha"]), n, p, t)
        parts = ["qclose_ll %s g" % _qh(o["gwgebv"]) for o in out.values()]
    elif which in ("ohv", "opv", "gb"):
        bnd = out["Subset"]["bounds"]
        if len(bnd) != A["nhaploblk"]: return None
        B = "[" + "; ".join("(%d%%nat, %d%%nat)" % (a, b) for a, b in bnd) + "]"
        if which == "ohv":
            # the model's table for the requested number of parents: every row from the WHOLE parent list of the model's cross map
            npar = A.get("nparent", 2)
            head += "let m := ohvmat_defk hap u %s %d %d %d %s in\n  " % (B, n, t, npar, E.b(A["unique"]))
            if npar == 2: head += "let m2 := ohvmat_def hap u %s %d %d %s in\n  " % (B, n, t, E.b(A["unique"]))
            # identical tables (the four encodings, every chunk size) are shipped once
            mats, maps = [], []
            for o in out.values():
                for mtx in [o["ohvmat"]] + [c["ohvmat"] for c in o.get("chunks", [])]:
                    if mtx not in mats: mats.append(mtx)
                if o["xmap"] not in maps: maps.append(o["xmap"])
            parts = ["qclose_ll %s m" % _qh(mtx) for mtx in mats]
            if npar == 2: parts += ["qclose_ll %s m2" % _qh(mtx) for mtx in mats]
            parts += ["list_eqb natl_eqb %s (xmap_def %s %d %d)" % (E.lst2(xm, E.nat), E.b(A["unique"]), n, npar) for xm in maps]
            if npar == 2: parts += ["list_eqb natl_eqb %s (if %s then pairs_unique %d else pairs_any %d)" % (E.lst2(xm, E.nat), E.b(A["unique"]), n, n) for xm in maps]
            if A.get("xmap"):
                customs = []
                for o in out.values():
                    if "custom" in o and o["custom"] not in customs: customs.append(o["custom"])
                parts += ["qclose_ll %s (ohvmat_on hap u %s %d %d %s)" % (_qh(c), B, n, t, E.lst2(A["xmap"], E.nat)) for c in customs]
        else:
            head += "let H := haploval hap u %s %d %d in\n  " % (B, n, t)
            parts = ["list_eqb (list_eqb qclose_ll) %s H" % _qh(o["haplomat"]) for o in out.values()]
    elif which == "l1":
        head += "let V := l1_tensor hap u %s %d %d %d in\n  " % (_ql2(A["tfreq"]), n, p, t)
        parts = ["list_eqb qclose_ll %s V" % _qh(o["V"]) for o in out.values()]
    elif which in ("uc", "uc_xmap"):
        import scipy.stats
        si = float(scipy.stats.norm.pdf(scipy.stats.norm.ppf(1.0 - A["pct"])) / A["pct"])
        head += "let bv := gebv_def hap u %s %d %d %d in\n  " % (beta, n, p, t)
        npar, contrib = UC_VMAT[A.get("vf", UC_VMAT_DEFAULT)]      # the contribution vector is an argument of the model, supplied from the harness table
        xm = _uc_xmap(case)
        for o in out.values():
            pv = _unhex(o["pvar"])
            rows = []
            for got, parents, var in zip(o["ucmat"], xm, pv):
                rows.append("uc_ok %s (uc_parts bv %s %s %s %d %s)" % (_qh(got), _ql(contrib), _q(si), _ql(var), t, E.lst(parents, E.nat)))
            parts.append("(" + " && ".join(rows) + ")")
            parts.append("list_eqb natl_eqb %s %s" % (E.lst2(o["xmap"], E.nat), E.lst2(xm, E.nat)))
            if which == "uc" and npar == 2:
                parts.append("list_eqb natl_eqb %s (if %s then pairs_unique %d else pairs_any %d)" % (E.lst2(o["xmap"], E.nat), E.b(A["unique"]), n, n))
            if len(o["ucmat"]) != len(xm): parts.append("false")
    elif which in ("pafd", "pau", "mogs"):
        o = out["Subset"]
        parts = ["zll_eqb %s (map (fun i => map (fun j => dosage hap i j) (seq 0 %d)) (seq 0 %d))" % (E.lst2(o["geno"], E.z), p, n), "Z.eqb %s (Z.of_nat (length hap))" % E.z(o["ploidy"])]
        if A["callable"]:
            parts.append("qll_eqb %s (map (map Qabs') u)" % _qh(o["mkrwt"]))
            parts.append("qll_eqb %s (map (map (fun e => if Qle_bool e 0%%Q then 0%%Q else 1%%Q)) u)" % _qh(o["tfreq"]))
    return head + "(" + "\n   && ".join(parts) + ")"

# ------------------------------------------------------------------------------------------------ special cases
def run_special(case):
    k = case["kind"]
    if k == "classes":
        import importlib
        have = enumerate_concrete()
        fm = {}
        for nme, mod in have.items():
            cls = getattr(importlib.import_module(mod), nme)
            fm[nme] = sorted(a for a in dir(cls) if a.startswith("from_") and callable(getattr(cls, a)))
        import inspect
        from pybrops.breed.prot.sel.prob import trans as T
        tf = sorted(n for n, f in vars(T).items() if inspect.isfunction(f) and f.__module__ == T.__name__ and not n.startswith("_"))
        # mating protocols the EMBV factories can be handed: every concrete class of pybrops.breed.prot.mate with its number of parents
        import pkgutil, pybrops.breed.prot.mate as MP
        prot = {}
        for mi in pkgutil.iter_modules(MP.__path__):
            mod = importlib.import_module(MP.__name__ + "." + mi.name)
            for nme, c in vars(mod).items():
                if inspect.isclass(c) and c.__module__ == mod.__name__ and not getattr(c, "__abstractmethods__", ()) and hasattr(c, "mate"):
                    prot[nme] = int(c(rng=numpy.random.default_rng(1)).nparent)
        return {"concrete": have, "factories": fm, "trans": tf, "mateprot": prot}
    if k == "stub":
        import importlib
        cls = getattr(importlib.import_module(P + "MultiObjectiveGenomicMatingProblem"), "MultiObjectiveGenomicSubsetMatingProblem")
        n, p = 3, 2
        pr = cls(geno=numpy.array([[0, 1], [2, 1], [1, 1]], dtype="int8"), ploidy=2, mkrwt=numpy.ones((p, 1)), tfreq=numpy.full((p, 1), 0.5),
                 decn_space_xmap=numpy.array([[0, 1], [0, 2], [1, 2]]), **_space("Subset", n))
        return {"latent": _lat(pr, numpy.array([0, 1]))}
    if k == "vmatfcty":
        have = enumerate_vmat_factories()
        rejected = {}
        rng = __import__("random").Random(5)
        pop = gen_pop(rng, n=4)
        from pybrops.popgen.gmap.HaldaneMapFunction import HaldaneMapFunction
        for nme in have:
            if nme in UC_VMAT: continue
            g, gmod, bv = build_pop(pop, True)
            res = {}
            for ctor in ("from_pgmat_gpmod", "from_pgmat_gpmod_xmap"):
                def f():
                    cls = _cls("uc", "Subset")
                    base = (2, 1, 5, 0, 0.25, _vmat_factory(nme)(), HaldaneMapFunction(), True, g, gmod)
                    if ctor == "from_pgmat_gpmod": cls.from_pgmat_gpmod(*base, **_space("Subset", 6, nobj=len(pop["beta"])))
                    else: cls.from_pgmat_gpmod_xmap(*base, numpy.array([[0, 1], [2, 3]]), **_space("Subset", 2, nobj=len(pop["beta"])))
                    return "accepted"
                res[ctor] = _try(f)
            rejected[nme] = res
        return {"concrete": have, "rejected": rejected}
    if k == "nlatent":
        c = case["case"]
        pr = make_problem(c["fam"], "Subset", c["data"], len(c["s"]), c["eval"])
        return {"nlatent": int(pr.nlatent), "len": len(pr.latentfn(numpy.array(c["s"], dtype=int)))}
    raise ValueError(k)

def pred_special(case, out):
    k = case["kind"]
    if "exc" in out: return ["%s case raised %s: %s" % (k, out["exc"], out["msg"])]
    if k == "classes":
        have = out["concrete"]
        mapped = {c: m for fam in FAMILIES for (m, c) in family_classes(fam).values()}
        bad = []
        for nme, mod in sorted(have.items()):
            if nme not in mapped and nme not in SKIPPED: bad.append("concrete problem class %s (%s) is neither mapped to a criterion family nor skipped with a reason" % (nme, mod))
            elif nme in mapped and mapped[nme] != mod: bad.append("class %s found in %s, expected %s" % (nme, mod, mapped[nme]))
        for nme in list(mapped) + list(SKIPPED):
            if nme not in have: bad.append("class %s of the family table no longer exists as a concrete class" % nme)
        for nme in out.get("trans", []):
            if nme not in TRANS_DRIVEN and nme not in TRANS_SKIPPED: bad.append("function %s of sel/prob/trans.py is neither driven as a transformation nor skipped with a reason" % nme)
        for nme in list(TRANS_DRIVEN) + list(TRANS_SKIPPED):
            if nme not in out.get("trans", [nme]): bad.append("function %s of the harness table no longer exists in sel/prob/trans.py" % nme)
        if out.get("mateprot") != EMBV_PROT:
            bad.append("concrete mating protocols and their numbers of parents %s != table the EMBV factories are driven with %s" % (out.get("mateprot"), EMBV_PROT))
        famof = {c: fam for fam in FAMILIES for (m, c) in family_classes(fam).values()}
        for nme, methods in sorted(out.get("factories", {}).items()):
            driven = FACTORY_METHODS.get(famof.get(nme), set())
            for m in methods:
                if m not in driven and (nme, m) not in FACTORY_SKIPPED: bad.append("factory method %s.%s is neither driven by the factory cases nor skipped with a reason" % (nme, m))
            for m in driven:
                if m not in methods: bad.append("factory method %s.%s of the harness table no longer exists" % (nme, m))
        return bad[:8]
    if k == "vmatfcty":
        bad = []
        for nme in out["concrete"]:
            if nme not in UC_VMAT and nme not in UC_VMAT_SKIPPED:
                bad.append("variance-matrix factory %s is neither driven through the usefulness-criterion constructors nor skipped with a reason" % nme)
        for nme in list(UC_VMAT) + list(UC_VMAT_SKIPPED):
            if nme not in out["concrete"]: bad.append("variance-matrix factory %s of the harness table no longer exists as a concrete class" % nme)
        for nme, res in out["rejected"].items():
            if nme not in UC_VMAT_SKIPPED: continue
            for ctor, r in res.items():
                if not (isinstance(r, dict) and r.get("exc") == UC_VMAT_SKIPPED[nme][0]):
                    bad.append("UC %s no longer rejects %s with %s (got %r): drive it through the check" % (ctor, nme, UC_VMAT_SKIPPED[nme][0], r))
        return bad[:8]
    if k == "stub":
        o = out["latent"]
        return [] if isinstance(o, dict) and o.get("exc") == "Exception" else ["MultiObjectiveGenomicSubsetMatingProblem.latentfn no longer raises: map it to a family"]
    if k == "nlatent":
        return [] if out["nlatent"] == out["len"] else ["nlatent = %d but latentfn returns %d values (family %s)" % (out["nlatent"], out["len"], case["case"]["fam"])]

# ------------------------------------------------------------------------------------------------ reporting clause (_evaluate)
# "the reported objectives and constraint violations are exactly the declared weights times the declared transformations of that
# latent vector": SelectionProblem._evaluate(x, out) is the path pymoo (Problem.evaluate) and the memetic hill climbers read.
# A report case drives ONE concrete class with a chosen (nobj, nineqcv, neqcv) and 2..5 candidates through
#   evalfn(x) / _evaluate(x_1d, out) / _evaluate(x[None, :], out) / _evaluate(X, out) / _evaluate(X reversed, out) /
#   problem.evaluate(x), problem.evaluate(X) with elementwise=True and with a problem constructed with elementwise=False.
KEYS = ("F", "G", "H")
# (nineqcv, neqcv): none; only equality; only inequality; both with DIFFERENT widths; both with equal widths
CV_PATTERNS = [(0, 0), (0, 1), (0, 2), (0, 3), (1, 0), (2, 0), (3, 0), (1, 2), (2, 1), (1, 3), (3, 1), (2, 3), (3, 2), (1, 1), (2, 2)]
REPORT_OWNER = ["SelectionProblem._evaluate", "SelectionProblem.evalfn"]

def _gen_trans(rng, nm, count, nlat):
    """a transformation spec of exactly `count` outputs and its weights (both signs, zeros, sometimes all zero)"""
    kinds = ["lin", "lin"]
    if count == 0: kinds += ["empty"] + (["none"] if nm != "obj" else [])
    if count == 1: kinds += ["sum", "dot", "decnsum"]
    if count == nlat: kinds += ["id", "mix"] + (["none"] if nm == "obj" else [])
    k = rng.choice(kinds)
    spec = [k]
    if k == "dot": spec.append([_dy(rng, -32, 32) for _ in range(nlat)])
    if k == "decnsum": spec.append(rng.choice([1.0, 0.5, 2.0, 3.0]))
    if k == "mix": spec.append(_dy(rng, -32, 32))
    if k == "lin": spec += [[[_dy(rng, -32, 32) for _ in range(nlat)] for _ in range(count)], rng.choice([0.0, 0.0, 1.0, -0.5, 0.25])]
    style = rng.random()
    if style < 0.12 and nm != "obj": wt = [0.0] * count                  # violations all zero: the key must still be reported
    elif style < 0.3: wt = [rng.choice([0.0, 1.0, -1.0, _dy(rng, -48, 48)]) for _ in range(count)]
    else: wt = [rng.choice([-1, 1]) * rng.randint(1, 48) / 16 for _ in range(count)]
    return [spec, wt]

def gen_report(rng, fam, enc, pattern):
    t = rng.choice([1, 2, 2, 3])
    n = rng.choice([3, 4, 5, 6])
    d = gen_data(rng, fam, n, t)
    k = rng.randint(1, min(4, n))
    if fam == "gb": d["nbestfndr"] = rng.randint(1, k)
    nlat = nlatent_of(fam, d)
    nrow = rng.choice([2, 3, 4, 5])
    rows = []
    for _ in range(nrow):
        if enc == "Subset": r = rng.sample(range(n), k)
        elif enc == "Integer": r = [rng.choice([0, 0, 1, 1, 2, 3]) for _ in range(n)]
        elif enc == "Binary": r = [rng.choice([0, 1]) for _ in range(n)]
        else: r = [rng.choice([0, 0, 1, 2, 3, 4, 8, 16]) / 16 for _ in range(n)]
        if enc != "Subset" and sum(r) == 0: r[rng.randrange(n)] = 1
        rows.append(r)
    nineq, neq = pattern
    nobj = rng.choice([1, 1, 2, 3, nlat])
    ev = {"obj": _gen_trans(rng, "obj", nobj, nlat), "ineq": _gen_trans(rng, "ineq", nineq, nlat), "eq": _gen_trans(rng, "eq", neq, nlat)}
    return {"kind": "report", "fam": fam, "enc": enc, "data": d, "k": k, "rows": rows, "eval": ev}

def _rep_arr(a):
    a = numpy.asarray(a, dtype=float)
    return {"shape": list(a.shape), "v": _hx(a)}

def _report(prob, x):
    """out after prob._evaluate(x, out) on a fresh dictionary: keys in insertion order, shape and values of each"""
    def f():
        out = {}
        with numpy.errstate(all="ignore"): r = prob._evaluate(x, out)
        rec = {"keys": [str(k_) for k_ in out.keys()], "ret": None if r is None else type(r).__name__}
        for k_, v in out.items(): rec[str(k_)] = _rep_arr(v)
        return rec
    return _try(f)

def _pymoo(prob, x):
    """Problem.evaluate(x, return_as_dictionary=True): F / G / H as pymoo hands them on (absent, None or an array)"""
    def f():
        r = prob.evaluate(x, return_as_dictionary=True)
        return {key: (None if r.get(key) is None else _rep_arr(r[key])) for key in KEYS}
    return _try(f)

def run_report(case):
    fam, enc, d, ev = case["fam"], case["enc"], case["data"], case["eval"]
    dt = float if enc == "Real" else int
    X = numpy.array(case["rows"], dtype=dt)
    imax = max(3, int(X.max())) if enc == "Integer" else 8
    p = make_problem(fam, enc, d, case["k"], ev, imax=imax)
    p2 = make_problem(fam, enc, d, case["k"], ev, imax=imax, elementwise=False)
    out = {"owner": [type(p)._evaluate.__qualname__, type(p).evalfn.__qualname__], "elementwise": [bool(p.elementwise), bool(p2.elementwise)],
           "counts": [int(p.nobj), int(p.nineqcv), int(p.neqcv)], "nlatent": int(p.nlatent)}
    out["lat"] = [_lat(p, x) for x in X]
    out["ev"] = [_ev(p, x) for x in X]
    out["vec"] = [_report(p, x) for x in X]
    out["row"] = [_report(p, x[None, :]) for x in X]
    out["mat"] = _report(p, X)
    out["mat_rev"] = _report(p, X[::-1])
    out["mat2"] = _report(p2, X)                       # the same class constructed with elementwise=False
    out["vec2"] = _report(p2, X[0])
    out["pm_vec"] = _pymoo(p, X[0]); out["pm_mat"] = _pymoo(p, X)
    out["pm2_vec"] = _pymoo(p2, X[0]); out["pm2_mat"] = _pymoo(p2, X)
    out["ev_after"] = _ev(p, X[0])                     # the calls above left the problem as it was
    out["x_intact"] = bool(numpy.array_equal(X, numpy.array(case["rows"], dtype=dt)))
    return out

def _report_want(case, out):
    """per candidate: [objectives, inequality violations, equality violations] = declared weights x declared transformations of the
    latent vector the implementation reports for that candidate (exact rationals), plus the problems found with that latent vector"""
    fam, enc, d, ev = case["fam"], case["enc"], case["data"], case["eval"]
    n = _ncand(fam, d)
    bad, want = [], []
    for i, r in enumerate(case["rows"]):
        lat = _frl(out["lat"][i])
        if lat is None: bad.append("latentfn of candidate %d gives no finite vector" % i); want.append(None); continue
        if enc == "Subset": c, mem = [F(v, len(r)) for v in _counts(n, r)], list(r)
        else:
            tot = sum(F(v) for v in r); c, mem = [F(v) / tot for v in r], [j for j in range(n) if r[j] > 0]
        if not _match(lat, defn(fam, d, c, mem)): bad.append("latent vector of candidate %d != definition (family %s, %s encoding)" % (i, fam, enc))
        x = [F(v) for v in r]
        want.append([[F(w) * v for w, v in zip(ev[nm][1], apply_trans(ev[nm][0], default, x, lat))] for nm, default in (("obj", "id"), ("ineq", "empty"), ("eq", "empty"))])
    return bad, want

def _rows_of(rec):
    """recorded array -> list of rows of Fractions (a vector is one row); None if not finite / not 1-D or 2-D"""
    sh, v = rec["shape"], _frl(rec["v"])
    if v is None or len(sh) not in (1, 2): return None
    if len(sh) == 1: return [v]
    return [v[i * sh[1]:(i + 1) * sh[1]] for i in range(sh[0])]

def pred_report(case, out):
    bad = []
    ev = case["eval"]
    counts = [len(ev[nm][1]) for nm in ("obj", "ineq", "eq")]
    R = len(case["rows"])
    for key, v in out.items():
        for w in (v if isinstance(v, list) else [v]):
            if isinstance(w, dict) and "exc" in w: bad.append("%s raised %s: %s" % (key, w["exc"], w["msg"]))
    if bad: return bad[:8]
    if out["owner"] != REPORT_OWNER: bad.append("_evaluate / evalfn of the class are %s, not SelectionProblem's: the reporting table does not describe them" % out["owner"])
    if out["elementwise"] != [True, False]: bad.append("elementwise flags %s (default must be True, the constructor must honour elementwise=False)" % out["elementwise"])
    if out["counts"] != counts: bad.append("declared nobj / nineqcv / neqcv %s != %s" % (out["counts"], counts))
    if not out["x_intact"]: bad.append("the decision vectors were modified in place")
    b2, want = _report_want(case, out)
    bad += b2
    if any(w is None for w in want): return bad[:8]
    names = ("objectives", "inequality constraint violations", "equality constraint violations")
    for i in range(R):
        if not _evalfn_ok(ev, [F(v) for v in case["rows"][i]], _frl(out["lat"][i]), out["ev"][i]): bad.append("evalfn(candidate %d) != weights * transformations(latent)" % i)
    if out["ev_after"] != out["ev"][0]: bad.append("evalfn(candidate 0) changed after the _evaluate / evaluate calls")
    keys_want = [K for K, c in zip(KEYS, counts) if c > 0]
    def chk(tag, rec, rows, vec):
        """rec = recorded out dictionary; rows = indices of the candidates, in the order given; vec: values are vectors"""
        if rec["keys"] != keys_want: bad.append("%s: keys stored %s, expected %s (a key is reported iff its declared count %s is positive)" % (tag, rec["keys"], keys_want, counts)); return
        for ix, K in enumerate(KEYS):
            if K not in rec: continue
            sh = rec[K]["shape"]
            shw = [counts[ix]] if vec else [len(rows), counts[ix]]
            if sh != shw: bad.append("%s: out[%r] has shape %s, expected %s" % (tag, K, sh, shw)); continue
            got = _rows_of(rec[K])
            for g, r in zip(got or [None] * len(rows), rows):
                if g is None or not _closel(g, want[r][ix]):
                    bad.append("%s: out[%r] row of candidate %d != weights * transformations of the latent vector of that candidate (%s)" % (tag, K, r, names[ix]))
    for i in range(R):
        chk("_evaluate(x_1d)", out["vec"][i], [i], True)
        chk("_evaluate(x[None,:])", out["row"][i], [i], False)
    chk("_evaluate(X)", out["mat"], list(range(R)), False)
    chk("_evaluate(X reversed)", out["mat_rev"], list(range(R))[::-1], False)
    chk("_evaluate(X) [elementwise=False problem]", out["mat2"], list(range(R)), False)
    chk("_evaluate(x_1d) [elementwise=False problem]", out["vec2"], [0], True)
    def chk_pm(tag, rec, rows, vec):
        for ix, K in enumerate(KEYS):
            r_ = rec.get(K)
            if counts[ix] == 0:
                if r_ is not None and len(r_["v"]) > 0: bad.append("%s: %r reported although its declared count is 0" % (tag, K))
                continue
            shw = [counts[ix]] if vec else [len(rows), counts[ix]]
            if r_ is None or r_["shape"] != shw: bad.append("%s: %r has shape %s, expected %s" % (tag, K, None if r_ is None else r_["shape"], shw)); continue
            got = _rows_of(r_)
            for g, r in zip(got or [None] * len(rows), rows):
                if g is None or not _closel(g, want[r][ix]):
                    bad.append("%s: %r row of candidate %d != weights * transformations of the latent vector of that candidate (%s)" % (tag, K, r, names[ix]))
    chk_pm("problem.evaluate(x)", out["pm_vec"], [0], True)
    chk_pm("problem.evaluate(X)", out["pm_mat"], list(range(R)), False)
    chk_pm("problem.evaluate(x) [elementwise=False]", out["pm2_vec"], [0], True)
    chk_pm("problem.evaluate(X) [elementwise=False]", out["pm2_mat"], list(range(R)), False)
    seen = []
    for b in bad:
        if b not in seen: seen.append(b)
    return seen[:8]

def emit_trans2(spec, default):
    if spec[0] == "lin": return "(TLin %s %s)" % (_ql2(spec[1]), _q(spec[2]))
    return "(T1 %s)" % emit_trans(spec, default)

def _emit_outd(rec):
    """a recorded out dictionary -> Coq term of type outd (None: not expressible -> the case is false)"""
    parts = []
    for K in rec["keys"]:
        if K not in KEYS: return None
        rows = _rows_of(rec[K])
        if rows is None: return None
        sh = rec[K]["shape"]
        parts.append("(key_%s, %s)" % (K, "OV %s" % E.lst(rows[0], E.q) if len(sh) == 1 else "OM %s" % E.lst2(rows, E.q)))
    return "[" + "; ".join(parts) + "]"

def _emit_pm(rec):
    """pymoo's dictionary, normalised: a key that is absent / None / of zero size is not there"""
    keep = {"keys": [K for K in KEYS if rec.get(K) is not None and len(rec[K]["v"]) > 0]}
    for K in keep["keys"]: keep[K] = rec[K]
    return _emit_outd(keep)

def emit_report(case, out):
    fam, enc, d, ev = case["fam"], case["enc"], case["data"], case["eval"]
    for key, v in out.items():
        for w in (v if isinstance(v, list) else [v]):
            if isinstance(w, dict) and "exc" in w: return "false"
    n, R = _ncand(fam, d), len(case["rows"])
    lats = [_frl(l) for l in out["lat"]]
    if any(l is None for l in lats): return "false"
    head = "let fd := %s in let n := %d%%nat in\n  let tr := evalfn2 %s %s %s %s %s %s in\n  " % (
        emit_fdata(fam, d), n, emit_trans2(ev["obj"][0], "id"), emit_trans2(ev["ineq"][0], "empty"), emit_trans2(ev["eq"][0], "empty"),
        _ql(ev["obj"][1]), _ql(ev["ineq"][1]), _ql(ev["eq"][1]))
    for i, r in enumerate(case["rows"]):
        head += "let e%d := tr %s %s in\n  " % (i, _ql(r), E.lst(lats[i], E.q))
    parts = []
    for i, r in enumerate(case["rows"]):
        dec = "(DSub %s)" % _natl(r) if enc == "Subset" else "(DVec %s)" % _ql(r)
        parts.append("agree false %s (latent n fd %s)" % (_oimpl(out["lat"][i]), dec))
        g = [_frl(v) for v in out["ev"][i]]
        if any(v is None for v in g): return "false"
        parts.append("ev_close (%s, %s, %s) e%d" % (E.lst(g[0], E.q), E.lst(g[1], E.q), E.lst(g[2], E.q), i))
    def cmp(rec, model, pm=False):
        t = (_emit_pm if pm else _emit_outd)(rec)
        parts.append("false" if t is None else "outd_close %s (%s)" % (t, model))
    allrows = "[" + "; ".join("e%d" % i for i in range(R)) + "]"
    revrows = "[" + "; ".join("e%d" % i for i in reversed(range(R))) + "]"
    for i in range(R):
        cmp(out["vec"][i], "report_vec e%d" % i)
        cmp(out["row"][i], "report_mat [e%d]" % i)
    cmp(out["mat"], "report_mat " + allrows)
    cmp(out["mat_rev"], "report_mat " + revrows)
    cmp(out["mat2"], "report_mat " + allrows)
    cmp(out["vec2"], "report_vec e0")
    cmp(out["pm_vec"], "report_vec e0", True); cmp(out["pm2_vec"], "report_vec e0", True)
    cmp(out["pm_mat"], "report_mat " + allrows, True); cmp(out["pm2_mat"], "report_mat " + allrows, True)
    parts.append("Nat.eqb %s (nlatent_of fd)" % E.nat(out["nlatent"]))
    return head + "(" + "\n   && ".join(parts) + ")"

# ------------------------------------------------------------------------------------------------ protocol
def run_impl(case):
    k = case["kind"]
    if k == "latent": return run_latent(case)
    if k == "factory": return run_factory(case)
    if k == "report": return run_report(case)
    return run_special(case)

def pred(case, out):
    if "exc" in out and "msg" in out and "tb" in out:
        return ["implementation driver raised %s: %s" % (out["exc"], out["msg"])]
    k = case["kind"]
    if k == "latent": return pred_latent(case, out)
    if k == "factory": return pred_factory(case, out)
    if k == "report": return pred_report(case, out)
    return pred_special(case, out)

def emit_case(case, out):
    if "exc" in out and "tb" in out: return "false"
    if case["kind"] == "factory": return emit_factory(case, out)
    if case["kind"] == "report": return emit_report(case, out)
    if case["kind"] != "latent": return None
    return emit_latent(case, out)

def classify(case, out, clauses):
    """narrow mapping of a failing case to a known finding: every clause must belong to the finding's pattern.
    Only the 1e-10 guard is still a known finding; everything else that fails is a violation."""
    if not clauses or case["kind"] != "latent": return None
    fam = case["fam"]
    if fam in GUARDED:
        tot = sum(case["xr"]); a = case["a"]
        ins, ins_a = 0 < tot < EPS, 0 < a * tot < EPS
        def explained(c):
            if c.startswith("xr latent vector != definition on x/sum(x)"): return ins            # x itself is inside the guard
            if c.startswith("latent vector changes under positive rescaling"): return ins or ins_a
            return False
        if all(explained(c) for c in clauses): return "C05-guard-scale"
    return None

def nontrivial(case, out):
    if case["kind"] == "latent":
        return _ncand(case["fam"], case["data"]) >= 3 and len(set(case["s"])) >= 2
    if case["kind"] == "factory":
        return len(case["pop"]["labels"]) >= 3
    if case["kind"] == "report":
        return len({tuple(r) for r in case["rows"]}) >= 2
    return True

def describe(case, out):
    k = case["kind"]
    if k == "latent":
        n, s = _ncand(case["fam"], case["data"]), case["s"]
        return {"kind": k, "family": case["fam"], "k": len(s) if len(s) <= 8 else "49+", "repeats": len(set(s)) < len(s),
                "candidates": n if n <= 8 else "49+", "guard": case.get("guard", "-"), "obj_trans": case["eval"]["obj"][0][0], "ineq_trans": case["eval"]["ineq"][0][0]}
    if k == "factory":
        A = case["args"]
        nt = len(case["pop"]["labels"])
        return {"kind": k, "factory": case["which"], "ntaxa": nt if nt <= 8 else "9+", "uc_vmat": _vf_short(A.get("vf", "-")),
                "nparent/unique": "-" if case["which"] not in ("ohv", "embv", "uc") else "%s/%s%s" % (A.get("nparent"), A.get("unique"), "/>1024 rows" if A.get("big") else ""),
                "embv": "-" if case["which"] not in ("embv", "embvmat") else "%s/nrep:%s/nprogeny:%s/%s" % (
                    A.get("prot", "dh"), "array" if isinstance(A["nrep"], list) else "scalar", "array" if isinstance(A["nprogeny"], list) else "scalar",
                    "homozygous" if A.get("homozygous") else "segregating")}
    if k == "report":
        ev = case["eval"]
        return {"kind": k, "family": case["fam"], "encoding": case["enc"], "rows": len(case["rows"]),
                "nobj/nineqcv/neqcv": "/".join(str(min(len(ev[nm][1]), 2)) + ("+" if len(ev[nm][1]) >= 2 else "") for nm in ("obj", "ineq", "eq")),
                "cv_widths": "none" if not (ev["ineq"][1] or ev["eq"][1]) else "eq only" if not ev["ineq"][1] else "ineq only" if not ev["eq"][1]
                             else "both, different" if len(ev["ineq"][1]) != len(ev["eq"][1]) else "both, equal",
                "obj_trans": ev["obj"][0][0], "ineq_trans": ev["ineq"][0][0], "eq_trans": ev["eq"][0][0]}
    return {"kind": k}

def gen_cases(rng, tier):
    q = tier == "quick"
    cases = [{"kind": "classes"}, {"kind": "stub"}, {"kind": "vmatfcty"}]
    per = 30 if q else 180
    for fam in FAMILIES:
        for _ in range(per):
            cases.append(gen_latent(rng, fam))
        if fam in ("pafd", "pau", "mogs"):
            for _ in range(16 if q else 80):
                cases.append(gen_latent(rng, fam, "badn"))
        if fam not in SUBSET_ONLY:
            for i in range(4 if q else 32):
                cases.append(gen_guard(rng, fam, ["at", "inside", "outside", "tiny"][i % 4]))
        cases.append({"kind": "nlatent", "case": gen_latent(rng, fam)})
    for w in FACTORIES:
        if w in ("uc", "uc_xmap"):                     # every variance-matrix factory, both constructors
            for vf in sorted(UC_VMAT):
                for _ in range(2 if q else 10):
                    cases.append(gen_factory(rng, w, vf=vf))
            continue
        if w == "embvmat":                            # scalar and per-taxon-array forms of nrep / nprogeny on every run
            for i in range(10 if q else 60):
                cases.append(gen_factory(rng, w, form=["array", "array", "scalar", None][i % 4]))
            continue
        if w in ("ohv", "embv"):                      # every number of parents, unique parents both ways
            for npar in NPARENTS:
                for unique in (True, False):
                    for _ in range(1 if q else (5 if w == "ohv" else 3)):
                        cases.append(gen_factory(rng, w, npar=npar, unique=unique))
            if w == "ohv":                            # cross maps longer than the factories' chunk size (1024 rows)
                pick = rng.sample(range(len(OHV_BIG)), 2) if q else range(len(OHV_BIG))
                for b in pick: cases.append(gen_factory(rng, w, big=b))
            continue
        for _ in range(6 if q else 40):
            cases.append(gen_factory(rng, w))
    # reporting clause: every concrete class (all encodings of every family), the constraint-count patterns cycled over them
    i = 0
    for fam in FAMILIES:
        for enc in (("Subset",) if fam in SUBSET_ONLY else ENCODINGS):
            for _ in range(2 if q else 10):
                cases.append(gen_report(rng, fam, enc, CV_PATTERNS[i % len(CV_PATTERNS)])); i += 1
    return cases

def shrink(case, fails):
    """latent cases: drop traits / shorten the selection while the predicate still fails"""
    import copy
    if case["kind"] != "latent": return case
    cur = copy.deepcopy(case)
    while len(cur["s"]) > 1:
        t = copy.deepcopy(cur); t["s"] = t["s"][:-1]; t["perm"] = list(range(len(t["s"])))[::-1]
        if t["fam"] == "gb": t["data"]["nbestfndr"] = min(t["data"]["nbestfndr"], len(t["s"]))
        try:
            if fails(t): cur = t
            else: break
        except Exception: break
    return cur


def translate(repo, gen_dir):
    """regenerate Gen/C05_Kernel.v (kernel expressions of every latentfn, evalfn, trans.py, _calc_uc, _calc_embv and the EMBV
    matrix factory) from the current source; fail closed"""
    from translate import c05_kernel
    return [c05_kernel.translate(repo, gen_dir)]
